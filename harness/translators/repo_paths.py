"""C06 translator: cherab/openadas/repository/*.py + install.py + create.py  ->  lean/Cherab/Gen/RepoPaths.lean

Purely syntactic (Python `ast`).  What it recognises:

* in every `add_*`, `update_*`, `get_*`, `_get_*` function: the single `os.path.join(repository_path, F.format(a0, a1, ...))`
  (F a string constant, possibly bound to a name first).  F must be `lit/lit/{}/{}....json`: literal leading components,
  then one placeholder per component, the last one followed by `.json`; argument i must be the i-th loop variable of the
  `for` nest enclosing the join (update_*) or the i-th parameter (add_*/get_*), either bare (`raw`) or as
  `X.symbol.lower()` (`symLower`).  Anything else -> `none` (the well-formedness theorem then fails and the check
  searches the implementation).
* which `update_*` an `add_*` calls (and the constant class key it wraps its data in), which `add_*` an `update_*` calls,
  which `_get_*` helper a `get_*` calls (and the constant class it passes);
* in `update_*`: is a `for`-loop variable rebound (`cls = cls.lower()`) and then used to index the argument dictionary again
  (`rates[cls][element][charge][transition]`)?  (`pecReindexes`; any other family doing so is reported in `notes`);
* `utility.encode_transition`: the chain of calls applied to each of the two levels (expected: `str`, `lower` — anything
  else, e.g. `strip`, `replace`, shows up in `encodeUpper` / `encodeLower`) and the format string joining them;
* for every `install_*`: the `repository.update_*` calls in source order and whether `repository_path` reaches them;
* every other call of a function that has a `repository_path` parameter: does the caller pass its own on?
"""
import ast
import json
import os
import string

from harness.vlib import lean
from harness.vlib.util import LEAN, REPO

OUT = os.path.join(LEAN, 'Cherab', 'Gen', 'RepoPaths.lean')
REPOSITORY_FILES = ['repository/atomic.py', 'repository/pec.py', 'repository/radiated_power.py', 'repository/wavelength.py',
                    'repository/beam/cx.py', 'repository/beam/stopping.py', 'repository/beam/population.py',
                    'repository/beam/emission.py']
FRONT_FILES = ['install.py', 'repository/create.py']

UPD = {'update_ionisation_rates': 'ionisation', 'update_recombination_rates': 'recombination',
       'update_thermal_cx_rates': 'thermalCx', 'update_line_power_rates': 'linePower',
       'update_continuum_power_rates': 'continuumPower', 'update_cx_power_rates': 'cxPower',
       'update_pec_rates': 'pec', 'update_pec_thermal_cx_rates': 'pecThermalCx', 'update_wavelengths': 'wavelength',
       'update_beam_cx_rates': 'beamCx', 'update_beam_stopping_rates': 'beamStopping',
       'update_beam_population_rates': 'beamPopulation', 'update_beam_emission_rates': 'beamEmission'}
ADD = {'add_ionisation_rate': 'ionisation', 'add_recombination_rate': 'recombination', 'add_thermal_cx_rate': 'thermalCx',
       'add_line_power_rate': 'linePower', 'add_continuum_power_rate': 'continuumPower', 'add_cx_power_rate': 'cxPower',
       'add_pec_excitation_rate': 'pecExcitation', 'add_pec_recombination_rate': 'pecRecombination',
       'add_pec_thermal_cx_rate': 'pecThermalCx', 'add_wavelength': 'wavelength', 'add_beam_cx_rate': 'beamCx',
       'add_beam_stopping_rate': 'beamStopping', 'add_beam_population_rate': 'beamPopulation',
       'add_beam_emission_rate': 'beamEmission'}
GET = {'get_ionisation_rate': 'ionisation', 'get_recombination_rate': 'recombination', 'get_thermal_cx_rate': 'thermalCx',
       'get_line_radiated_power_rate': 'linePower', 'get_continuum_radiated_power_rate': 'continuumPower',
       'get_cx_radiated_power_rate': 'cxPower', 'get_pec_excitation_rate': 'pecExcitation',
       'get_pec_recombination_rate': 'pecRecombination', 'get_pec_thermal_cx_rate': 'pecThermalCx',
       'get_wavelength': 'wavelength', 'get_beam_cx_rates': 'beamCx', 'get_beam_stopping_rate': 'beamStopping',
       'get_beam_population_rate': 'beamPopulation', 'get_beam_emission_rate': 'beamEmission'}
INSTALL = {'install_adf11scd': 'adf11scd', 'install_adf11acd': 'adf11acd', 'install_adf11ccd': 'adf11ccd',
           'install_adf11plt': 'adf11plt', 'install_adf11prb': 'adf11prb', 'install_adf11prc': 'adf11prc',
           'install_adf12': 'adf12', 'install_adf15': 'adf15', 'install_adf21': 'adf21', 'install_adf22bmp': 'adf22bmp',
           'install_adf22bme': 'adf22bme'}
ROOT = 'repository_path'


def _parents(tree):
    par = {}
    for n in ast.walk(tree):
        for c in ast.iter_child_nodes(n):
            par[c] = n
    return par


def _callee_name(call):
    f = call.func
    if isinstance(f, ast.Name):
        return f.id
    if isinstance(f, ast.Attribute):
        return f.attr
    return None


def _params(fn):
    return [a.arg for a in fn.args.args]


def _is_join(call):
    f = call.func
    return (isinstance(f, ast.Attribute) and f.attr == 'join' and isinstance(f.value, ast.Attribute)
            and f.value.attr == 'path' and isinstance(f.value.value, ast.Name) and f.value.value.id == 'os')


def _format_call(node, fn):
    """node is `'fmt'.format(args)` or a Name bound to one (last assignment in fn) -> (fmt, [arg exprs]) or None"""
    if isinstance(node, ast.Name):
        cand = [a for a in ast.walk(fn) if isinstance(a, ast.Assign) and len(a.targets) == 1
                and isinstance(a.targets[0], ast.Name) and a.targets[0].id == node.id]
        if len(cand) != 1:
            return None
        node = cand[0].value
    if (isinstance(node, ast.Call) and isinstance(node.func, ast.Attribute) and node.func.attr == 'format'
            and isinstance(node.func.value, ast.Constant) and isinstance(node.func.value.value, str)
            and not node.keywords):
        return node.func.value.value, list(node.args)
    return None


def _slot(expr):
    """`X` -> ('raw', X);  `X.symbol.lower()` -> ('symLower', X)"""
    if isinstance(expr, ast.Name):
        return 'raw', expr.id
    if (isinstance(expr, ast.Call) and not expr.args and not expr.keywords and isinstance(expr.func, ast.Attribute)
            and expr.func.attr == 'lower' and isinstance(expr.func.value, ast.Attribute)
            and expr.func.value.attr == 'symbol' and isinstance(expr.func.value.value, ast.Name)):
        return 'symLower', expr.func.value.value.id
    return None


def _template(fn, kind, notes):
    """-> dict(lits, slots, ext) or None"""
    par = _parents(fn)
    joins = [c for c in ast.walk(fn) if isinstance(c, ast.Call) and _is_join(c)]
    if not joins:
        return None
    if len(joins) != 1:
        notes.append('%s: %d os.path.join calls' % (fn.name, len(joins)))
        return None
    j = joins[0]
    if len(j.args) != 2 or not (isinstance(j.args[0], ast.Name) and j.args[0].id == ROOT):
        notes.append('%s: join does not start from repository_path: %s' % (fn.name, ast.unparse(j)))
        return None
    fc = _format_call(j.args[1], fn)
    if fc is None:
        notes.append('%s: path is not a constant format string: %s' % (fn.name, ast.unparse(j.args[1])))
        return None
    fmt, args = fc
    # variable order: enclosing for-nest (update_*) or parameters (add_*/get_*)
    if kind == 'update':
        chain = []
        n = j
        while n in par:
            n = par[n]
            if isinstance(n, ast.For):
                t = n.target
                if isinstance(t, ast.Tuple) and t.elts and isinstance(t.elts[0], ast.Name):
                    chain.append(t.elts[0].id)
                elif isinstance(t, ast.Name):
                    chain.append(t.id)
                else:
                    chain.append(None)
        names = chain[::-1]
    else:
        names = [p for p in _params(fn) if p != ROOT]
    comps = fmt.split('/')
    lits, slots, ext = [], [], ''
    auto = 0
    for ci, comp in enumerate(comps):
        fields = list(string.Formatter().parse(comp))
        holes = [f for f in fields if f[1] is not None]
        if not holes:
            if slots:
                notes.append('%s: literal component after a placeholder in %r' % (fn.name, fmt))
                return None
            lits.append(comp)
            continue
        last = ci == len(comps) - 1
        # exactly one placeholder, nothing before it, only the extension after it (last component)
        if len(holes) != 1 or fields[0][0] != '' or fields[0][2] or fields[0][3]:
            notes.append('%s: component %r is not a bare placeholder' % (fn.name, comp))
            return None
        tail = fields[1][0] if len(fields) > 1 else ''
        if len(fields) > 2 or (tail and not last):
            notes.append('%s: component %r is not a bare placeholder' % (fn.name, comp))
            return None
        if last:
            ext = tail
        idx = fields[0][1]
        if idx == '':
            idx = auto
            auto += 1
        else:
            idx = int(idx)
        if idx >= len(args):
            return None
        s = _slot(args[idx])
        if s is None:
            notes.append('%s: unrecognised path argument %s' % (fn.name, ast.unparse(args[idx])))
            return None
        if len(slots) >= len(names) or names[len(slots)] != s[1]:
            notes.append('%s: path argument %d is %s, expected the variable %s' %
                         (fn.name, len(slots), s[1], names[len(slots)] if len(slots) < len(names) else '<none>'))
            return None
        slots.append(s[0])
    if not slots:
        ext = ''
    return dict(lits=lits, slots=slots, ext=ext, fmt=fmt)


def _reindexes(fn):
    """does the function rebind one of its for-loop variables and later index its first parameter with it?"""
    if not fn.args.args:
        return False
    param = fn.args.args[0].arg
    loopvars = set()
    for n in ast.walk(fn):
        if isinstance(n, ast.For):
            for t in ast.walk(n.target):
                if isinstance(t, ast.Name):
                    loopvars.add(t.id)
    def bound_names(t):
        if isinstance(t, ast.Name):
            return [t.id]
        if isinstance(t, (ast.Tuple, ast.List)):
            return [x for e in t.elts for x in bound_names(e)]
        return []           # subscripts / attributes do not rebind a name
    rebound = {x for n in ast.walk(fn) if isinstance(n, (ast.Assign, ast.AugAssign))
               for tt in (n.targets if isinstance(n, ast.Assign) else [n.target]) for x in bound_names(tt)
               if x in loopvars}
    if not rebound:
        return False
    for n in ast.walk(fn):
        if isinstance(n, ast.Subscript):
            # root of the subscript chain
            idx, v = [], n
            while isinstance(v, ast.Subscript):
                idx.append(v.slice)
                v = v.value
            if isinstance(v, ast.Name) and v.id == param:
                if any(isinstance(i, ast.Name) and i.id in rebound for i in idx):
                    return True
    return False


def _chain(expr, var):
    """`str(var).lower()` -> ['str', 'lower'];  `var.strip().lower()` -> ['strip', 'lower'];  None if not a chain on var"""
    if isinstance(expr, ast.Name):
        return [] if expr.id == var else None
    if isinstance(expr, ast.Call):
        if isinstance(expr.func, ast.Name) and len(expr.args) == 1 and not expr.keywords:
            inner = _chain(expr.args[0], var)
            return None if inner is None else inner + [expr.func.id]
        if isinstance(expr.func, ast.Attribute):
            inner = _chain(expr.func.value, var)
            if inner is None:
                return None
            name = expr.func.attr
            if expr.args or expr.keywords:
                name += '(' + ', '.join([ast.unparse(a) for a in expr.args] + [ast.unparse(k) for k in expr.keywords]) + ')'
            return inner + [name]
    return None


def _encode_facts(fn, notes):
    """what encode_transition does to its two levels, and the string it joins them with"""
    out = dict(upper=['?'], lower=['?'], fmt='?')
    if fn is None:
        notes.append('missing function encode_transition')
        return out
    names = None
    for n in fn.body:
        if isinstance(n, ast.Assign) and isinstance(n.targets[0], ast.Tuple) and isinstance(n.value, ast.Name) \
                and fn.args.args and n.value.id == fn.args.args[0].arg and len(n.targets[0].elts) == 2:
            names = [e.id for e in n.targets[0].elts if isinstance(e, ast.Name)]
    if not names or len(names) != 2:
        notes.append('encode_transition: the transition is not unpacked into two names')
        return out
    chains = {names[0]: [], names[1]: []}
    for n in ast.walk(fn):
        if isinstance(n, (ast.AugAssign, ast.AnnAssign)) or (isinstance(n, ast.Assign) and not (
                len(n.targets) == 1 and (isinstance(n.targets[0], ast.Tuple) or (isinstance(n.targets[0], ast.Name))))):
            notes.append('encode_transition: unrecognised statement ' + ast.unparse(n))
            return out
    for n in fn.body:
        if isinstance(n, ast.Assign) and isinstance(n.targets[0], ast.Name) and n.targets[0].id in chains:
            c = _chain(n.value, n.targets[0].id)
            chains[n.targets[0].id] = (chains[n.targets[0].id] + c) if c is not None else ['?' + ast.unparse(n.value)]
        elif isinstance(n, ast.Return):
            v = n.value
            if (isinstance(v, ast.Call) and isinstance(v.func, ast.Attribute) and v.func.attr == 'format'
                    and isinstance(v.func.value, ast.Constant) and isinstance(v.func.value.value, str)
                    and [ast.unparse(a) for a in v.args] == names and not v.keywords):
                out['fmt'] = v.func.value.value
            else:
                out['fmt'] = '?' + ast.unparse(v)
        elif isinstance(n, (ast.Expr,)) and isinstance(n.value, ast.Constant):
            pass                                    # docstring
        elif isinstance(n, ast.Assign) and isinstance(n.targets[0], ast.Tuple):
            pass                                    # the unpacking
        else:
            notes.append('encode_transition: unrecognised statement ' + ast.unparse(n)[:60])
            out['fmt'] = '?'
    out['upper'], out['lower'] = chains[names[0]], chains[names[1]]
    return out


def _passes_root(call, defs):
    """does `call` hand the caller's `repository_path` to the callee's `repository_path` parameter?"""
    name = _callee_name(call)
    for k in call.keywords:
        if k.arg == ROOT:
            return isinstance(k.value, ast.Name) and k.value.id == ROOT
    callee = defs.get(name)
    if callee is None:
        return any(isinstance(a, ast.Name) and a.id == ROOT for a in call.args)
    ps = _params(callee)
    if ROOT not in ps:
        return True
    i = ps.index(ROOT)
    return i < len(call.args) and isinstance(call.args[i], ast.Name) and call.args[i].id == ROOT


def extract(repo=REPO):
    base = os.path.join(repo, 'cherab', 'openadas')
    notes = []
    defs = {}
    trees = {}
    for rel in REPOSITORY_FILES + FRONT_FILES + ['repository/utility.py']:
        p = os.path.join(base, rel)
        if not os.path.exists(p):
            notes.append('missing file ' + rel)
            continue
        t = ast.parse(open(p).read())
        trees[rel] = t
        for n in t.body:
            if isinstance(n, ast.FunctionDef):
                defs[n.name] = n
    has_root = {n for n, d in defs.items() if ROOT in _params(d)}

    facts = dict(updWrites={}, updCalls={}, addWrites={}, addCalls={}, addFixed={}, getReads={}, getFixed={},
                 installCalls={}, frontCalls=[], pecReindexes=False, notes=notes)

    def calls_in(fn):
        cs = [c for c in ast.walk(fn) if isinstance(c, ast.Call) and _callee_name(c) in has_root]
        return sorted(cs, key=lambda c: (c.lineno, c.col_offset))

    for name, lname in UPD.items():
        fn = defs.get(name)
        if fn is None:
            notes.append('missing function ' + name)
            continue
        t = _template(fn, 'update', notes)
        if t:
            facts['updWrites'][lname] = t
        if _reindexes(fn):
            if lname == 'pec':
                facts['pecReindexes'] = True
            else:
                notes.append('%s rebinds a loop variable and indexes its argument with it (not modelled)' % name)
                facts['updWrites'].pop(lname, None)
        cs = [c for c in calls_in(fn) if _callee_name(c) in ADD]
        if len(cs) == 1:
            facts['updCalls'][lname] = ADD[_callee_name(cs[0])]
        for c in calls_in(fn):
            facts['frontCalls'].append((name, _callee_name(c), _passes_root(c, defs)))

    for name, lname in ADD.items():
        fn = defs.get(name)
        if fn is None:
            notes.append('missing function ' + name)
            continue
        t = _template(fn, 'add', notes)
        if t:
            facts['addWrites'][lname] = t
        cs = [c for c in calls_in(fn) if _callee_name(c) in UPD]
        if len(cs) == 1:
            c = cs[0]
            facts['addCalls'][lname] = UPD[_callee_name(c)]
            if c.args and isinstance(c.args[0], ast.Dict) and len(c.args[0].keys) == 1 \
                    and isinstance(c.args[0].keys[0], ast.Constant) and isinstance(c.args[0].keys[0].value, str):
                facts['addFixed'][lname] = c.args[0].keys[0].value
        elif len(cs) > 1:
            notes.append('%s calls %d update functions' % (name, len(cs)))
        for c in calls_in(fn):
            facts['frontCalls'].append((name, _callee_name(c), _passes_root(c, defs)))

    for name, lname in GET.items():
        fn = defs.get(name)
        if fn is None:
            notes.append('missing function ' + name)
            continue
        t = _template(fn, 'get', notes)
        if t:
            facts['getReads'][lname] = t
            continue
        helpers = [c for c in ast.walk(fn) if isinstance(c, ast.Call) and isinstance(c.func, ast.Name)
                   and c.func.id.startswith('_get') and c.func.id in defs]
        if len(helpers) == 1:
            c = helpers[0]
            own = _params(fn)
            rest = c.args[1:] if c.args and isinstance(c.args[0], ast.Constant) else c.args
            if [ast.unparse(a) for a in rest] == own and not c.keywords:
                ht = _template(defs[c.func.id], 'get', notes)
                if ht and c.args and isinstance(c.args[0], ast.Constant) and isinstance(c.args[0].value, str):
                    facts['getReads'][lname] = ht
                    facts['getFixed'][lname] = c.args[0].value
                elif ht:
                    facts['getReads'][lname] = ht
            else:
                notes.append('%s: helper arguments %s are not its own parameters in order' % (name, [ast.unparse(a) for a in rest]))

    for name, lname in INSTALL.items():
        fn = defs.get(name)
        if fn is None:
            notes.append('missing function ' + name)
            continue
        lst = []
        for c in calls_in(fn):
            cn = _callee_name(c)
            if cn in UPD:
                lst.append((UPD[cn], _passes_root(c, defs), cn, c.lineno))
            else:
                facts['frontCalls'].append((name, cn, _passes_root(c, defs)))
        facts['installCalls'][lname] = lst

    for name in ('install_files', 'populate'):
        fn = defs.get(name)
        if fn is None:
            notes.append('missing function ' + name)
            continue
        for c in calls_in(fn):
            facts['frontCalls'].append((name, _callee_name(c), _passes_root(c, defs)))
    facts['encode'] = _encode_facts(defs.get('encode_transition'), notes)
    # de-duplicate (install_files calls each install_* once per branch)
    seen = []
    for fc in facts['frontCalls']:
        if fc not in seen:
            seen.append(fc)
    facts['frontCalls'] = seen
    return facts


def _s(x):
    return json.dumps(x)


def _tmpl(t):
    return '⟨[%s], [%s], %s⟩' % (', '.join(_s(x) for x in t['lits']), ', '.join('.' + s for s in t['slots']), _s(t['ext']))


_DOM = {'UpdFn': UPD, 'AddFn': ADD, 'GetFn': GET, 'InstallFn': INSTALL}


def _fun(name, dom, table, render, rtype):
    lines = ['def %s : %s → %s' % (name, dom, rtype)]
    for k, v in table.items():
        lines.append('  | .%s => %s' % (k, render(v)))
    if set(table) != set(_DOM[dom].values()):
        lines.append('  | _ => %s' % ('[]' if rtype.startswith('List') else 'none'))
    return '\n'.join(lines)


def to_lean(f):
    parts = ['/- GENERATED by harness/translators/repo_paths.py from /repo/cherab/openadas — do not edit. -/',
             'import Cherab.Model.Repository', 'namespace Cherab.Gen.RepoPaths', 'open Cherab.Repository', '',
             '']
    opt_t = lambda t: 'some ' + _tmpl(t)
    parts.append(_fun('updWrites', 'UpdFn', f['updWrites'], opt_t, 'Option Template'))
    parts.append(_fun('updCalls', 'UpdFn', f['updCalls'], lambda a: 'some .' + a, 'Option AddFn'))
    parts.append(_fun('addWrites', 'AddFn', f['addWrites'], opt_t, 'Option Template'))
    parts.append(_fun('addCalls', 'AddFn', f['addCalls'], lambda u: 'some .' + u, 'Option UpdFn'))
    parts.append(_fun('addFixed', 'AddFn', f['addFixed'], lambda s: 'some ' + _s(s), 'Option String'))
    parts.append(_fun('getReads', 'GetFn', f['getReads'], opt_t, 'Option Template'))
    parts.append(_fun('getFixed', 'GetFn', f['getFixed'], lambda s: 'some ' + _s(s), 'Option String'))
    parts.append(_fun('installCalls', 'InstallFn', f['installCalls'],
                      lambda l: '[%s]' % ', '.join('(.%s, %s)' % (c[0], 'true' if c[1] else 'false') for c in l),
                      'List (UpdFn × Bool)'))
    parts.append('def frontCalls : List (String × String × Bool) :=\n  [%s]' %
                 ',\n   '.join('(%s, %s, %s)' % (_s(a), _s(b), 'true' if c else 'false') for a, b, c in f['frontCalls']))
    parts.append('def tables : Tables :=\n  { updWrites := updWrites, updCalls := updCalls, addWrites := addWrites, addCalls := addCalls,\n'
                 '    addFixed := addFixed, getReads := getReads, getFixed := getFixed, installCalls := installCalls,\n'
                 '    frontCalls := frontCalls, pecReindexes := %s,\n    encodeUpper := [%s], encodeLower := [%s], encodeFormat := %s }'
                 % ('true' if f['pecReindexes'] else 'false', ', '.join(_s(x) for x in f['encode']['upper']),
                    ', '.join(_s(x) for x in f['encode']['lower']), _s(f['encode']['fmt'])))
    parts.append('end Cherab.Gen.RepoPaths\n')
    return '\n\n'.join(p for p in parts if p != '')


def generate(repo=REPO):
    f = extract(repo)
    changed = lean.write_if_changed(OUT, to_lean(f))
    return f, changed


# ---- round 6: the statement sequence of every file write (open(path, 'w')) -> lean/Cherab/Gen/RepoWrites.lean ----------
OUT_WRITES = os.path.join(LEAN, 'Cherab', 'Gen', 'RepoWrites.lean')


def _is_open_w(st):
    if not isinstance(st, ast.With) or len(st.items) != 1:
        return False
    c = st.items[0].context_expr
    return (isinstance(c, ast.Call) and isinstance(c.func, ast.Name) and c.func.id == 'open' and len(c.args) >= 2
            and isinstance(c.args[1], ast.Constant) and c.args[1].value == 'w')


def _has_call(node, dotted):
    return any(isinstance(c, ast.Call) and ast.unparse(c.func) == dotted for c in ast.walk(node))


def _safe_key(k, fn):
    """subscript index that JSON can always serialise: str(..)/int(..)/encode_transition(..), a string constant, or a local
    name every binding of which is one of those"""
    if isinstance(k, ast.Constant) and isinstance(k.value, str):
        return True
    if isinstance(k, ast.Call) and isinstance(k.func, ast.Name) and k.func.id in ('str', 'int', 'encode_transition'):
        return True
    if isinstance(k, ast.Name):
        binds = [a.value for a in ast.walk(fn) if isinstance(a, ast.Assign) and len(a.targets) == 1
                 and isinstance(a.targets[0], ast.Name) and a.targets[0].id == k.id]
        loops = [f for f in ast.walk(fn) if isinstance(f, (ast.For, ast.comprehension))
                 and k.id in {n.id for n in ast.walk(f.target) if isinstance(n, ast.Name)}]
        return bool(binds) and not loops and k.id not in _params(fn) and all(
            not isinstance(b, ast.Name) and _safe_key(b, fn) for b in binds)
    return False


def _safe_value(v):
    if isinstance(v, ast.Call) and isinstance(v.func, ast.Name) and v.func.id == 'float':
        return True
    if isinstance(v, ast.Call) and isinstance(v.func, ast.Attribute) and v.func.attr == 'tolist' and not v.args:
        return True
    if isinstance(v, ast.Dict):
        return all(isinstance(k, ast.Constant) and isinstance(k.value, str) for k in v.keys) and all(_safe_value(x) for x in v.values)
    return False


def _built(expr, fn):
    """is `expr` (X or X.freeze()) a local dictionary that json.dump cannot reject?"""
    if isinstance(expr, ast.Call) and isinstance(expr.func, ast.Attribute) and expr.func.attr == 'freeze' and not expr.args:
        expr = expr.func.value
    if not isinstance(expr, ast.Name) or expr.id in _params(fn):
        return False
    x = expr.id
    seen = False
    for a in ast.walk(fn):
        if isinstance(a, (ast.AugAssign, ast.AnnAssign)) and x in {n.id for n in ast.walk(a.target) if isinstance(n, ast.Name)}:
            return False
        if not isinstance(a, ast.Assign):
            continue
        for t in a.targets:
            if isinstance(t, ast.Name) and t.id == x:
                seen = True
                if ast.unparse(a.value) not in ('RecursiveDict()', 'RecursiveDict.from_dict(json.load(f))', '{}', 'json.load(f)'):
                    return False
            elif isinstance(t, ast.Subscript):
                keys, base = [], t
                while isinstance(base, ast.Subscript):
                    keys.append(base.slice)
                    base = base.value
                if isinstance(base, ast.Name) and base.id == x:
                    if not all(_safe_key(k, fn) for k in keys) or not _safe_value(a.value):
                        return False
            elif x in {n.id for n in ast.walk(t) if isinstance(n, ast.Name)}:
                return False
    # any other mutation through a method call (update, setdefault, ...) is not recognised
    for c in ast.walk(fn):
        if isinstance(c, ast.Call) and isinstance(c.func, ast.Attribute) and isinstance(c.func.value, ast.Name) \
                and c.func.value.id == x and c.func.attr not in ('freeze',):
            return False
    return seen


def _steps_before(st, fn):
    if _has_call(st, 'json.dumps'):
        return ['serialise']
    if isinstance(st, ast.If) and _has_call(st, 'os.makedirs') and not st.orelse and len(st.body) == 1:
        return ['mkdirs']
    if isinstance(st, ast.Expr) and isinstance(st.value, ast.Constant):
        return []
    return ['validate']


def _steps_inside(st, fn, fvar):
    if isinstance(st, ast.Expr) and isinstance(st.value, ast.Call):
        c = st.value
        name = ast.unparse(c.func)
        if name == 'json.dump' and len(c.args) >= 2 and isinstance(c.args[1], ast.Name) and c.args[1].id == fvar:
            return ['dumpBuilt' if _built(c.args[0], fn) else 'dumpCaller']
        if name == fvar + '.write' and len(c.args) == 1 and isinstance(c.args[0], ast.Name):
            return ['writeText']
    return ['validate']


def write_segments(repo=REPO):
    """[(file:function, [step, ...])] for every `with open(path, 'w')` of the repository writers: the statements of the
    block that contains the `with`, from the start of the block (one loop iteration / the function body), then the body
    of the `with`.  Consecutive `validate`s are merged."""
    base = os.path.join(repo, 'cherab', 'openadas', 'repository')
    out = []
    for rel in REPOSITORY_FILES:
        p = os.path.join(repo, 'cherab', 'openadas', rel)
        if not os.path.exists(p):
            continue
        tree = ast.parse(open(p).read())
        short = os.path.relpath(p, base)
        for fn in tree.body:
            if not isinstance(fn, ast.FunctionDef):
                continue
            k = 0
            for node in ast.walk(fn):
                for field in ('body', 'orelse', 'finalbody'):
                    block = getattr(node, field, None)
                    if not isinstance(block, list):
                        continue
                    for i, st in enumerate(block):
                        if not _is_open_w(st):
                            continue
                        steps = []
                        for b in block[:i]:
                            steps += _steps_before(b, fn)
                        steps.append('openW')
                        fvar = st.items[0].optional_vars.id if isinstance(st.items[0].optional_vars, ast.Name) else '?'
                        for b in st.body:
                            steps += _steps_inside(b, fn, fvar)
                        merged = []
                        for s in steps:
                            if not (merged and merged[-1] == s == 'validate'):
                                merged.append(s)
                        out.append(('%s:%s' % (short, fn.name) + ('' if k == 0 else '#%d' % k), merged))
                        k += 1
    return out


def writes_to_lean(segs):
    rows = ',\n   '.join('(%s, [%s])' % (_s(n), ', '.join('.' + s for s in st)) for n, st in segs)
    return ('/- GENERATED by harness/translators/repo_paths.py (write_segments) from /repo/cherab/openadas/repository — do not edit. -/\n'
            'import Cherab.Model.RepoWrite\nnamespace Cherab.Gen.RepoWrites\nopen Cherab.RepoWrite\n\n'
            'def writeSegments : List (String × List WStep) :=\n  [%s]\n\nend Cherab.Gen.RepoWrites\n' % rows)


def generate_writes(repo=REPO):
    segs = write_segments(repo)
    changed = lean.write_if_changed(OUT_WRITES, writes_to_lean(segs))
    return segs, changed


if __name__ == '__main__':
    f, ch = generate()
    print(json.dumps(f, indent=1, default=str))
    print('changed' if ch else 'unchanged')
    print(generate_writes())
