import Cherab.Gen.InstrumentEdges
import Cherab.Props.C16

/-!
# C16 — obligations on the tables generated from the current source (`Cherab/Gen/InstrumentEdges.lean`)

`wf_*`: the translator understood every statement, ids are in range, `__init__` and every setter run to completion in
the interpreter, guards inside setters only test attributes that stay assigned.
`covered_*`: every attribute that is computed from a setter's parameter is reset or recomputed by that setter
(`Inval.Covered` for the protocol derived from the table) — with `settings_follow_parameters` this gives the
`*_settings_follow` statements: after any history of setter calls and reads, every derived setting equals the one of
an instrument built directly in the final configuration.
-/
namespace Cherab.Props.C16
open Cherab.Instruments Cherab.Gen.InstrumentEdges

theorem wf_spectrometer : wfB spectrometer = true := by decide +kernel
theorem wf_ct : wfB czernyTurnerSpectrometer = true := by decide +kernel
theorem wf_polychromator : wfB polychromator = true := by decide +kernel

theorem covered_spectrometer : Inval.Covered (protoOf spectrometer) := covered_of_check _ (by decide +kernel)
theorem covered_ct : Inval.Covered (protoOf czernyTurnerSpectrometer) := covered_of_check _ (by decide +kernel)
theorem covered_polychromator : Inval.Covered (protoOf polychromator) := covered_of_check _ (by decide +kernel)

/-- every concrete instrument class the translator found (a class added later is included automatically) -/
theorem covered_all : ∀ t ∈ allTables, wfB t = true ∧ Inval.Covered (protoOf t) := by
  have h : ∀ t ∈ allTables, wfB t = true ∧ coveredB t = true := by decide +kernel
  exact fun t ht => ⟨(h t ht).1, covered_of_check t (h t ht).2⟩

theorem spectrometer_settings_follow (ops : List (Inval.Op Nat Nat)) (c : Nat) :
    (Inval.step (protoOf spectrometer) (Inval.run (protoOf spectrometer) Inval.init ops) (.obs c)).2
      = (Inval.step (protoOf spectrometer)
          (freshAt (Inval.run (protoOf spectrometer) Inval.init ops).ver) (.obs c)).2 :=
  settings_follow_parameters _ covered_spectrometer ops c

theorem ct_settings_follow (ops : List (Inval.Op Nat Nat)) (c : Nat) :
    (Inval.step (protoOf czernyTurnerSpectrometer) (Inval.run (protoOf czernyTurnerSpectrometer) Inval.init ops) (.obs c)).2
      = (Inval.step (protoOf czernyTurnerSpectrometer)
          (freshAt (Inval.run (protoOf czernyTurnerSpectrometer) Inval.init ops).ver) (.obs c)).2 :=
  settings_follow_parameters _ covered_ct ops c

theorem polychromator_settings_follow (ops : List (Inval.Op Nat Nat)) (c : Nat) :
    (Inval.step (protoOf polychromator) (Inval.run (protoOf polychromator) Inval.init ops) (.obs c)).2
      = (Inval.step (protoOf polychromator)
          (freshAt (Inval.run (protoOf polychromator) Inval.init ops).ver) (.obs c)).2 :=
  settings_follow_parameters _ covered_polychromator ops c

/-- non-vacuity: the derived settings really depend on setters (the `deps` lists are not empty) -/
example : (allTables.all fun t => (List.range t.attrs.length).any fun c => decide (2 ≤ (depsOf t c).length)) = true := by
  decide +kernel

end Cherab.Props.C16
