import Cherab.Model.Caching
import Cherab.Lemmas.CachingMemo
import Cherab.Lemmas.CachingGrid
import Cherab.Lemmas.CachingAlg
import Cherab.Lemmas.CachingInterp
import Cherab.Lemmas.CachingMl3
import Cherab.Lemmas.CachingEval
import Cherab.Lemmas.CachingDenorm3
import Mathlib.Algebra.Order.Ring.Rat

/-!
# C14 — caching functions are history-independent and interpolate the cached function

Property theorems about `Cherab/Model/Caching.lean` (transcribed from caching{1,2,3}d.pyx and utility.pyx).

clause of the property                         theorem(s)
---------------------------------------------  -----------------------------------------------------------------
value does not depend on earlier evaluations   `memo_transparent`, `history_independent`, `cache_holds_function_values`,
                                               `calls_exact` (generic in the `Spec`, hence 1-D/2-D/3-D)
equals the wrapped function at every node      `interpolates_nodes_1d/2d/3d`
reproduces functions linear in each coordinate `reproduces_affine_1d`, `reproduces_multilinear_2d/3d`
O(h²) approximation                            not proved (S only)
outside: raise or call through                 `outside_policy`, `outside_area_1d`, `inside_area_is_cached`
function bounds only rescale                   `normalisation_cancels_1d/2d/3d`, `denormalisation_1d/2d/3d`
find_index                                     `find_index_spec`, `find_index_unique`, `node_grid_sorted`
nonsingular constraint systems                 `system_nonsingular_1d/2d/3d`, `system_solvable_1d`

External functions are parameters: `ExtOK E` says `powi = (^)` and "when `solve` returns, the vector satisfies every
equation of the system" (numpy.linalg.solve, trusted; `ideal_solve_ok` shows the hypothesis is satisfiable, and
`system_nonsingular_*` that it determines the coefficients).
-/
namespace Cherab.Props.C14
set_option linter.unusedSectionVars false
set_option linter.unusedSimpArgs false
open Cherab.Caching

/-! ## history independence (all three classes: the machine is generic in the `Spec`) -/
section Memo
variable {α P ν κ C : Type} [DecidableEq ν] [DecidableEq κ]

/-- **memo_transparent.**  For any wrapped function `E.f` (pure), any history `ps` of evaluations — inside or outside
the caching area, in any order — and any point `p`, the value returned for `p` in the state reached after `ps` is
`evalPure p`, which does not mention the state.  Holds for every `Spec`, hence for Caching1D/2D/3D. -/
theorem memo_transparent (S : Spec α P ν κ C) (E : Env α P) (nbe : Bool) (ps : List P) (p : P) :
    (evalStep S E nbe (run S E nbe St.init ps) p).2.1 = evalPure S E nbe p :=
  (evalStep_spec S E nbe _ (run_inv S E nbe ps _ (inv_init S E)) p).2

/-- two different histories give the same value at `p` -/
theorem history_independent (S : Spec α P ν κ C) (E : Env α P) (nbe : Bool) (ps qs : List P) (p : P) :
    (evalStep S E nbe (run S E nbe St.init ps) p).2.1 = (evalStep S E nbe (run S E nbe St.init qs) p).2.1 := by
  rw [memo_transparent, memo_transparent]

/-- the cache only ever holds values of the wrapped function (normalised) at the nodes, and coefficient blocks built
from exactly those values -/
theorem cache_holds_function_values (S : Spec α P ν κ C) (E : Env α P) (nbe : Bool) (ps : List P) :
    (∀ u v, lookup u (run S E nbe St.init ps).data = some v →
        ∃ w, E.f (S.coord u) = some w ∧ E.isnan w = false ∧ v = E.norm w) ∧
    (∀ c co, lookup c (run S E nbe St.init ps).coeffs = some co →
        (S.stencil c).all (fun u => (E.f (S.coord u)).isSome) = true ∧
        S.build c ((S.stencil c).map (nodeVal S E)) = some co) :=
  run_inv S E nbe ps _ (inv_init S E)

/-- which calls the wrapped function receives (when it returns everywhere): none for a calculated cell; otherwise
exactly the not-yet-sampled nodes of the cell's stencil, in stencil order; outside: the point itself (pass-through) or
nothing (raise) -/
theorem calls_exact (S : Spec α P ν κ C) (E : Env α P) (nbe : Bool) (st : St α ν κ C) (p : P)
    (hnd : ∀ c, (S.stencil c).Nodup) (htot : ∀ q, (E.f q).isSome) :
    (evalStep S E nbe st p).2.2 =
      match S.locate p with
      | none => if nbe then [p] else []
      | some c =>
        match lookup c st.coeffs with
        | some _ => []
        | none => ((S.stencil c).filter fun u => (lookup u st.data).isNone).map S.coord := by
  unfold evalStep
  cases hloc : S.locate p with
  | none => cases nbe <;> simp <;> cases E.f p <;> rfl
  | some c =>
    simp only []
    cases hco : lookup c st.coeffs with
    | some co => rfl
    | none =>
      simp only []
      split
      · split <;> exact sample_calls S E _ (hnd c) htot _
      · exact sample_calls S E _ (hnd c) htot _

/-- **outside_policy.**  Where `locate` finds no cell the result is `ValueError`, or with `no_boundary_error` whatever
the wrapped function itself does at `p` (value or exception); the cache is not touched. -/
theorem outside_policy (S : Spec α P ν κ C) (E : Env α P) (nbe : Bool) (st : St α ν κ C) (p : P)
    (h : S.locate p = none) :
    evalStep S E nbe st p =
      (st, if nbe then (match E.f p with | some v => .val v | none => .fraise) else .raise, if nbe then [p] else []) := by
  unfold evalStep
  rw [h]
  cases nbe <;> simp <;> cases E.f p <;> rfl

/-- **a raising wrapped function.**  If the wrapped function raises at some node of the cell's stencil the evaluation
raises — after any history, and however often it is repeated: the cell is never flagged as calculated and no
coefficient block (NaN or otherwise) is ever stored for it. -/
theorem raising_function_never_cached (S : Spec α P ν κ C) (E : Env α P) (nbe : Bool) (ps : List P) (p : P) (c : κ)
    (hc : S.locate p = some c) (u : ν) (hu : u ∈ S.stencil c) (hr : E.f (S.coord u) = none) :
    (evalStep S E nbe (run S E nbe St.init ps) p).2.1 = .fraise ∧
    lookup c (run S E nbe St.init ps).coeffs = none := by
  have hall : (S.stencil c).all (fun u => (E.f (S.coord u)).isSome) = false := by
    rw [List.all_eq_false]
    exact ⟨u, hu, by simp [hr]⟩
  constructor
  · rw [memo_transparent]
    simp [evalPure, hc, hall]
  · cases hl : lookup c (run S E nbe St.init ps).coeffs with
    | none => rfl
    | some co =>
      have := ((cache_holds_function_values S E nbe ps).2 c co hl).1
      rw [hall] at this; cases this

/-- **recovery.**  The state reached under one behaviour of the wrapped function (`E₁`, e.g. raising at some nodes) is
consistent with any behaviour `E₂` that agrees with `E₁` wherever `E₁` returned: evaluating afterwards under `E₂` gives
exactly what a fresh cache would give under `E₂`. -/
theorem recovery_transparent (S : Spec α P ν κ C) (E₁ E₂ : Env α P) (nbe : Bool)
    (hsame : E₁.isnan = E₂.isnan ∧ E₁.nan = E₂.nan ∧ E₁.norm = E₂.norm)
    (hagree : ∀ q w, E₁.f q = some w → E₂.f q = some w) (ps qs : List P) (p : P) :
    (evalStep S E₂ nbe (run S E₂ nbe (run S E₁ nbe St.init ps) qs) p).2.1 = evalPure S E₂ nbe p := by
  obtain ⟨h1, h2, h3⟩ := hsame
  have hinv1 := run_inv S E₁ nbe ps _ (inv_init S E₁)
  have hinv2 : Inv S E₂ (run S E₁ nbe St.init ps) := by
    constructor
    · intro u v h
      obtain ⟨w, a, b, c⟩ := hinv1.1 u v h
      exact ⟨w, hagree _ _ a, by rw [← h1]; exact b, by rw [← h3]; exact c⟩
    · intro c co h
      obtain ⟨a, b⟩ := hinv1.2 c co h
      have hall : (S.stencil c).all (fun u => (E₂.f (S.coord u)).isSome) = true := by
        rw [List.all_eq_true] at a ⊢
        intro u hu
        obtain ⟨w, hw⟩ := Option.isSome_iff_exists.mp (a u hu)
        simp [hagree _ _ hw]
      refine ⟨hall, ?_⟩
      have hnv : (S.stencil c).map (nodeVal S E₂) = (S.stencil c).map (nodeVal S E₁) := by
        apply List.map_congr_left
        intro u hu
        rw [List.all_eq_true] at a
        obtain ⟨w, hw⟩ := Option.isSome_iff_exists.mp (a u hu)
        simp [nodeVal, hw, hagree _ _ hw, h1, h2, h3]
      rw [hnv]; exact b
  exact (evalStep_spec S E₂ nbe _ (run_inv S E₂ nbe qs _ hinv2) p).2

end Memo

/-! ## find_index, the node grid, inside / outside -/
section Find
variable {α : Type} [Field α] [LinearOrder α] [IsStrictOrderedRing α]

/-- **find_index_spec.**  `x 0 < v < x top` ⇒ the index returned brackets `v`.  (Termination: the model's loop carries
fuel `top`; `bisect_spec` shows the fuel is never exhausted before `top − bottom = 1`.) -/
theorem find_index_spec (x : Nat → α) (top : Nat) (v : α) (h0 : x 0 < v) (ht : v < x top) :
    ∃ i : Nat, findIndex x top v 0 = (i : Int) ∧ i < top ∧ x i ≤ v ∧ v < x (i + 1) :=
  findIndex_bracket x top v h0 ht

/-- all five exits of `find_index` (padding 0): on the ends, below, above, bracketed -/
theorem find_index_cases (x : Nat → α) (top : Nat) (v : α) :
    (v = x 0 ∧ findIndex x top v 0 = 0) ∨
    (v ≠ x 0 ∧ v = x top ∧ findIndex x top v 0 = (top : Int) - 1) ∨
    (v < x 0 ∧ findIndex x top v 0 = -2) ∨
    (x top < v ∧ x 0 < v ∧ findIndex x top v 0 = (top : Int) + 1) ∨
    (x 0 < v ∧ v < x top ∧ findIndex x top v 0 = (bisect x v top 0 top : Nat)) :=
  findIndex_cases x top v

/-- on an increasing array the bracketing index is unique, so `find_index` returns *the* cell -/
theorem find_index_unique (ax : Axis α) (hs : ax.Sorted) (p : α) (i : Nat) (h1 : 1 ≤ i) (h2 : i + 2 ≤ ax.top)
    (hl : ax.dom i ≤ p) (hu : p < ax.dom (i + 1)) : cellOf ax p = some i :=
  cellOf_of_bracket ax hs p i h1 h2 hl hu

/-- the node array built by the constructor is strictly increasing -/
theorem node_grid_sorted (trunc : α → Nat) (mn mx dx : α) (h : mn < mx) (hd : EPS < dx) :
    (mkAxis trunc mn mx dx).Sorted := mkAxis_sorted trunc mn mx dx h hd

/-- every point of the caching area `[mn, mx]` lies in a cell (no exception inside the area) -/
theorem inside_area_is_cached (trunc : α → Nat) (mn mx dx : α) (h : mn < mx) (hd : EPS < dx) (p : α)
    (h1 : mn ≤ p) (h2 : p ≤ mx) : ∃ i, cellOf (mkAxis trunc mn mx dx) p = some i := by
  obtain ⟨a, b⟩ := mkAxis_covers trunc mn mx dx p h1 h2
  exact cellOf_inside _ (mkAxis_sorted trunc mn mx dx h hd) (mkAxis_top trunc mn mx dx) p a b

/-- beyond the ε-extended range no cell is found … -/
theorem outside_area_no_cell (trunc : α → Nat) (mn mx dx : α) (h : mn < mx) (hd : EPS < dx) (p : α)
    (ho : p < mn - EPS ∨ mx + EPS ≤ p) : cellOf (mkAxis trunc mn mx dx) p = none := by
  have hn := nNodes_ge trunc mn mx dx
  apply cellOf_outside _ (mkAxis_sorted trunc mn mx dx h hd)
  simp only [mkAxis, Nat.add_sub_cancel]
  rw [nodeAt_one _ _ _ _ hn, nodeAt_last _ _ _ _ hn]
  exact ho

/-- … so Caching1D raises, or calls the wrapped function directly, without touching the cache -/
theorem outside_area_1d (E : Ext α) (trunc : α → Nat) (mn mx dx : α) (h : mn < mx) (hd : EPS < dx) (nm : Norm α)
    (En : Env α α) (nbe : Bool) (st : St α Nat Nat (Nat → α)) (p : α) (ho : p < mn - EPS ∨ mx + EPS ≤ p) :
    evalStep (spec1 E (mkAxis trunc mn mx dx) nm) En nbe st p =
      (st, if nbe then (match En.f p with | some v => .val v | none => .fraise) else .raise, if nbe then [p] else []) :=
  outside_policy _ En nbe st p (outside_area_no_cell trunc mn mx dx h hd p ho)

/-- in 2-D / 3-D one coordinate outside suffices -/
theorem outside_area_2d (E : Ext α) (ax ay : Axis α) (nm : Norm α) (En : Env α (α × α)) (nbe : Bool)
    (st : St α (Nat × Nat) (Nat × Nat) (Nat → α)) (p : α × α) (ho : cellOf ax p.1 = none ∨ cellOf ay p.2 = none) :
    evalStep (spec2 E ax ay nm) En nbe st p = (st, if nbe then (match En.f p with | some v => .val v | none => .fraise) else .raise, if nbe then [p] else []) := by
  apply outside_policy
  show cellOf2 ax ay p = none
  unfold cellOf2
  rcases ho with h | h
  · rw [h]
  · rw [h]; cases cellOf ax p.1 <;> rfl

theorem outside_area_3d (E : Ext α) (ax ay az : Axis α) (nm : Norm α) (En : Env α (α × α × α)) (nbe : Bool)
    (st : St α (Nat × Nat × Nat) (Nat × Nat × Nat) (Nat → α)) (p : α × α × α)
    (ho : cellOf ax p.1 = none ∨ cellOf ay p.2.1 = none ∨ cellOf az p.2.2 = none) :
    evalStep (spec3 E ax ay az nm) En nbe st p =
      (st, if nbe then (match En.f p with | some v => .val v | none => .fraise) else .raise, if nbe then [p] else []) := by
  apply outside_policy
  show cellOf3 ax ay az p = none
  unfold cellOf3
  rcases ho with h | h | h
  · rw [h]
  · rw [h]; cases cellOf ax p.1 <;> rfl
  · rw [h]; cases cellOf ax p.1 <;> cases cellOf ay p.2.1 <;> rfl

end Find

/-! ## the constraint systems are nonsingular -/
section Systems
variable {α : Type} [Field α] [LinearOrder α] [IsStrictOrderedRing α]

/-- 1-D: two solutions of a cell's system coincide (explicit elimination) … -/
theorem system_nonsingular_1d (ax : Axis α) (i : Nat) (d c c' : Nat → α) (hne : ax.xn i ≠ ax.xn (i + 1))
    (h : IsSol1 ax i d c) (h' : IsSol1 ax i d c') : ∀ k, k < 4 → c k = c' k := unique1 ax i d c c' hne h h'

/-- … and one exists: the cubic Hermite polynomial with central-difference slopes -/
theorem system_solvable_1d (ax : Axis α) (i : Nat) (d : Nat → α) (hne : ax.xn i ≠ ax.xn (i + 1)) :
    ∃ c, IsSol1 ax i d c := ⟨_, hermite_solves ax i d hne⟩

/-- 2-D: the 16×16 system is the tensor product of two 1-D systems, hence nonsingular -/
theorem system_nonsingular_2d (ax ay : Axis α) (cell : Nat × Nat) (D : Nat → Nat → α) (c c' : Nat → α)
    (hx : ax.xn cell.1 ≠ ax.xn (cell.1 + 1)) (hy : ay.xn cell.2 ≠ ay.xn (cell.2 + 1))
    (h : IsSol2 ax ay cell D c) (h' : IsSol2 ax ay cell D c') : ∀ k, k < 16 → c k = c' k :=
  unique2 ax ay cell D c c' hx hy h h'

/-- 3-D: likewise for the 64×64 system -/
theorem system_nonsingular_3d (ax ay az : Axis α) (cell : Nat × Nat × Nat) (D : Nat → Nat → Nat → α) (c c' : Nat → α)
    (hx : ax.xn cell.1 ≠ ax.xn (cell.1 + 1)) (hy : ay.xn cell.2.1 ≠ ay.xn (cell.2.1 + 1))
    (hz : az.xn cell.2.2 ≠ az.xn (cell.2.2 + 1))
    (h : IsSol3 ax ay az cell D c) (h' : IsSol3 ax ay az cell D c') : ∀ k, k < 64 → c k = c' k :=
  unique3 ax ay az cell D c c' hx hy hz h h'

end Systems

/-! ## Caching1D: nodes, affine functions, function bounds -/
section OneD
variable {α : Type} [Field α] [LinearOrder α] [IsStrictOrderedRing α]

theorem interpolates_nodes_1d (E : Ext α) (hE : ExtOK E) (ax : Axis α) (hax : AxisOK ax) (nm : Norm α)
    (hnm : NormOK nm) (f : α → α) (nbe : Bool) (i : Nat) (h1 : 1 ≤ i) (h2 : i + 2 ≤ ax.top) (v : α)
    (h : evalPure (spec1 E ax nm) (envOf f nm) nbe (ax.dom i) = .val v) : v = f (ax.dom i) := by
  have hc : cellOf ax (ax.dom i) = some i :=
    cellOf_of_bracket ax hax.sorted _ i h1 h2 le_rfl (hax.sorted i (i + 1) (by omega) (by omega))
  obtain ⟨c, hsol, hv⟩ := evalPure1_val E hE ax nm f nbe _ v i hc h
  obtain ⟨i', rfl⟩ : ∃ i', i = i' + 1 := ⟨i - 1, by omega⟩
  rw [hv, denorm1 E hE.powi, ← hax.xn_eq, (knot1 _ _ _ _ hsol).1, d1_eq _ _ _ _ 1 (by norm_num), hnm.unapply]

theorem reproduces_affine_1d (E : Ext α) (hE : ExtOK E) (ax : Axis α) (hax : AxisOK ax) (nm : Norm α)
    (hnm : NormOK nm) (f : α → α) (a b : α) (hf : ∀ x, f x = a + b * x) (nbe : Bool) (p : α) (i : Nat)
    (hc : cellOf ax p = some i) (v : α)
    (h : evalPure (spec1 E ax nm) (envOf f nm) nbe p = .val v) : v = a + b * p := by
  obtain ⟨h1, h2, _, _⟩ := cellOf_some ax p i hc
  obtain ⟨c, hsol, hv⟩ := evalPure1_val E hE ax nm f nbe _ v i hc h
  obtain ⟨i', rfl⟩ : ∃ i', i = i' + 1 := ⟨i - 1, by omega⟩
  have hd := hax.dinv_ne
  have hdl := hnm.delta_ne
  have hcand := affine_solves1 ax i' ((a + b * ax.xmin - nm.dmin) * nm.deltaInv) (b * nm.deltaInv / ax.dinv)
    (hax.xn_ne i' (i' + 2) (by omega) (by omega)) (hax.xn_ne (i' + 1) (i' + 3) (by omega) (by omega))
  have hcand' := isSol1_congr ax (i' + 1) _ (d1 ax nm f (i' + 1)) _ (by
    intro k hk
    rw [d1_eq _ _ _ _ k hk, hf, hax.dom_eq]
    simp only [Norm.apply]
    field_simp
    ring) hcand
  have hu := unique1 ax (i' + 1) _ c _ (hax.xn_ne (i' + 1) (i' + 2) (by omega) (by omega)).symm hsol hcand'
  rw [hv, denorm1 E hE.powi]
  simp only [poly1, hu 0 (by norm_num), hu 1 (by norm_num), hu 2 (by norm_num), hu 3 (by norm_num)]
  simp [hnm.inv]
  field_simp
  ring

theorem normalisation_cancels_1d (E : Ext α) (hE : ExtOK E) (ax : Axis α) (hax : AxisOK ax) (nm nm' : Norm α)
    (hnm : NormOK nm) (hnm' : NormOK nm') (f : α → α) (nbe : Bool) (p : α) (v v' : α)
    (h : evalPure (spec1 E ax nm) (envOf f nm) nbe p = .val v)
    (h' : evalPure (spec1 E ax nm') (envOf f nm') nbe p = .val v') : v = v' := by
  cases hc : cellOf ax p with
  | none =>
    simp [evalPure, spec1, hc] at h h'
    cases nbe <;> simp [envOf] at h h'
    rw [← h, ← h']
  | some i =>
    obtain ⟨h1, h2, _, _⟩ := cellOf_some ax p i hc
    obtain ⟨c, hsol, hv⟩ := evalPure1_val E hE ax nm f nbe _ v i hc h
    obtain ⟨c', hsol', hv'⟩ := evalPure1_val E hE ax nm' f nbe _ v' i hc h'
    obtain ⟨i', rfl⟩ : ∃ i', i = i' + 1 := ⟨i - 1, by omega⟩
    have raw := norm_solves1 ax (i' + 1) _ c (-(nm.dmin * nm.deltaInv)) nm.delta hsol
    have raw' := norm_solves1 ax (i' + 1) _ c' (-(nm'.dmin * nm'.deltaInv)) nm'.delta hsol'
    have hd := hnm.delta_ne
    have hd' := hnm'.delta_ne
    have e1 := isSol1_congr ax (i' + 1) _ (fun k => f (ax.dom (i' + k))) _ (by
      intro k hk
      simp only [d1_eq _ _ _ _ k hk, Norm.apply, hnm.inv]
      field_simp; ring) raw
    have e2 := isSol1_congr ax (i' + 1) _ (fun k => f (ax.dom (i' + k))) _ (by
      intro k hk
      simp only [d1_eq _ _ _ _ k hk, Norm.apply, hnm'.inv]
      field_simp; ring) raw'
    have hu := unique1 ax (i' + 1) _ _ _ (hax.xn_ne (i' + 1) (i' + 2) (by omega) (by omega)).symm e1 e2
    rw [hv, hv', denorm1 E hE.powi, denorm1 E hE.powi]
    have u0 := hu 0 (by norm_num)
    have u1 := hu 1 (by norm_num)
    have u2 := hu 2 (by norm_num)
    have u3 := hu 3 (by norm_num)
    simp [e0, hnm.inv, hnm'.inv] at u0 u1 u2 u3
    field_simp at u0 u1 u2 u3
    simp only [poly1]
    linear_combination u0 + u1 * ((p - ax.xmin) * ax.dinv) + u2 * ((p - ax.xmin) * ax.dinv) ^ 2
      + u3 * ((p - ax.xmin) * ax.dinv) ^ 3

end OneD

/-! ## Caching2D -/
section TwoD
variable {α : Type} [Field α] [LinearOrder α] [IsStrictOrderedRing α]

theorem interpolates_nodes_2d (E : Ext α) (hE : ExtOK E) (ax ay : Axis α) (hax : AxisOK ax) (hay : AxisOK ay)
    (nm : Norm α) (hnm : NormOK nm) (f : α × α → α) (nbe : Bool) (i j : Nat)
    (hi1 : 1 ≤ i) (hi2 : i + 2 ≤ ax.top) (hj1 : 1 ≤ j) (hj2 : j + 2 ≤ ay.top) (v : α)
    (h : evalPure (spec2 E ax ay nm) (envOf f nm) nbe (ax.dom i, ay.dom j) = .val v) :
    v = f (ax.dom i, ay.dom j) := by
  have hcx : cellOf ax (ax.dom i) = some i :=
    cellOf_of_bracket ax hax.sorted _ i hi1 hi2 le_rfl (hax.sorted i (i + 1) (by omega) (by omega))
  have hcy : cellOf ay (ay.dom j) = some j :=
    cellOf_of_bracket ay hay.sorted _ j hj1 hj2 le_rfl (hay.sorted j (j + 1) (by omega) (by omega))
  have hc : cellOf2 ax ay (ax.dom i, ay.dom j) = some (i, j) := by simp [cellOf2, hcx, hcy]
  obtain ⟨c, hsol, hv⟩ := evalPure2_val E hE ax ay nm f nbe _ v _ hc h
  obtain ⟨i', rfl⟩ : ∃ i', i = i' + 1 := ⟨i - 1, by omega⟩
  obtain ⟨j', rfl⟩ : ∃ j', j = j' + 1 := ⟨j - 1, by omega⟩
  have hk := knot2 ax ay _ _ c hsol 0 0 (by norm_num) (by norm_num)
  simp only [Nat.add_zero, Nat.zero_add] at hk
  rw [hv, denorm2 E hE.powi]
  simp only []
  rw [← hax.xn_eq, ← hay.xn_eq, hk, d2_eq _ _ _ _ _ _ 1 1 (by norm_num) (by norm_num), hnm.unapply]

/-- coefficients of `(m ∘ (t ↦ t/Δ⁻¹ + x₀) − data_min) · δ⁻¹` in the normalised coordinates -/
def renorm2 (m : Nat → Nat → α) (ax ay : Axis α) (nm : Norm α) (a b : Nat) : α :=
  if a = 0 then
    (if b = 0 then (m 0 0 + m 0 1 * ay.xmin + m 1 0 * ax.xmin + m 1 1 * ax.xmin * ay.xmin - nm.dmin) * nm.deltaInv
     else (m 0 1 + m 1 1 * ax.xmin) * nm.deltaInv / ay.dinv)
  else (if b = 0 then (m 1 0 + m 1 1 * ay.xmin) * nm.deltaInv / ax.dinv else m 1 1 * nm.deltaInv / (ax.dinv * ay.dinv))

theorem reproduces_multilinear_2d (E : Ext α) (hE : ExtOK E) (ax ay : Axis α) (hax : AxisOK ax) (hay : AxisOK ay)
    (nm : Norm α) (hnm : NormOK nm) (f : α × α → α) (m : Nat → Nat → α) (hf : ∀ x y, f (x, y) = ml2 m x y)
    (nbe : Bool) (p : α × α) (cell : Nat × Nat) (hc : cellOf2 ax ay p = some cell) (v : α)
    (h : evalPure (spec2 E ax ay nm) (envOf f nm) nbe p = .val v) : v = f p := by
  obtain ⟨hcx, hcy⟩ := cellOf2_some ax ay p cell hc
  obtain ⟨i, j⟩ := cell
  obtain ⟨hi1, hi2, _, _⟩ := cellOf_some ax p.1 i hcx
  obtain ⟨hj1, hj2, _, _⟩ := cellOf_some ay p.2 j hcy
  obtain ⟨c, hsol, hv⟩ := evalPure2_val E hE ax ay nm f nbe _ v _ hc h
  obtain ⟨i', rfl⟩ : ∃ i', i = i' + 1 := ⟨i - 1, by omega⟩
  obtain ⟨j', rfl⟩ : ∃ j', j = j' + 1 := ⟨j - 1, by omega⟩
  have hdx := hax.dinv_ne
  have hdy := hay.dinv_ne
  have hdl := hnm.delta_ne
  have hcand := multilinear_solves2 ax ay i' j' (renorm2 m ax ay nm)
    (hax.xn_ne i' (i' + 2) (by omega) (by omega)) (hax.xn_ne (i' + 1) (i' + 3) (by omega) (by omega))
    (hay.xn_ne j' (j' + 2) (by omega) (by omega)) (hay.xn_ne (j' + 1) (j' + 3) (by omega) (by omega))
  have hcand' := isSol2_congr ax ay (i' + 1, j' + 1) _ (d2 ax ay nm f (i' + 1, j' + 1)) _ (by
    intro a b ha hb
    rw [d2_eq _ _ _ _ _ _ a b ha hb, hf, hax.dom_eq, hay.dom_eq]
    simp only [Norm.apply, ml2, renorm2]
    simp
    field_simp
    ring) hcand
  have hu := unique2 ax ay (i' + 1, j' + 1) _ c _
    (hax.xn_ne (i' + 1) (i' + 2) (by omega) (by omega)).symm
    (hay.xn_ne (j' + 1) (j' + 2) (by omega) (by omega)).symm hsol hcand'
  obtain ⟨px, py⟩ := p
  rw [hv, denorm2 E hE.powi, poly2_congr _ _ _ hu, poly2_embed, hf]
  simp only [ml2, renorm2, hnm.inv]
  simp
  field_simp
  ring

theorem normalisation_cancels_2d (E : Ext α) (hE : ExtOK E) (ax ay : Axis α) (hax : AxisOK ax) (hay : AxisOK ay)
    (nm nm' : Norm α) (hnm : NormOK nm) (hnm' : NormOK nm') (f : α × α → α) (nbe : Bool) (p : α × α) (v v' : α)
    (h : evalPure (spec2 E ax ay nm) (envOf f nm) nbe p = .val v)
    (h' : evalPure (spec2 E ax ay nm') (envOf f nm') nbe p = .val v') : v = v' := by
  cases hc : cellOf2 ax ay p with
  | none =>
    have e1 : (spec2 E ax ay nm).locate p = none := hc
    have e2 : (spec2 E ax ay nm').locate p = none := hc
    simp only [evalPure, e1, e2] at h h'
    cases nbe <;> simp [envOf] at h h'
    rw [← h, ← h']
  | some cell =>
    obtain ⟨hcx, hcy⟩ := cellOf2_some ax ay p cell hc
    obtain ⟨i, j⟩ := cell
    obtain ⟨hi1, hi2, _, _⟩ := cellOf_some ax p.1 i hcx
    obtain ⟨hj1, hj2, _, _⟩ := cellOf_some ay p.2 j hcy
    obtain ⟨c, hsol, hv⟩ := evalPure2_val E hE ax ay nm f nbe _ v _ hc h
    obtain ⟨c', hsol', hv'⟩ := evalPure2_val E hE ax ay nm' f nbe _ v' _ hc h'
    obtain ⟨i', rfl⟩ : ∃ i', i = i' + 1 := ⟨i - 1, by omega⟩
    obtain ⟨j', rfl⟩ : ∃ j', j = j' + 1 := ⟨j - 1, by omega⟩
    have raw := norm_solves2 ax ay (i' + 1, j' + 1) _ c (-(nm.dmin * nm.deltaInv)) nm.delta hsol
    have raw' := norm_solves2 ax ay (i' + 1, j' + 1) _ c' (-(nm'.dmin * nm'.deltaInv)) nm'.delta hsol'
    have hd := hnm.delta_ne
    have hd' := hnm'.delta_ne
    have e1 := isSol2_congr ax ay (i' + 1, j' + 1) _ (fun a b => f (ax.dom (i' + a), ay.dom (j' + b))) _ (by
      intro a b ha hb
      simp only [d2_eq _ _ _ _ _ _ a b ha hb, Norm.apply, hnm.inv]
      field_simp; ring) raw
    have e2 := isSol2_congr ax ay (i' + 1, j' + 1) _ (fun a b => f (ax.dom (i' + a), ay.dom (j' + b))) _ (by
      intro a b ha hb
      simp only [d2_eq _ _ _ _ _ _ a b ha hb, Norm.apply, hnm'.inv]
      field_simp; ring) raw'
    have hu := unique2 ax ay (i' + 1, j' + 1) _ _ _
      (hax.xn_ne (i' + 1) (i' + 2) (by omega) (by omega)).symm
      (hay.xn_ne (j' + 1) (j' + 2) (by omega) (by omega)).symm e1 e2
    have key := poly2_congr _ _ ((p.1 - ax.xmin) * ax.dinv, (p.2 - ay.xmin) * ay.dinv) hu
    rw [poly2_lin_e0, poly2_lin_e0] at key
    rw [hv, hv', denorm2 E hE.powi, denorm2 E hE.powi]
    simp only [hnm.inv, hnm'.inv] at key
    field_simp at key
    linear_combination key

end TwoD

/-! ## Caching3D -/
section ThreeD
variable {α : Type} [Field α] [LinearOrder α] [IsStrictOrderedRing α]

theorem interpolates_nodes_3d (E : Ext α) (hE : ExtOK E) (ax ay az : Axis α) (hax : AxisOK ax)
    (hay : AxisOK ay) (haz : AxisOK az) (nm : Norm α) (hnm : NormOK nm)
    (f : α × α × α → α) (nbe : Bool) (i j k : Nat)
    (hi1 : 1 ≤ i) (hi2 : i + 2 ≤ ax.top) (hj1 : 1 ≤ j) (hj2 : j + 2 ≤ ay.top) (hk1 : 1 ≤ k) (hk2 : k + 2 ≤ az.top)
    (v : α) (h : evalPure (spec3 E ax ay az nm) (envOf f nm) nbe (ax.dom i, ay.dom j, az.dom k) = .val v) :
    v = f (ax.dom i, ay.dom j, az.dom k) := by
  have hcx : cellOf ax (ax.dom i) = some i :=
    cellOf_of_bracket ax hax.sorted _ i hi1 hi2 le_rfl (hax.sorted i (i + 1) (by omega) (by omega))
  have hcy : cellOf ay (ay.dom j) = some j :=
    cellOf_of_bracket ay hay.sorted _ j hj1 hj2 le_rfl (hay.sorted j (j + 1) (by omega) (by omega))
  have hcz : cellOf az (az.dom k) = some k :=
    cellOf_of_bracket az haz.sorted _ k hk1 hk2 le_rfl (haz.sorted k (k + 1) (by omega) (by omega))
  have hc : cellOf3 ax ay az (ax.dom i, ay.dom j, az.dom k) = some (i, j, k) := by simp [cellOf3, hcx, hcy, hcz]
  obtain ⟨c, hsol, hv⟩ := evalPure3_val E hE ax ay az nm f nbe _ v _ hc h
  obtain ⟨i', rfl⟩ : ∃ i', i = i' + 1 := ⟨i - 1, by omega⟩
  obtain ⟨j', rfl⟩ : ∃ j', j = j' + 1 := ⟨j - 1, by omega⟩
  obtain ⟨k', rfl⟩ : ∃ k', k = k' + 1 := ⟨k - 1, by omega⟩
  have hk := knot3 ax ay az _ _ c hsol 0 0 0 (by norm_num) (by norm_num) (by norm_num)
  simp only [Nat.add_zero, Nat.zero_add] at hk
  rw [hv, denorm3 E hE.powi]
  simp only []
  rw [← hax.xn_eq, ← hay.xn_eq, ← haz.xn_eq, hk,
    d3_eq _ _ _ _ _ _ _ _ 1 1 1 (by norm_num) (by norm_num) (by norm_num), hnm.unapply]

/-- coefficients of `(m ∘ (t ↦ t/Δ⁻¹ + x₀) − data_min) · δ⁻¹` in the normalised coordinates -/
def renorm3 (m : Nat → Nat → Nat → α) (ax ay az : Axis α) (nm : Norm α) (a b c : Nat) : α :=
  let ox := ax.xmin
  let oy := ay.xmin
  let oz := az.xmin
  let s := nm.deltaInv
  if a = 0 then
    (if b = 0 then
      (if c = 0 then (ml3 m ox oy oz - nm.dmin) * s
       else (m 0 0 1 + m 0 1 1 * oy + m 1 0 1 * ox + m 1 1 1 * ox * oy) * s / az.dinv)
     else
      (if c = 0 then (m 0 1 0 + m 0 1 1 * oz + m 1 1 0 * ox + m 1 1 1 * ox * oz) * s / ay.dinv
       else (m 0 1 1 + m 1 1 1 * ox) * s / (ay.dinv * az.dinv)))
  else
    (if b = 0 then
      (if c = 0 then (m 1 0 0 + m 1 0 1 * oz + m 1 1 0 * oy + m 1 1 1 * oy * oz) * s / ax.dinv
       else (m 1 0 1 + m 1 1 1 * oy) * s / (ax.dinv * az.dinv))
     else
      (if c = 0 then (m 1 1 0 + m 1 1 1 * oz) * s / (ax.dinv * ay.dinv)
       else m 1 1 1 * s / (ax.dinv * ay.dinv * az.dinv)))

theorem reproduces_multilinear_3d (E : Ext α) (hE : ExtOK E) (ax ay az : Axis α) (hax : AxisOK ax)
    (hay : AxisOK ay) (haz : AxisOK az) (nm : Norm α) (hnm : NormOK nm)
    (f : α × α × α → α) (m : Nat → Nat → Nat → α) (hf : ∀ x y z, f (x, y, z) = ml3 m x y z)
    (nbe : Bool) (p : α × α × α) (cell : Nat × Nat × Nat) (hc : cellOf3 ax ay az p = some cell) (v : α)
    (h : evalPure (spec3 E ax ay az nm) (envOf f nm) nbe p = .val v) : v = f p := by
  obtain ⟨hcx, hcy, hcz⟩ := cellOf3_some ax ay az p cell hc
  obtain ⟨i, j, k⟩ := cell
  obtain ⟨hi1, hi2, _, _⟩ := cellOf_some ax p.1 i hcx
  obtain ⟨hj1, hj2, _, _⟩ := cellOf_some ay p.2.1 j hcy
  obtain ⟨hk1, hk2, _, _⟩ := cellOf_some az p.2.2 k hcz
  obtain ⟨c, hsol, hv⟩ := evalPure3_val E hE ax ay az nm f nbe _ v _ hc h
  obtain ⟨i', rfl⟩ : ∃ i', i = i' + 1 := ⟨i - 1, by omega⟩
  obtain ⟨j', rfl⟩ : ∃ j', j = j' + 1 := ⟨j - 1, by omega⟩
  obtain ⟨k', rfl⟩ : ∃ k', k = k' + 1 := ⟨k - 1, by omega⟩
  have hdx := hax.dinv_ne
  have hdy := hay.dinv_ne
  have hdz := haz.dinv_ne
  have hdl := hnm.delta_ne
  have hcand := multilinear_solves3 ax ay az i' j' k' (renorm3 m ax ay az nm)
    (hax.xn_ne i' (i' + 2) (by omega) (by omega)) (hax.xn_ne (i' + 1) (i' + 3) (by omega) (by omega))
    (hay.xn_ne j' (j' + 2) (by omega) (by omega)) (hay.xn_ne (j' + 1) (j' + 3) (by omega) (by omega))
    (haz.xn_ne k' (k' + 2) (by omega) (by omega)) (haz.xn_ne (k' + 1) (k' + 3) (by omega) (by omega))
  have hcand' := isSol3_congr ax ay az (i' + 1, j' + 1, k' + 1) _ (d3 ax ay az nm f (i' + 1, j' + 1, k' + 1)) _ (by
    intro a b cc ha hb hcc
    rw [d3_eq _ _ _ _ _ _ _ _ a b cc ha hb hcc, hf, hax.dom_eq, hay.dom_eq, haz.dom_eq]
    simp only [Norm.apply, ml3, renorm3]
    simp
    field_simp
    ring) hcand
  have hu := unique3 ax ay az (i' + 1, j' + 1, k' + 1) _ c _
    (hax.xn_ne (i' + 1) (i' + 2) (by omega) (by omega)).symm
    (hay.xn_ne (j' + 1) (j' + 2) (by omega) (by omega)).symm
    (haz.xn_ne (k' + 1) (k' + 2) (by omega) (by omega)).symm hsol hcand'
  obtain ⟨px, py, pz⟩ := p
  rw [hv, denorm3 E hE.powi, poly3_congr _ _ _ hu, poly3_embed, hf]
  simp only [ml3, renorm3, hnm.inv]
  simp
  field_simp
  ring

theorem normalisation_cancels_3d (E : Ext α) (hE : ExtOK E) (ax ay az : Axis α) (hax : AxisOK ax)
    (hay : AxisOK ay) (haz : AxisOK az) (nm nm' : Norm α) (hnm : NormOK nm) (hnm' : NormOK nm')
    (f : α × α × α → α) (nbe : Bool) (p : α × α × α) (v v' : α)
    (h : evalPure (spec3 E ax ay az nm) (envOf f nm) nbe p = .val v)
    (h' : evalPure (spec3 E ax ay az nm') (envOf f nm') nbe p = .val v') : v = v' := by
  cases hc : cellOf3 ax ay az p with
  | none =>
    have e1 : (spec3 E ax ay az nm).locate p = none := hc
    have e2 : (spec3 E ax ay az nm').locate p = none := hc
    simp only [evalPure, e1, e2] at h h'
    cases nbe <;> simp [envOf] at h h'
    rw [← h, ← h']
  | some cell =>
    obtain ⟨hcx, hcy, hcz⟩ := cellOf3_some ax ay az p cell hc
    obtain ⟨i, j, k⟩ := cell
    obtain ⟨hi1, hi2, _, _⟩ := cellOf_some ax p.1 i hcx
    obtain ⟨hj1, hj2, _, _⟩ := cellOf_some ay p.2.1 j hcy
    obtain ⟨hk1, hk2, _, _⟩ := cellOf_some az p.2.2 k hcz
    obtain ⟨c, hsol, hv⟩ := evalPure3_val E hE ax ay az nm f nbe _ v _ hc h
    obtain ⟨c', hsol', hv'⟩ := evalPure3_val E hE ax ay az nm' f nbe _ v' _ hc h'
    obtain ⟨i', rfl⟩ : ∃ i', i = i' + 1 := ⟨i - 1, by omega⟩
    obtain ⟨j', rfl⟩ : ∃ j', j = j' + 1 := ⟨j - 1, by omega⟩
    obtain ⟨k', rfl⟩ : ∃ k', k = k' + 1 := ⟨k - 1, by omega⟩
    have raw := norm_solves3 ax ay az (i' + 1, j' + 1, k' + 1) _ c (-(nm.dmin * nm.deltaInv)) nm.delta hsol
    have raw' := norm_solves3 ax ay az (i' + 1, j' + 1, k' + 1) _ c' (-(nm'.dmin * nm'.deltaInv)) nm'.delta hsol'
    have hd := hnm.delta_ne
    have hd' := hnm'.delta_ne
    have e1 := isSol3_congr ax ay az (i' + 1, j' + 1, k' + 1) _
      (fun a b cc => f (ax.dom (i' + a), ay.dom (j' + b), az.dom (k' + cc))) _ (by
      intro a b cc ha hb hcc
      simp only [d3_eq _ _ _ _ _ _ _ _ a b cc ha hb hcc, Norm.apply, hnm.inv]
      field_simp; ring) raw
    have e2 := isSol3_congr ax ay az (i' + 1, j' + 1, k' + 1) _
      (fun a b cc => f (ax.dom (i' + a), ay.dom (j' + b), az.dom (k' + cc))) _ (by
      intro a b cc ha hb hcc
      simp only [d3_eq _ _ _ _ _ _ _ _ a b cc ha hb hcc, Norm.apply, hnm'.inv]
      field_simp; ring) raw'
    have hu := unique3 ax ay az (i' + 1, j' + 1, k' + 1) _ _ _
      (hax.xn_ne (i' + 1) (i' + 2) (by omega) (by omega)).symm
      (hay.xn_ne (j' + 1) (j' + 2) (by omega) (by omega)).symm
      (haz.xn_ne (k' + 1) (k' + 2) (by omega) (by omega)).symm e1 e2
    have key := poly3_congr _ _
      ((p.1 - ax.xmin) * ax.dinv, (p.2.1 - ay.xmin) * ay.dinv, (p.2.2 - az.xmin) * az.dinv) hu
    rw [poly3_lin_e0, poly3_lin_e0] at key
    rw [hv, hv', denorm3 E hE.powi, denorm3 E hE.powi]
    simp only [hnm.inv, hnm'.inv] at key
    field_simp at key
    linear_combination key

end ThreeD

/-! ## coordinate denormalisation: the stored polynomial is the normalised one composed with the normalisation -/
section Denorm
variable {α : Type} [Field α] [LinearOrder α] [IsStrictOrderedRing α]

theorem denormalisation_1d (E : Ext α) (hp : ∀ x n, E.powi x n = x ^ n) (ax : Axis α) (nm : Norm α) (c : Nat → α) (p : α) :
    poly1 (finish1 E ax nm c) p = nm.delta * poly1 c ((p - ax.xmin) * ax.dinv) + nm.dmin := denorm1 E hp ax nm c p

theorem denormalisation_2d (E : Ext α) (hp : ∀ x n, E.powi x n = x ^ n) (ax ay : Axis α) (nm : Norm α) (c : Nat → α)
    (p : α × α) :
    poly2 (finish2 E ax ay nm c) p =
      nm.delta * poly2 c ((p.1 - ax.xmin) * ax.dinv, (p.2 - ay.xmin) * ay.dinv) + nm.dmin := denorm2 E hp ax ay nm c p

theorem denormalisation_3d (E : Ext α) (hp : ∀ x n, E.powi x n = x ^ n) (ax ay az : Axis α) (nm : Norm α)
    (c : Nat → α) (p : α × α × α) :
    poly3 (finish3 E ax ay az nm c) p =
      nm.delta * poly3 c ((p.1 - ax.xmin) * ax.dinv, (p.2.1 - ay.xmin) * ay.dinv, (p.2.2 - az.xmin) * az.dinv)
        + nm.dmin := denorm3 E hp ax ay az nm c p

end Denorm


/-! ## proof-deepening pass: trace refinement, "caching takes place", failed evaluations, degenerate grids, round trip -/
section Deepen
variable {α P ν κ C : Type} [DecidableEq ν] [DecidableEq κ]

/-- the outputs produced by evaluating a sequence of points one after the other -/
def outs (S : Spec α P ν κ C) (E : Env α P) (nbe : Bool) : St α ν κ C → List P → List (Out α)
  | _, [] => []
  | st, p :: ps => (evalStep S E nbe st p).2.1 :: outs S E nbe (evalStep S E nbe st p).1 ps

/-- **trace refinement.**  Any evaluation sequence on the caching object yields, output by output, what memo-free
evaluation yields (values, ValueErrors, LinAlgErrors and wrapped-function exceptions alike).  Generic in the `Spec`:
Caching1D, 2D and 3D. -/
theorem trace_refines_pure (S : Spec α P ν κ C) (E : Env α P) (nbe : Bool) (ps : List P) :
    outs S E nbe St.init ps = ps.map (evalPure S E nbe) := by
  have key : ∀ (ps : List P) (st : St α ν κ C), Inv S E st → outs S E nbe st ps = ps.map (evalPure S E nbe) := by
    intro ps
    induction ps with
    | nil => intro st _; rfl
    | cons p ps ih =>
      intro st h
      obtain ⟨h1, h2⟩ := evalStep_spec S E nbe st h p
      simp only [outs, List.map_cons, h2, ih _ h1]
  exact key ps _ (inv_init S E)

example : outs (spec1 (⟨fun _ _ => none, fun x n => x ^ n⟩ : Ext ℚ) (mkAxis (fun _ => 3) 0 1 1) (mkNorm none))
    (envOf (fun x => x) (mkNorm none)) false St.init [5, 7] = [.raise, .raise] := by
  rw [trace_refines_pure]
  have h : ∀ p : ℚ, 1 + EPS ≤ p → evalPure (spec1 (⟨fun _ _ => none, fun x n => x ^ n⟩ : Ext ℚ)
      (mkAxis (fun _ => 3) 0 1 1) (mkNorm none)) (envOf (fun x => x) (mkNorm none)) false p = .raise := by
    intro p hp
    have hc : (spec1 (⟨fun _ _ => none, fun x n => x ^ n⟩ : Ext ℚ) (mkAxis (fun _ => 3) 0 1 1) (mkNorm none)).locate p
        = none := outside_area_no_cell (fun _ : ℚ => 3) 0 1 1 (by norm_num) (by unfold EPS; norm_num) p (Or.inr hp)
    unfold evalPure
    rw [hc]
    rfl
  rw [List.map_cons, List.map_cons, List.map_nil, h 5 (by unfold EPS; norm_num), h 7 (by unfold EPS; norm_num)]

/-- **caching takes place.**  Once an evaluation at `p` inside a cell has returned a value, evaluating `p` again is
served from the cache: no call to the wrapped function, the state is unchanged, the same value. -/
theorem repeat_served_from_cache (S : Spec α P ν κ C) (E : Env α P) (nbe : Bool) (st : St α ν κ C) (p : P) (c : κ)
    (v : α) (hc : S.locate p = some c) (h : (evalStep S E nbe st p).2.1 = .val v) :
    evalStep S E nbe (evalStep S E nbe st p).1 p = ((evalStep S E nbe st p).1, .val v, []) := by
  unfold evalStep at h ⊢
  simp only [hc] at h ⊢
  cases hl : lookup c st.coeffs with
  | some co =>
    simp only [hl] at h ⊢
    cases h; rfl
  | none =>
    simp only [hl] at h ⊢
    by_cases hok : (sample S E (S.stencil c) st.data).2.2 = true
    · simp only [hok, if_true] at h ⊢
      cases hb : S.build c (List.map (readNode E (sample S E (S.stencil c) st.data).1) (S.stencil c)) with
      | none => simp [hb] at h
      | some co =>
        simp only [hb] at h ⊢
        simp only [lookup_cons_self]
        cases h; rfl
    · have hok' : (sample S E (S.stencil c) st.data).2.2 = false := by simpa using hok
      simp [hok'] at h

/-- **a failed evaluation stores no cell.**  Whatever goes wrong (out of range, `solve` raising, the wrapped function
raising), the set of calculated cells and their coefficient blocks is exactly what it was. -/
theorem failed_evaluation_stores_no_cell (S : Spec α P ν κ C) (E : Env α P) (nbe : Bool) (st : St α ν κ C) (p : P)
    (h : ∀ v, (evalStep S E nbe st p).2.1 ≠ .val v) : (evalStep S E nbe st p).1.coeffs = st.coeffs := by
  unfold evalStep at h ⊢
  cases hloc : S.locate p with
  | none =>
    simp only [hloc] at h ⊢
    cases nbe
    · rfl
    · cases hf : E.f p <;> simp [hf]
  | some c =>
    simp only [hloc] at h ⊢
    cases hl : lookup c st.coeffs with
    | some co => simp only [hl]
    | none =>
      simp only [hl] at h ⊢
      by_cases hok : (sample S E (S.stencil c) st.data).2.2 = true
      · simp only [hok, if_true] at h ⊢
        cases hb : S.build c (List.map (readNode E (sample S E (S.stencil c) st.data).1) (S.stencil c)) with
        | none => rfl
        | some co => simp only [hb] at h; exact absurd rfl (h _)
      · have hok' : (sample S E (S.stencil c) st.data).2.2 = false := by simpa using hok
        simp [hok']

end Deepen

section DeepenGrid
variable {α : Type} [Field α] [LinearOrder α] [IsStrictOrderedRing α]

/-- **degenerate resolutions.**  Whatever the resolution (larger than, equal to, or a tiny fraction of the extent; any
`int()`), the constructor's axis has at least two inner nodes, hence at least one cell, and is strictly increasing. -/
theorem grid_never_degenerate (trunc : α → Nat) (mn mx dx : α) (h : mn < mx) (hd : EPS < dx) :
    2 ≤ nNodes trunc mn mx dx ∧ 3 ≤ (mkAxis trunc mn mx dx).top ∧ (mkAxis trunc mn mx dx).Sorted ∧
    (∀ p, mn ≤ p → p ≤ mx → ∃ i, cellOf (mkAxis trunc mn mx dx) p = some i ∧ 1 ≤ i ∧ i + 2 ≤ (mkAxis trunc mn mx dx).top) := by
  refine ⟨nNodes_ge trunc mn mx dx, mkAxis_top trunc mn mx dx, mkAxis_sorted trunc mn mx dx h hd, ?_⟩
  intro p h1 h2
  obtain ⟨i, hi⟩ := inside_area_is_cached trunc mn mx dx h hd p h1 h2
  obtain ⟨a, b, _, _⟩ := cellOf_some _ p i hi
  exact ⟨i, hi, a, b⟩

example : ∃ i, cellOf (mkAxis (fun _ : ℚ => 0) 0 (1 / 5) (1 / 2)) (1 / 5 : ℚ) = some i :=
  inside_area_is_cached _ 0 (1 / 5) (1 / 2) (by norm_num) (by unfold EPS; norm_num) _ (by norm_num) (by norm_num)

/-- every point of the closed 2-D caching area lies in a cell, for any pair of resolutions -/
theorem inside_area_is_cached_2d (tx ty : α → Nat) (mnx mxx dx mny mxy dy : α) (hx : mnx < mxx) (hdx : EPS < dx)
    (hy : mny < mxy) (hdy : EPS < dy) (p : α × α) (h1 : mnx ≤ p.1) (h2 : p.1 ≤ mxx) (h3 : mny ≤ p.2) (h4 : p.2 ≤ mxy) :
    ∃ c, cellOf2 (mkAxis tx mnx mxx dx) (mkAxis ty mny mxy dy) p = some c := by
  obtain ⟨i, hi⟩ := inside_area_is_cached tx mnx mxx dx hx hdx p.1 h1 h2
  obtain ⟨j, hj⟩ := inside_area_is_cached ty mny mxy dy hy hdy p.2 h3 h4
  exact ⟨(i, j), by simp [cellOf2, hi, hj]⟩

/-- … and of the closed 3-D caching area -/
theorem inside_area_is_cached_3d (tx ty tz : α → Nat) (mnx mxx dx mny mxy dy mnz mxz dz : α)
    (hx : mnx < mxx) (hdx : EPS < dx) (hy : mny < mxy) (hdy : EPS < dy) (hz : mnz < mxz) (hdz : EPS < dz)
    (p : α × α × α) (h1 : mnx ≤ p.1) (h2 : p.1 ≤ mxx) (h3 : mny ≤ p.2.1) (h4 : p.2.1 ≤ mxy)
    (h5 : mnz ≤ p.2.2) (h6 : p.2.2 ≤ mxz) :
    ∃ c, cellOf3 (mkAxis tx mnx mxx dx) (mkAxis ty mny mxy dy) (mkAxis tz mnz mxz dz) p = some c := by
  obtain ⟨i, hi⟩ := inside_area_is_cached tx mnx mxx dx hx hdx p.1 h1 h2
  obtain ⟨j, hj⟩ := inside_area_is_cached ty mny mxy dy hy hdy p.2.1 h3 h4
  obtain ⟨k, hk⟩ := inside_area_is_cached tz mnz mxz dz hz hdz p.2.2 h5 h6
  exact ⟨(i, j, k), by simp [cellOf3, hi, hj, hk]⟩

/-- **value normalisation round trip**, for every `function_boundaries` argument including `min = max` (where
`data_delta` falls back to 1) and `None`: denormalising a normalised value gives the value back. -/
theorem value_normalisation_round_trip (b : Option (α × α)) (v : α) :
    (mkNorm b).delta * (mkNorm b).apply v + (mkNorm b).dmin = v := (mkNorm_ok b).unapply v

example : (mkNorm (some ((5 : ℚ), 5))).delta * (mkNorm (some ((5 : ℚ), 5))).apply 7 + (mkNorm (some ((5 : ℚ), 5))).dmin = 7 :=
  value_normalisation_round_trip _ _

end DeepenGrid

/-! ## the hypotheses are satisfiable (non-vacuity) -/
section NonVacuous
open Classical

/-- an ideal solver: returns a solution whenever one exists -/
noncomputable def idealExt (α : Type) [Field α] [LinearOrder α] [IsStrictOrderedRing α] : Ext α where
  solve := fun A b => if h : ∃ c, Solves A b c then some (Classical.choose h) else none
  powi := fun x n => x ^ n

theorem ideal_solve_ok {α : Type} [Field α] [LinearOrder α] [IsStrictOrderedRing α] : ExtOK (idealExt α) := by
  refine ⟨fun _ _ => rfl, ?_⟩
  intro A b c h
  simp only [idealExt] at h
  split at h
  · rename_i hex
    cases h
    exact Classical.choose_spec hex
  · cases h

/-- … and on every 1-D cell with distinct knots it does return -/
theorem ideal_solve_total_1d {α : Type} [Field α] [LinearOrder α] [IsStrictOrderedRing α] (ax : Axis α) (i : Nat)
    (d : Nat → α) (hne : ax.xn i ≠ ax.xn (i + 1)) :
    ((idealExt α).solve (system1 ax i d).1 (system1 ax i d).2).isSome := by
  have hex : ∃ c, Solves (system1 ax i d).1 (system1 ax i d).2 c :=
    ⟨_, (solves_system1 ax i d _).mpr (hermite_solves ax i d hne)⟩
  simp [idealExt, hex]


/-- **no LinAlgError in exact arithmetic (1-D).**  With a solver that returns whenever the system it is given has a
solution (what LAPACK does on a nonsingular matrix), every evaluation of Caching1D inside a cell returns a value —
together with `interpolates_nodes_1d` / `reproduces_affine_1d` the conclusions there become unconditional.  (2-D/3-D:
the same statement needs existence of a solution of the tensor system, which is not formalised — uniqueness is.) -/
theorem inside_returns_value_1d {α : Type} [Field α] [LinearOrder α] [IsStrictOrderedRing α] (E : Ext α) (hT : ∀ A b, (∃ c, Solves A b c) → (E.solve A b).isSome)
    (ax : Axis α) (hax : AxisOK ax) (nm : Norm α) (f : α → α) (nbe : Bool) (p : α) (i : Nat)
    (hc : cellOf ax p = some i) : ∃ v, evalPure (spec1 E ax nm) (envOf f nm) nbe p = .val v := by
  obtain ⟨h1, h2, _, _⟩ := cellOf_some ax p i hc
  have hne : ax.xn i ≠ ax.xn (i + 1) := (hax.xn_ne i (i + 1) (by omega) (by omega)).symm
  unfold evalPure
  rw [show (spec1 E ax nm).locate p = some i from hc]
  dsimp only
  rw [envOf_all, if_pos rfl]
  simp only [spec1, build1]
  have hex := hT _ _ ⟨_, (solves_system1 ax i (fun k =>
    ((stencil1 i).map (nodeVal (spec1 E ax nm) (envOf f nm))).getD k 0) _).mpr (hermite_solves ax i _ hne)⟩
  obtain ⟨c, hcs⟩ := Option.isSome_iff_exists.mp hex
  simp only [spec1] at hcs
  rw [hcs]
  exact ⟨_, rfl⟩

example (ax : Axis ℚ) (hax : AxisOK ax) (nm : Norm ℚ) (f : ℚ → ℚ) (p : ℚ) (i : Nat) (hc : cellOf ax p = some i) :
    ∃ v, evalPure (spec1 (idealExt ℚ) ax nm) (envOf f nm) false p = .val v :=
  inside_returns_value_1d (idealExt ℚ) (fun A b h => by simp [idealExt, h]) ax hax nm f false p i hc

/-- the constructor's guarantees hold for a concrete rational grid -/
example : AxisOK (mkAxis (fun _ : ℚ => 3) 0 1 (1 / 3)) :=
  mkAxis_ok _ _ _ _ (by norm_num) (by unfold EPS; norm_num)

example : NormOK (mkNorm (some ((2 : ℚ), 5))) := mkNorm_ok _
example : NormOK (mkNorm (some ((2 : ℚ), 2))) := mkNorm_ok _          -- equal bounds: data_delta falls back to 1
example : NormOK (mkNorm (none : Option (ℚ × ℚ))) := mkNorm_ok _

/-- `find_index` on a concrete array: all exits -/
example : findIndex (fun i => (i : ℚ) * (i : ℚ)) 4 (5 : ℚ) 0 = 2 := by norm_num [findIndex, bisect]
example : findIndex (fun i => (i : ℚ) * (i : ℚ)) 4 (0 : ℚ) 0 = 0 := by norm_num [findIndex, bisect]
example : findIndex (fun i => (i : ℚ) * (i : ℚ)) 4 (16 : ℚ) 0 = 3 := by norm_num [findIndex, bisect]
example : findIndex (fun i => (i : ℚ) * (i : ℚ)) 4 (-1 : ℚ) 0 = -2 := by norm_num [findIndex, bisect]
example : findIndex (fun i => (i : ℚ) * (i : ℚ)) 4 (17 : ℚ) 0 = 5 := by norm_num [findIndex, bisect]
example : findIndex (fun i => (i : ℚ) * (i : ℚ)) 4 (-1 : ℚ) 2 = -1 := by norm_num [findIndex, bisect]
example : findIndex (fun i => (i : ℚ) * (i : ℚ)) 4 (17 : ℚ) 2 = 4 := by norm_num [findIndex, bisect]

end NonVacuous

end Cherab.Props.C14
