import Cherab.Model.Repository
import Cherab.Gen.RepoPaths

namespace Cherab.Props.C06Table
open Cherab.Repository Cherab.Gen.RepoPaths

/-- **`add_matches_update`**: every `add_y` runs the code of, and writes with the path template of, the `update_*`
family it is named after, wrapping its data in the class it is named after -/
theorem add_matches_update : tables.addMatches = true := by decide

end Cherab.Props.C06Table
