import Cherab.Drv.Proto
import Cherab.Model.RayTransfer
import Cherab.Gen.RayTransfer
open Cherab.Drv Cherab.RayTransfer Cherab.Gen.RayTransfer

/-- integer mantissa and exponent of a positive finite double: `x = m * 2^e` exactly -/
def mantExp (x : Float) : Nat × Int :=
  let (m, e) := x.frExp
  ((m.scaleB 53).toUInt64.toNat, e - 53)

/-- C `fmod` (exact remainder of truncated division, sign of the dividend), computed in integer arithmetic -/
def fmodF (x p : Float) : Float :=
  if x.isNaN || p.isNaN || x.isInf || p == 0 then 0.0 / 0.0
  else if p.isInf || x == 0 then x
  else
    let (mx, ex) := mantExp x.abs
    let (mp, ep) := mantExp p.abs
    let e := min ex ep
    let X := mx <<< (ex - e).toNat
    let P := mp <<< (ep - e).toNat
    let r := (Float.ofNat (X % P)).scaleB e
    if x < 0 then -r else r

/-- C cast `<int>double` for values in int range: truncation towards zero -/
def truncF (x : Float) : Int := x.toInt64.toInt

def piF : Float := 3.14159265358979323846

def ints (ts : List String) : List Int := ts.map pI

def specOf (xs : Array Float) : Int → Float := fun j => if j < 0 then 0 else xs.getD j.toNat 0

def showSpec (nb : Nat) (r : Option (Int → Float)) : String :=
  match r with
  | none => "IndexError"
  | some s => "ok " ++ fFs ((List.range nb).map fun (j : Nat) => s (Int.ofNat j))

def step (ts : List String) : String :=
  match ts with
  | "cart" :: n0 :: n1 :: n2 :: nb :: ms :: rest =>
      let (fs, rest) := takeF 10 rest
      match fs with
      | [dx, dy, dz, st, sx, sy, sz, ex, ey, ez] =>
        let ncell := pN n0 * pN n1 * pN n2
        let vm : VMap := { n0 := pN n0, n1 := pN n1, n2 := pN n2, data := (ints (rest.take ncell)).toArray }
        let spec0 := ((rest.drop ncell).map pF).toArray
        showSpec (pN nb) (integrateCart truncF Float.sqrt vm.look (pN nb) nExtraCart dx dy dz st (pI ms) (specOf spec0)
          { sx := sx, sy := sy, sz := sz, ex := ex, ey := ey, ez := ez })
      | _ => "bad-op"
  | "cyl" :: n0 :: n1 :: n2 :: nb :: ms :: rest =>
      let (fs, rest) := takeF 12 rest
      match fs with
      | [dr, dphi, dz, rmin, period, st, sx, sy, sz, ex, ey, ez] =>
        let ncell := pN n0 * pN n1 * pN n2
        let vm : VMap := { n0 := pN n0, n1 := pN n1, n2 := pN n2, data := (ints (rest.take ncell)).toArray }
        let spec0 := ((rest.drop ncell).map pF).toArray
        showSpec (pN nb) (integrateCyl truncF Float.sqrt Float.atan2 fmodF piF vm.look (pN nb) nExtraCyl (pN n1)
          dr dphi dz rmin period st (pI ms) (specOf spec0)
          { sx := sx, sy := sy, sz := sz, ex := ex, ey := ey, ez := ez })
      | _ => "bad-op"
  | "ecart" :: n0 :: n1 :: n2 :: nb :: rest =>
      let (fs, rest) := takeF 6 rest
      match fs with
      | [dx, dy, dz, x, y, z] =>
        let vm : VMap := { n0 := pN n0, n1 := pN n1, n2 := pN n2, data := (ints rest).toArray }
        showSpec (pN nb) (emit vm.look (pN nb) (fun _ => (0 : Float)) (cartCell truncF dx dy dz x y z))
      | _ => "bad-op"
  | "ecyl" :: n0 :: n1 :: n2 :: nb :: rest =>
      let (fs, rest) := takeF 8 rest
      match fs with
      | [dr, dphi, dz, rmin, period, x, y, z] =>
        let vm : VMap := { n0 := pN n0, n1 := pN n1, n2 := pN n2, data := (ints rest).toArray }
        showSpec (pN nb) (emit vm.look (pN nb) (fun _ => (0 : Float))
          (cylCell truncF Float.sqrt Float.atan2 fmodF piF (pN n1) dr dphi dz rmin period x y z))
      | _ => "bad-op"
  | "plan" :: geo :: ms :: rest =>
      match rest.map pF with
      | [st, sx, sy, sz, ex, ey, ez] =>
        match plan truncF Float.sqrt (if geo == "cart" then nExtraCart else nExtraCyl) st (pI ms) { sx := sx, sy := sy, sz := sz, ex := ex, ey := ey, ez := ez } with
        | none => "short"
        | some p => s!"{p.n} {fFs [p.dt, p.ux, p.uy, p.uz]}"
      | _ => "bad-op"
  | "mask" :: bs =>
      let vm := mapFromMask (bs.map pB)
      match bins vm with
      | none => "ValueError"
      | some b => s!"{b} " ++ " ".intercalate (vm.map toString)
  | "vbins" :: vs =>
      match bins (ints vs) with
      | none => "ValueError"
      | some b => s!"{b} " ++ " ".intercalate ((maskOf (ints vs)).map fB)
  | ["boxgeom", xm, ym, zm, nx, ny, nz] =>
      let g : BoxGeom Float := boxGeom (pF xm) (pF ym) (pF zm) (pN nx) (pN ny) (pN nz)
      fFs [g.dx, g.dy, g.dz, g.step, g.ux, g.uy, g.uz]
  | ["cylgeom", ro, h, nr, nz, ri, np, per] =>
      let g : CylGeom Float := cylGeom (pF ro) (pF h) (pN nr) (pN nz) (pF ri) (pN np) (pF per)
      fFs [g.dr, g.dphi, g.dz, g.step, g.rOuter, g.rInner, g.height]
  | "ihist" :: st0 :: ms0 :: ops =>
      -- integrator setter history: tokens `s <float>` / `m <int>`; prints one status per write, then the final state
      let rec go (st : IntegState Float) (acc : List String) : List String → IntegState Float × List String
        | "s" :: v :: rest => let o := st.setStep (pF v); go o.state (acc ++ [fB o.isOk]) rest
        | "m" :: v :: rest => let o := st.setMinSamples (pI v); go o.state (acc ++ [fB o.isOk]) rest
        | _ => (st, acc)
      let (fin, acc) := go { step := pF st0, minSamples := pI ms0 } [] ops
      " ".intercalate acc ++ s!" | {fF fin.step} {fin.minSamples}"
  | "pipe0d" :: rest =>
      -- history of observes on ONE pipeline: `<bins> <nres> (<nsamples> <bins floats>)*` repeated; prints every matrix
      let rec results (bins : Nat) : Nat → List String → List (List Float × Nat) × List String
        | 0, ts => ([], ts)
        | k + 1, n :: ts =>
            let (fs, ts') := takeF bins ts
            let (rs, ts'') := results bins k ts'
            ((fs, pN n) :: rs, ts'')
        | _, ts => ([], ts)
      let rec obs (fuel : Nat) (p : Pipe0D Float) (acc : List String) : List String → List String
        | b :: n :: ts =>
            match fuel with
            | 0 => acc
            | fuel + 1 =>
              let (rs, ts') := results (pN b) (pN n) ts
              let p' := p.observe (pN b) rs
              obs fuel p' (acc ++ [fFs p'.matrix]) ts'
        | _ => acc
      " | ".intercalate (obs 64 Pipe0D.new [] rest)
  | "ehist" :: n0 :: n1 :: n2 :: ops =>
      -- emitter map-setter history on `EmitterState.new (n0,n1,n2)`: tokens `v|m <s0> <s1> <s2> <len> <len values>`;
      -- prints one status per write, then `_voxel_map | voxel_map_mv | bins | mask getter`
      let rec goE (fuel : Nat) (st : EmitterState) (acc : List String) : List String → EmitterState × List String
        | k :: s0 :: s1 :: s2 :: len :: rest =>
            match fuel with
            | 0 => (st, acc)
            | fuel + 1 =>
              let vals := rest.take (pN len)
              let op : MapOp := if k == "v" then .voxelMap (pN s0, pN s1, pN s2) (ints vals)
                                else .mask (pN s0, pN s1, pN s2) (vals.map pB)
              let r := st.apply op
              goE fuel r.1 (acc ++ [fB r.2]) (rest.drop (pN len))
        | _ => (st, acc)
      let (fin, acc) := goE 64 (EmitterState.new (pN n0, pN n1, pN n2)) [] ops
      let sh := fun (l : List Int) => " ".intercalate (l.map toString)
      " ".intercalate acc ++ s!" | {sh fin.vmap} | {sh fin.mv} | " ++
        (match fin.nbins with | none => "ValueError" | some b => toString b) ++ " | " ++
        " ".intercalate ((maskOf fin.vmap).map fB)
  | "pipe1d" :: px :: ps :: b :: nres :: rest =>
      -- one observe of a fresh 1D pipeline (2D: flattened pixel index): `<pixel> <bins floats>` per task; prints all rows
      let rec results1 : Nat → List String → List (Nat × List Float)
        | 0, _ => []
        | k + 1, p :: ts => let (fs, ts') := takeF (pN b) ts; (pN p, fs) :: results1 k ts'
        | _, _ => []
      let p := (Pipe1D.new : Pipe1D Float).observe (pN px) (pN ps) (pN b) (results1 (pN nres) rest)
      " | ".intercalate (p.matrix.map fFs)
  | "pixproc" :: kind :: b :: nsamp :: rest =>
      -- pixel processor: `<sensitivity> <bins floats>` per add_sample; prints the packed matrix
      let rec samples : Nat → List String → List (List Float × Float)
        | 0, _ => []
        | k + 1, s :: ts => let (fs, ts') := takeF (pN b) ts; (fs, pF s) :: samples k ts'
        | _, _ => []
      fFs (pixelProcess (kind == "power") (pN b) (samples (pN nsamp) rest))
  | ["fmod", x, p] => fF (fmodF (pF x) (pF p))
  | _ => "bad-op"

def main : IO UInt32 := do
  loop (stateless step) (← IO.getStdin) (← IO.getStdout) ()
  return 0
