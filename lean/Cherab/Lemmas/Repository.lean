/-
C06 helper lemmas: the loops of the repository model, seen through the reader's view `(path, inner key) ↦ value`, are
lists of point effects; rendering of paths and inner keys is injective on well-kinded keys.
-/
import Cherab.Model.Repository
import Std.Data.String.ToInt

set_option linter.unusedSimpArgs false

namespace Cherab.Repository

/-! ## association lists and the file system -/

theorem alookup_ainsert {κ ν : Type} [DecidableEq κ] (k k' : κ) (v : ν) (l : List (κ × ν)) :
    alookup k' (ainsert k v l) = if k' = k then some v else alookup k' l := by
  induction l with
  | nil =>
    by_cases h : k' = k
    · simp [ainsert, alookup, h]
    · have : ¬ k = k' := fun e => h e.symm
      simp [ainsert, alookup, h, this]
  | cons hd t ih =>
    obtain ⟨a, b⟩ := hd
    by_cases h1 : a = k
    · by_cases h : k' = k
      · simp [ainsert, alookup, h1, h]
      · have : ¬ k = k' := fun e => h e.symm
        simp [ainsert, alookup, h1, h, this]
    · by_cases h : k' = k
      · subst h
        simp [ainsert, alookup, h1, ih]
      · by_cases h2 : a = k'
        · simp [ainsert, alookup, h, h2]
        · simp [ainsert, alookup, h1, h, h2, ih]

theorem read_write (fs : FS) (p p' : Path) (f : File) :
    (fs.write p f).read p' = if p' = p then some f else fs.read p' := by
  unfold FS.read FS.write; exact alookup_ainsert p p' f fs

theorem at_write (fs : FS) (p p' : Path) (f : File) (k : IKey) :
    (fs.write p f).at p' k = if p' = p then alookup k f else fs.at p' k := by
  unfold FS.at; rw [read_write]; split <;> simp

/-! ## what readers see, and effects on it -/

/-- the reader's view of a file system: value at (path, inner key) -/
abbrev View := Path → IKey → Option Val

inductive Eff
  | put (p : Path) (k : IKey) (v : Val)
  | replace (p : Path) (k : IKey) (v : Val)

def Eff.apply : Eff → View → View
  | .put p k v, σ => fun p' k' => if p' = p then (if k' = k then some v else σ p' k') else σ p' k'
  | .replace p k v, _σ => fun p' k' => if p' = p then (if k' = k then some v else none) else _σ p' k'

def Eff.path : Eff → Path
  | .put p _ _ => p
  | .replace p _ _ => p

def applyEffs : List Eff → View → View
  | [], σ => σ
  | e :: es, σ => applyEffs es (e.apply σ)

theorem applyEffs_append (a b : List Eff) (σ : View) : applyEffs (a ++ b) σ = applyEffs b (applyEffs a σ) := by
  induction a generalizing σ with
  | nil => rfl
  | cons e es ih => simp [applyEffs, ih]

theorem applyEffs_other (es : List Eff) (σ : View) (p : Path) (k : IKey) (h : ∀ e ∈ es, e.path ≠ p) :
    applyEffs es σ p k = σ p k := by
  induction es generalizing σ with
  | nil => rfl
  | cons e es ih =>
    simp only [applyEffs]
    rw [ih _ (fun e' he' => h e' (List.mem_cons_of_mem _ he'))]
    have hne : e.path ≠ p := h e (List.mem_cons_self ..)
    cases e with
    | put q k' v => simp only [Eff.path] at hne; simp [Eff.apply, Ne.symm hne]
    | replace q k' v => simp only [Eff.path] at hne; simp [Eff.apply, Ne.symm hne]

/-! ## pure mirror of the loops -/

/-- check + validate one (inner key, rate) item: the normalised inner key components and the stored value -/
def itemKV (u : UpdFn) (outer : List Arg) (it : List Arg × Rate) : Except Err (List KArg × Val) :=
  match u.innerCheck outer it.1 with
  | some e => .error e
  | none =>
    match u.validate it.2 with
    | .error e => .error e
    | .ok v => .ok (it.1.map Arg.norm, v)

theorem stepInner_eq (u : UpdFn) (outer : List Arg) (c : File) (it : List Arg × Rate) :
    stepInner u outer c it = match itemKV u outer it with
      | .error e => .error e
      | .ok kv => .ok (ainsert (renderIKey kv.1) kv.2 c) := by
  unfold stepInner itemKV ikeyOf
  cases u.innerCheck outer it.1 <;> simp
  cases u.validate it.2 <;> simp

/-- the (inner key, value) pairs accepted before the first rejected item, and the rejection -/
def prefixKV (u : UpdFn) (outer : List Arg) : List (List Arg × Rate) → List (List KArg × Val) × Option Err
  | [] => ([], none)
  | it :: rest =>
    match itemKV u outer it with
    | .error e => ([], some e)
    | .ok kv => (kv :: (prefixKV u outer rest).1, (prefixKV u outer rest).2)

def puts (path : Path) (kvs : List (List KArg × Val)) : List Eff := kvs.map fun kv => .put path (renderIKey kv.1) kv.2
def replaces (path : Path) (kvs : List (List KArg × Val)) : List Eff :=
  kvs.map fun kv => .replace path (renderIKey kv.1) kv.2

theorem loopKey_spec (u : UpdFn) (outer : List Arg) (path : Path) (items : List (List Arg × Rate)) :
    ∀ (c : File) (fs : FS), (∀ k, alookup k c = fs.at path k) →
      (loopKey u outer path c items fs).2 = (prefixKV u outer items).2 ∧
      (loopKey u outer path c items fs).1.at = applyEffs (puts path (prefixKV u outer items).1) fs.at := by
  induction items with
  | nil => intro c fs _; simp [loopKey, prefixKV, puts, applyEffs]
  | cons it rest ih =>
    intro c fs hI
    simp only [loopKey, prefixKV, stepInner_eq]
    cases hkv : itemKV u outer it with
    | error e => simp [puts, applyEffs]
    | ok kv =>
      simp only []
      have hI' : ∀ k, alookup k (ainsert (renderIKey kv.1) kv.2 c) = (fs.write path (ainsert (renderIKey kv.1) kv.2 c)).at path k := by
        intro k; rw [at_write]; simp
      obtain ⟨h1, h2⟩ := ih _ _ hI'
      refine ⟨h1, ?_⟩
      rw [h2]
      simp only [puts, List.map_cons, applyEffs]
      congr 1
      funext p' k'
      rw [at_write]
      simp only [Eff.apply]
      split
      · next hp => subst hp; rw [alookup_ainsert, hI]
      · rfl

theorem foldFile_spec (u : UpdFn) (outer : List Arg) (items : List (List Arg × Rate)) :
    ∀ (c : File), foldFile u outer c items =
      match (prefixKV u outer items).2 with
      | some e => .error e
      | none => .ok ((prefixKV u outer items).1.foldl (fun c kv => ainsert (renderIKey kv.1) kv.2 c) c) := by
  induction items with
  | nil => intro c; simp [foldFile, prefixKV]
  | cons it rest ih =>
    intro c
    simp only [foldFile, prefixKV, stepInner_eq]
    cases hkv : itemKV u outer it with
    | error e => simp
    | ok kv => simp only [ih, List.foldl_cons]

theorem write_fold_view (path : Path) (kvs : List (List KArg × Val)) :
    ∀ (c : File) (σ : View), (∀ k, alookup k c = σ path k) →
      (fun p' k' => if p' = path then alookup k' (kvs.foldl (fun c kv => ainsert (renderIKey kv.1) kv.2 c) c) else σ p' k')
        = applyEffs (puts path kvs) σ := by
  induction kvs with
  | nil =>
    intro c σ hI
    funext p' k'
    simp only [List.foldl_nil, puts, List.map_nil, applyEffs]
    split
    · next hp => subst hp; exact hI k'
    · rfl
  | cons kv t ih =>
    intro c σ hI
    simp only [List.foldl_cons, puts, List.map_cons, applyEffs]
    have hI' : ∀ k, alookup k (ainsert (renderIKey kv.1) kv.2 c) = (Eff.put path (renderIKey kv.1) kv.2).apply σ path k := by
      intro k; rw [alookup_ainsert, hI]; simp [Eff.apply]
    have := ih _ _ hI'
    simp only [puts] at this
    rw [← this]
    funext p' k'
    split
    · rfl
    · next hp => simp [Eff.apply, hp]

theorem loopWhole_spec (u : UpdFn) (outer : List Arg) (path : Path) (items : List (List Arg × Rate)) :
    ∀ (fs : FS),
      (loopWhole u outer path items fs).2 = (prefixKV u outer items).2 ∧
      (loopWhole u outer path items fs).1.at = applyEffs (replaces path (prefixKV u outer items).1) fs.at := by
  induction items with
  | nil => intro fs; simp [loopWhole, prefixKV, replaces, applyEffs]
  | cons it rest ih =>
    intro fs
    simp only [loopWhole, prefixKV, stepInner_eq]
    cases hkv : itemKV u outer it with
    | error e => simp [replaces, applyEffs]
    | ok kv =>
      simp only []
      obtain ⟨h1, h2⟩ := ih (fs.write path (ainsert (renderIKey kv.1) kv.2 []))
      refine ⟨h1, ?_⟩
      rw [h2]
      simp only [replaces, List.map_cons, applyEffs]
      congr 1
      funext p' k'
      rw [at_write]
      simp only [Eff.apply]
      split
      · rw [alookup_ainsert]; simp [alookup]
      · rfl


/-- effects of one file-level entry on the reader's view, and the outcome -/
def entryEffs (u : UpdFn) (tmpl : Option Template) (R : Path) (e : FileEntry) : List Eff × Option Err :=
  match u.precheck e.args with
  | some err => ([], some err)
  | none =>
    match tmpl.bind (·.inst (u.normArgs e.args)) with
    | none => ([], some .attributeError)
    | some rel =>
      match u.pattern with
      | .perKey => (puts (R ++ rel) (prefixKV u e.args e.inner).1, (prefixKV u e.args e.inner).2)
      | .perFile =>
        match (prefixKV u e.args e.inner).2 with
        | some err => ([], some err)
        | none => (puts (R ++ rel) (prefixKV u e.args e.inner).1, none)
      | .whole => (replaces (R ++ rel) (prefixKV u e.args e.inner).1, (prefixKV u e.args e.inner).2)

theorem getD_view (fs : FS) (path : Path) : ∀ k, alookup k ((fs.read path).getD []) = fs.at path k := by
  intro k
  unfold FS.at
  cases fs.read path <;> simp [alookup]

theorem updateEntry_spec (u : UpdFn) (tmpl : Option Template) (R : Path) (e : FileEntry) (fs : FS) :
    (updateEntry u tmpl R e fs).2 = (entryEffs u tmpl R e).2 ∧
    (updateEntry u tmpl R e fs).1.at = applyEffs (entryEffs u tmpl R e).1 fs.at := by
  unfold updateEntry entryEffs
  cases u.precheck e.args with
  | some err => simp [applyEffs]
  | none =>
    simp only []
    cases tmpl.bind (·.inst (u.normArgs e.args)) with
    | none => simp [applyEffs]
    | some rel =>
      simp only []
      cases u.pattern with
      | perKey => exact loopKey_spec u e.args (R ++ rel) e.inner _ fs (getD_view fs _)
      | perFile =>
        simp only [foldFile_spec]
        cases (prefixKV u e.args e.inner).2 with
        | some err => simp [applyEffs]
        | none =>
          simp only [true_and]
          rw [← write_fold_view (R ++ rel) _ _ fs.at (getD_view fs _)]
          funext p' k'
          rw [at_write]
      | whole => exact loopWhole_spec u e.args (R ++ rel) e.inner fs

def seqEffs (f : FileEntry → List Eff × Option Err) : List FileEntry → List Eff × Option Err
  | [] => ([], none)
  | e :: es =>
    match (f e).2 with
    | none => ((f e).1 ++ (seqEffs f es).1, (seqEffs f es).2)
    | some err => ((f e).1, some err)

theorem seqEntries_spec (g : FileEntry → FS → Res) (f : FileEntry → List Eff × Option Err)
    (h : ∀ e fs, (g e fs).2 = (f e).2 ∧ (g e fs).1.at = applyEffs (f e).1 fs.at) (es : List FileEntry) :
    ∀ fs, (seqEntries g es fs).2 = (seqEffs f es).2 ∧ (seqEntries g es fs).1.at = applyEffs (seqEffs f es).1 fs.at := by
  induction es with
  | nil => intro fs; simp [seqEntries, seqEffs, applyEffs]
  | cons e es ih =>
    intro fs
    obtain ⟨h1, h2⟩ := h e fs
    simp only [seqEntries, seqEffs]
    rcases hg : g e fs with ⟨fs', o⟩
    rw [hg] at h1 h2
    simp only at h1 h2
    rw [← h1]
    cases o with
    | none =>
      simp only []
      obtain ⟨i1, i2⟩ := ih fs'
      refine ⟨i1, ?_⟩
      rw [i2, applyEffs_append, h2]
    | some err => simp only []; exact ⟨trivial, h2⟩

/-- effects and outcome of `update_x(inp, root)` -/
def updEffs (T : Tables) (u : UpdFn) (inp : UpdInput) (root : Option Path) : List Eff × Option Err :=
  seqEffs (entryEffs u (T.tmplOfUpd u) (resolve root)) inp

theorem update_spec (T : Tables) (u : UpdFn) (inp : UpdInput) (root : Option Path) (fs : FS) :
    (update T u inp root fs).2 = (updEffs T u (u.prep T inp) root).2 ∧
    (update T u inp root fs).1.at = applyEffs (updEffs T u (u.prep T inp) root).1 fs.at :=
  seqEntries_spec _ _ (fun e fs => updateEntry_spec u _ _ e fs) (u.prep T inp) fs


/-! ## injectivity of the path and key rendering -/

theorem renderSlot_inj {κ : Kind} {a b : KArg} {x : String} (ha : a.hasKind κ = true) (hb : b.hasKind κ = true)
    (h1 : renderSlot κ.slot a = some x) (h2 : renderSlot κ.slot b = some x) : a = b := by
  cases κ <;> cases a <;> cases b <;> simp_all [KArg.hasKind, Kind.slot, renderSlot]
  · rw [← h2] at h1; exact Int.repr_inj.mp h1

theorem renderSlots_length : ∀ (ss : List Slot) (as : List KArg) (cs : List String),
    renderSlots ss as = some cs → cs.length = ss.length := by
  intro ss
  induction ss with
  | nil => intro as cs h; cases as <;> simp_all [renderSlots]
  | cons s ss ih =>
    intro as cs h
    cases as with
    | nil => simp [renderSlots] at h
    | cons a as =>
      simp only [renderSlots] at h
      cases h1 : renderSlot s a <;> cases h2 : renderSlots ss as <;> simp_all
      subst h; simp [ih _ _ h2]

theorem renderSlots_inj : ∀ (ks : List Kind) (as bs : List KArg) (cs : List String),
    kinded as ks = true → kinded bs ks = true →
    renderSlots (ks.map Kind.slot) as = some cs → renderSlots (ks.map Kind.slot) bs = some cs → as = bs := by
  intro ks
  induction ks with
  | nil => intro as bs cs ha hb _ _; cases as <;> cases bs <;> simp_all [kinded]
  | cons k ks ih =>
    intro as bs cs ha hb h1 h2
    cases as with
    | nil => simp [kinded] at ha
    | cons a as =>
      cases bs with
      | nil => simp [kinded] at hb
      | cons b bs =>
        simp only [kinded, Bool.and_eq_true] at ha hb
        simp only [List.map_cons, renderSlots] at h1 h2
        cases r1 : renderSlot k.slot a <;> cases r2 : renderSlots (ks.map Kind.slot) as <;> simp_all
        cases r3 : renderSlot k.slot b <;> cases r4 : renderSlots (ks.map Kind.slot) bs <;> simp_all
        subst h1
        simp only [List.cons.injEq] at h2
        obtain ⟨e1, e2⟩ := h2
        subst e1 e2
        exact ⟨renderSlot_inj ha.1 hb.1 r1 r3, ih _ _ _ ha.2 hb.2 r2 r4⟩

theorem addExt_length (ext : String) : ∀ l : List String, (addExt ext l).length = l.length := by
  intro l
  induction l with
  | nil => rfl
  | cons x t ih =>
    cases t with
    | nil => rfl
    | cons y t => simp only [addExt, List.length_cons] at ih ⊢; omega

theorem addExt_inj (ext : String) : ∀ a b : List String, addExt ext a = addExt ext b → a = b := by
  intro a
  induction a with
  | nil =>
    intro b h
    have := congrArg List.length h
    rw [addExt_length, addExt_length] at this
    cases b <;> simp_all
  | cons x t ih =>
    intro b h
    have hl := congrArg List.length h
    rw [addExt_length, addExt_length] at hl
    cases b with
    | nil => simp at hl
    | cons y s =>
      cases t with
      | nil =>
        cases s with
        | nil =>
          simp only [addExt, List.cons.injEq, and_true] at h
          rw [(String.append_left_inj ext).mp h]
        | cons z s => simp at hl
      | cons x' t =>
        cases s with
        | nil => simp at hl
        | cons z s =>
          simp only [addExt, List.cons.injEq] at h
          rw [h.1, ih _ h.2]

theorem litsClash_ne : ∀ (a b x y : List String), litsClash a b = true → a ++ x ≠ b ++ y := by
  intro a
  induction a with
  | nil => intro b x y h; simp [litsClash] at h
  | cons p a ih =>
    intro b x y h
    cases b with
    | nil => simp [litsClash] at h
    | cons q b =>
      simp only [litsClash, Bool.or_eq_true, bne_iff_ne] at h
      intro e
      simp only [List.cons_append, List.cons.injEq] at e
      rcases h with h | h
      · exact h e.1
      · exact ih b x y h e.2

theorem inst_inj (t : Template) (ks : List Kind) (hs : t.slots = ks.map Kind.slot) (as bs : List KArg) (p : Path)
    (ha : kinded as ks = true) (hb : kinded bs ks = true) (h1 : t.inst as = some p) (h2 : t.inst bs = some p) :
    as = bs := by
  unfold Template.inst at h1 h2
  rw [hs] at h1 h2
  cases r1 : renderSlots (ks.map Kind.slot) as <;> cases r2 : renderSlots (ks.map Kind.slot) bs <;> simp_all
  subst h1
  have := addExt_inj _ _ _ h2
  have := List.append_cancel_left this
  subst this
  exact renderSlots_inj ks as bs _ ha hb r1 r2

theorem inst_disjoint (s t : Template) (hd : s.disjoint t = true) (hx : s.ext = t.ext) (as bs : List KArg) (p : Path)
    (h1 : s.inst as = some p) (h2 : t.inst bs = some p) : False := by
  unfold Template.inst at h1 h2
  rw [hx] at h1
  cases r1 : renderSlots s.slots as <;> cases r2 : renderSlots t.slots bs <;> simp_all
  rename_i c1 c2
  subst h1
  have he := addExt_inj _ _ _ h2
  have hl := congrArg List.length he
  rw [List.length_append, List.length_append, renderSlots_length _ _ _ r1, renderSlots_length _ _ _ r2] at hl
  simp only [Template.disjoint, Bool.or_eq_true, bne_iff_ne] at hd
  rcases hd with hd | hd
  · exact hd hl.symm
  · exact litsClash_ne _ _ _ _ hd he.symm

theorem renderIKey_inj : ∀ (ks : List Kind) (as bs : List KArg), kinded as ks = true → kinded bs ks = true →
    renderIKey as = renderIKey bs → as = bs := by
  intro ks
  induction ks with
  | nil => intro as bs ha hb _; cases as <;> cases bs <;> simp_all [kinded]
  | cons k ks ih =>
    intro as bs ha hb h
    cases as with
    | nil => simp [kinded] at ha
    | cons a as =>
      cases bs with
      | nil => simp [kinded] at hb
      | cons b bs =>
        simp only [kinded, Bool.and_eq_true] at ha hb
        have ht := ih as bs ha.2 hb.2
        cases k <;> cases a <;> cases b <;> simp_all [KArg.hasKind, renderIKey]



/-! ## keys of the property and their location -/

/-- (rate family, file-selecting components, components inside the file): lower-cased symbols, integer charges /
metastables, PEC class, encoded transition -/
structure Key where
  fam : UpdFn
  args : List KArg
  inner : List KArg
  deriving DecidableEq

def Key.ok (k : Key) : Bool := kinded k.args k.fam.sig && kinded k.inner k.fam.innerSig

def Key.loc (T : Tables) (R : Path) (k : Key) : Option (Path × IKey) :=
  ((T.tmplOfUpd k.fam).bind (·.inst k.args)).map fun rel => (R ++ rel, renderIKey k.inner)

/-- the key → value map a view represents -/
def absView (T : Tables) (R : Path) (σ : View) (k : Key) : Option Val :=
  match k.loc T R with
  | some l => σ l.1 l.2
  | none => none

abbrev KV := Key → Option Val

def putKV (k : Key) (v : Val) (m : KV) : KV := fun k' => if k' = k then some v else m k'

def applyPuts : List (Key × Val) → KV → KV
  | [], m => m
  | kv :: t, m => applyPuts t (putKV kv.1 kv.2 m)

theorem mem_allUpd (u : UpdFn) : u ∈ allUpd := by cases u <;> simp [allUpd]
theorem mem_allAdd (a : AddFn) : a ∈ allAdd := by cases a <;> simp [allAdd]
theorem mem_allGet (g : GetFn) : g ∈ allGet := by cases g <;> simp [allGet]
theorem mem_allInstall (i : InstallFn) : i ∈ allInstall := by cases i <;> simp [allInstall]

theorem shapes_of (T : Tables) (h : T.shapesOk = true) (u : UpdFn) :
    ∃ t, T.tmplOfUpd u = some t ∧ t.slots = u.sig.map Kind.slot ∧ t.ext = ".json" := by
  have := List.all_eq_true.mp h u (mem_allUpd u)
  unfold tmplOk at this
  cases ht : T.tmplOfUpd u with
  | none => simp [ht] at this
  | some t =>
    simp only [ht, Bool.and_eq_true, beq_iff_eq] at this
    exact ⟨t, rfl, this.1, this.2⟩

theorem disjoint_of (T : Tables) (h : T.disjointOk = true) (u v : UpdFn) (huv : u ≠ v) (s t : Template)
    (hs : T.tmplOfUpd u = some s) (ht : T.tmplOfUpd v = some t) : s.disjoint t = true := by
  have := List.all_eq_true.mp (List.all_eq_true.mp h u (mem_allUpd u)) v (mem_allUpd v)
  simp only [hs, ht, Bool.or_eq_true, beq_iff_eq] at this
  rcases this with h | h
  · exact absurd h huv
  · exact h

/-- `paths_injective`: two well-kinded keys stored at the same file have the same family and file components -/
theorem path_inj (T : Tables) (hS : T.shapesOk = true) (hD : T.disjointOk = true) (R : Path) (k k' : Key)
    (hk : k.ok = true) (hk' : k'.ok = true) (p : Path) (i i' : IKey)
    (h : k.loc T R = some (p, i)) (h' : k'.loc T R = some (p, i')) : k.fam = k'.fam ∧ k.args = k'.args := by
  obtain ⟨t, ht, hts, hte⟩ := shapes_of T hS k.fam
  obtain ⟨t', ht', hts', hte'⟩ := shapes_of T hS k'.fam
  simp only [Key.ok, Bool.and_eq_true] at hk hk'
  simp only [Key.loc, ht, ht', Option.bind_some, Option.map_eq_some_iff, Prod.mk.injEq] at h h'
  obtain ⟨rel, hr, hp, _⟩ := h
  obtain ⟨rel', hr', hp', _⟩ := h'
  have hrel : rel = rel' := List.append_cancel_left (hp.trans hp'.symm)
  subst hrel
  by_cases hf : k.fam = k'.fam
  · refine ⟨hf, ?_⟩
    rw [← hf] at ht' hk'
    have : t = t' := Option.some.inj (ht.symm.trans ht')
    subst this
    exact inst_inj t _ hts _ _ _ hk.1 hk'.1 hr hr'
  · exact (inst_disjoint t t' (disjoint_of T hD _ _ hf t t' ht ht') (hte.trans hte'.symm) _ _ _ hr hr').elim

theorem loc_inj (T : Tables) (hS : T.shapesOk = true) (hD : T.disjointOk = true) (R : Path) (k k' : Key)
    (hk : k.ok = true) (hk' : k'.ok = true) (l : Path × IKey)
    (h : k.loc T R = some l) (h' : k'.loc T R = some l) : k = k' := by
  obtain ⟨p, i⟩ := l
  obtain ⟨hf, ha⟩ := path_inj T hS hD R k k' hk hk' p i i h h'
  have hi : renderIKey k.inner = renderIKey k'.inner := by
    simp only [Key.loc, Option.map_eq_some_iff, Prod.mk.injEq] at h h'
    obtain ⟨_, _, _, e⟩ := h
    obtain ⟨_, _, _, e'⟩ := h'
    exact e.trans e'.symm
  simp only [Key.ok, Bool.and_eq_true] at hk hk'
  rw [← hf] at hk'
  have := renderIKey_inj _ _ _ hk.2 hk'.2 hi
  cases k; cases k'; simp_all


theorem applyPuts_congr (l : List (Key × Val)) (m m' : KV) (k : Key) (h : m k = m' k) :
    applyPuts l m k = applyPuts l m' k := by
  induction l generalizing m m' with
  | nil => exact h
  | cons kv t ih => exact ih _ _ (by simp [putKV, h])

theorem kinded_nil_left {as : List KArg} (h : kinded as [] = true) : as = [] := by
  cases as <;> simp_all [kinded]

theorem whole_innerSig (u : UpdFn) (h : u.pattern = .whole) : u.innerSig = [] := by
  cases u <;> simp_all [UpdFn.pattern, UpdFn.innerSig]

/-- one effect on the view is one point update of the key → value map (on well-kinded keys) -/
theorem eff_refines (T : Tables) (hS : T.shapesOk = true) (hD : T.disjointOk = true) (R : Path)
    (u : UpdFn) (t : Template) (ht : T.tmplOfUpd u = some t) (nargs : List KArg) (rel : Path)
    (hinst : t.inst nargs = some rel) (hka : kinded nargs u.sig = true) (ik : List KArg)
    (hki : kinded ik u.innerSig = true) (v : Val) (σ : View) (k : Key) (hk : k.ok = true) :
    absView T R ((Eff.put (R ++ rel) (renderIKey ik) v).apply σ) k = putKV ⟨u, nargs, ik⟩ v (absView T R σ) k ∧
    (u.pattern = .whole →
      absView T R ((Eff.replace (R ++ rel) (renderIKey ik) v).apply σ) k = putKV ⟨u, nargs, ik⟩ v (absView T R σ) k) := by
  have hκok : (Key.mk u nargs ik).ok = true := by simp [Key.ok, hka, hki]
  have hκloc : (Key.mk u nargs ik).loc T R = some (R ++ rel, renderIKey ik) := by simp [Key.loc, ht, hinst]
  cases hl : k.loc T R with
  | none =>
    have hne : k ≠ ⟨u, nargs, ik⟩ := by intro e; rw [e, hκloc] at hl; cases hl
    simp [absView, hl, putKV, hne]
  | some l =>
    obtain ⟨p, i⟩ := l
    by_cases hkκ : k = ⟨u, nargs, ik⟩
    · have : (p, i) = (R ++ rel, renderIKey ik) := by
        rw [hkκ, hκloc] at hl; exact (Option.some.inj hl).symm
      simp only [Prod.mk.injEq] at this
      simp [absView, putKV, hkκ, hκloc, Eff.apply]
    · constructor
      · simp only [absView, hl, putKV, hkκ, if_false, Eff.apply]
        split
        · next hp =>
          split
          · next hi =>
            subst hp hi
            exact absurd (loc_inj T hS hD R k _ hk hκok _ hl hκloc) hkκ
          · rfl
        · rfl
      · intro hw
        simp only [absView, hl, putKV, hkκ, if_false, Eff.apply]
        split
        · next hp =>
          subst hp
          exfalso
          obtain ⟨hf, ha⟩ := path_inj T hS hD R k _ hk hκok _ _ _ hl hκloc
          simp only at hf ha
          have hi0 : u.innerSig = [] := whole_innerSig u hw
          simp only [Key.ok, Bool.and_eq_true] at hk
          have hin : k.inner = [] := kinded_nil_left (by rw [← hi0, ← hf]; exact hk.2)
          have hik : ik = [] := kinded_nil_left (by rw [← hi0]; exact hki)
          apply hkκ
          cases k
          simp only at hf ha hin
          rw [hf, ha, hin, hik]
        · rfl

def keyed (u : UpdFn) (nargs : List KArg) (kvs : List (List KArg × Val)) : List (Key × Val) :=
  kvs.map fun kv => (⟨u, nargs, kv.1⟩, kv.2)

theorem puts_refine (T : Tables) (hS : T.shapesOk = true) (hD : T.disjointOk = true) (R : Path)
    (u : UpdFn) (t : Template) (ht : T.tmplOfUpd u = some t) (nargs : List KArg) (rel : Path)
    (hinst : t.inst nargs = some rel) (hka : kinded nargs u.sig = true) (k : Key) (hk : k.ok = true)
    (kvs : List (List KArg × Val)) :
    (∀ kv ∈ kvs, kinded kv.1 u.innerSig = true) → ∀ σ : View,
      absView T R (applyEffs (puts (R ++ rel) kvs) σ) k = applyPuts (keyed u nargs kvs) (absView T R σ) k ∧
      (u.pattern = .whole →
        absView T R (applyEffs (replaces (R ++ rel) kvs) σ) k = applyPuts (keyed u nargs kvs) (absView T R σ) k) := by
  induction kvs with
  | nil => intro _ σ; simp [puts, replaces, keyed, applyEffs, applyPuts]
  | cons kv rest ih =>
    intro hall σ
    have hkv := hall kv (List.mem_cons_self ..)
    have hrest := fun kv' h => hall kv' (List.mem_cons_of_mem _ h)
    obtain ⟨e1, e2⟩ := eff_refines T hS hD R u t ht nargs rel hinst hka kv.1 hkv kv.2 σ k hk
    constructor
    · have := (ih hrest ((Eff.put (R ++ rel) (renderIKey kv.1) kv.2).apply σ)).1
      simp only [puts, keyed, List.map_cons, applyEffs, applyPuts] at this ⊢
      rw [this]
      exact applyPuts_congr _ _ _ _ e1
    · intro hw
      have := (ih hrest ((Eff.replace (R ++ rel) (renderIKey kv.1) kv.2).apply σ)).2 hw
      simp only [replaces, keyed, List.map_cons, applyEffs, applyPuts] at this ⊢
      rw [this]
      exact applyPuts_congr _ _ _ _ (e2 hw)


/-! ## typing of the key parts of an input (the rate data, species validity and charge ranges stay arbitrary) -/

/-- charges / metastables are integers, the PEC class is a string, transitions are pairs; a species position may hold
anything -/
def numOk : List KArg → List Kind → Bool
  | [], [] => true
  | a :: as, k :: ks =>
    (match k, a with
      | .sym, _ => true
      | .num, .num _ => true
      | .str, .str _ => true
      | .tr, .tr _ => true
      | _, _ => false) && numOk as ks
  | _, _ => false

def EntryTyped (u : UpdFn) (e : FileEntry) : Prop :=
  numOk (u.normArgs e.args) u.sig = true ∧ ∀ it ∈ e.inner, kinded (it.1.map Arg.norm) u.innerSig = true

def InputTyped (u : UpdFn) (inp : UpdInput) : Prop := ∀ e ∈ inp, EntryTyped u e

theorem kinded_of_render : ∀ (ks : List Kind) (as : List KArg) (cs : List String), numOk as ks = true →
    renderSlots (ks.map Kind.slot) as = some cs → kinded as ks = true := by
  intro ks
  induction ks with
  | nil => intro as cs h _; cases as <;> simp_all [numOk, kinded]
  | cons k ks ih =>
    intro as cs h hr
    cases as with
    | nil => simp [numOk] at h
    | cons a as =>
      simp only [numOk, Bool.and_eq_true] at h
      simp only [List.map_cons, renderSlots] at hr
      cases r1 : renderSlot k.slot a <;> cases r2 : renderSlots (ks.map Kind.slot) as <;> simp_all
      simp only [kinded, Bool.and_eq_true]
      refine ⟨?_, ih as _ h.2 r2⟩
      cases k <;> cases a <;> simp_all [KArg.hasKind, Kind.slot, renderSlot]

theorem prefixKV_kinded (u : UpdFn) (outer : List Arg) (ks : List Kind) (items : List (List Arg × Rate))
    (h : ∀ it ∈ items, kinded (it.1.map Arg.norm) ks = true) :
    ∀ kv ∈ (prefixKV u outer items).1, kinded kv.1 ks = true := by
  induction items with
  | nil => intro kv hkv; simp [prefixKV] at hkv
  | cons it rest ih =>
    intro kv hkv
    simp only [prefixKV] at hkv
    cases hi : itemKV u outer it with
    | error e => simp [hi] at hkv
    | ok kv0 =>
      simp only [hi, List.mem_cons] at hkv
      rcases hkv with rfl | hkv
      · have : kv.1 = it.1.map Arg.norm := by
          unfold itemKV at hi
          split at hi
          · cases hi
          · split at hi
            · cases hi
            · cases hi; rfl
        rw [this]; exact h it (List.mem_cons_self ..)
      · exact ih (fun it' h' => h it' (List.mem_cons_of_mem _ h')) kv hkv

/-- the point updates one file-level entry performs on the key → value map, and the outcome -/
def entryPuts (T : Tables) (u : UpdFn) (e : FileEntry) : List (Key × Val) × Option Err :=
  match u.precheck e.args with
  | some err => ([], some err)
  | none =>
    match (T.tmplOfUpd u).bind (·.inst (u.normArgs e.args)) with
    | none => ([], some .attributeError)
    | some _ =>
      match u.pattern with
      | .perFile =>
        match (prefixKV u e.args e.inner).2 with
        | some err => ([], some err)
        | none => (keyed u (u.normArgs e.args) (prefixKV u e.args e.inner).1, none)
      | _ => (keyed u (u.normArgs e.args) (prefixKV u e.args e.inner).1, (prefixKV u e.args e.inner).2)

theorem entry_refines (T : Tables) (hS : T.shapesOk = true) (hD : T.disjointOk = true) (R : Path) (u : UpdFn)
    (e : FileEntry) (hT : EntryTyped u e) (σ : View) (k : Key) (hk : k.ok = true) :
    (entryEffs u (T.tmplOfUpd u) R e).2 = (entryPuts T u e).2 ∧
    absView T R (applyEffs (entryEffs u (T.tmplOfUpd u) R e).1 σ) k = applyPuts (entryPuts T u e).1 (absView T R σ) k := by
  unfold entryEffs entryPuts
  cases u.precheck e.args with
  | some err => simp [applyEffs, applyPuts]
  | none =>
    simp only []
    obtain ⟨t, ht, hts, _⟩ := shapes_of T hS u
    cases hinst : (T.tmplOfUpd u).bind (·.inst (u.normArgs e.args)) with
    | none => simp [applyEffs, applyPuts]
    | some rel =>
      simp only []
      simp only [ht, Option.bind_some] at hinst
      have hka : kinded (u.normArgs e.args) u.sig = true := by
        have := hinst
        unfold Template.inst at this
        rw [hts] at this
        cases r : renderSlots (u.sig.map Kind.slot) (u.normArgs e.args) with
        | none => simp [r] at this
        | some cs => exact kinded_of_render _ _ _ hT.1 r
      have hall := prefixKV_kinded u e.args u.innerSig e.inner hT.2
      have key := puts_refine T hS hD R u t ht _ rel hinst hka k hk _ hall σ
      cases hp : u.pattern with
      | perKey => exact ⟨rfl, key.1⟩
      | perFile =>
        simp only []
        cases (prefixKV u e.args e.inner).2 with
        | some err => simp [applyEffs, applyPuts]
        | none => exact ⟨rfl, key.1⟩
      | whole => exact ⟨rfl, key.2 hp⟩

def seqPuts (f : FileEntry → List (Key × Val) × Option Err) : List FileEntry → List (Key × Val) × Option Err
  | [] => ([], none)
  | e :: es =>
    match (f e).2 with
    | none => ((f e).1 ++ (seqPuts f es).1, (seqPuts f es).2)
    | some err => ((f e).1, some err)

theorem applyPuts_append (a b : List (Key × Val)) (m : KV) : applyPuts (a ++ b) m = applyPuts b (applyPuts a m) := by
  induction a generalizing m with
  | nil => rfl
  | cons e es ih => simp [applyPuts, ih]

/-- the point updates `update_x(inp, root)` performs, and its outcome — computed from the input alone -/
def updPuts (T : Tables) (u : UpdFn) (inp : UpdInput) : List (Key × Val) × Option Err :=
  seqPuts (entryPuts T u) inp

theorem seq_refines (T : Tables) (hS : T.shapesOk = true) (hD : T.disjointOk = true) (R : Path) (u : UpdFn)
    (k : Key) (hk : k.ok = true) (inp : UpdInput) (hT : InputTyped u inp) : ∀ σ : View,
    (seqEffs (entryEffs u (T.tmplOfUpd u) R) inp).2 = (seqPuts (entryPuts T u) inp).2 ∧
    absView T R (applyEffs (seqEffs (entryEffs u (T.tmplOfUpd u) R) inp).1 σ) k
      = applyPuts (seqPuts (entryPuts T u) inp).1 (absView T R σ) k := by
  induction inp with
  | nil => intro σ; simp [seqEffs, seqPuts, applyEffs, applyPuts]
  | cons e es ih =>
    intro σ
    have hTe := hT e (List.mem_cons_self ..)
    have hTs : InputTyped u es := fun e' h => hT e' (List.mem_cons_of_mem _ h)
    obtain ⟨h1, h2⟩ := entry_refines T hS hD R u e hTe σ k hk
    simp only [seqEffs, seqPuts]
    rw [h1]
    cases (entryPuts T u e).2 with
    | some err => exact ⟨rfl, h2⟩
    | none =>
      simp only []
      obtain ⟨i1, i2⟩ := ih hTs (applyEffs (entryEffs u (T.tmplOfUpd u) R e).1 σ)
      refine ⟨i1, ?_⟩
      rw [applyEffs_append, applyPuts_append, i2]
      exact applyPuts_congr _ _ _ _ h2

/-- shape of an entry: everything but the rate dictionaries -/
def FileEntry.shape (e : FileEntry) : List Arg × List (List Arg) := (e.args, e.inner.map Prod.fst)

theorem pecReindex_shape (inp : UpdInput) : (pecReindex inp).map FileEntry.shape = inp.map FileEntry.shape := by
  unfold pecReindex
  rw [List.map_map]
  apply List.map_congr_left
  intro e _
  simp only [Function.comp]
  split
  · split
    · rfl
    · simp [FileEntry.shape, List.map_map, Function.comp_def]
  · rfl

/-- what `update_x` iterates over has the keys of what it was given (only rate dictionaries may be re-fetched) -/
theorem prep_shape (T : Tables) (u : UpdFn) (inp : UpdInput) :
    (u.prep T inp).map FileEntry.shape = inp.map FileEntry.shape := by
  unfold UpdFn.prep
  split
  · split
    · exact pecReindex_shape inp
    · rfl
  · rfl

theorem typed_of_shape (u : UpdFn) (a b : UpdInput) (h : a.map FileEntry.shape = b.map FileEntry.shape)
    (hb : InputTyped u b) : InputTyped u a := by
  intro e he
  have : e.shape ∈ b.map FileEntry.shape := h ▸ List.mem_map_of_mem he
  obtain ⟨e', he', hs⟩ := List.mem_map.mp this
  obtain ⟨h1, h2⟩ := hb e' he'
  simp only [FileEntry.shape, Prod.mk.injEq] at hs
  refine ⟨by rw [← hs.1]; exact h1, ?_⟩
  intro it hit
  have : it.1 ∈ e.inner.map Prod.fst := List.mem_map_of_mem hit
  rw [← hs.2] at this
  obtain ⟨it', hit', e1⟩ := List.mem_map.mp this
  rw [← e1]; exact h2 it' hit'

theorem prep_typed (T : Tables) (u : UpdFn) (inp : UpdInput) (h : InputTyped u inp) : InputTyped u (u.prep T inp) :=
  typed_of_shape u _ _ (prep_shape T u inp) h

/-- **refinement of one `update_*` call**: seen through the getters' key → value map, the call is the list of point
updates `updPuts` of the dictionary it iterates (`prep`: the dictionary it was given — except that `update_pec_rates`,
while `pecReindexes`, fetches the rate of an entry whose class key is not lower-case from the lower-case class entry),
and its outcome is `updPuts.2` -/
theorem update_refines (T : Tables) (hS : T.shapesOk = true) (hD : T.disjointOk = true) (u : UpdFn) (inp : UpdInput)
    (hT : InputTyped u inp) (root : Option Path) (fs : FS) (k : Key) (hk : k.ok = true) :
    (update T u inp root fs).2 = (updPuts T u (u.prep T inp)).2 ∧
    absView T (resolve root) (update T u inp root fs).1.at k
      = applyPuts (updPuts T u (u.prep T inp)).1 (absView T (resolve root) fs.at) k := by
  obtain ⟨s1, s2⟩ := update_spec T u inp root fs
  obtain ⟨r1, r2⟩ := seq_refines T hS hD (resolve root) u k hk (u.prep T inp) (prep_typed T u inp hT) fs.at
  refine ⟨s1.trans r1, ?_⟩
  rw [s2]; exact r2



/-! ## last write wins, made explicit -/

/-- the value of the last point update of `k` in the list, if any -/
def lastWrite : List (Key × Val) → Key → Option Val
  | [], _ => none
  | kv :: t, k =>
    match lastWrite t k with
    | some v => some v
    | none => if k = kv.1 then some kv.2 else none

theorem applyPuts_lastWrite (l : List (Key × Val)) (m : KV) (k : Key) :
    applyPuts l m k = match lastWrite l k with
      | some v => some v
      | none => m k := by
  induction l generalizing m with
  | nil => rfl
  | cons kv t ih =>
    simp only [applyPuts, lastWrite, ih]
    cases lastWrite t k with
    | some v => rfl
    | none => simp only [putKV]; split <;> rfl

theorem lastWrite_none_of_not_mem (l : List (Key × Val)) (k : Key) (h : k ∉ l.map Prod.fst) : lastWrite l k = none := by
  induction l with
  | nil => rfl
  | cons kv t ih =>
    simp only [List.map_cons, List.mem_cons, not_or] at h
    simp [lastWrite, ih h.2, h.1]

theorem applyPuts_not_mem (l : List (Key × Val)) (m : KV) (k : Key) (h : k ∉ l.map Prod.fst) :
    applyPuts l m k = m k := by
  rw [applyPuts_lastWrite, lastWrite_none_of_not_mem l k h]

theorem applyPuts_isSome (l : List (Key × Val)) (m : KV) (k : Key) (h : (m k).isSome = true) :
    (applyPuts l m k).isSome = true := by
  rw [applyPuts_lastWrite]; cases lastWrite l k <;> simp [h]

theorem applyPuts_snoc (l : List (Key × Val)) (m : KV) (k : Key) (v : Val) :
    applyPuts (l ++ [(k, v)]) m k = some v := by
  rw [applyPuts_append]; simp [applyPuts, putKV]

/-! ## the keys an update addresses -/

/-- every key the nested dictionary addresses, in iteration order -/
def targets (u : UpdFn) (inp : UpdInput) : List Key :=
  inp.flatMap fun e => e.inner.map fun it => ⟨u, u.normArgs e.args, it.1.map Arg.norm⟩

theorem targets_of_shape (u : UpdFn) (a b : UpdInput) (h : a.map FileEntry.shape = b.map FileEntry.shape) :
    targets u a = targets u b := by
  have key : ∀ inp : UpdInput, targets u inp =
      (inp.map FileEntry.shape).flatMap fun s => s.2.map fun k => Key.mk u (u.normArgs s.1) (k.map Arg.norm) := by
    intro inp
    simp [targets, List.flatMap_map, FileEntry.shape, List.map_map, Function.comp_def]
  rw [key a, key b, h]

/-- the keys a call addresses are those of the dictionary it was given -/
theorem targets_prep (T : Tables) (u : UpdFn) (inp : UpdInput) : targets u (u.prep T inp) = targets u inp :=
  targets_of_shape u _ _ (prep_shape T u inp)

theorem prefixKV_sub (u : UpdFn) (outer : List Arg) (items : List (List Arg × Rate)) :
    ∀ kv ∈ (prefixKV u outer items).1, ∃ it ∈ items, kv.1 = it.1.map Arg.norm ∧ u.validate it.2 = .ok kv.2 := by
  induction items with
  | nil => intro kv h; simp [prefixKV] at h
  | cons it rest ih =>
    intro kv h
    simp only [prefixKV] at h
    cases hi : itemKV u outer it with
    | error e => simp [hi] at h
    | ok kv0 =>
      simp only [hi, List.mem_cons] at h
      rcases h with rfl | h
      · refine ⟨it, List.mem_cons_self .., ?_⟩
        unfold itemKV at hi
        split at hi
        · cases hi
        · split at hi
          · cases hi
          · next v hv => cases hi; exact ⟨rfl, hv⟩
      · obtain ⟨it', hm, h'⟩ := ih kv h
        exact ⟨it', List.mem_cons_of_mem _ hm, h'⟩

theorem prefixKV_complete (u : UpdFn) (outer : List Arg) (items : List (List Arg × Rate))
    (h : (prefixKV u outer items).2 = none) :
    (prefixKV u outer items).1.map Prod.fst = items.map fun it => it.1.map Arg.norm := by
  induction items with
  | nil => rfl
  | cons it rest ih =>
    simp only [prefixKV] at h ⊢
    cases hi : itemKV u outer it with
    | error e => simp [hi] at h
    | ok kv0 =>
      simp only [hi] at h ⊢
      simp only [List.map_cons, ih h, List.cons.injEq, and_true]
      unfold itemKV at hi
      split at hi
      · cases hi
      · split at hi
        · cases hi
        · cases hi; rfl

theorem entryPuts_sub (T : Tables) (u : UpdFn) (e : FileEntry) :
    ∀ kv ∈ (entryPuts T u e).1, ∃ it ∈ e.inner,
      kv.1 = ⟨u, u.normArgs e.args, it.1.map Arg.norm⟩ ∧ u.validate it.2 = .ok kv.2 := by
  intro kv h
  have key : ∀ kv ∈ keyed u (u.normArgs e.args) (prefixKV u e.args e.inner).1, ∃ it ∈ e.inner,
      kv.1 = ⟨u, u.normArgs e.args, it.1.map Arg.norm⟩ ∧ u.validate it.2 = .ok kv.2 := by
    intro kv h
    simp only [keyed, List.mem_map] at h
    obtain ⟨kv0, hm, rfl⟩ := h
    obtain ⟨it, hit, h1, h2⟩ := prefixKV_sub u e.args e.inner kv0 hm
    exact ⟨it, hit, by simp [h1], h2⟩
  unfold entryPuts at h
  split at h
  · simp at h
  · split at h
    · simp at h
    · split at h
      · split at h
        · simp at h
        · exact key kv h
      · exact key kv h

/-- every point update of a call is one of the keys the call addresses, with the validated rate passed for it -/
theorem updPuts_sub (T : Tables) (u : UpdFn) (inp : UpdInput) :
    ∀ kv ∈ (updPuts T u inp).1, ∃ e ∈ inp, ∃ it ∈ e.inner,
      kv.1 = ⟨u, u.normArgs e.args, it.1.map Arg.norm⟩ ∧ u.validate it.2 = .ok kv.2 := by
  unfold updPuts
  induction inp with
  | nil => intro kv h; simp [seqPuts] at h
  | cons e es ih =>
    intro kv h
    simp only [seqPuts] at h
    have he := entryPuts_sub T u e
    split at h
    · simp only [List.mem_append] at h
      rcases h with h | h
      · obtain ⟨it, hit, hh⟩ := he kv h
        exact ⟨e, List.mem_cons_self .., it, hit, hh⟩
      · obtain ⟨e', he', hh⟩ := ih kv h
        exact ⟨e', List.mem_cons_of_mem _ he', hh⟩
    · obtain ⟨it, hit, hh⟩ := he kv h
      exact ⟨e, List.mem_cons_self .., it, hit, hh⟩

theorem updPuts_keys_sub (T : Tables) (u : UpdFn) (inp : UpdInput) :
    ∀ k ∈ (updPuts T u inp).1.map Prod.fst, k ∈ targets u inp := by
  intro k hk
  simp only [List.mem_map] at hk
  obtain ⟨kv, hm, rfl⟩ := hk
  obtain ⟨e, he, it, hit, h1, _⟩ := updPuts_sub T u inp kv hm
  simp only [targets, List.mem_flatMap, List.mem_map]
  exact ⟨e, he, it, hit, h1.symm⟩

theorem entryPuts_complete (T : Tables) (u : UpdFn) (e : FileEntry) (h : (entryPuts T u e).2 = none) :
    (entryPuts T u e).1.map Prod.fst = e.inner.map fun it => ⟨u, u.normArgs e.args, it.1.map Arg.norm⟩ := by
  have key : (prefixKV u e.args e.inner).2 = none →
      (keyed u (u.normArgs e.args) (prefixKV u e.args e.inner).1).map Prod.fst
        = e.inner.map fun it => ⟨u, u.normArgs e.args, it.1.map Arg.norm⟩ := by
    intro h0
    have := prefixKV_complete u e.args e.inner h0
    simp only [keyed, List.map_map]
    have h2 : ((prefixKV u e.args e.inner).1.map Prod.fst).map (fun i => Key.mk u (u.normArgs e.args) i)
        = (e.inner.map fun it => it.1.map Arg.norm).map (fun i => Key.mk u (u.normArgs e.args) i) := by rw [this]
    simpa [List.map_map, Function.comp_def] using h2
  unfold entryPuts at h ⊢
  split at h
  · simp at h
  · split at h
    · simp at h
    · split at h
      · split at h
        · simp at h
        · next h0 => simp only [h0]; exact key h0
      · exact key h

/-- a call that is not rejected performs a point update for *every* key it addresses, in order -/
theorem updPuts_complete (T : Tables) (u : UpdFn) (inp : UpdInput) (h : (updPuts T u inp).2 = none) :
    (updPuts T u inp).1.map Prod.fst = targets u inp := by
  unfold updPuts targets at *
  induction inp with
  | nil => rfl
  | cons e es ih =>
    simp only [seqPuts] at h ⊢
    split at h
    · next h0 =>
      simp only [h0, List.map_append, List.flatMap_cons]
      rw [entryPuts_complete T u e h0, ih h]
    · simp at h



/-! ## files outside the repository path are never touched -/

theorem loopKey_read (u : UpdFn) (outer : List Arg) (path p : Path) (hp : p ≠ path) (items : List (List Arg × Rate)) :
    ∀ (c : File) (fs : FS), (loopKey u outer path c items fs).1.read p = fs.read p := by
  induction items with
  | nil => intro c fs; rfl
  | cons it rest ih =>
    intro c fs
    simp only [loopKey]
    cases stepInner u outer c it with
    | error e => rfl
    | ok c' => simp only []; rw [ih, read_write]; simp [hp]

theorem loopWhole_read (u : UpdFn) (outer : List Arg) (path p : Path) (hp : p ≠ path) (items : List (List Arg × Rate)) :
    ∀ (fs : FS), (loopWhole u outer path items fs).1.read p = fs.read p := by
  induction items with
  | nil => intro fs; rfl
  | cons it rest ih =>
    intro fs
    simp only [loopWhole]
    cases stepInner u outer [] it with
    | error e => rfl
    | ok c' => simp only []; rw [ih, read_write]; simp [hp]

theorem updateEntry_read (u : UpdFn) (tmpl : Option Template) (R : Path) (e : FileEntry) (fs : FS) (p : Path)
    (hp : ¬ R <+: p) : (updateEntry u tmpl R e fs).1.read p = fs.read p := by
  unfold updateEntry
  cases u.precheck e.args with
  | some err => rfl
  | none =>
    simp only []
    cases tmpl.bind (·.inst (u.normArgs e.args)) with
    | none => rfl
    | some rel =>
      have hne : p ≠ R ++ rel := by intro h; exact hp (h ▸ List.prefix_append R rel)
      simp only []
      cases u.pattern with
      | perKey => exact loopKey_read u e.args _ p hne e.inner _ fs
      | perFile =>
        simp only []
        cases foldFile u e.args ((fs.read (R ++ rel)).getD []) e.inner with
        | error err => rfl
        | ok c => simp only []; rw [read_write]; simp [hne]
      | whole => exact loopWhole_read u e.args _ p hne e.inner fs

theorem seqEntries_read (g : FileEntry → FS → Res) (p : Path) (h : ∀ e fs, (g e fs).1.read p = fs.read p)
    (es : List FileEntry) : ∀ fs, (seqEntries g es fs).1.read p = fs.read p := by
  induction es with
  | nil => intro fs; rfl
  | cons e es ih =>
    intro fs
    simp only [seqEntries]
    rcases hg : g e fs with ⟨fs', o⟩
    have := h e fs
    rw [hg] at this
    cases o with
    | none => simp only []; rw [ih, this]
    | some err => exact this

/-- `update_x(…, root)` leaves every file that is not under `resolve root` exactly as it was -/
theorem update_read (T : Tables) (u : UpdFn) (inp : UpdInput) (root : Option Path) (fs : FS) (p : Path)
    (hp : ¬ resolve root <+: p) : (update T u inp root fs).1.read p = fs.read p :=
  seqEntries_read _ p (fun e fs => updateEntry_read u _ _ e fs p hp) (u.prep T inp) fs

theorem add_read (T : Tables) (a : AddFn) (args : List Arg) (items : List (List Arg × Rate)) (root : Option Path)
    (fs : FS) (p : Path) (hp : ¬ resolve root <+: p) : (add T a args items root fs).1.read p = fs.read p :=
  seqEntries_read _ p (fun e fs => updateEntry_read _ _ _ e fs p hp) _ fs

theorem installSeq_read (T : Tables) (root : Option Path) (p : Path) (hp : ¬ resolve root <+: p) :
    ∀ (calls : List (UpdFn × Bool)) (inps : List UpdInput) (fs : FS), (∀ c ∈ calls, c.2 = true) →
      (installSeq T calls inps root fs).1.read p = fs.read p := by
  intro calls
  induction calls with
  | nil => intro inps fs _; rfl
  | cons c cs ih =>
    intro inps fs hall
    obtain ⟨u, passes⟩ := c
    cases inps with
    | nil => rfl
    | cons inp inps =>
      have hpass : passes = true := hall (u, passes) (List.mem_cons_self ..)
      subst hpass
      simp only [installSeq, if_true]
      have h1 := update_read T u inp root fs p hp
      rcases hu : update T u inp root fs with ⟨fs', o⟩
      rw [hu] at h1
      cases o with
      | none => simp only []; rw [ih inps fs' (fun c h => hall c (List.mem_cons_of_mem _ h)), h1]
      | some err => exact h1

theorem passes_of_rootPassed (T : Tables) (h : T.rootPassed = true) (a b : String) : T.passes a b = true := by
  simp only [Tables.rootPassed, Bool.and_eq_true] at h
  unfold Tables.passes
  cases hf : T.frontCalls.find? (fun c => c.1 == a && c.2.1 == b) with
  | none => rfl
  | some c => exact List.all_eq_true.mp h.2 c (List.mem_of_find?_eq_some hf)

/-- `install_files(…, root)` touches nothing outside `resolve root` when every front-end call hands the root on -/
theorem installFiles_read (T : Tables) (hR : T.rootPassed = true) (root : Option Path) (p : Path)
    (hp : ¬ resolve root <+: p) : ∀ (cfg : List (InstallFn × List UpdInput)) (fs : FS),
    (installFiles T cfg root fs).1.read p = fs.read p := by
  have hI : ∀ i, ∀ c ∈ T.installCalls i, c.2 = true := by
    intro i
    simp only [Tables.rootPassed, Bool.and_eq_true] at hR
    cases i <;> exact List.all_eq_true.mp (List.all_eq_true.mp hR.1 _ (by simp [allInstall]))
  intro cfg
  induction cfg with
  | nil => intro fs; rfl
  | cons c cs ih =>
    intro fs
    obtain ⟨i, inps⟩ := c
    simp only [installFiles, passes_of_rootPassed T hR, if_true]
    have h1 : (install T i inps root fs).1.read p = fs.read p := installSeq_read T root p hp _ inps fs (hI i)
    rcases hu : install T i inps root fs with ⟨fs', o⟩
    rw [hu] at h1
    cases o with
    | none => simp only []; rw [ih fs', h1]
    | some err => exact h1

theorem populate_read (T : Tables) (hR : T.rootPassed = true) (cfg : List (InstallFn × List UpdInput)) (wl : UpdInput)
    (root : Option Path) (fs : FS) (p : Path) (hp : ¬ resolve root <+: p) :
    (populate T cfg wl root fs).1.read p = fs.read p := by
  simp only [populate, passes_of_rootPassed T hR, if_true]
  have h1 := installFiles_read T hR root p hp cfg fs
  rcases hu : installFiles T cfg root fs with ⟨fs', o⟩
  rw [hu] at h1
  cases o with
  | none => simp only []; rw [update_read T .wavelength wl root fs' p hp, h1]
  | some err => exact h1

/-! ## add_* and install_* in terms of update_* -/

theorem addMatches_of (T : Tables) (h : T.addMatches = true) (a : AddFn) :
    T.famOfAdd a = a.own ∧ T.tmplOfAdd a = T.tmplOfUpd a.own ∧ T.addFixed a = a.ownFixed := by
  have := List.all_eq_true.mp h a (mem_allAdd a)
  simpa [Bool.and_eq_true, beq_iff_eq, and_assoc] using this

theorem getMatches_of (T : Tables) (h : T.getMatches = true) (g : GetFn) :
    T.getReads g = T.tmplOfUpd g.own ∧ T.getFixed g = g.ownFixed := by
  have := List.all_eq_true.mp h g (mem_allGet g)
  simpa [Bool.and_eq_true, beq_iff_eq] using this

theorem rootPassed_of (T : Tables) (h : T.rootPassed = true) (i : InstallFn) : ∀ c ∈ T.installCalls i, c.2 = true := by
  simp only [Tables.rootPassed, Bool.and_eq_true] at h
  exact List.all_eq_true.mp (List.all_eq_true.mp h.1 i (mem_allInstall i))

theorem lower_excitation : lower "excitation" = "excitation" := by
  apply String.toList_injective; simp [lower, String.toLower, String.toList_map]

theorem lower_recombination : lower "recombination" = "recombination" := by
  apply String.toList_injective; simp [lower, String.toLower, String.toList_map]

theorem pecReindex_lower (inp : UpdInput) (h : ∀ e ∈ inp, ∀ c rest, e.args = .str c :: rest → lower c = c) :
    pecReindex inp = inp := by
  unfold pecReindex
  conv => rhs; rw [← List.map_id inp]
  apply List.map_congr_left
  intro e he
  simp only [id]
  split
  · next c rest hargs => simp [h e he c rest hargs]
  · rfl

/-- the dictionaries the `add_*` functions build carry the lower-case class of the family: nothing is re-fetched -/
theorem prep_wrap (T : Tables) (a : AddFn) (hf : T.addFixed a = a.ownFixed) (args : List Arg)
    (items : List (List Arg × Rate)) : a.own.prep T (a.wrap T args items) = a.wrap T args items := by
  have key : ∀ (cls : String), lower cls = cls → ∀ (inp : UpdInput),
      (∀ e ∈ inp, ∀ c rest, e.args = .str c :: rest → c = cls) → UpdFn.prep T .pec inp = inp := by
    intro cls hc inp hall
    simp only [UpdFn.prep]
    split
    · exact pecReindex_lower inp (fun e he c rest h => (hall e he c rest h) ▸ hc)
    · rfl
  cases a
  case pecExcitation =>
    apply key "excitation" lower_excitation
    intro e he c rest hargs
    simp only [AddFn.ownFixed] at hf
    unfold AddFn.wrap at he
    split at he <;> simp_all
  case pecRecombination =>
    apply key "recombination" lower_recombination
    intro e he c rest hargs
    simp only [AddFn.ownFixed] at hf
    unfold AddFn.wrap at he
    split at he <;> simp_all
  all_goals rfl

/-- `add_matches_update` (generic half): if the tables say so, `add_y(args, rate, root)` *is* `update_<own family>` of
the dictionary `wrap` builds -/
theorem add_eq_update (T : Tables) (h : T.addMatches = true) (a : AddFn) (args : List Arg)
    (items : List (List Arg × Rate)) (root : Option Path) (fs : FS) :
    add T a args items root fs = update T a.own (a.wrap T args items) root fs := by
  obtain ⟨h1, h2, h3⟩ := addMatches_of T h a
  unfold add update
  rw [h1, h2, prep_wrap T a h3]

/-- all `update_*` calls of a front-end receive the caller's root -/
def installAll (T : Tables) : List (UpdFn × Bool) → List UpdInput → Option Path → FS → Res
  | (u, _) :: cs, inp :: inps, root, fs =>
    match update T u inp root fs with
    | (fs', none) => installAll T cs inps root fs'
    | r => r
  | _, _, _, fs => (fs, none)

theorem installSeq_eq (T : Tables) (root : Option Path) :
    ∀ (calls : List (UpdFn × Bool)) (inps : List UpdInput) (fs : FS), (∀ c ∈ calls, c.2 = true) →
      installSeq T calls inps root fs = installAll T calls inps root fs := by
  intro calls
  induction calls with
  | nil => intro inps fs _; rfl
  | cons c cs ih =>
    intro inps fs hall
    obtain ⟨u, passes⟩ := c
    cases inps with
    | nil => rfl
    | cons inp inps =>
      have hpass : passes = true := hall (u, passes) (List.mem_cons_self ..)
      subst hpass
      simp only [installSeq, installAll, if_true]
      rcases update T u inp root fs with ⟨fs', o⟩
      cases o with
      | none => exact ih inps fs' (fun c h => hall c (List.mem_cons_of_mem _ h))
      | some err => rfl



/-! ## the read path -/

/-- the key a `get_z(args…)` call asks for -/
def getKey (g : GetFn) (args : List Arg) : Key :=
  let args' := match g.ownFixed with
    | some c => Arg.str c :: args
    | none => args
  ⟨g.own, (args'.take g.own.arity).map Arg.norm, (args'.drop g.own.arity).map Arg.norm⟩

/-- `get_z` unfolded once, in terms of the location of the requested key -/
theorem get_eq (T : Tables) (h : T.getMatches = true) (g : GetFn) (args : List Arg) (root : Option Path) (fs : FS) :
    get T g args root fs =
      match (getKey g args).loc T (resolve root) with
      | none => .error .attributeError
      | some l =>
        match fs.read l.1 with
        | none => .error .runtimeError
        | some file =>
          match g.own.getKind with
          | .keyed =>
            match alookup l.2 file with
            | some v => .ok [(l.2, v)]
            | none => .error .runtimeError
          | .prefixed =>
            match file.filter (fun kv => kv.1.head? == l.2.head?) with
            | [] => .error .runtimeError
            | r => .ok r := by
  obtain ⟨h1, h2⟩ := getMatches_of T h g
  unfold get getKey Key.loc
  simp only [h1, h2, ikeyOf]
  cases (T.tmplOfUpd g.own).bind (·.inst ((List.take g.own.arity (match g.ownFixed with
      | some c => Arg.str c :: args
      | none => args)).map Arg.norm)) <;> rfl

/-- getters of the keyed families return the value of the key → value map at the requested key, RuntimeError when it
has none (AttributeError when an argument has no `.symbol`) -/
theorem get_keyed (T : Tables) (h : T.getMatches = true) (g : GetFn) (hk : g.own.getKind = .keyed) (args : List Arg)
    (root : Option Path) (fs : FS) :
    get T g args root fs =
      match (getKey g args).loc T (resolve root) with
      | none => .error .attributeError
      | some _ =>
        match absView T (resolve root) fs.at (getKey g args) with
        | some v => .ok [(renderIKey (getKey g args).inner, v)]
        | none => .error .runtimeError := by
  rw [get_eq T h]
  unfold absView
  cases hl : (getKey g args).loc T (resolve root) with
  | none => rfl
  | some l =>
    have hi : l.2 = renderIKey (getKey g args).inner := by
      simp only [Key.loc, Option.map_eq_some_iff] at hl
      obtain ⟨_, _, rfl⟩ := hl; rfl
    simp only [hk, FS.at]
    cases fs.read l.1 with
    | none => rfl
    | some file =>
      simp only [Option.bind_some]
      cases alookup l.2 file <;> simp [hi]

theorem alookup_filter {ν : Type} (P : IKey → Bool) (l : List (IKey × ν)) (k : IKey) (hk : P k = true) :
    alookup k (l.filter fun kv => P kv.1) = alookup k l := by
  induction l with
  | nil => rfl
  | cons hd t ih =>
    obtain ⟨a, b⟩ := hd
    by_cases ha : a = k
    · subst ha; simp [List.filter, hk, alookup]
    · by_cases hp : P a = true
      · simp [List.filter, hp, alookup, ha, ih]
      · simp [List.filter, hp, alookup, ha, ih]

theorem alookup_isSome_of_mem {ν : Type} (l : List (IKey × ν)) (kv : IKey × ν) (h : kv ∈ l) :
    (alookup kv.1 l).isSome = true := by
  induction l with
  | nil => simp at h
  | cons hd t ih =>
    obtain ⟨a, b⟩ := hd
    by_cases ha : a = kv.1
    · simp [alookup, ha]
    · simp only [List.mem_cons] at h
      rcases h with rfl | h
      · exact absurd rfl ha
      · simp [alookup, ha, ih h]

/-- the beam-CX getter returns every stored metastable of the transition: looking an inner key of that transition up
in its result is looking it up in the repository; it raises RuntimeError exactly when no inner key of the transition
is stored -/
theorem get_prefixed (T : Tables) (h : T.getMatches = true) (g : GetFn) (hk : g.own.getKind = .prefixed)
    (args : List Arg) (root : Option Path) (fs : FS) (l : Path × IKey)
    (hl : (getKey g args).loc T (resolve root) = some l) :
    (∀ r, get T g args root fs = .ok r → ∀ ik : IKey, ik.head? = l.2.head? → alookup ik r = fs.at l.1 ik) ∧
    (get T g args root fs = .error .runtimeError ↔ ∀ ik : IKey, ik.head? = l.2.head? → fs.at l.1 ik = none) := by
  rw [get_eq T h]
  simp only [hl, hk, FS.at]
  cases fs.read l.1 with
  | none => simp
  | some file =>
    simp only [Option.bind_some]
    have hP : ∀ ik : IKey, ik.head? = l.2.head? → (fun ik : IKey => ik.head? == l.2.head?) ik = true := by
      intro ik hik; simp [hik]
    cases hfl : file.filter (fun kv => (fun ik : IKey => ik.head? == l.2.head?) kv.1) with
    | nil =>
      simp only [] at hfl
      refine ⟨(by intro r hr; cases hr), ?_⟩
      simp only [true_iff]
      intro ik hik
      rw [← alookup_filter (fun ik : IKey => ik.head? == l.2.head?) file ik (hP ik hik), hfl]; rfl
    | cons x xs =>
      simp only [] at hfl
      constructor
      · intro r hr ik hik
        cases hr
        rw [← hfl]; exact alookup_filter (fun ik : IKey => ik.head? == l.2.head?) file ik (hP ik hik)
      · simp only [reduceCtorEq, false_iff]
        intro hall
        have hx : x ∈ file.filter (fun kv => kv.1.head? == l.2.head?) := by rw [hfl]; exact List.mem_cons_self ..
        have hx' := List.mem_filter.mp hx
        have := alookup_isSome_of_mem file x hx'.1
        rw [hall x.1 (by simpa using hx'.2)] at this
        simp at this

/-! ## transition keys -/

theorem split_unique {α : Type} (x : α) : ∀ (l₁ l₂ r₁ r₂ : List α), x ∉ l₁ → x ∉ l₂ →
    l₁ ++ x :: r₁ = l₂ ++ x :: r₂ → l₁ = l₂ ∧ r₁ = r₂ := by
  intro l₁
  induction l₁ with
  | nil =>
    intro l₂ r₁ r₂ _ h2 h
    cases l₂ with
    | nil => simpa using h
    | cons y t =>
      simp only [List.nil_append, List.cons_append, List.cons.injEq] at h
      exact absurd (h.1 ▸ List.mem_cons_self ..) h2
  | cons a t ih =>
    intro l₂ r₁ r₂ h1 h2 h
    cases l₂ with
    | nil =>
      simp only [List.nil_append, List.cons_append, List.cons.injEq] at h
      exact absurd (h.1 ▸ List.mem_cons_self ..) h1
    | cons b s =>
      simp only [List.cons_append, List.cons.injEq] at h
      obtain ⟨e1, e2⟩ := ih s r₁ r₂ (fun m => h1 (List.mem_cons_of_mem _ m)) (fun m => h2 (List.mem_cons_of_mem _ m)) h.2
      exact ⟨by rw [h.1, e1], e2⟩

theorem sep_toList : " -> ".toList = [' ', '-', '>', ' '] := by decide

theorem join_inj (a a' b b' : String) (ha : '>' ∉ a.toList) (ha' : '>' ∉ a'.toList)
    (h : a ++ " -> " ++ b = a' ++ " -> " ++ b') : a = a' ∧ b = b' := by
  have hl := congrArg String.toList h
  simp only [String.toList_append, sep_toList, List.append_assoc] at hl
  have e : ∀ (x y : List Char), x ++ ([' ', '-', '>', ' '] ++ y) = (x ++ [' ', '-']) ++ '>' :: (' ' :: y) := by
    intro x y; simp
  rw [e, e] at hl
  have n1 : '>' ∉ a.toList ++ [' ', '-'] := by simp [ha]
  have n2 : '>' ∉ a'.toList ++ [' ', '-'] := by simp [ha']
  obtain ⟨e1, e2⟩ := split_unique '>' _ _ _ _ n1 n2 hl
  have e1' := List.append_cancel_right e1
  simp only [List.cons.injEq, true_and] at e2
  exact ⟨String.toList_injective e1', String.toList_injective e2⟩

end Cherab.Repository
