/-
C13 — function wrappers and samplers (cherab/core/math/{mappers,clamp,slice,mask,samplers}.pyx,
transform/{periodic,cylindrical}.pyx).  Mathlib-free; polymorphic over notation so that the same
definitions run at `Float` in the driver and are reasoned about over an ordered field.

Every wrapper is split into its *argument map* (what the wrapped function receives) and its *value map*
(what is done with the wrapped function's result).  External functions (`fmod`, `sqrt`, `atan2`, `cos`,
`sin`) are parameters.
-/
namespace Cherab.Wrappers

section
variable {α : Type} [Add α] [Sub α] [Mul α] [Div α] [Neg α] [Zero α] [One α] [OfScientific α] [NatCast α]
  [LT α] [LE α] [DecidableLT α] [DecidableLE α] [BEq α]

/-- periodic.pxd:26 `remainder` -/
def remainder (fmod : α → α → α) (x1 x2 : α) : α :=
  if x2 == 0 then x1 else
    let r := fmod x1 x2
    if r < 0 then
      let r' := r + x2
      -- rounding guard: `r + x2` can round to `x2` itself for a tiny negative `r`
      if r' ≥ x2 then 0 else r'
    else r

/-- raysect.core.math.cython.clamp -/
def clamp (v mn mx : α) : α := if v < mn then mn else if v > mx then mx else v

def clampInput1 (f : α → β) (xmin xmax : α) (x : α) : β := f (clamp x xmin xmax)
def clampInput2 (f : α → α → β) (xmin xmax ymin ymax : α) (x y : α) : β :=
  f (clamp x xmin xmax) (clamp y ymin ymax)
def clampInput3 (f : α → α → α → β) (xmin xmax ymin ymax zmin zmax : α) (x y z : α) : β :=
  f (clamp x xmin xmax) (clamp y ymin ymax) (clamp z zmin zmax)
def clampOutput1 (f : γ → α) (mn mx : α) (x : γ) : α := clamp (f x) mn mx

def periodic1 (fmod : α → α → α) (f : α → β) (p : α) (x : α) : β := f (remainder fmod x p)
def periodic2 (fmod : α → α → α) (f : α → α → β) (px py : α) (x y : α) : β :=
  f (remainder fmod x px) (remainder fmod y py)
def periodic3 (fmod : α → α → α) (f : α → α → α → β) (px py pz : α) (x y z : α) : β :=
  f (remainder fmod x px) (remainder fmod y py) (remainder fmod z pz)

def isoMapper2 (f : α → α → α) (g : α → β) (x y : α) : β := g (f x y)
def isoMapper3 (f : α → α → α → α) (g : α → β) (x y z : α) : β := g (f x y z)

def swizzle2 (f : α → α → β) (x y : α) : β := f y x

/-- Swizzle3D.evaluate: `d[i] = x|y|z` according to `shape[i]`; any other selector raises. -/
def sel3 (s : Nat) (x y z : α) : Option α :=
  if s = 0 then some x else if s = 1 then some y else if s = 2 then some z else none

def swizzle3 (f : α → α → α → β) (s0 s1 s2 : Nat) (x y z : α) : Option β :=
  match sel3 s0 x y z, sel3 s1 x y z, sel3 s2 x y z with
  | some a, some b, some c => some (f a b c)
  | _, _, _ => none

/-- Slice2D: axis 0 fixes the first argument, otherwise the second. -/
def slice2 (f : α → α → β) (axis : Nat) (value : α) (x : α) : β :=
  if axis = 0 then f value x else f x value

def slice3 (f : α → α → α → β) (axis : Nat) (value : α) (x y : α) : β :=
  if axis = 0 then f value x y else if axis = 1 then f x value y else f x y value

def axisymmetric (sqrt : α → α) (f : α → α → β) (x y z : α) : β := f (sqrt (x * x + y * y)) z

def cylindrical (sqrt : α → α) (atan2 : α → α → α) (f : α → α → α → β) (x y z : α) : β :=
  f (sqrt (x * x + y * y)) (atan2 y x) z

/-- `Vector3D.transform(rotate_z(φ))` with `c = cos φ`, `s = sin φ` (raysect's AffineMatrix3D row by row). -/
def rotateZ (c s : α) (v : α × α × α) : α × α × α :=
  (c * v.1 + (-s) * v.2.1 + 0 * v.2.2, s * v.1 + c * v.2.1 + 0 * v.2.2, 0 * v.1 + 0 * v.2.1 + 1 * v.2.2)

/-- numpy.linspace(min, max, n)[i] (endpoint=True): `arange(n) * step + min`, last element forced to `max`. -/
def linspace (mn mx : α) (n i : Nat) : α :=
  if n ≤ 1 then mn
  else if i = n - 1 then mx
  else (i : α) * ((mx - mn) / ((n - 1 : Nat) : α)) + mn

def grid (mn mx : α) (n : Nat) : List α := (List.range n).map (linspace mn mx n)

def sample1 (f : α → β) (xs : List α) : List β := xs.map f
def sample2 (f : α → α → β) (xs ys : List α) : List (List β) := xs.map fun x => ys.map fun y => f x y
def sample3 (f : α → α → α → β) (xs ys zs : List α) : List (List (List β)) :=
  xs.map fun x => ys.map fun y => zs.map fun z => f x y z

/-! ### polygon mask specification: even–odd crossing number -/

/-- does the horizontal ray from `(px,py)` towards +x cross the edge `(a,b)`? -/
def crosses (px py : α) (a b : α × α) : Bool :=
  (decide (a.2 > py) != decide (b.2 > py)) &&
    decide (px < (b.1 - a.1) * (py - a.2) / (b.2 - a.2) + a.1)

/-- closed polygon edges: consecutive pairs plus the closing edge -/
def edges : List (α × α) → List ((α × α) × (α × α))
  | [] => []
  | v :: vs => (v :: vs).zip (vs ++ [v])

def crossings (px py : α) (vs : List (α × α)) : Nat :=
  ((edges vs).filter fun e => crosses px py e.1 e.2).length

def inPolygon (px py : α) (vs : List (α × α)) : Bool := crossings px py vs % 2 == 1

/-! ### constructor / argument-validation ladders (round 6)

Outcome of a ladder: `0` = accepted, `k` = the `k`-th `raise` of the ladder (in source order) fired.
The comparisons are transcribed literally (`>=`, `<=`, `<`, `>`), so that at `Float` a NaN bound behaves as in C. -/

/-- ClampOutput{1,2,3}D.__init__, ClampInput1D.__init__: `if min >= max: raise ValueError` -/
def clampCtor (mn mx : α) : Nat := if mn ≥ mx then 1 else 0

/-- ClampInput2D.__init__ -/
def clampCtor2 (xmin xmax ymin ymax : α) : Nat :=
  if xmin ≥ xmax then 1 else if ymin ≥ ymax then 2 else 0

/-- ClampInput3D.__init__ -/
def clampCtor3 (xmin xmax ymin ymax zmin zmax : α) : Nat :=
  if xmin ≥ xmax then 1 else if ymin ≥ ymax then 2 else if zmin ≥ zmax then 3 else 0

/-- (Vector)PeriodicTransform1D.__init__: `if period <= 0: raise ValueError` -/
def periodicCtor1 (p : α) : Nat := if p ≤ 0 then 1 else 0

/-- (Vector)PeriodicTransform2D.__init__: `if period_x < 0 … if period_y < 0` (zero = axis not periodic) -/
def periodicCtor2 (px py : α) : Nat := if px < 0 then 1 else if py < 0 then 2 else 0

/-- (Vector)PeriodicTransform3D.__init__ -/
def periodicCtor3 (px py pz : α) : Nat :=
  if px < 0 then 1 else if py < 0 then 2 else if pz < 0 then 3 else 0

/-- sample1d: `len(x_range) != 3`, `x_range[0] > x_range[1]`, `x_range[2] < 1` in that order -/
def sampleCtor1 (lx : Nat) (x0 x1 : α) (nx : Int) : Nat :=
  if lx ≠ 3 then 1 else if x0 > x1 then 2 else if nx < 1 then 3 else 0

/-- sample2d / samplevector2d: both lengths, then both orders, then both counts -/
def sampleCtor2 (lx ly : Nat) (x0 x1 y0 y1 : α) (nx ny : Int) : Nat :=
  if lx ≠ 3 then 1 else if ly ≠ 3 then 2
  else if x0 > x1 then 3 else if y0 > y1 then 4
  else if nx < 1 then 5 else if ny < 1 then 6 else 0

/-- sample3d / samplevector3d -/
def sampleCtor3 (lx ly lz : Nat) (x0 x1 y0 y1 z0 z1 : α) (nx ny nz : Int) : Nat :=
  if lx ≠ 3 then 1 else if ly ≠ 3 then 2 else if lz ≠ 3 then 3
  else if x0 > x1 then 4 else if y0 > y1 then 5 else if z0 > z1 then 6
  else if nx < 1 then 7 else if ny < 1 then 8 else if nz < 1 then 9 else 0

/-- sample1d, whole entry point: ladder, `linspace` axis, loop.  `Except.error k` = the k-th raise. -/
def sample1d (f : α → β) (lx : Nat) (x0 x1 : α) (nx : Int) : Except Nat (List α × List β) :=
  if sampleCtor1 lx x0 x1 nx = 0 then
    let xs := grid x0 x1 nx.toNat
    .ok (xs, sample1 f xs)
  else .error (sampleCtor1 lx x0 x1 nx)

/-- sample2d / samplevector2d -/
def sample2d (f : α → α → β) (lx ly : Nat) (x0 x1 y0 y1 : α) (nx ny : Int) :
    Except Nat (List α × List α × List (List β)) :=
  if sampleCtor2 lx ly x0 x1 y0 y1 nx ny = 0 then
    let xs := grid x0 x1 nx.toNat
    let ys := grid y0 y1 ny.toNat
    .ok (xs, ys, sample2 f xs ys)
  else .error (sampleCtor2 lx ly x0 x1 y0 y1 nx ny)

/-- sample3d / samplevector3d -/
def sample3d (f : α → α → α → β) (lx ly lz : Nat) (x0 x1 y0 y1 z0 z1 : α) (nx ny nz : Int) :
    Except Nat (List α × List α × List α × List (List (List β))) :=
  if sampleCtor3 lx ly lz x0 x1 y0 y1 z0 z1 nx ny nz = 0 then
    let xs := grid x0 x1 nx.toNat
    let ys := grid y0 y1 ny.toNat
    let zs := grid z0 z1 nz.toNat
    .ok (xs, ys, zs, sample3 f xs ys zs)
  else .error (sampleCtor3 lx ly lz x0 x1 y0 y1 z0 z1 nx ny nz)

/-! ### nested wrappers (round 6): the compositions that plasma profiles are built from -/

/-- `ClampOutput1D(PeriodicTransform1D(f, p), mn, mx)` -/
def clampOutPeriodic1 (fmod : α → α → α) (f : α → α) (p mn mx : α) : α → α :=
  clampOutput1 (periodic1 fmod f p) mn mx

/-- `AxisymmetricMapper(PeriodicTransform2D(f, 0, pz))`: a profile periodic along the axis -/
def axisymmetricPeriodic (sqrt : α → α) (fmod : α → α → α) (f : α → α → β) (pr pz : α) : α → α → α → β :=
  axisymmetric sqrt (periodic2 fmod f pr pz)

/-- `Slice3D(ClampInput3D(f, …), axis, value)` -/
def sliceClampInput3 (f : α → α → α → β) (xmin xmax ymin ymax zmin zmax : α) (axis : Nat) (value : α) : α → α → β :=
  slice3 (clampInput3 f xmin xmax ymin ymax zmin zmax) axis value

end
end Cherab.Wrappers
