import Cherab.Props.C18Table
import Cherab.Props.C18TableProfiles
import Cherab.Props.C18TableSpectra
import Cherab.Props.C18TableAtomic
namespace Cherab.Props.C18Table
open Cherab.Laser Cherab.Props.C18 Cherab.Gen.LaserEdges
set_option linter.unusedSectionVars false

variable {α : Type} [Field α] [LinearOrder α] [IsStrictOrderedRing α]

theorem all_mem {p : Cls → Bool} {l : List Cls} (h : l.all p = true) {t : Cls} (ht : t ∈ l) : p t = true :=
  List.all_eq_true.mp h t ht

/-- all decidable table conditions hold for the six classes of /repo's current source -/
theorem tables_ok : classes.all tableOkB = true := by
  apply List.all_eq_true.mpr
  intro t ht
  have hwf := all_mem tables_well_formed ht
  have hc2 := all_mem constructors_accept_valid_parameters ht
  simp only [Bool.and_eq_true] at hwf hc2
  obtain ⟨⟨⟨⟨hu, hsw⟩, hpw⟩, hgo⟩, hobs⟩ := hwf
  obtain ⟨⟨hrs, hcp⟩, hpc⟩ := hc2
  have hcov : coveredB t = true := by
    rcases List.mem_append.mp ht with h | h
    · exact all_mem covered_profiles h
    · exact all_mem covered_spectra h
  simp only [tableOkB, Bool.and_eq_true]
  exact ⟨⟨⟨⟨⟨⟨⟨⟨⟨⟨hcov, all_mem rejected_assignments_atomic ht⟩, hu⟩, hsw⟩, all_mem constructors_complete ht⟩, hpw⟩,
    hgo⟩, hobs⟩, hrs⟩, hcp⟩, hpc⟩

/-- **the property's history clause for the six classes of /repo's current source**: construct any of them with any
accepted arguments, apply any sequence of assignments (accepted or rejected); the object constructed from the
parameters the first one reports is accepted, and every observation (energy density at every point, generated
segments, every getter, wavelengths, power spectral density, `spectrum(x)`) of the two coincides. -/
theorem history_eq_fresh_all (E : Ext α) (hc : 0 < E.c) (t : Cls) (ht : t ∈ classes)
    (args : String → α) (ops : List (String × α)) (hrun : (runCtor E t args).2 = .ok) :
    (runCtor E t (reported t (runOps E t (runCtor E t args).1 ops))).2 = .ok ∧
    ObsEq E t (runOps E t (runCtor E t args).1 ops)
      (runCtor E t (reported t (runOps E t (runCtor E t args).1 ops))).1 :=
  history_eq_fresh_total E hc t (all_mem tables_ok ht) args ops hrun

end Cherab.Props.C18Table
