import Cherab.Lemmas.Registry
import Mathlib.Tactic.Linarith

/-!
# `str(int)` on codes: injective, all-digit, fixed by `lower`  (round 6, C19)

General arithmetic facts about `strNatAux` / `strNat` / `strInt` (Model/Registry.lean) needed to close the ⇒ direction
of the integer lookup decision: a decimal numeral determines the integer, lower-casing does not change it, its last
byte is a digit, and a numeral with a minus sign is never the numeral of a natural number.
-/

namespace Cherab.Registry

theorem nbeq_false {a b : Nat} (h : a ≠ b) : a.beq b = false := by
  cases hh : a.beq b
  · rfl
  · exact absurd (nbeq.mp hh) h

theorem strNatAux_zero (f : Nat) : strNatAux f 0 = 0 := by
  cases f <;> rfl

theorem strNatAux_succ (f n : Nat) (h : n ≠ 0) :
    strNatAux (f + 1) n = strNatAux f (n / 10) * 256 + (48 + n % 10) := by
  simp [strNatAux, nbeq_false h]

theorem strNatAux_pos (f n : Nat) (h0 : n ≠ 0) (hlt : n < 2 ^ f) : 0 < strNatAux f n := by
  cases f with
  | zero => simp at hlt; omega
  | succ f => rw [strNatAux_succ f n h0]; omega

/-- the numeral determines the number (any sufficient fuels) -/
theorem strNatAux_inj : ∀ (f f' n m : Nat), n < 2 ^ f → m < 2 ^ f' → strNatAux f n = strNatAux f' m → n = m := by
  intro f
  induction f with
  | zero =>
    intro f' n m hn hm h
    have hn0 : n = 0 := by simpa using hn
    subst hn0
    by_contra hne
    have := strNatAux_pos f' m (Ne.symm hne) hm
    rw [strNatAux_zero] at h
    omega
  | succ f ih =>
    intro f' n m hn hm h
    by_cases hn0 : n = 0
    · subst hn0
      by_contra hne
      have := strNatAux_pos f' m (Ne.symm hne) hm
      rw [strNatAux_zero] at h
      omega
    · by_cases hm0 : m = 0
      · subst hm0
        have := strNatAux_pos (f + 1) n hn0 hn
        rw [strNatAux_zero f'] at h
        omega
      · cases f' with
        | zero => exfalso; simp at hm; exact hm0 hm
        | succ f' =>
          rw [strNatAux_succ f n hn0, strNatAux_succ f' m hm0] at h
          have h1 : n / 10 < 2 ^ f := by rw [pow_succ] at hn; omega
          have h2 : m / 10 < 2 ^ f' := by rw [pow_succ] at hm; omega
          have hA : strNatAux f (n / 10) = strNatAux f' (m / 10) := by omega
          have := ih f' (n / 10) (m / 10) h1 h2 hA
          omega

theorem strNat_zero : strNat 0 = 48 := rfl

theorem strNat_of_ne {n : Nat} (h : n ≠ 0) : strNat n = strNatAux (n.log2 + 1) n := by
  simp [strNat, nbeq_false h]

theorem strNatAux_ne_48 (f m : Nat) (h0 : m ≠ 0) (hlt : m < 2 ^ f) : strNatAux f m ≠ 48 := by
  cases f with
  | zero => simp at hlt; omega
  | succ f =>
    rw [strNatAux_succ f m h0]
    intro h
    have hq : m / 10 ≠ 0 := by omega
    have h1 : m / 10 < 2 ^ f := by rw [pow_succ] at hlt; omega
    have := strNatAux_pos f (m / 10) hq h1
    omega

/-- **`str` is injective on non-negative ints** -/
theorem strNat_inj {n m : Nat} (h : strNat n = strNat m) : n = m := by
  by_cases hn : n = 0
  · subst hn
    by_contra hm
    have hm' : m ≠ 0 := Ne.symm hm
    rw [strNat_zero, strNat_of_ne hm'] at h
    exact strNatAux_ne_48 _ m hm' Nat.lt_log2_self h.symm
  · by_cases hm : m = 0
    · subst hm
      rw [strNat_zero, strNat_of_ne hn] at h
      exact absurd h (strNatAux_ne_48 _ n hn Nat.lt_log2_self)
    · rw [strNat_of_ne hn, strNat_of_ne hm] at h
      exact strNatAux_inj _ _ n m Nat.lt_log2_self Nat.lt_log2_self h

/-- the last byte of `str(n)`, n ≥ 0, is a decimal digit -/
theorem strNat_last (n : Nat) : 48 ≤ strNat n % 256 ∧ strNat n % 256 ≤ 57 := by
  by_cases hn : n = 0
  · subst hn; rw [strNat_zero]; omega
  · rw [strNat_of_ne hn, strNatAux_succ _ n hn]; omega

theorem strNat_pos (n : Nat) : 0 < strNat n := by
  have := strNat_last n
  omega

/-! ### all bytes of `str(n)` are digits; a leading `-` is not -/

/-- every byte of the code (read with fuel `f`) is an ASCII digit -/
def digitsB : Nat → Nat → Bool
  | 0, c => c == 0
  | f + 1, c => c == 0 || (decide (48 ≤ c % 256) && decide (c % 256 ≤ 57) && digitsB f (c / 256))

theorem digitsB_zero (g : Nat) : digitsB g 0 = true := by
  cases g <;> simp [digitsB]

theorem digitsB_strNatAux : ∀ (f n g : Nat), strNatAux f n < 256 ^ g → digitsB g (strNatAux f n) = true := by
  intro f
  induction f with
  | zero => intro n g _; exact digitsB_zero g
  | succ f ih =>
    intro n g hlt
    by_cases hn : n = 0
    · subst hn; rw [strNatAux_zero]; exact digitsB_zero g
    · rw [strNatAux_succ f n hn] at hlt ⊢
      cases g with
      | zero => simp at hlt
      | succ g =>
        have e1 : (strNatAux f (n / 10) * 256 + (48 + n % 10)) % 256 = 48 + n % 10 := by omega
        have e2 : (strNatAux f (n / 10) * 256 + (48 + n % 10)) / 256 = strNatAux f (n / 10) := by omega
        have hA : strNatAux f (n / 10) < 256 ^ g := by rw [pow_succ] at hlt; omega
        have d2 : 48 + n % 10 ≤ 57 := by omega
        simp only [digitsB]
        rw [e1, e2, ih _ _ hA]
        simp [d2]

theorem digitsB_strNat (n g : Nat) (h : strNat n < 256 ^ g) : digitsB g (strNat n) = true := by
  by_cases hn : n = 0
  · subst hn
    rw [strNat_zero] at h ⊢
    cases g with
    | zero => simp at h
    | succ g => simp [digitsB, digitsB_zero]
  · rw [strNat_of_ne hn] at h ⊢
    exact digitsB_strNatAux _ _ _ h

theorem digitsB_minus : ∀ (k b j : Nat), b < 256 ^ k → digitsB (k + 1 + j) (45 * 256 ^ k + b) = false := by
  intro k
  induction k with
  | zero =>
    intro b j hb
    have : b = 0 := by simpa using hb
    subst this
    rw [show 0 + 1 + j = j + 1 by omega]
    simp [digitsB]
  | succ k ih =>
    intro b j hb
    have hd : b / 256 < 256 ^ k := by rw [pow_succ] at hb; omega
    have hpos : 0 < 256 ^ k := Nat.pos_of_ne_zero (pow_ne_zero k (by norm_num))
    have e1 : (45 * 256 ^ (k + 1) + b) / 256 = 45 * 256 ^ k + b / 256 := by rw [pow_succ]; omega
    have hc : (45 * 256 ^ (k + 1) + b == 0) = false := by
      rw [pow_succ]; simp
    rw [show k + 1 + 1 + j = (k + 1 + j) + 1 by omega]
    simp only [digitsB]
    rw [e1, ih _ _ hd, hc]
    simp

/-- `str` of a negative int is never `str` of a non-negative one -/
theorem strInt_neg_ne (m z : Nat) : strInt (.negSucc m) ≠ strNat z := by
  intro h
  have hb := lt_pow_bytes (strNat (m + 1))
  have h1 := digitsB_minus (bytes (strNat (m + 1))) (strNat (m + 1)) 0 hb
  have hlt : strNat z < 256 ^ (bytes (strNat (m + 1)) + 1 + 0) := by
    rw [← h]
    show cat 45 (strNat (m + 1)) < _
    unfold cat
    rw [Nat.add_zero, pow_succ]
    omega
  have h2 := digitsB_strNat z _ hlt
  rw [← h] at h2
  have : strInt (.negSucc m) = 45 * 256 ^ bytes (strNat (m + 1)) + strNat (m + 1) := rfl
  rw [this, h1] at h2
  exact absurd h2 (by simp)

/-! ### lower-casing leaves numerals alone -/

theorem lowerByte_of_lt {b : Nat} (h : b < 65) : lowerByte b = b := by
  unfold lowerByte
  have : Nat.ble 65 b = false := by
    cases hh : Nat.ble 65 b
    · rfl
    · have := Nat.le_of_ble_eq_true hh; omega
  simp [this]

theorem lowerAux_strNatAux : ∀ (f n g : Nat), strNatAux f n < 256 ^ g → lowerAux g (strNatAux f n) = strNatAux f n := by
  intro f
  induction f with
  | zero => intro n g _; exact lowerAux_zero g
  | succ f ih =>
    intro n g hlt
    by_cases hn : n = 0
    · subst hn; rw [strNatAux_zero]; exact lowerAux_zero g
    · rw [strNatAux_succ f n hn] at hlt ⊢
      cases g with
      | zero => simp at hlt
      | succ g =>
        have e1 : (strNatAux f (n / 10) * 256 + (48 + n % 10)) % 256 = 48 + n % 10 := by omega
        have e2 : (strNatAux f (n / 10) * 256 + (48 + n % 10)) / 256 = strNatAux f (n / 10) := by omega
        have hA : strNatAux f (n / 10) < 256 ^ g := by rw [pow_succ] at hlt; omega
        simp only [lowerAux]
        rw [e1, e2, ih _ _ hA, lowerByte_of_lt (by omega)]

/-- `str(n).lower() == str(n)` for n ≥ 0 -/
theorem lower_strNat (n : Nat) : lower (strNat n) = strNat n := by
  by_cases hn : n = 0
  · subst hn; decide
  · unfold lower
    have h := lt_pow_bytes (strNat n)
    rw [strNat_of_ne hn] at h ⊢
    exact lowerAux_strNatAux _ _ _ h

/-- `str(n).lower() == str(n)` for every int -/
theorem lower_strInt (n : Int) : lower (strInt n) = strInt n := by
  cases n with
  | ofNat n => exact lower_strNat n
  | negSucc n =>
    show lower (cat 45 (strNat (n + 1))) = cat 45 (strNat (n + 1))
    rw [lower_cat_of 45 _ (lower_strNat _)]
    have : lower 45 = 45 := by decide
    rw [this]

/-- the last byte of `str(n)` is a decimal digit, for every int -/
theorem strInt_last (n : Int) : 48 ≤ strInt n % 256 ∧ strInt n % 256 ≤ 57 := by
  cases n with
  | ofNat n => exact strNat_last n
  | negSucc n =>
    show 48 ≤ cat 45 (strNat (n + 1)) % 256 ∧ cat 45 (strNat (n + 1)) % 256 ≤ 57
    have hl := strNat_last (n + 1)
    have hp := strNat_pos (n + 1)
    have hb : bytes (strNat (n + 1)) = (strNat (n + 1)).log2 / 8 + 1 := by
      unfold bytes; rw [nbeq_false (by omega)]; simp
    unfold cat
    rw [hb, pow_succ]
    omega

/-! ### `lower` is idempotent -/

theorem lowerByte_lt {b : Nat} (h : b < 256) : lowerByte b < 256 := by
  unfold lowerByte
  split
  · next hc =>
    simp only [Bool.and_eq_true] at hc
    have := Nat.le_of_ble_eq_true hc.2
    omega
  · exact h

theorem lowerByte_idem (b : Nat) : lowerByte (lowerByte b) = lowerByte b := by
  by_cases h : (Nat.ble 65 b && Nat.ble b 90) = true
  · have e : lowerByte b = b + 32 := by unfold lowerByte; rw [if_pos h]
    rw [e]
    simp only [Bool.and_eq_true] at h
    have h2 := Nat.le_of_ble_eq_true h.2
    have h1 := Nat.le_of_ble_eq_true h.1
    unfold lowerByte
    have : Nat.ble (b + 32) 90 = false := by
      cases hh : Nat.ble (b + 32) 90
      · rfl
      · have := Nat.le_of_ble_eq_true hh; omega
    simp [this]
  · have e : lowerByte b = b := by unfold lowerByte; rw [if_neg h]
    rw [e, e]

theorem lowerAux_lt : ∀ (f n : Nat), lowerAux f n < 256 ^ f := by
  intro f
  induction f with
  | zero => intro n; simp [lowerAux]
  | succ f ih =>
    intro n
    simp only [lowerAux]
    have h1 := ih (n / 256)
    have h2 : lowerByte (n % 256) < 256 := lowerByte_lt (Nat.mod_lt _ (by norm_num))
    rw [pow_succ]
    omega

theorem lowerAux_idem : ∀ (f n : Nat), lowerAux f (lowerAux f n) = lowerAux f n := by
  intro f
  induction f with
  | zero => intro n; rfl
  | succ f ih =>
    intro n
    have h2 : lowerByte (n % 256) < 256 := lowerByte_lt (Nat.mod_lt _ (by norm_num))
    have e1 : (lowerAux f (n / 256) * 256 + lowerByte (n % 256)) % 256 = lowerByte (n % 256) := by omega
    have e2 : (lowerAux f (n / 256) * 256 + lowerByte (n % 256)) / 256 = lowerAux f (n / 256) := by omega
    simp only [lowerAux]
    rw [e1, e2, ih, lowerByte_idem]

/-- **`s.lower().lower() == s.lower()`** on codes -/
theorem lower_idem (s : Nat) : lower (lower s) = lower s := by
  unfold lower
  have h1 : lowerAux (bytes s) s < 256 ^ bytes s := lowerAux_lt _ _
  rw [lowerAux_fuel' (bytes (lowerAux (bytes s) s)) (bytes s) _ (lt_pow_bytes _) h1]
  exact lowerAux_idem _ _

end Cherab.Registry
