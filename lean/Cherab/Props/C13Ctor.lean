import Cherab.Props.C13

/-!
# C13, round 6 — validation ladders, whole sampler entry points, nested wrappers

* the `__init__` ladders of the clamp / periodic wrappers and the range ladders of `sample{1,2,3}d`, transcribed in
  `Model/Wrappers.lean` (`clampCtor*`, `periodicCtor*`, `sampleCtor*`), are characterised completely (which `raise`
  fires for which arguments), and the contracts that the earlier theorems *assumed* (`mn ≤ mx`, `0 < p`, `0 ≤ p`,
  `1 ≤ n`) are *derived* from "the constructor accepted";
* `sample1d/2d/3d` as whole entry points (ladder + linspace axes + loops): accepted ⇒ entry `[i,j,k]` is the function
  at `(x_i, y_j, z_k)` of the evenly spaced grid, rejected ⇒ nothing is evaluated;
* linspace grids are monotone and stay inside `[min, max]`;
* nested wrappers (ClampOutput∘Periodic, AxisymmetricMapper∘Periodic, Slice∘ClampInput) are pointwise compositions.
-/
namespace Cherab.Props.C13
set_option linter.unusedSectionVars false
open Cherab.Wrappers

variable {α : Type} [Field α] [LinearOrder α] [IsStrictOrderedRing α]

/-! ### clamp constructors -/

theorem clampCtor_accepts_iff (mn mx : α) : clampCtor mn mx = 0 ↔ mn < mx := by
  unfold clampCtor
  split_ifs with h
  · simpa using h
  · simpa using h

/-- complete characterisation of the ClampInput3D ladder: accepted iff every axis has `min < max`; otherwise the code
names the *first* offending axis -/
theorem clampCtor3_spec (a b c d e f : α) :
    (clampCtor3 a b c d e f = 0 ↔ a < b ∧ c < d ∧ e < f) ∧
    (clampCtor3 a b c d e f = 1 ↔ b ≤ a) ∧
    (clampCtor3 a b c d e f = 2 ↔ a < b ∧ d ≤ c) ∧
    (clampCtor3 a b c d e f = 3 ↔ a < b ∧ c < d ∧ f ≤ e) := by
  unfold clampCtor3
  split_ifs with h1 h2 h3 <;> simp_all

theorem clampCtor2_spec (a b c d : α) :
    (clampCtor2 a b c d = 0 ↔ a < b ∧ c < d) ∧ (clampCtor2 a b c d = 1 ↔ b ≤ a) ∧
    (clampCtor2 a b c d = 2 ↔ a < b ∧ d ≤ c) := by
  unfold clampCtor2
  split_ifs with h1 h2 <;> simp_all

/-- derived contract: an *accepted* ClampInput3D hands the wrapped function arguments inside the box, and is the
identity on arguments that are already inside (no `mn ≤ mx` hypothesis any more) -/
theorem clampInput3_checked {β : Type} (f : α → α → α → β) (a b c d e g x y z : α)
    (h : clampCtor3 a b c d e g = 0) :
    clampInput3 f a b c d e g x y z = f (clamp x a b) (clamp y c d) (clamp z e g) ∧
    (a ≤ clamp x a b ∧ clamp x a b ≤ b) ∧ (c ≤ clamp y c d ∧ clamp y c d ≤ d) ∧ (e ≤ clamp z e g ∧ clamp z e g ≤ g) ∧
    (a ≤ x → x ≤ b → c ≤ y → y ≤ d → e ≤ z → z ≤ g → clampInput3 f a b c d e g x y z = f x y z) := by
  obtain ⟨h1, h2, h3⟩ := (clampCtor3_spec a b c d e g).1.mp h
  refine ⟨rfl, clamp_range x a b h1.le, clamp_range y c d h2.le, clamp_range z e g h3.le, ?_⟩
  intro hx1 hx2 hy1 hy2 hz1 hz2
  simp [clampInput3, clamp_id x a b hx1 hx2, clamp_id y c d hy1 hy2, clamp_id z e g hz1 hz2]

/-- derived contract for an accepted ClampOutput wrapper -/
theorem clampOutput_checked {γ : Type} (f : γ → α) (mn mx : α) (x : γ) (h : clampCtor mn mx = 0) :
    mn ≤ clampOutput1 f mn mx x ∧ clampOutput1 f mn mx x ≤ mx ∧
    (mn ≤ f x → f x ≤ mx → clampOutput1 f mn mx x = f x) := by
  have hlt := (clampCtor_accepts_iff mn mx).mp h
  exact ⟨(clamp_range (f x) mn mx hlt.le).1, (clamp_range (f x) mn mx hlt.le).2, fun h1 h2 => clamp_id (f x) mn mx h1 h2⟩

example : clampCtor3 (0 : ℚ) 1 2 2 5 4 = 2 ∧ clampCtor3 (0 : ℚ) 1 2 3 4 5 = 0 ∧ clampCtor (1 : ℚ) 1 = 1 := by
  decide

/-! ### periodic constructors -/

theorem periodicCtor1_accepts_iff (p : α) : periodicCtor1 p = 0 ↔ 0 < p := by
  unfold periodicCtor1
  split_ifs with h
  · simpa using h
  · simpa using h

theorem periodicCtor3_spec (px py pz : α) :
    (periodicCtor3 px py pz = 0 ↔ 0 ≤ px ∧ 0 ≤ py ∧ 0 ≤ pz) ∧
    (periodicCtor3 px py pz = 1 ↔ px < 0) ∧
    (periodicCtor3 px py pz = 2 ↔ 0 ≤ px ∧ py < 0) ∧
    (periodicCtor3 px py pz = 3 ↔ 0 ≤ px ∧ 0 ≤ py ∧ pz < 0) := by
  unfold periodicCtor3
  split_ifs with h1 h2 h3 <;> simp_all

theorem periodicCtor2_spec (px py : α) :
    (periodicCtor2 px py = 0 ↔ 0 ≤ px ∧ 0 ≤ py) ∧ (periodicCtor2 px py = 1 ↔ px < 0) ∧
    (periodicCtor2 px py = 2 ↔ 0 ≤ px ∧ py < 0) := by
  unfold periodicCtor2
  split_ifs with h1 h2 <;> simp_all

/-- derived contract: an accepted PeriodicTransform1D evaluates the wrapped function at a point of `[0, p)` congruent
to the argument -/
theorem periodic1_checked (fmod : α → α → α) (hf : FmodSpec fmod) {β : Type} (f : α → β) (p x : α)
    (h : periodicCtor1 p = 0) :
    ∃ a, periodic1 fmod f p x = f a ∧ 0 ≤ a ∧ a < p ∧ ∃ k : ℤ, a = x - k * p := by
  have hp := (periodicCtor1_accepts_iff p).mp h
  exact ⟨remainder fmod x p, rfl, (remainder_range fmod hf x p hp).1, (remainder_range fmod hf x p hp).2,
    remainder_congruent fmod hf x p hp⟩

/-- what one axis of an accepted 2-D/3-D periodic wrapper does to its argument -/
def AxisImage (p x a : α) : Prop := (p = 0 ∧ a = x) ∨ (0 < p ∧ 0 ≤ a ∧ a < p ∧ ∃ k : ℤ, a = x - k * p)

theorem remainder_axisImage (fmod : α → α → α) (hf : FmodSpec fmod) (x p : α) (hp : 0 ≤ p) :
    AxisImage p x (remainder fmod x p) := by
  rcases remainder_axis fmod hf x p hp with h | h
  · exact Or.inl h
  · exact Or.inr ⟨h.1, h.2.1, h.2.2, remainder_congruent fmod hf x p h.1⟩

/-- derived contract for an accepted PeriodicTransform3D: axis by axis the wrapped function receives the argument
itself (period 0) or its image in `[0, p)` -/
theorem periodic3_checked (fmod : α → α → α) (hf : FmodSpec fmod) {β : Type} (f : α → α → α → β)
    (px py pz x y z : α) (h : periodicCtor3 px py pz = 0) :
    ∃ a b c, periodic3 fmod f px py pz x y z = f a b c ∧ AxisImage px x a ∧ AxisImage py y b ∧ AxisImage pz z c := by
  obtain ⟨h1, h2, h3⟩ := (periodicCtor3_spec px py pz).1.mp h
  exact ⟨_, _, _, rfl, remainder_axisImage fmod hf x px h1, remainder_axisImage fmod hf y py h2,
    remainder_axisImage fmod hf z pz h3⟩

theorem periodic2_checked (fmod : α → α → α) (hf : FmodSpec fmod) {β : Type} (f : α → α → β)
    (px py x y : α) (h : periodicCtor2 px py = 0) :
    ∃ a b, periodic2 fmod f px py x y = f a b ∧ AxisImage px x a ∧ AxisImage py y b := by
  obtain ⟨h1, h2⟩ := (periodicCtor2_spec px py).1.mp h
  exact ⟨_, _, rfl, remainder_axisImage fmod hf x px h1, remainder_axisImage fmod hf y py h2⟩

example : periodicCtor3 (0 : ℚ) 2 (-1) = 3 ∧ periodicCtor3 (0 : ℚ) 2 0 = 0 ∧ periodicCtor1 (0 : ℚ) = 1 := by decide
example : ∃ a, periodic1 fmodT (fun t : ℚ => t) 1 (-7/2) = a ∧ 0 ≤ a ∧ a < 1 := by
  obtain ⟨a, h1, h2, h3, _⟩ := periodic1_checked fmodT fmodT_spec (fun t : ℚ => t) 1 (-7/2) (by decide)
  exact ⟨a, h1, h2, h3⟩

/-! ### linspace grids: monotone, inside the range -/

theorem linspace_mono (mn mx : α) (h : mn ≤ mx) (n i j : Nat) (hij : i ≤ j) (hj : j < n) :
    linspace mn mx n i ≤ linspace mn mx n j := by
  by_cases hn : n ≤ 1
  · simp [linspace, hn]
  · have hn2 : 2 ≤ n := by omega
    rw [linspace_formula mn mx n i hn2 (by omega), linspace_formula mn mx n j hn2 hj]
    have hpos : (0 : α) < (n : α) - 1 := by
      have : (2 : α) ≤ (n : α) := by exact_mod_cast hn2
      linarith
    have hc : (i : α) ≤ (j : α) := by exact_mod_cast hij
    have : (i : α) * (mx - mn) / ((n : α) - 1) ≤ (j : α) * (mx - mn) / ((n : α) - 1) := by
      apply div_le_div_of_nonneg_right _ hpos.le
      exact mul_le_mul_of_nonneg_right hc (by linarith)
    linarith

theorem linspace_strictMono (mn mx : α) (h : mn < mx) (n i j : Nat) (hij : i < j) (hj : j < n) :
    linspace mn mx n i < linspace mn mx n j := by
  have hn2 : 2 ≤ n := by omega
  rw [linspace_formula mn mx n i hn2 (by omega), linspace_formula mn mx n j hn2 hj]
  have hpos : (0 : α) < (n : α) - 1 := by
    have : (2 : α) ≤ (n : α) := by exact_mod_cast hn2
    linarith
  have hc : (i : α) < (j : α) := by exact_mod_cast hij
  have : (i : α) * (mx - mn) / ((n : α) - 1) < (j : α) * (mx - mn) / ((n : α) - 1) := by
    apply div_lt_div_of_pos_right _ hpos
    exact mul_lt_mul_of_pos_right hc (by linarith)
  linarith

/-- every grid point lies in `[min, max]` -/
theorem linspace_mem_range (mn mx : α) (h : mn ≤ mx) (n i : Nat) (hi : i < n) :
    mn ≤ linspace mn mx n i ∧ linspace mn mx n i ≤ mx := by
  by_cases hn : n ≤ 1
  · simp [linspace, hn, h]
  · have hn2 : 2 ≤ n := by omega
    constructor
    · have := linspace_mono mn mx h n 0 i (by omega) hi
      rwa [linspace_first mn mx n (by omega)] at this
    · have := linspace_mono mn mx h n i (n - 1) (by omega) (by omega)
      rwa [linspace_last mn mx n hn2] at this

example : linspace (0 : ℚ) 1 5 1 < linspace (0 : ℚ) 1 5 3 := linspace_strictMono 0 1 (by norm_num) 5 1 3 (by omega) (by omega)

/-! ### sampler entry points -/

theorem sampleCtor1_spec (lx : Nat) (x0 x1 : α) (nx : Int) :
    (sampleCtor1 lx x0 x1 nx = 0 ↔ lx = 3 ∧ x0 ≤ x1 ∧ 1 ≤ nx) ∧
    (sampleCtor1 lx x0 x1 nx = 1 ↔ lx ≠ 3) ∧
    (sampleCtor1 lx x0 x1 nx = 2 ↔ lx = 3 ∧ x1 < x0) ∧
    (sampleCtor1 lx x0 x1 nx = 3 ↔ lx = 3 ∧ x0 ≤ x1 ∧ nx < 1) := by
  unfold sampleCtor1
  split_ifs with h1 h2 h3 <;> simp_all

theorem sampleCtor2_accepts_iff (lx ly : Nat) (x0 x1 y0 y1 : α) (nx ny : Int) :
    sampleCtor2 lx ly x0 x1 y0 y1 nx ny = 0 ↔
      lx = 3 ∧ ly = 3 ∧ x0 ≤ x1 ∧ y0 ≤ y1 ∧ 1 ≤ nx ∧ 1 ≤ ny := by
  unfold sampleCtor2
  split_ifs <;> simp_all

theorem sampleCtor3_accepts_iff (lx ly lz : Nat) (x0 x1 y0 y1 z0 z1 : α) (nx ny nz : Int) :
    sampleCtor3 lx ly lz x0 x1 y0 y1 z0 z1 nx ny nz = 0 ↔
      lx = 3 ∧ ly = 3 ∧ lz = 3 ∧ x0 ≤ x1 ∧ y0 ≤ y1 ∧ z0 ≤ z1 ∧ 1 ≤ nx ∧ 1 ≤ ny ∧ 1 ≤ nz := by
  unfold sampleCtor3
  split_ifs <;> simp_all

theorem grid_getElem? (mn mx : α) (n i : Nat) (hi : i < n) : (grid mn mx n)[i]? = some (linspace mn mx n i) := by
  simp [grid, hi]

/-- sample1d, whole entry point: accepted ranges give `n` evenly spaced points from `min` (to `max` when `n ≥ 2`),
in increasing order, and the k-th value is the function at the k-th point -/
theorem sample1d_accepted {β : Type} (f : α → β) (x0 x1 : α) (nx : Int) (h : sampleCtor1 3 x0 x1 nx = 0) :
    ∃ xs vs, sample1d f 3 x0 x1 nx = .ok (xs, vs) ∧ 1 ≤ nx.toNat ∧ xs.length = nx.toNat ∧ vs.length = nx.toNat ∧
      xs[0]? = some x0 ∧ (2 ≤ nx.toNat → xs[nx.toNat - 1]? = some x1) ∧
      (∀ i, i < nx.toNat → xs[i]? = some (linspace x0 x1 nx.toNat i) ∧ vs[i]? = some (f (linspace x0 x1 nx.toNat i))) ∧
      (∀ i j, i ≤ j → j < nx.toNat → linspace x0 x1 nx.toNat i ≤ linspace x0 x1 nx.toNat j) := by
  obtain ⟨-, hle, hn⟩ := (sampleCtor1_spec 3 x0 x1 nx).1.mp h
  have hn1 : 1 ≤ nx.toNat := by omega
  refine ⟨grid x0 x1 nx.toNat, sample1 f (grid x0 x1 nx.toNat), by simp [sample1d, h], hn1, grid_length _ _ _,
    by simp [sample1, grid_length], ?_, ?_, ?_, ?_⟩
  · rw [grid_getElem? x0 x1 _ 0 (by omega), linspace_first x0 x1 _ hn1]
  · intro h2
    rw [grid_getElem? x0 x1 _ _ (by omega), linspace_last x0 x1 _ h2]
  · intro i hi
    refine ⟨grid_getElem? x0 x1 _ i hi, ?_⟩
    rw [sample1_index f _ i (by simpa [grid_length] using hi)]
    simp [grid]
  · intro i j hij hj
    exact linspace_mono x0 x1 hle _ i j hij hj

/-- a rejected range evaluates nothing and reports which check failed -/
theorem sample1d_rejected {β : Type} (f : α → β) (lx : Nat) (x0 x1 : α) (nx : Int)
    (h : sampleCtor1 lx x0 x1 nx ≠ 0) : sample1d f lx x0 x1 nx = .error (sampleCtor1 lx x0 x1 nx) := by
  simp [sample1d, h]

/-- sample2d: entry `[i][j]` is `f (x_i, y_j)` on the two linspace axes -/
theorem sample2d_accepted {β : Type} (f : α → α → β) (x0 x1 y0 y1 : α) (nx ny : Int)
    (h : sampleCtor2 3 3 x0 x1 y0 y1 nx ny = 0) :
    ∃ v, sample2d f 3 3 x0 x1 y0 y1 nx ny = .ok (grid x0 x1 nx.toNat, grid y0 y1 ny.toNat, v) ∧
      ∀ i j, i < nx.toNat → j < ny.toNat →
        (v[i]?.bind (·[j]?)) = some (f (linspace x0 x1 nx.toNat i) (linspace y0 y1 ny.toNat j)) := by
  refine ⟨sample2 f (grid x0 x1 nx.toNat) (grid y0 y1 ny.toNat), by simp [sample2d, h], ?_⟩
  intro i j hi hj
  rw [sample2_index f _ _ i j (by simpa [grid_length] using hi) (by simpa [grid_length] using hj)]
  simp [grid]

/-- sample3d: entry `[i][j][k]` is `f (x_i, y_j, z_k)` on the three linspace axes, in that index order -/
theorem sample3d_accepted {β : Type} (f : α → α → α → β) (x0 x1 y0 y1 z0 z1 : α) (nx ny nz : Int)
    (h : sampleCtor3 3 3 3 x0 x1 y0 y1 z0 z1 nx ny nz = 0) :
    ∃ v, sample3d f 3 3 3 x0 x1 y0 y1 z0 z1 nx ny nz =
        .ok (grid x0 x1 nx.toNat, grid y0 y1 ny.toNat, grid z0 z1 nz.toNat, v) ∧
      ∀ i j k, i < nx.toNat → j < ny.toNat → k < nz.toNat →
        ((v[i]?.bind (·[j]?)).bind (·[k]?)) =
          some (f (linspace x0 x1 nx.toNat i) (linspace y0 y1 ny.toNat j) (linspace z0 z1 nz.toNat k)) := by
  refine ⟨sample3 f (grid x0 x1 nx.toNat) (grid y0 y1 ny.toNat) (grid z0 z1 nz.toNat), by simp [sample3d, h], ?_⟩
  intro i j k hi hj hk
  rw [sample3_index f _ _ _ i j k (by simpa [grid_length] using hi) (by simpa [grid_length] using hj)
    (by simpa [grid_length] using hk)]
  simp [grid]

theorem sample3d_rejected {β : Type} (f : α → α → α → β) (lx ly lz : Nat) (x0 x1 y0 y1 z0 z1 : α) (nx ny nz : Int)
    (h : sampleCtor3 lx ly lz x0 x1 y0 y1 z0 z1 nx ny nz ≠ 0) :
    sample3d f lx ly lz x0 x1 y0 y1 z0 z1 nx ny nz = .error (sampleCtor3 lx ly lz x0 x1 y0 y1 z0 z1 nx ny nz) := by
  simp [sample3d, h]

example : sampleCtor1 3 (0 : ℚ) 1 5 = 0 ∧ sampleCtor1 3 (1 : ℚ) 0 5 = 2 ∧ sampleCtor1 3 (0 : ℚ) 1 0 = 3 ∧
    sampleCtor1 2 (0 : ℚ) 1 5 = 1 := by decide
example : sampleCtor3 3 3 3 (0 : ℚ) 1 0 1 0 1 2 3 0 = 9 ∧ sampleCtor3 3 3 3 (0 : ℚ) 1 0 1 0 1 2 3 4 = 0 := by decide

/-! ### nested wrappers are pointwise compositions -/

/-- ClampOutput1D ∘ PeriodicTransform1D (both constructors accepted): the value is the clamped wrapped function at the
`[0,p)` image; hence it lies in `[mn, mx]`, is `p`-periodic, and on the base cell is `clamp (f x)` -/
theorem clampOutPeriodic1_spec (fmod : α → α → α) (hf : FmodSpec fmod) (f : α → α) (p mn mx x : α)
    (hp : periodicCtor1 p = 0) (hc : clampCtor mn mx = 0) :
    clampOutPeriodic1 fmod f p mn mx x = clamp (f (remainder fmod x p)) mn mx ∧
    (mn ≤ clampOutPeriodic1 fmod f p mn mx x ∧ clampOutPeriodic1 fmod f p mn mx x ≤ mx) ∧
    (∀ n : ℤ, clampOutPeriodic1 fmod f p mn mx (x + n * p) = clampOutPeriodic1 fmod f p mn mx x) ∧
    (0 ≤ x → x < p → clampOutPeriodic1 fmod f p mn mx x = clamp (f x) mn mx) := by
  have hp' := (periodicCtor1_accepts_iff p).mp hp
  have hc' := (clampCtor_accepts_iff mn mx).mp hc
  refine ⟨rfl, clamp_range _ mn mx hc'.le, ?_, ?_⟩
  · intro n
    simp only [clampOutPeriodic1, clampOutput1, periodic1]
    rw [remainder_eq_of_congruent fmod hf (x + n * p) x p hp' n rfl]
  · intro h0 h1
    simp only [clampOutPeriodic1, clampOutput1]
    rw [periodic_on_base fmod hf f x p hp' ⟨h0, h1⟩]

/-- AxisymmetricMapper ∘ PeriodicTransform2D(f, 0, pz): invariant under rotation about z and under shifts of z by
whole periods; the wrapped function receives `(√(x²+y²), z mod pz)` -/
theorem axisymmetricPeriodic_spec (sqrt : α → α) (fmod : α → α → α) (hf : FmodSpec fmod) {β : Type} (f : α → α → β)
    (pz x y z x' y' : α) (hpz : 0 < pz) (n : ℤ) (hr : x * x + y * y = x' * x' + y' * y') :
    axisymmetricPeriodic sqrt fmod f 0 pz x y z = f (sqrt (x * x + y * y)) (remainder fmod z pz) ∧
    axisymmetricPeriodic sqrt fmod f 0 pz x' y' (z + n * pz) = axisymmetricPeriodic sqrt fmod f 0 pz x y z := by
  constructor
  · simp [axisymmetricPeriodic, axisymmetric, periodic2, remainder_zero_period]
  · simp only [axisymmetricPeriodic, axisymmetric, periodic2, remainder_zero_period]
    rw [remainder_eq_of_congruent fmod hf (z + n * pz) z pz hpz n rfl, hr]

/-- Slice3D ∘ ClampInput3D: the fixed coordinate is clamped on the sliced axis, the free ones on the other two -/
theorem sliceClampInput3_spec {β : Type} (f : α → α → α → β) (a b c d e g v x y : α) :
    sliceClampInput3 f a b c d e g 0 v x y = f (clamp v a b) (clamp x c d) (clamp y e g) ∧
    sliceClampInput3 f a b c d e g 1 v x y = f (clamp x a b) (clamp v c d) (clamp y e g) ∧
    sliceClampInput3 f a b c d e g 2 v x y = f (clamp x a b) (clamp y c d) (clamp v e g) := by
  simp [sliceClampInput3, slice3, clampInput3]

example : clampOutPeriodic1 fmodT (fun t : ℚ => 10 * t) 1 2 3 (-(7/2)) = 3 := by
  have h := (clampOutPeriodic1_spec fmodT fmodT_spec (fun t : ℚ => 10 * t) 1 2 3 (1/2) (by decide) (by decide)).2.2
  have h1 := h.1 (-4)
  have h2 := h.2 (by norm_num) (by norm_num)
  norm_num at h1
  rw [h1, h2]
  norm_num [clamp]

/-! ### the mask specification does not depend on how the polygon is listed (round 6, seeded change C13-r6-2) -/

/-- a listing of the closed polygon `l`: start at vertex `n`, optionally walk it the other way round -/
def listing (l : List (α × α)) (n : Nat) (rev : Bool) : List (α × α) :=
  if rev then (l.rotate n).reverse else l.rotate n

/-- every listing of the same closed polygon (any start vertex, either orientation) has the same crossing-number
interior: the K stream `mask-listing` evaluates `PolygonMask2D` on all `2·n` listings at the same points -/
theorem inPolygon_listing (px py : α) (l : List (α × α)) (n : Nat) (rev : Bool) :
    inPolygon px py (listing l n rev) = inPolygon px py l := by
  unfold listing
  cases rev
  · simpa using inPolygon_rotate px py l n
  · simp only [if_true]
    rw [inPolygon_reverse, inPolygon_rotate]

example : listing [((2 : ℚ), (0 : ℚ)), (1, 1), (0, 0), (1, -1)] 2 true = [(1, 1), (2, 0), (1, -1), (0, 0)] ∧
    inPolygon (3/2 : ℚ) 0 [(2, 0), (1, 1), (0, 0), (1, -1)] = true ∧
    inPolygon (3/2 : ℚ) 0 (listing [(2, 0), (1, 1), (0, 0), (1, -1)] 2 true) = true := by
  refine ⟨?_, ?_, ?_⟩ <;> decide +kernel

end Cherab.Props.C13
