import Cherab.Model.Notifier
import Mathlib.Data.List.Basic
import Mathlib.Data.List.Nodup

namespace Cherab.Props.C01
open Cherab.Notifier

def aliveD (d : List Nat) (e : Entry) : Bool := !d.contains e.1

theorem alive_eq (s : St) : alive s = aliveD s.dead := rfl

/-- abstraction: the live registered callbacks, in registration order -/
def absN (s : St) : List Entry := s.refs.filter (aliveD s.dead)

def specStep2 (x : List Entry × List Nat) : Op → List Entry × List Nat
  | .add e => if x.1.contains e || x.2.contains e.1 then x else (x.1 ++ [e], x.2)
  | .remove e => (x.1.erase e, x.2)
  | .kill o => (x.1.filter (fun r => r.1 != o), o :: x.2)
  | .notify => x

def specRun (ops : List Op) : List Entry × List Nat := ops.foldl specStep2 ([], [])

theorem filter_erase_of_pos {α : Type} [BEq α] [LawfulBEq α] (p : α → Bool) (l : List α) (e : α)
    (h : p e = true) : (l.erase e).filter p = (l.filter p).erase e := by
  induction l with
  | nil => simp
  | cons a t ih =>
    by_cases hae : a = e
    · subst hae; simp [h]
    · have hb : (a == e) = false := by simpa using hae
      rw [List.erase_cons_tail (by simp [hb])]
      by_cases hp : p a = true
      · rw [List.filter_cons_of_pos hp, List.filter_cons_of_pos hp, List.erase_cons_tail (by simp [hb]), ih]
      · rw [List.filter_cons_of_neg hp, List.filter_cons_of_neg hp, ih]

theorem any_eq_contains_filter (p : Entry → Bool) (l : List Entry) (e : Entry) :
    l.any (fun r => p r && r == e) = (l.filter p).contains e := by
  induction l with
  | nil => rfl
  | cons a t ih =>
    rw [List.any_cons, ih]
    by_cases ha : p a = true
    · rw [List.filter_cons_of_pos ha, List.contains_cons, ha, Bool.true_and]
      congr 1
      by_cases hae : a = e
      · subst hae; simp
      · have h1 : (a == e) = false := by simpa using hae
        have h2 : (e == a) = false := by simpa using fun h => hae h.symm
        rw [h1, h2]
    · rw [List.filter_cons_of_neg ha]
      have : p a = false := by simpa using ha
      rw [this, Bool.false_and, Bool.false_or]

theorem isPresent_eq (s : St) (e : Entry) : isPresent s e = (absN s).contains e := by
  unfold isPresent absN
  rw [alive_eq]
  exact any_eq_contains_filter _ _ _

theorem step_refines (s : St) (op : Op) (hnd : (absN s).Nodup) :
    (absN (step s op).1, (step s op).1.dead) = specStep2 (absN s, s.dead) op ∧ (absN (step s op).1).Nodup := by
  cases op with
  | add e =>
    simp only [step, specStep2, isPresent_eq]
    split
    · exact ⟨rfl, hnd⟩
    · rename_i hc
      simp only [Bool.or_eq_true, not_or, Bool.not_eq_true] at hc
      have hal : aliveD s.dead e = true := by unfold aliveD; rw [hc.2]; rfl
      have habs : absN { s with refs := s.refs ++ [e] } = absN s ++ [e] := by
        show (s.refs ++ [e]).filter (aliveD s.dead) = s.refs.filter (aliveD s.dead) ++ [e]
        rw [List.filter_append, List.filter_cons_of_pos hal, List.filter_nil]
      refine ⟨by rw [habs], ?_⟩
      rw [habs]
      refine List.Nodup.append hnd (List.nodup_singleton e) ?_
      intro x hx hx'
      rw [List.mem_singleton] at hx'; subst hx'
      have h1 := hc.1
      rw [List.contains_eq_mem] at h1
      simp only [decide_eq_false_iff_not] at h1
      exact h1 hx
  | remove e =>
    simp only [step, specStep2, removeFirst]
    cases hf : s.refs.find? (fun r => alive s r && r == e) with
    | none =>
      have hne : e ∉ absN s := by
        intro hm
        simp only [absN, List.mem_filter] at hm
        rw [List.find?_eq_none] at hf
        have := hf e hm.1
        rw [alive_eq] at this
        simp [hm.2] at this
      simp only
      refine ⟨?_, hnd⟩
      rw [List.erase_of_not_mem hne]
    | some r =>
      have hr := List.find?_some hf
      simp only [Bool.and_eq_true, beq_iff_eq] at hr
      obtain ⟨hal, hre⟩ := hr
      subst hre
      rw [alive_eq] at hal
      have habs : absN { s with refs := s.refs.erase r } = (absN s).erase r :=
        filter_erase_of_pos (aliveD s.dead) s.refs r hal
      simp only
      exact ⟨by rw [habs], by rw [habs]; exact hnd.erase r⟩
  | kill o =>
    simp only [step, specStep2]
    have habs : absN { s with dead := o :: s.dead } = (absN s).filter (fun r => r.1 != o) := by
      show s.refs.filter (aliveD (o :: s.dead)) = (s.refs.filter (aliveD s.dead)).filter (fun r => r.1 != o)
      rw [List.filter_filter]
      apply List.filter_congr
      intro x _
      simp only [aliveD, List.contains_cons, Bool.not_or, bne]
    exact ⟨by rw [habs], by rw [habs]; exact hnd.filter _⟩
  | notify =>
    simp only [step, specStep2]
    have habs : absN { s with refs := s.refs.filter (alive s) } = absN s := by
      show (s.refs.filter (alive s)).filter (aliveD s.dead) = s.refs.filter (aliveD s.dead)
      rw [alive_eq, List.filter_filter]
      apply List.filter_congr
      intro x _; simp
    exact ⟨by rw [habs], by rw [habs]; exact hnd⟩

theorem run_refines (ops : List Op) (s : St) (x : List Entry × List Nat) (hx : (absN s, s.dead) = x)
    (hnd : (absN s).Nodup) :
    (absN (run s ops), (run s ops).dead) = ops.foldl specStep2 x ∧ (absN (run s ops)).Nodup := by
  induction ops generalizing s x with
  | nil => exact ⟨hx, hnd⟩
  | cons o os ih =>
    simp only [run, List.foldl_cons]
    obtain ⟨h1, h2⟩ := step_refines s o hnd
    exact ih (step s o).1 (specStep2 x o) (by rw [h1, hx]) h2

/-- **Notifier exactness**: after any sequence of add / remove / object deaths / notifications, `notify` invokes
exactly the callbacks that are registered and alive according to the eager specification, each once, in
registration order. -/
theorem notifier_exact (ops : List Op) :
    (step (run init ops) .notify).2 = (specRun ops).1 ∧ ((step (run init ops) .notify).2).Nodup := by
  obtain ⟨h1, h2⟩ := run_refines ops init ([], []) (by simp [absN, init]) (by simp [absN, init])
  have : (step (run init ops) .notify).2 = absN (run init ops) := rfl
  rw [this]
  refine ⟨?_, h2⟩
  have := congrArg Prod.fst h1
  simpa [specRun] using this

example : (step (run init [.add (1,1), .add (2,1), .add (1,1), .kill 1]) .notify).2 = [(2,1)] := by decide

end Cherab.Props.C01
