/-
C11 — inversion solvers (cherab/tools/inversions/{sart.pyx, nnls.py, lstsq.py, svd.py}).
Mathlib-free; polymorphic over notation so that the same definitions run at `Float` in the driver and are
reasoned about over an ordered field.  Matrices are lists of rows.

Transcribed from the code as it is:
* `invert_sart` / `invert_constrained_sart`: column sums (`cell_ray_densities`), row sums (`ray_lengths`),
  `inv_ray_lengths = 1 / ray_lengths`, the carried forward projection `y_hat`, the cell loop with the
  `density > 0` guard, the observation loop that skips rows with `ray_length == 0`, the clip at zero, the
  convergence list `(|b|² − |ŷ|²)/|b|²` (a C double division: Cython raises ZeroDivisionError when |b|² = 0),
  the stop rule `k > 0 and |conv[k] − conv[k−1]| < conv_tol`, `max_iterations`;
  the constrained variant subtracts `beta_laplace · (L x)_j` in both branches of the density guard.
* `invert_regularised_nnls` / `invert_regularised_lstsq`: `alpha * tikhonov_matrix` (identity by default), the
  stacked system `[W; αL]`, `[b; 0]`, (nnls only) division of both by `vmax = max(d_vector)` and `rnorm * vmax`.
  The external solvers (`scipy.optimize.nnls`, `numpy.linalg.lstsq`, `scipy.linalg.pinv`) are parameters.
* certificate checkers (ours, not cherab's): gradient `Cᵀ(Cx − d)` for the normal equations / KKT conditions.
-/
namespace Cherab.Inversion

section
variable {α : Type} [Add α] [Sub α] [Mul α] [Div α] [Neg α] [Zero α] [One α]
  [LT α] [DecidableLT α] [BEq α]

/-- `acc = 0; for t in l: acc += t` -/
def vsum (l : List α) : α := l.foldl (· + ·) 0

/-- `np.dot(a, b)` of two vectors (left-to-right accumulation) -/
def dot (a b : List α) : α := vsum (List.zipWith (· * ·) a b)

/-- `np.dot(W, x)` -/
def matVec (W : List (List α)) (x : List α) : List α := W.map (fun r => dot r x)

/-- column `j` of a list-of-rows matrix -/
def col (W : List (List α)) (j : Nat) : List α := W.map (fun r => r.getD j 0)

/-- `np.sum(W, axis=1)` : `ray_lengths` -/
def rowSums (W : List (List α)) : List α := W.map vsum

/-- `np.sum(W, axis=0)` : `cell_ray_densities` -/
def colSums (W : List (List α)) (n : Nat) : List α := (List.range n).map (fun j => vsum (col W j))

/-- `np.abs` of a scalar -/
def absv (x : α) : α := if x < 0 then -x else x

/-! ## SART -/

/-- sart.pyx:120-126 — the loop over observations for one cell.
`colj` = column of the geometry matrix, `len` = ray lengths, `inv` = 1/ray lengths, `b` measurements, `yh` = ŷ. -/
def obsDiff (colj len inv b yh : List α) : α :=
  (List.zip colj (List.zip len (List.zip inv (List.zip b yh)))).foldl
    (fun acc t => if t.2.1 == 0 then acc else acc + (t.1 * t.2.2.1) * (t.2.2.2.1 - t.2.2.2.2)) 0

/-- sart.pyx:114-138 (and 258-283 with `gp = some grad_penalty[j]`) — update of one cell, clipped at zero. -/
def cellUpdate (ω dens xj od : α) (gp : Option α) : α :=
  let xn :=
    if 0 < dens then
      match gp with
      | none => xj + ω / dens * od
      | some g => xj + ω / dens * od - g
    else
      match gp with
      | none => xj
      | some g => xj - g
  if xn < 0 then 0 else xn

/-- one pass of the `for jth_cell in range(n_sources)` loop -/
def sweep (n : Nat) (W : List (List α)) (b dens len inv : List α) (ω : α) (pen : Option (List α))
    (x yh : List α) : List α :=
  (List.range n).map fun j =>
    cellUpdate ω (dens.getD j 0) (x.getD j 0) (obsDiff (col W j) len inv b yh) (pen.map (fun g => g.getD j 0))

/-- sart.pyx:253 `np.dot(laplacian_matrix, solution) * beta_laplace`; `none` for the unconstrained solver -/
def gradPenalty (lap : Option (List (List α) × α)) (x : List α) : Option (List α) :=
  lap.map (fun Lβ => (matVec Lβ.1 x).map (fun v => v * Lβ.2))

inductive Err where
  | zeroDivision   -- Cython's checked C-double division `(… ) / measurement_squared`
  | valueError     -- `np.dot` shape mismatch for an initial guess of the wrong length
  deriving Repr, DecidableEq

/-- sart.pyx:110-155 — the `for k in range(max_iterations)` loop.  `convRev` is the convergence list, most recent
first; it is empty exactly when `k = 0` (one entry is appended per iteration), which is how `k > 0` is modelled. -/
def sartLoop (n : Nat) (W : List (List α)) (b dens len inv : List α) (ω : α) (lap : Option (List (List α) × α))
    (tol bb : α) : Nat → List α → List α → List α → Except Err (List α × List α)
  | 0, x, _, convRev => .ok (x, convRev.reverse)
  | fuel + 1, x, yh, convRev =>
    let xn := sweep n W b dens len inv ω (gradPenalty lap x) x yh
    let yh' := matVec W xn
    let yy := dot yh' yh'
    if bb == 0 then .error .zeroDivision else
    let c := (bb - yy) / bb
    let stop : Bool := match convRev with
      | [] => false
      | p :: _ => decide (absv (c - p) < tol)
    if stop then .ok (xn, (c :: convRev).reverse) else sartLoop n W b dens len inv ω lap tol bb fuel xn yh' (c :: convRev)

/-- the three documented kinds of `initial_guess` -/
inductive Guess (α : Type) where
  | none
  | scalar (v : α)
  | array (xs : List α)

/-- sart.pyx:81-86; `expm1` is the value of `np.exp(-1)` -/
def initSolution (expm1 : α) (n : Nat) : Guess α → List α
  | .none => List.replicate n (0 + expm1)
  | .scalar v => List.replicate n (0 + v)
  | .array xs => xs

/-- `invert_sart` (`lap = none`) and `invert_constrained_sart` (`lap = some (L, β)`): returns (solution, convergence) -/
def sartRun (expm1 : α) (n : Nat) (W : List (List α)) (lap : Option (List (List α) × α)) (b : List α)
    (guess : Guess α) (maxIt : Nat) (ω tol : α) : Except Err (List α × List α) :=
  let x0 := initSolution expm1 n guess
  if x0.length ≠ n then .error .valueError else
  let len := rowSums W
  sartLoop n W b (colSums W n) len (len.map (fun l => 1 / l)) ω lap tol (dot b b) maxIt x0 (matVec W x0) []

/-- what the caller's `initial_guess` object holds after the call: sart.pyx:86 binds `solution` to the caller's array and
line 150 copies every new iterate into it, so an array guess ends up holding the returned solution (untouched when the call
raises before the first copy); scalars and `None` are immutable; the matrix, the measurement and the Laplacian are only read -/
def guessAfter (g : Guess α) (r : Except Err (List α × List α)) : Guess α :=
  match g, r with
  | .array _, .ok (xs, _) => .array xs
  | g, _ => g

/-! ## Regularised least squares wrappers -/

/-- `alpha * tikhonov_matrix` -/
def scaleMat (a : α) (L : List (List α)) : List (List α) := L.map (fun r => r.map (fun v => a * v))

/-- `np.identity(n)` -/
def identity (n : Nat) : List (List α) :=
  (List.range n).map fun i => (List.range n).map fun j => if i = j then 1 else 0

/-- `c_matrix` : `[W; αL]`, identity when no Tikhonov matrix is given -/
def stackC (n : Nat) (W : List (List α)) (a : α) (L : Option (List (List α))) : List (List α) :=
  W ++ scaleMat a (L.getD (identity n))

/-- `d_vector` : `[b; 0]` -/
def stackD (n : Nat) (b : List α) : List α := b ++ List.replicate n 0

/-- `ndarray.max()` -/
def maxOf : List α → α
  | [] => 0
  | h :: t => t.foldl (fun a v => if a < v then v else a) h

def divMat (v : α) (C : List (List α)) : List (List α) := C.map (fun r => r.map (fun c => c / v))
def divVec (v : α) (d : List α) : List α := d.map (fun c => c / v)

/-- nnls.py:68 `vmax = d_vector.max()`.  `guarded` is read from the source by `harness/translators/inversion.py`
(`Cherab.Gen.Inversion.nnlsVmaxGuarded`): `false` for the code as it is (the system is divided by `vmax` whatever its
value), `true` once an `if not vmax > 0: vmax = 1.0` guard follows the assignment. -/
def normaliser (guarded : Bool) (d : List α) : α :=
  let v := maxOf d
  if guarded then (if 0 < v then v else 1) else v

/-- nnls.py: `solver` stands for `scipy.optimize.nnls` (returns solution and residual 2-norm) -/
def nnlsWrap (guarded : Bool) (solver : List (List α) → List α → List α × α) (n : Nat) (W : List (List α)) (b : List α)
    (a : α) (L : Option (List (List α))) : List α × α :=
  let C := stackC n W a L
  let d := stackD n b
  let v := normaliser guarded d
  let r := solver (divMat v C) (divVec v d)
  (r.1, r.2 * v)

/-- lstsq.py: `solver` stands for `numpy.linalg.lstsq(…, rcond=None)[:2]` (solution, sums of squared residuals) -/
def lstsqWrap {β : Type} (solver : List (List α) → List α → β) (n : Nat) (W : List (List α)) (b : List α)
    (a : α) (L : Option (List (List α))) : β :=
  solver (stackC n W a L) (stackD n b)

/-- svd.py: `pinv` stands for `scipy.linalg.pinv` -/
def svdWrap (pinv : List (List α) → List (List α)) (W : List (List α)) (b : List α) : List α :=
  matVec (pinv W) b

/-! ## Certificates -/

def vadd (a b : List α) : List α := List.zipWith (· + ·) a b
def vsub (a b : List α) : List α := List.zipWith (· - ·) a b
def smul (c : α) (a : List α) : List α := a.map (fun v => c * v)
def normSq (v : List α) : α := dot v v

/-- `Cᵀ r` accumulated row by row -/
def tMatVec (n : Nat) (C : List (List α)) (r : List α) : List α :=
  (List.zip C r).foldr (fun t acc => vadd (smul t.2 t.1) acc) (List.replicate n 0)

/-- `Cᵀ(Cx − d)` : half the gradient of `|Cx − d|²`; zero ⇔ normal equations -/
def normalEqResidual (n : Nat) (C : List (List α)) (d x : List α) : List α :=
  tMatVec n C (vsub (matVec C x) d)

/-- KKT data of `min |Cx − d|², x ≥ 0` at `x`: the gradient `g` and the complementarity product `x·g` -/
def kktResidual (n : Nat) (C : List (List α)) (d x : List α) : List α × α :=
  let g := normalEqResidual n C d x
  (g, dot x g)

/-- `|Wx − b|² + α²|Lx|²` -/
def objective (W : List (List α)) (L : List (List α)) (a : α) (b x : List α) : α :=
  normSq (vsub (matVec W x) b) + a * a * normSq (matVec L x)

end

/-! ## Argument representations (which Python objects the entry points accept, transcribed from the code paths)

`invert_sart*` read `geometry_matrix.shape`, bind `double[:]` / `double[:,:]` typed memoryviews (float64, writable,
right ndim) to the measurement vector, the geometry matrix and the solution, and assign `initial_guess` to an
`np.ndarray`-typed variable unless it is a `float`/`int` instance; the Laplacian only goes through `np.dot`.
`invert_regularised_*` read `w_matrix.shape`, compute `alpha * tikhonov_matrix`, and copy everything into fresh float64
arrays.  `invert_svd` hands `w_matrix` to `pinv` and calls `b_vector.reshape`. -/

inductive Rep where
  | f64 | f32 | i32 | i64 | bool | list | tuple | fortran | strided | readonly | col
  deriving Repr, DecidableEq

inductive GRep where
  | none | pyfloat | pyint | pybool | npf64 | npf32 | npi64 | zerod | arr (r : Rep)
  deriving Repr, DecidableEq

inductive ARep where
  | pyfloat | pyint | npf64 | npf32 | zerod
  deriving Repr, DecidableEq

inductive Status where
  | ok | valueError | typeError | attributeError
  deriving Repr, DecidableEq

def Rep.isSeq : Rep → Bool
  | .list | .tuple => true
  | _ => false

/-- binding a typed memoryview `double[:]` (or `double[:,:]`) to an argument -/
def memview : Rep → Status
  | .list | .tuple => .typeError            -- "a bytes-like object is required"
  | .f32 | .i32 | .i64 | .bool => .valueError   -- "Buffer dtype mismatch"
  | .readonly => .valueError                -- "buffer source array is read-only"
  | .col => .valueError                     -- "Buffer has wrong number of dimensions"
  | .f64 | .fortran | .strided => .ok

/-- sart.pyx:81-87 -/
def guessStatus : GRep → Status
  | .none | .pyfloat | .pyint | .pybool | .npf64 => .ok     -- `isinstance(…, (float, int))`; np.float64 is a float
  | .npf32 | .npi64 => .typeError                             -- "Cannot convert numpy.float32 to numpy.ndarray"
  | .zerod => .valueError                                     -- ndarray, but 0-d: memoryview ndim mismatch
  | .arr r => if r.isSeq then .typeError else memview r

/-- `invert_sart` / `invert_constrained_sart`, in source order (the Laplacian is accepted in every representation) -/
def sartAccept (rW rb : Rep) (rg : GRep) : Status :=
  if rW.isSeq then .attributeError                       -- `.shape`
  else if guessStatus rg ≠ .ok then guessStatus rg
  else if memview rb ≠ .ok then memview rb
  else memview rW

/-- `invert_regularised_nnls` / `invert_regularised_lstsq`; `m` = number of measurements -/
def lsqAccept (m : Nat) (rW : Rep) (ra : ARep) (rL : Option Rep) (rb : Rep) : Status :=
  if rW.isSeq then .attributeError                       -- `.shape`
  else if (match rL with
      -- `alpha * list`: "can't multiply sequence by non-int" for float scalars (Python's and numpy's), a repeated list that
      -- cannot be indexed `[:, :]` for ints; only a 0-d ndarray alpha converts the sequence
      | some r => r.isSeq && ra != ARep.zerod
      | none => false) then .typeError
  else if rb == Rep.col && m != 1 then .valueError       -- `d_vector[0:m] = b_vector[:]` cannot broadcast (m,1) into (m,)
  else .ok

/-- `invert_svd` -/
def svdAccept (_rW rb : Rep) : Status :=
  if rb.isSeq then .attributeError else .ok              -- `b_vector.reshape`

end Cherab.Inversion
