import Cherab.Model.Repository
import Cherab.Gen.RepoPaths

namespace Cherab.Props.C06Table
open Cherab.Repository Cherab.Gen.RepoPaths

/-- every `add_y` runs the code of, and writes with the path template of, the family it is named after -/
theorem add_matches_update : tables.addMatches = true := by decide

/-- every `get_z` reads where the family it is named after writes -/
theorem get_matches_update : tables.getMatches = true := by decide

/-- every path template has the components the family's key demands -/
theorem templates_shaped : tables.shapesOk = true := by decide

/-- no two families can produce the same path -/
theorem templates_disjoint : tables.disjointOk = true := by decide

/-- every front-end passes `repository_path` on -/
theorem all_paths_under_root : tables.rootPassed = true := by decide

theorem tables_wellformed : tables.wellFormed = true := by
  simp only [Tables.wellFormed, add_matches_update, get_matches_update, templates_shaped, templates_disjoint,
    all_paths_under_root, Bool.and_self]

end Cherab.Props.C06Table
