"""Check context: collects obligations (T), correspondence results (K), failing inputs (S), writes evidence,
applies the decision rule of DESIGN §1."""
import collections
import json
import os
import random
import time

from . import findings, lean
from .util import VERIF


class Ctx:
    def __init__(self, prop, tier, seed):
        self.prop = prop
        self.tier = tier
        self.seed = seed
        self.rng = random.Random('%s/%s/%d' % (prop, tier, seed))
        self.t0 = time.time()
        self.hist = collections.Counter()
        self.samples = []
        self.evaluations = 0
        self.distinct = set()
        self.rule = ''
        self.obligations = []        # (name, ok, detail)
        self.broken = []             # dict(kind, name, detail)  -- T or K obligations that no longer check
        self.failing = []            # dict(signature, description, replay)
        self.known_hits = []
        self.trusted = []
        self.assumptions = []
        self.extra = {}
        self.exhaustive = None
        self.traces = 0
        self.disagreements = 0
        self.checker_cmd = ''
        self.known = findings.open_signatures(prop)
        self.log_lines = []

    # ---- sizing -------------------------------------------------------------------------------
    def n(self, quick, thorough=None):
        if self.tier == 'thorough':
            return thorough if thorough is not None else quick * 15
        return quick

    def log(self, *a):
        s = ' '.join(str(x) for x in a)
        self.log_lines.append(s)
        print('[%s] %s' % (self.prop, s), flush=True)

    # ---- coverage accounting -------------------------------------------------------------------
    def count(self, key, k=1):
        self.hist[key] += k

    def case(self, key=None, sample=None):
        """one evaluated case; key identifies distinct non-trivial cases (None = trivial)"""
        self.evaluations += 1
        if key is not None:
            self.distinct.add(key if isinstance(key, (str, int, tuple)) else json.dumps(key, sort_keys=True, default=str))
        if sample is not None and len(self.samples) < 6:
            self.samples.append(sample)

    # ---- T: Lean ---------------------------------------------------------------------------------
    def lean_check(self, modules, audit_file):
        """build the property's theorem modules and audit their axioms. Each `#print axioms X` line of the
        audit file is one obligation."""
        self.checker_cmd = 'cd %s/lean && lake build %s && lake env lean %s' % (VERIF, ' '.join(modules), audit_file)
        hits = lean.grep_forbidden()
        if hits:
            raise InfraError('forbidden token in Lean sources: ' + '; '.join(hits[:5]))
        targets = lean.audit_targets(audit_file)
        res = lean.build_each(modules)
        bad = {m: out for m, (ok, out) in res.items() if not ok}
        if bad:
            for m, out in bad.items():
                self.broken.append(dict(kind='theorem', name=m, detail=_errors(out)))
                self.log('LEAN BUILD FAILED', m)
            # theorems of failing modules are undischarged; others are still audited below if possible
        ok, ax, raw = lean.audit(audit_file) if not bad else (False, {}, '')
        for t in targets:
            full = [k for k in ax if k == t or k.endswith('.' + t)]
            if full:
                ax[t] = ax[full[0]]
            if t in ax:
                extra = set(ax[t]) - lean.ALLOWED_AXIOMS
                if extra:
                    raise InfraError('theorem %s depends on non-standard axioms %s' % (t, sorted(extra)))
                self.obligations.append((t, True, ','.join(ax[t]) or 'no axioms'))
            else:
                self.obligations.append((t, False, 'not checked'))
                if not bad:
                    self.broken.append(dict(kind='theorem', name=t, detail=raw[-1500:]))
        if self.tier == 'thorough' and not bad:
            # independent re-check of the compiled .olean files of the property's theorem modules
            import subprocess
            done = self.extra.setdefault('leanchecker', {})
            todo = [m for m in modules if m not in done]
            if todo:
                try:
                    r = subprocess.run(['lake', 'env', 'leanchecker'] + todo, cwd=lean.LEAN, stdout=subprocess.PIPE,
                                       stderr=subprocess.STDOUT, text=True, timeout=1500)
                    for m in todo:
                        done[m] = 'ok' if r.returncode == 0 else 'failed'
                    if r.returncode != 0:
                        self.broken.append(dict(kind='theorem', name='leanchecker ' + ' '.join(todo), detail=r.stdout[-1500:]))
                        self.log('LEANCHECKER FAILED', todo)
                except subprocess.TimeoutExpired:
                    for m in todo:
                        done[m] = 'timeout'
        return not bad and all(o[1] for o in self.obligations)

    def driver(self, lines):
        return lean.run_driver(self.prop, lines)

    # ---- K / S results ---------------------------------------------------------------------------
    def broke(self, kind, name, detail):
        """a proof obligation or a correspondence stream no longer checks"""
        self.broken.append(dict(kind=kind, name=name, detail=detail))
        self.log('BROKEN %s %s: %s' % (kind, name, str(detail)[:300]))

    def fail(self, signature, description, replay):
        """a concrete failing input of the property on the implementation"""
        if signature in self.known:
            if signature not in [k['signature'] for k in self.known_hits]:
                self.known_hits.append(dict(signature=signature, description=description))
            return
        if signature in [f['signature'] for f in self.failing]:
            return
        self.failing.append(dict(signature=signature, description=description, replay=replay))
        self.log('FAILING INPUT', signature, description[:300])
        # written at once: if the implementation later takes the whole process down (heap corruption after a stale
        # buffer, abort in native code), the parent still reports the failing inputs found before the crash
        try:
            os.makedirs(os.path.join(VERIF, 'replays'), exist_ok=True)
            i = len(self.failing) - 1
            path = os.path.join(VERIF, 'replays', '%s_%s_%d_%d.json' % (self.prop, self.tier, self.seed, i))
            json.dump(dict(property=self.prop, seed=self.seed, tier=self.tier, kind='failing-input', signature=signature,
                           description=description, replay=replay, broken=[], written='at-detection'),
                      open(path, 'w'), indent=1, default=str)
        except Exception:  # noqa
            pass

    # ---- finish ------------------------------------------------------------------------------------
    def finish(self):
        os.makedirs(os.path.join(VERIF, 'replays'), exist_ok=True)
        os.makedirs(os.path.join(VERIF, 'evidence'), exist_ok=True)
        lines = []
        for k in self.known_hits:
            lines.append('KNOWN-FINDING: property=%s %s -- %s' % (self.prop, k['signature'], k['description'][:200]))
        nviol = 0
        for i, f in enumerate(self.failing):
            path = os.path.join(VERIF, 'replays', '%s_%s_%d_%d.json' % (self.prop, self.tier, self.seed, i))
            json.dump(dict(property=self.prop, seed=self.seed, tier=self.tier, kind='failing-input',
                           signature=f['signature'], description=f['description'], replay=f['replay'],
                           broken=self.broken), open(path, 'w'), indent=1, default=str)
            lines.append('VIOLATION property=%s replay=%s' % (self.prop, path))
            nviol += 1
        if self.broken and not self.failing:
            # known findings may explain a broken obligation only if the module says so explicitly
            unexplained = [b for b in self.broken if not b.get('explained_by_known')]
            if unexplained:
                path = os.path.join(VERIF, 'replays', '%s_%s_%d_broken.json' % (self.prop, self.tier, self.seed))
                json.dump(dict(property=self.prop, seed=self.seed, tier=self.tier, kind='no-failing-input-found',
                               broken=unexplained), open(path, 'w'), indent=1, default=str)
                lines.append('VIOLATION property=%s replay=%s no-failing-input-found' % (self.prop, path))
                nviol += 1
        nob = len(self.obligations)
        ndis = sum(1 for o in self.obligations if o[1])
        cov = dict(
            obligations=nob, discharged=ndis, checker_cmd=self.checker_cmd,
            trusted_base=['Lean 4.33.0 kernel', 'axioms: propext, Classical.choice, Quot.sound only (audited with #print axioms every run)',
                          'correspondence harness /verif/harness (differential test model<->implementation)'] + self.trusted,
            theorems=[dict(name=o[0], ok=o[1], axioms=o[2]) for o in self.obligations],
            evaluations=self.evaluations, distinct_nontrivial=len(self.distinct), rule=self.rule,
            samples=self.samples or [dict(note='no sampled case recorded')],
            traces_validated_against_impl=self.traces, disagreements_checked=self.disagreements,
            histogram=dict(self.hist), known_findings_hit=[k['signature'] for k in self.known_hits],
            broken=[dict(kind=b['kind'], name=b['name']) for b in self.broken])
        if self.exhaustive is not None:
            cov['exhaustive'] = self.exhaustive
        cov.update(self.extra)
        ev = dict(property_id=self.prop, tier=self.tier, seed=self.seed, level='proof', coverage=cov,
                  assumptions=self.assumptions, wall_s=round(time.time() - self.t0, 2), violations=nviol)
        json.dump(ev, open(os.path.join(VERIF, 'evidence', self.prop + '.json'), 'w'), indent=1, default=str)
        for l in lines:
            print(l, flush=True)
        return 1 if nviol else 0


class InfraError(Exception):
    pass


def _errors(out):
    keep = [l for l in out.splitlines() if 'error' in l.lower() or l.startswith(' ')]
    return '\n'.join(keep)[-3000:] or out[-3000:]
