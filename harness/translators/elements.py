"""Translator for C19: cherab/core/atomic/elements.pyx (+ line.pyx)  ->  lean/Cherab/Gen/Elements.lean

Purely syntactic (source text only; nothing is imported here).  What it recognises:

* module level, column 0, in source order (rebinding and aliasing are followed like the interpreter would):
    NAME = Element('name', 'Sym', <int>, <float expr>)          float expr: literals, + - * /, parentheses
    NAME = Isotope('name', 'Sym', <ELEMENT NAME>, <int>, <float expr>)
    NAME = OTHER_NAME                                           alias of an object already bound
    _build_element_index() / _build_isotope_index()             which objects exist *at that point* is recorded
* `Element.__init__`, `Isotope.__init__`: `self.f = <param | param.attr>` and `super().__init__(...)`
  -> the Lean constructors `mkElement`, `mkIsotope`
* `_build_element_index`, `_build_isotope_index`: fixed loop skeleton (dir(module), getattr, exact-type test), the key
  expressions `x.lower()`, `str(x)`, `a + b`, attribute paths  -> `elementKeys`, `isotopeKeys`
* `__richcmp__` / `__hash__` of Element, Isotope, Line: isinstance guard on the own class, `op == 2` and-chain of
  `self.f == o.f`, `op == 3` or-chain of `self.f != o.f`, `hash((self.f, ...))`  -> `cfg : CmpCfg`

Anything else that mentions Element(/Isotope( or departs from the skeletons raises `Unsupported` (the check reports the
translator obligation as broken and falls back to the search on the implementation).
`runtime_table()` reads the same information from the imported module; `compare()` lists the differences.
"""
import ast
import os
import re
import textwrap

REPO = '/repo'
ELEMENTS_PYX = os.path.join(REPO, 'cherab/core/atomic/elements.pyx')
LINE_PYX = os.path.join(REPO, 'cherab/core/atomic/line.pyx')


class Unsupported(Exception):
    pass


def code(s):
    """string -> code (big-endian base-256 of the UTF-8 bytes); must be NUL-free ASCII here"""
    b = s.encode('utf-8')
    if not b.isascii() or 0 in b:
        raise Unsupported('non-ASCII or NUL in identifier %r (the model\'s lower() is ASCII only)' % s)
    return int.from_bytes(b, 'big') if b else 0


def decode(n):
    n = int(n)
    return n.to_bytes((n.bit_length() + 7) // 8, 'big').decode('utf-8', 'replace')


# ---------------------------------------------------------------------------------------------------------------
# source splitting
# ---------------------------------------------------------------------------------------------------------------
def top_level_chunks(src):
    """[(lineno, text)] -- a column-0 line plus everything up to the next column-0 code line (comments at column 0
    and blank lines do not start a chunk; an open bracket continues the chunk)"""
    lines = src.split('\n')
    chunks = []
    cur = None
    depth = 0
    for i, ln in enumerate(lines, 1):
        s = ln.strip()
        starts = bool(s) and not ln[0].isspace() and not s.startswith('#')
        if starts and depth <= 0:
            # a string literal opening a docstring at module level is a chunk too; decorators join the next chunk
            cur = [i, [ln]]
            chunks.append(cur)
        elif cur is not None:
            cur[1].append(ln)
        if cur is not None and not s.startswith('#'):
            code_part = re.sub(r"'[^'\\]*(?:\\.[^'\\]*)*'|\"[^\"\\]*(?:\\.[^\"\\]*)*\"", "''", ln)
            code_part = code_part.split('#')[0]
            depth += sum(code_part.count(c) for c in '([{') - sum(code_part.count(c) for c in ')]}')
    return [(c[0], '\n'.join(c[1]).rstrip() + '\n') for c in chunks]


_SIG = re.compile(r'^(\s*)def\s+(\w+)\s*\((.*)\)\s*:\s*$')


def _sanitize_def(text):
    """Cython 'def' -> Python: drop parameter types, cdef lines, <casts>"""
    out = []
    for ln in text.split('\n'):
        m = _SIG.match(ln)
        if m:
            params = []
            types = {}
            for p in [q.strip() for q in m.group(3).split(',') if q.strip()]:
                default = ''
                if '=' in p:
                    p, default = p.split('=', 1)
                    default = '=' + default.strip()
                toks = p.split()
                params.append(toks[-1] + default)
                types[toks[-1].lstrip('*')] = ' '.join(toks[:-1]) or None
            out.append('%sdef %s(%s):' % (m.group(1), m.group(2), ', '.join(params)))
            out.append('%s    __types__ = %r' % (m.group(1), types))
            continue
        if ln.strip().startswith('cdef '):
            continue
        out.append(re.sub(r'<\s*\w+\s*>\s*', '', ln))
    return '\n'.join(out)


def class_methods(chunk_text):
    """{method name: ast.FunctionDef} of a (cdef) class chunk"""
    lines = chunk_text.split('\n')
    res = {}
    i = 1
    while i < len(lines):
        m = re.match(r'^    def\s+(\w+)\s*\(', lines[i])
        if not m:
            i += 1
            continue
        j = i + 1
        while j < len(lines) and (not lines[j].strip() or len(lines[j]) - len(lines[j].lstrip()) > 4):
            j += 1
        text = textwrap.dedent(_sanitize_def('\n'.join(lines[i:j])))
        try:
            fn = ast.parse(text).body[0]
        except SyntaxError as e:
            raise Unsupported('cannot parse method %s: %s' % (m.group(1), e))
        res[m.group(1)] = fn
        i = j
    return res


def _body(fn):
    """function body without docstring and the injected __types__ line; returns (types, stmts)"""
    types = {}
    stmts = []
    for st in fn.body:
        if isinstance(st, ast.Expr) and isinstance(st.value, ast.Constant) and isinstance(st.value.value, str):
            continue
        if isinstance(st, ast.Assign) and isinstance(st.targets[0], ast.Name) and st.targets[0].id == '__types__':
            types = ast.literal_eval(st.value)
            continue
        stmts.append(st)
    return types, stmts


def _d(node):
    return ast.dump(node)


def _expect(cond, what, node=None):
    if not cond:
        raise Unsupported(what + ((': ' + ast.unparse(node)) if node is not None else ''))


# ---------------------------------------------------------------------------------------------------------------
# expressions with sorts
# ---------------------------------------------------------------------------------------------------------------
# sorts: 'str' (code : Nat), 'int' (Nat), 'dbl' (Nat × Nat), 'El', 'Iso'
EL_ATTR = {'name': ('name', 'str'), 'symbol': ('sym', 'str'), 'atomic_number': ('z', 'int'),
           'atomic_weight': (None, 'dbl')}
ISO_ATTR = {'name': ('base.name', 'str'), 'symbol': ('base.sym', 'str'), 'atomic_number': ('base.z', 'int'),
            'atomic_weight': (None, 'dbl'), 'mass_number': ('a', 'int'), 'element': ('parent', 'El')}
CTYPE_SORT = {'str': 'str', 'int': 'int', 'double': 'dbl', 'Element': 'El', 'Isotope': 'Iso'}
LEAN_SORT = {'str': 'Nat', 'int': 'Nat', 'dbl': 'Nat × Nat', 'El': 'El', 'Iso': 'Iso'}


def tr_expr(node, env):
    """python expression -> (lean term, sort).  env: name -> (lean term, sort)"""
    if isinstance(node, ast.Name):
        _expect(node.id in env, 'unknown name in expression', node)
        return env[node.id]
    if isinstance(node, ast.Attribute):
        base, sort = tr_expr(node.value, env)
        table = EL_ATTR if sort == 'El' else ISO_ATTR if sort == 'Iso' else None
        _expect(table is not None and node.attr in table, 'unknown attribute', node)
        field, fs = table[node.attr]
        if fs == 'dbl':
            pre = base if sort == 'El' else '%s.base' % base
            return '(%s.wNum, %s.wDen)' % (pre, pre), 'dbl'
        return '%s.%s' % (base, field), fs
    if isinstance(node, ast.Call):
        if isinstance(node.func, ast.Attribute) and node.func.attr == 'lower' and not node.args and not node.keywords:
            t, s = tr_expr(node.func.value, env)
            _expect(s == 'str', '.lower() of a non-string', node)
            return 'lower (%s)' % t, 'str'
        if isinstance(node.func, ast.Name) and node.func.id == 'str' and len(node.args) == 1 and not node.keywords:
            t, s = tr_expr(node.args[0], env)
            _expect(s == 'int', 'str() of a non-int', node)
            return 'strNat (%s)' % t, 'str'
    if isinstance(node, ast.BinOp) and isinstance(node.op, ast.Add):
        a, sa = tr_expr(node.left, env)
        b, sb = tr_expr(node.right, env)
        _expect(sa == 'str' and sb == 'str', '+ on non-strings', node)
        return 'cat (%s) (%s)' % (a, b), 'str'
    raise Unsupported('expression outside the translated fragment: ' + ast.unparse(node))


# ---------------------------------------------------------------------------------------------------------------
# constructors
# ---------------------------------------------------------------------------------------------------------------
def tr_init(fn, cls):
    """-> dict(params=[(name, sort)], fields={field: (term, sort)}, super=[terms] or None)"""
    types, stmts = _body(fn)
    params = [a.arg for a in fn.args.args]
    _expect(params and params[0] == 'self' and not fn.args.kwonlyargs and not fn.args.vararg and not fn.args.kwarg
            and not fn.args.defaults, '%s.__init__ signature' % cls)
    ps = []
    env = {}
    for p in params[1:]:
        _expect(types.get(p) in CTYPE_SORT, '%s.__init__: parameter %s has unsupported type %r' % (cls, p, types.get(p)))
        s = CTYPE_SORT[types[p]]
        ps.append((p, s))
        env[p] = (p, s)
    fields = {}
    sup = None
    for st in stmts:
        if isinstance(st, ast.Assign) and len(st.targets) == 1 and isinstance(st.targets[0], ast.Attribute) \
                and isinstance(st.targets[0].value, ast.Name) and st.targets[0].value.id == 'self':
            _expect(st.targets[0].attr not in fields, '%s.__init__ assigns a field twice' % cls, st)
            fields[st.targets[0].attr] = tr_expr(st.value, env) + (st.value,)
        elif isinstance(st, ast.Expr) and isinstance(st.value, ast.Call) and _d(st.value.func) == _d(
                ast.parse('super().__init__').body[0].value) and not st.value.keywords:
            _expect(sup is None, 'two super().__init__ calls', st)
            sup = [tr_expr(a, env) + (a,) for a in st.value.args]
        else:
            raise Unsupported('%s.__init__: statement outside the translated fragment: %s' % (cls, ast.unparse(st)))
    return dict(params=ps, fields=fields, super=sup)


def render_ctors(einit, iinit):
    want = {'name': 'str', 'symbol': 'str', 'atomic_number': 'int', 'atomic_weight': 'dbl'}
    _expect(einit['super'] is None and set(einit['fields']) == set(want), 'Element.__init__ must assign exactly ' + ', '.join(want))
    for f, s in want.items():
        _expect(einit['fields'][f][1] == s, 'Element.__init__: %s gets a value of sort %s' % (f, einit['fields'][f][1]))
    F = einit['fields']
    out = ['/-- `Element.__init__` -/']
    out.append('def mkElement %s : El :=' % ' '.join('(%s : %s)' % (p, LEAN_SORT[s]) for p, s in einit['params']))
    out.append('  { name := %s, sym := %s, z := %s, wNum := (%s).1, wDen := (%s).2 }' % (
        F['name'][0], F['symbol'][0], F['atomic_number'][0], F['atomic_weight'][0], F['atomic_weight'][0]))
    _expect(iinit['super'] is not None and set(iinit['fields']) == {'mass_number', 'element'},
            'Isotope.__init__ must call super().__init__ and assign mass_number, element')
    _expect([t[1] for t in iinit['super']] == [s for _, s in einit['params']],
            'Isotope.__init__: super().__init__ argument sorts %r do not fit Element.__init__ %r' % (iinit['super'], einit['params']))
    _expect(iinit['fields']['mass_number'][1] == 'int' and iinit['fields']['element'][1] == 'El', 'Isotope.__init__ field sorts')
    out.append('/-- `Isotope.__init__` -/')
    out.append('def mkIsotope %s : Iso :=' % ' '.join('(%s : %s)' % (p, LEAN_SORT[s]) for p, s in iinit['params']))
    out.append('  { base := mkElement %s, a := %s, parent := %s }' % (
        ' '.join('(%s)' % t[0] for t in iinit['super']), iinit['fields']['mass_number'][0], iinit['fields']['element'][0]))
    return '\n'.join(out)


# ---------------------------------------------------------------------------------------------------------------
# index builders
# ---------------------------------------------------------------------------------------------------------------
_SKEL = '''
def %(fn)s():
    module = sys.modules[__name__]
    for name in dir(module):
        obj = getattr(module, name)
        if type(obj) is %(cls)s:
            pass
'''


def tr_builder(fn, fname, cls, index_name):
    _, stmts = _body(fn)
    skel = ast.parse(_SKEL % dict(fn=fname, cls=cls)).body[0].body
    _expect(not fn.args.args and len(stmts) == 2 and _d(stmts[0]) == _d(skel[0]) and isinstance(stmts[1], ast.For),
            '%s: loop skeleton changed' % fname)
    loop, sloop = stmts[1], skel[1]
    _expect(_d(loop.target) == _d(sloop.target) and _d(loop.iter) == _d(sloop.iter) and not loop.orelse
            and len(loop.body) == 2 and _d(loop.body[0]) == _d(sloop.body[0]) and isinstance(loop.body[1], ast.If)
            and _d(loop.body[1].test) == _d(sloop.body[1].test) and not loop.body[1].orelse,
            '%s: loop skeleton changed' % fname)
    sort = 'El' if cls == 'Element' else 'Iso'
    keys = []
    for st in loop.body[1].body:
        if isinstance(st, ast.Expr) and isinstance(st.value, ast.Constant):
            continue
        ok = (isinstance(st, ast.Assign) and len(st.targets) == 1 and isinstance(st.targets[0], ast.Subscript)
              and isinstance(st.targets[0].value, ast.Name) and st.targets[0].value.id == index_name
              and isinstance(st.value, ast.Name) and st.value.id == 'obj')
        _expect(ok, '%s: statement is not `%s[key] = obj`' % (fname, index_name), st)
        t, s = tr_expr(st.targets[0].slice, {'obj': ('obj', sort)})
        _expect(s == 'str', '%s: key is not a string' % fname, st)
        keys.append((t, ast.unparse(st.targets[0].slice), st.targets[0].slice))
    return keys


# ---------------------------------------------------------------------------------------------------------------
# __richcmp__ / __hash__
# ---------------------------------------------------------------------------------------------------------------
def _chain(node, boolop, cmpop, other, cls):
    vals = node.values if isinstance(node, ast.BoolOp) and isinstance(node.op, boolop) else [node]
    fields = []
    for v in vals:
        ok = (isinstance(v, ast.Compare) and len(v.ops) == 1 and isinstance(v.ops[0], cmpop)
              and isinstance(v.left, ast.Attribute) and isinstance(v.left.value, ast.Name) and v.left.value.id == 'self'
              and isinstance(v.comparators[0], ast.Attribute) and isinstance(v.comparators[0].value, ast.Name)
              and v.comparators[0].value.id == other and v.comparators[0].attr == v.left.attr)
        _expect(ok, '%s.__richcmp__: comparison outside the translated fragment' % cls, v)
        fields.append(v.left.attr)
    return fields


def tr_richcmp(fn, cls):
    _, stmts = _body(fn)
    params = [a.arg for a in fn.args.args]
    _expect(len(params) == 3 and params[0] == 'self', '%s.__richcmp__ signature' % cls)
    o, op = params[1], params[2]
    guard = ast.parse('if not isinstance(%s, %s):\n    return NotImplemented' % (o, cls)).body[0]
    _expect(len(stmts) in (3, 4) and _d(stmts[0]) == _d(guard), '%s.__richcmp__: isinstance guard on the own class expected' % cls)
    strict = False
    if len(stmts) == 4:
        # optional exact-type guard (notes/fixes/C19-1.diff): objects of different exact types are never equal
        kind_guard = ast.parse('if type(self) is not type(%s) and (%s == 2 or %s == 3):\n    return %s == 3' % (o, op, op, op)).body[0]
        _expect(cls == 'Element' and _d(stmts[1]) == _d(kind_guard), '%s.__richcmp__: unexpected statement before the comparison' % cls, stmts[1])
        strict = True
        stmts = [stmts[0]] + stmts[2:]
    st = stmts[1]
    _expect(isinstance(st, ast.Assign) and isinstance(st.targets[0], ast.Name) and _d(st.value) == _d(ast.Name(o, ast.Load())),
            '%s.__richcmp__: `x = <%s> other` expected' % (cls, cls), st)
    other = st.targets[0].id
    br = stmts[2]

    def is_op(test, k):
        return _d(test) == _d(ast.parse('%s == %d' % (op, k)).body[0].value)

    def ret(body):
        _expect(len(body) == 1 and isinstance(body[0], ast.Return), '%s.__richcmp__: single return expected' % cls)
        return body[0].value
    _expect(isinstance(br, ast.If) and is_op(br.test, 2) and len(br.orelse) == 1 and isinstance(br.orelse[0], ast.If)
            and is_op(br.orelse[0].test, 3), '%s.__richcmp__: `if op == 2 / elif op == 3` expected' % cls)
    eq = _chain(ret(br.body), ast.And, ast.Eq, other, cls)
    ne = _chain(ret(br.orelse[0].body), ast.Or, ast.NotEq, other, cls)
    rest = br.orelse[0].orelse
    _expect(_d(ret(rest)) == _d(ast.Name('NotImplemented', ast.Load())), '%s.__richcmp__: other operators must return NotImplemented' % cls)
    return eq, ne, strict


def tr_hash(fn, cls):
    _, stmts = _body(fn)
    _expect(len(stmts) == 1 and isinstance(stmts[0], ast.Return), '%s.__hash__: single return expected' % cls)
    v = stmts[0].value
    ok = (isinstance(v, ast.Call) and isinstance(v.func, ast.Name) and v.func.id == 'hash' and len(v.args) == 1
          and isinstance(v.args[0], ast.Tuple))
    _expect(ok, '%s.__hash__: hash((self.a, ...)) expected' % cls, v)
    fields = []
    for e in v.args[0].elts:
        _expect(isinstance(e, ast.Attribute) and isinstance(e.value, ast.Name) and e.value.id == 'self',
                '%s.__hash__: tuple entry is not self.<field>' % cls, e)
        fields.append(e.attr)
    return fields


EF = {'name': '.name', 'symbol': '.symbol', 'atomic_number': '.atomicNumber', 'atomic_weight': '.atomicWeight'}
IF = dict({k: '.inh ' + v for k, v in EF.items()}, mass_number='.massNumber', element='.element')
LF = {'element': '.element', 'charge': '.charge', 'transition': '.transition'}


def _fields(names, table, what):
    for n in names:
        _expect(n in table, '%s: field %r is not an attribute the model knows' % (what, n))
    return '[' + ', '.join(table[n] for n in names) + ']'



# ---------------------------------------------------------------------------------------------------------------
# evaluation of the same expression fragment with Python's own string semantics (for the search-tree certificates)
# ---------------------------------------------------------------------------------------------------------------
class PyObj:
    pass


def py_eval(node, env):
    if isinstance(node, ast.Name):
        return env[node.id]
    if isinstance(node, ast.Attribute):
        return getattr(py_eval(node.value, env), node.attr)
    if isinstance(node, ast.Call):
        if isinstance(node.func, ast.Attribute) and node.func.attr == 'lower':
            return py_eval(node.func.value, env).lower()
        if isinstance(node.func, ast.Name) and node.func.id == 'str':
            return str(py_eval(node.args[0], env))
    if isinstance(node, ast.BinOp) and isinstance(node.op, ast.Add):
        return py_eval(node.left, env) + py_eval(node.right, env)
    raise Unsupported('expression outside the translated fragment: ' + ast.unparse(node))


def py_construct(o, objs_py, einit, iinit):
    """build the Python-side image of object `o` by interpreting the translated constructors"""
    r = PyObj()
    if o['kind'] == 'Element':
        args = [o['name'], o['symbol'], o['z'], o['weight']]
        env = {p: a for (p, _), a in zip(einit['params'], args)}
    else:
        args = [o['name'], o['symbol'], objs_py[o['parent']], o['a'], o['weight']]
        ienv = {p: a for (p, _), a in zip(iinit['params'], args)}
        sup = [py_eval(t[2], ienv) for t in iinit['super']]
        env = {p: a for (p, _), a in zip(einit['params'], sup)}
        for f, t in iinit['fields'].items():
            setattr(r, f, py_eval(t[2], ienv))
    for f, t in einit['fields'].items():
        setattr(r, f, py_eval(t[2], env))
    return r


def render_tree(items, val):
    """items: sorted [(code, value)] -> Lean term of a balanced `KeyTree`"""
    def go(lo, hi, depth):
        if lo >= hi:
            return '.leaf'
        mid = (lo + hi) // 2
        k, v = items[mid]
        return '(.node %s %d %s %s)' % (go(lo, mid, depth + 1), k, val(v), go(mid + 1, hi, depth + 1))
    t = go(0, len(items), 0)
    # break the line now and then (any space is a legal break point)
    out, cur = [], ''
    for tok in t.split(' '):
        if len(cur) + len(tok) > 150:
            out.append(cur)
            cur = tok
        else:
            cur = (cur + ' ' + tok) if cur else tok
    out.append(cur)
    return '\n    '.join(out)

# ---------------------------------------------------------------------------------------------------------------
# module-level objects
# ---------------------------------------------------------------------------------------------------------------
def eval_float(node):
    if isinstance(node, ast.Constant) and type(node.value) in (int, float):
        return float(node.value)
    if isinstance(node, ast.UnaryOp) and isinstance(node.op, (ast.USub, ast.UAdd)):
        v = eval_float(node.operand)
        return -v if isinstance(node.op, ast.USub) else v
    if isinstance(node, ast.BinOp) and isinstance(node.op, (ast.Add, ast.Sub, ast.Mult, ast.Div)):
        a, b = eval_float(node.left), eval_float(node.right)
        if isinstance(node.op, ast.Add):
            return a + b
        if isinstance(node.op, ast.Sub):
            return a - b
        if isinstance(node.op, ast.Mult):
            return a * b
        return a / b
    raise Unsupported('atomic weight expression outside the translated fragment: ' + ast.unparse(node))


def ratio(x):
    import math
    if not (math.isfinite(x) and x >= 0):
        raise Unsupported('atomic weight %r is not a finite non-negative double' % x)
    return float(x).as_integer_ratio()


def _const(node, typ, what):
    _expect(isinstance(node, ast.Constant) and type(node.value) is typ, what + ' must be a %s literal' % typ.__name__, node)
    if typ is int:
        _expect(node.value >= 0, what + ' is negative', node)
    return node.value


def parse_module(src):
    """-> dict(objects=[...], exported={var: oid}, builds={'element': [[oid...]...], 'isotope': [...]}, classes, funcs)"""
    objects = []         # dict(oid, var, kind, name, symbol, z|parent(oid), a, weight, lineno, args(positional lean-ready))
    env = {}             # var -> oid   (current bindings of names to registry objects)
    builds = {'element': [], 'isotope': []}
    classes = {}
    funcs = {}
    for lineno, text in top_level_chunks(src):
        head = text.lstrip()
        m = re.match(r'(?:cdef\s+)?class\s+(\w+)', head)
        if m:
            classes[m.group(1)] = class_methods(text)
            continue
        if re.match(r'def\s+\w+\s*\(', head):
            try:
                fn = ast.parse(_sanitize_def(text)).body[0]
            except SyntaxError as e:
                raise Unsupported('cannot parse function at line %d: %s' % (lineno, e))
            funcs[fn.name] = fn
            continue
        mentions = re.search(r'\b(Element|Isotope)\s*\(', re.sub(r'#.*', '', text))
        try:
            tree = ast.parse(text)
        except SyntaxError:
            _expect(not mentions, 'line %d: cannot parse a statement that constructs species objects' % lineno)
            continue
        for st in tree.body:
            if isinstance(st, ast.Expr) and isinstance(st.value, ast.Call) and isinstance(st.value.func, ast.Name) \
                    and st.value.func.id in ('_build_element_index', '_build_isotope_index'):
                kind = 'element' if 'element' in st.value.func.id else 'isotope'
                want = 'Element' if kind == 'element' else 'Isotope'
                builds[kind].append([env[v] for v in sorted(env) if objects[env[v]]['kind'] == want])
                continue
            if isinstance(st, ast.Assign) and len(st.targets) == 1 and isinstance(st.targets[0], ast.Name):
                var = st.targets[0].id
                v = st.value
                if isinstance(v, ast.Name) and v.id in env:
                    env[var] = env[v.id]
                    continue
                if isinstance(v, ast.Call) and isinstance(v.func, ast.Name) and v.func.id in ('Element', 'Isotope'):
                    _expect(not v.keywords, 'line %d: keyword arguments' % lineno, st)
                    oid = len(objects)
                    o = dict(oid=oid, var=var, kind=v.func.id, lineno=lineno + st.lineno - 1)
                    if v.func.id == 'Element':
                        _expect(len(v.args) == 4, 'Element() takes 4 positional arguments', st)
                        o['name'] = _const(v.args[0], str, 'name')
                        o['symbol'] = _const(v.args[1], str, 'symbol')
                        o['z'] = _const(v.args[2], int, 'atomic number')
                        o['weight'] = eval_float(v.args[3])
                    else:
                        _expect(len(v.args) == 5, 'Isotope() takes 5 positional arguments', st)
                        o['name'] = _const(v.args[0], str, 'name')
                        o['symbol'] = _const(v.args[1], str, 'symbol')
                        p = v.args[2]
                        _expect(isinstance(p, ast.Name) and p.id in env, 'isotope parent must be the name of an object defined above', st)
                        _expect(objects[env[p.id]]['kind'] == 'Element', 'isotope parent is not of exact type Element (not modelled)', st)
                        o['parent'] = env[p.id]
                        o['a'] = _const(v.args[3], int, 'mass number')
                        o['weight'] = eval_float(v.args[4])
                    o['ratio'] = ratio(o['weight'])
                    code(o['name']); code(o['symbol'])
                    objects.append(o)
                    env[var] = oid
                    continue
                if var in env:
                    del env[var]     # rebinding a species name to something else
            _expect(not mentions or not re.search(r'\b(Element|Isotope)\s*\(', ast.unparse(st)),
                    'line %d: statement constructs species objects in a form the translator does not read' % lineno, st)
    return dict(objects=objects, exported=dict(env), builds=builds, classes=classes, funcs=funcs)


def ordered_unique(ids):
    seen = set()
    out = []
    for i in ids:
        if i not in seen:
            seen.add(i)
            out.append(i)
    return out


# ---------------------------------------------------------------------------------------------------------------
# rendering
# ---------------------------------------------------------------------------------------------------------------
def translate(elements_pyx=ELEMENTS_PYX, line_pyx=LINE_PYX):
    """-> (lean text, info dict for the harness)"""
    src = open(elements_pyx).read()
    mod = parse_module(src)
    lsrc = open(line_pyx).read()
    lclasses = {}
    for _, text in top_level_chunks(lsrc):
        m = re.match(r'(?:cdef\s+)?class\s+(\w+)', text.lstrip())
        if m:
            lclasses[m.group(1)] = class_methods(text)
    for cls, table in (('Element', mod['classes']), ('Isotope', mod['classes']), ('Line', lclasses)):
        _expect(cls in table, 'class %s not found' % cls)
        for meth in ('__hash__', '__richcmp__'):
            _expect(meth in table[cls], '%s.%s not found' % (cls, meth))
    for cls in ('Element', 'Isotope'):
        _expect('__init__' in mod['classes'][cls], '%s.__init__ not found' % cls)
        _expect('__eq__' not in mod['classes'][cls] and '__ne__' not in mod['classes'][cls],
                '%s defines __eq__/__ne__ besides __richcmp__' % cls)
    for fn in ('_build_element_index', '_build_isotope_index'):
        _expect(fn in mod['funcs'], 'function %s not found' % fn)

    einit = tr_init(mod['classes']['Element']['__init__'], 'Element')
    iinit = tr_init(mod['classes']['Isotope']['__init__'], 'Isotope')
    ekeys = tr_builder(mod['funcs']['_build_element_index'], '_build_element_index', 'Element', '_element_index')
    ikeys = tr_builder(mod['funcs']['_build_isotope_index'], '_build_isotope_index', 'Isotope', '_isotope_index')
    cmp = {}
    for cls, table, ftab in (('Element', mod['classes'], EF), ('Isotope', mod['classes'], IF), ('Line', lclasses, LF)):
        eq, ne, strict = tr_richcmp(table[cls]['__richcmp__'], cls)
        hs = tr_hash(table[cls]['__hash__'], cls)
        cmp[cls] = dict(eq=eq, ne=ne, hash=hs, strict=strict)

    objs = mod['objects']
    used = {}
    for o in objs:
        k = used.get(o['var'], 0) + 1
        used[o['var']] = k
        o['lean'] = 'o_' + o['var'] + ('' if k == 1 else '__%d' % k)
    exported = mod['exported']
    ex_ids = ordered_unique(exported[v] for v in sorted(exported))
    el_ids = [i for i in ex_ids if objs[i]['kind'] == 'Element']
    iso_ids = [i for i in ex_ids if objs[i]['kind'] == 'Isotope']

    def lst(ids, per_line=6):
        names = [objs[i]['lean'] for i in ids]
        rows = [', '.join(names[k:k + per_line]) for k in range(0, len(names), per_line)]
        return '[' + ',\n   '.join(rows) + ']'

    L = []
    L.append('/- GENERATED by harness/translators/elements.py from cherab/core/atomic/elements.pyx and line.pyx — do not edit.')
    L.append('   String codes are big-endian base-256 of the UTF-8 bytes (Cherab.Registry.enc). -/')
    L.append('import Cherab.Model.Registry')
    L.append('namespace Cherab.Gen.Elements')
    L.append('open Cherab.Registry')
    L.append('')
    L.append(render_ctors(einit, iinit))
    L.append('')
    # round 6: what the constructor bodies write into the indices.  tr_init accepts only `self.f = ...` and `super().__init__(...)`;
    # a statement such as `_element_index[k] = self` is outside the fragment (Unsupported), so a successful translation has none.
    nst = len(einit['fields']) + len(iinit['fields']) + 1
    L.append('/-- index keys written by the constructor bodies: `Element.__init__` / `Isotope.__init__` consist of %d statements, all '
             '`self.f = ...` or `super().__init__(...)`; none assigns into `_element_index` / `_isotope_index` -/' % nst)
    L.append('def elementCtorKeys (_obj : El) : List Nat := []')
    L.append('def isotopeCtorKeys (_obj : Iso) : List Nat := []')
    L.append('')
    L.append('/-- key expressions of `_build_element_index`, in source order: ' + '; '.join(k[1] for k in ekeys) + ' -/')
    L.append('def elementKeys (obj : El) : List Nat := [' + ', '.join(k[0] for k in ekeys) + ']')
    L.append('/-- key expressions of `_build_isotope_index`, in source order: ' + '; '.join(k[1] for k in ikeys) + ' -/')
    L.append('def isotopeKeys (obj : Iso) : List Nat := [' + ', '.join(k[0] for k in ikeys) + ']')
    L.append('')
    L.append('/-- field lists of `__richcmp__` (op 2, op 3) and `__hash__` of Element, Isotope, Line -/')
    L.append('def cfg : CmpCfg where')
    for cls, pre, tab in (('Element', 'el', EF), ('Isotope', 'iso', IF), ('Line', 'line', LF)):
        for k, suf in (('eq', 'Eq'), ('ne', 'Ne'), ('hash', 'Hash')):
            L.append('  %s%s := %s' % (pre, suf, _fields(cmp[cls][k], tab, '%s %s' % (cls, k))))
    L.append('  strictKind := %s' % ('true' if cmp['Element']['strict'] else 'false'))
    L.append('')
    L.append('/-! objects, in source order -/')
    for o in objs:
        n, d = o['ratio']
        if o['kind'] == 'Element':
            args = {'name': str(code(o['name'])), 'symbol': str(code(o['symbol'])), 'atomic_number': str(o['z']),
                    'atomic_weight': '(%d, %d)' % (n, d)}
            # positional: the i-th call argument goes to the i-th __init__ parameter
            vals = [str(code(o['name'])), str(code(o['symbol'])), str(o['z']), '(%d, %d)' % (n, d)]
            sorts = ['str', 'str', 'int', 'dbl']
            _expect([s for _, s in einit['params']] == sorts, 'Element.__init__ parameter sorts changed: %r' % einit['params'])
            L.append('def %s : El := mkElement %s  -- %s = Element(%r, %r, %d, %r)' % (
                o['lean'], ' '.join(vals), o['var'], o['name'], o['symbol'], o['z'], o['weight']))
        else:
            vals = [str(code(o['name'])), str(code(o['symbol'])), objs[o['parent']]['lean'], str(o['a']), '(%d, %d)' % (n, d)]
            sorts = ['str', 'str', 'El', 'int', 'dbl']
            _expect([s for _, s in iinit['params']] == sorts, 'Isotope.__init__ parameter sorts changed: %r' % iinit['params'])
            L.append('def %s : Iso := mkIsotope %s  -- %s = Isotope(%r, %r, %s, %d, %r)' % (
                o['lean'], ' '.join(vals), o['var'], o['name'], o['symbol'], objs[o['parent']]['var'], o['a'], o['weight']))
    L.append('')
    L.append('/-- exported objects of exact type Element (module globals at the end of the module, `dir()` order) -/')
    L.append('def elements : List El :=\n  ' + lst(el_ids))
    L.append('/-- exported objects of exact type Isotope -/')
    L.append('def isotopes : List Iso :=\n  ' + lst(iso_ids))
    for kind, ids_all, nm, typ in (('element', el_ids, 'indexedElements', 'El'), ('isotope', iso_ids, 'indexedIsotopes', 'Iso')):
        flat = [i for call in mod['builds'][kind] for i in call]
        L.append('/-- objects visited by the %d call(s) of `_build_%s_index()`: globals of the exact type bound at the time of the call, `dir()` order -/'
                 % (len(mod['builds'][kind]), kind))
        if flat == ids_all:
            L.append('def %s : List %s := %s' % (nm, typ, 'elements' if kind == 'element' else 'isotopes'))
        else:
            L.append('def %s : List %s :=\n  %s' % (nm, typ, lst(flat)))
    L.append('')
    L.append('def elementIndex : Index El := buildIndex elementKeys indexedElements')
    L.append('def isotopeIndex : Index Iso := buildIndex isotopeKeys indexedIsotopes')
    L.append('')

    # ---- search-tree certificates: keys evaluated here with Python's own str semantics --------------------------
    objs_py = {}
    for o in objs:
        objs_py[o['oid']] = py_construct(o, objs_py, einit, iinit)
    key_strings = {}
    for kind, keys, nm, typ in (('element', ekeys, 'elementKeyTree', 'El'), ('isotope', ikeys, 'isotopeKeyTree', 'Iso')):
        d = {}
        for call in mod['builds'][kind]:
            for i in call:
                for k in keys:
                    d[py_eval(k[2], {'obj': objs_py[i]})] = i
        key_strings[kind] = {k: objs[i]['var'] for k, i in d.items()}
        items = sorted((code(k), i) for k, i in d.items())
        L.append('/-- certificate: balanced search tree over the %d distinct keys `_build_%s_index` assigns (key → final owner) -/' % (len(items), kind))
        L.append('def %s : KeyTree %s :=\n    %s' % (nm, typ, render_tree(items, lambda i: objs[i]['lean'])))
    names = {}
    for pos, i in enumerate(el_ids + iso_ids):
        names[objs_py[i].name.lower() if hasattr(objs_py[i], 'name') else objs[i]['name'].lower()] = pos
    L.append('/-- certificate: lower-case name → position in `elements ++ isotopes` -/')
    L.append('def nameTree : KeyTree Nat :=\n    %s' % render_tree(sorted((code(k), p) for k, p in names.items()), str))
    L.append('')
    L.append('/-- readable spellings (name, symbol) of `elements` / `isotopes`, same order; tied to the codes by `Props.C19.codes_ok` -/')

    def strs(ids):
        items = ['("%s", "%s")' % (objs[i]['name'], objs[i]['symbol']) for i in ids]
        rows = [', '.join(items[k:k + 5]) for k in range(0, len(items), 5)]
        return '[' + ',\n   '.join(rows) + ']'
    for s in [objs[i]['name'] for i in ex_ids] + [objs[i]['symbol'] for i in ex_ids]:
        _expect('"' not in s and '\\' not in s, 'quote or backslash in identifier %r' % s)
    L.append('def elementStrings : List (String × String) :=\n  ' + strs(el_ids))
    L.append('def isotopeStrings : List (String × String) :=\n  ' + strs(iso_ids))
    L.append('')
    L.append('end Cherab.Gen.Elements')
    text = '\n'.join(L) + '\n'

    def rec(i):
        o = objs[i]
        r = dict(var=sorted(v for v in exported if exported[v] == i), kind=o['kind'], name=o['name'], symbol=o['symbol'],
                 ratio=list(o['ratio']), lineno=o['lineno'])
        if o['kind'] == 'Element':
            r['z'] = o['z']
        else:
            r['a'] = o['a']
            r['parent'] = sorted(v for v in exported if exported[v] == o['parent'])
            r['parent_name'] = objs[o['parent']]['name']
        return r
    info = dict(elements=[rec(i) for i in el_ids], isotopes=[rec(i) for i in iso_ids],
                n_objects=len(objs), builds={k: [len(c) for c in v] for k, v in mod['builds'].items()},
                key_strings=key_strings, cmp=cmp, element_keys=[k[1] for k in ekeys], isotope_keys=[k[1] for k in ikeys],
                indexed_all=(all([i for c in mod['builds'][k] for i in c] == ids for k, ids in (('element', el_ids), ('isotope', iso_ids)))))
    return text, info


# ---------------------------------------------------------------------------------------------------------------
# the same table from the imported module (validation of the translator)
# ---------------------------------------------------------------------------------------------------------------
def runtime_table(module):
    Element, Isotope = module.Element, module.Isotope
    byid = {}
    order = []
    for var in dir(module):
        obj = getattr(module, var)
        if type(obj) in (Element, Isotope):
            if id(obj) not in byid:
                byid[id(obj)] = dict(obj=obj, var=[])
                order.append(id(obj))
            byid[id(obj)]['var'].append(var)
    els, isos = [], []
    for k in order:
        obj = byid[k]['obj']
        r = dict(var=sorted(byid[k]['var']), kind=type(obj).__name__, name=obj.name, symbol=obj.symbol,
                 ratio=list(float(obj.atomic_weight).as_integer_ratio()), obj=obj)
        if type(obj) is Element:
            r['z'] = obj.atomic_number
            els.append(r)
        else:
            r['a'] = obj.mass_number
            r['z_runtime'] = obj.atomic_number
            p = obj.element
            r['parent'] = sorted(byid[id(p)]['var']) if id(p) in byid else []
            r['parent_name'] = p.name
            r['parent_type'] = type(p).__name__
            isos.append(r)
    return dict(elements=els, isotopes=isos)


def compare(info, rt):
    """differences between the source parse and the imported module"""
    diffs = []
    for kind in ('elements', 'isotopes'):
        a = {tuple(r['var']): r for r in info[kind]}
        b = {tuple(r['var']): r for r in rt[kind]}
        for k in sorted(set(a) | set(b)):
            if k not in a:
                diffs.append('%s %s exists in the imported module but the translator did not see it in the source' % (kind[:-1], '/'.join(k)))
            elif k not in b:
                diffs.append('%s %s is in the source but not exported by the imported module' % (kind[:-1], '/'.join(k)))
            else:
                for f in ('name', 'symbol', 'ratio', 'z', 'a', 'parent', 'parent_name'):
                    if f in a[k] and a[k][f] != b[k].get(f):
                        diffs.append('%s %s: %s is %r in the source, %r in the imported module' % (kind[:-1], '/'.join(k), f, a[k][f], b[k].get(f)))
        if [tuple(r['var']) for r in info[kind]] != [tuple(r['var']) for r in rt[kind]] and not diffs:
            diffs.append('%s: dir() order differs between translator and module' % kind)
    return diffs


if __name__ == '__main__':
    import sys
    t, info = translate()
    sys.stdout.write(t[:3000])
    print(info['builds'], info['cmp'], info['element_keys'], info['isotope_keys'], info['indexed_all'])
