import Cherab.Props.C05Cache
open Cherab.Props.C05Cache
#print axioms run_of_step
#print axioms run_no_fail_not_raised
#print axioms cxHead_all_histories
#print axioms besHead_all_histories
#print axioms cxHead_failed_populate_broken
#print axioms cxHead_failed_populate_stale_lineshape
#print axioms besHead_failed_populate_broken
#print axioms besHead_failed_before_guard_ok
#print axioms guard_last_failed_populate_keeps_guard_empty
#print axioms cxHead_failed_populate_sets_guard
#print axioms besHead_failed_populate_sets_guard
#print axioms cxFixed_step
#print axioms besFixed_step
#print axioms cxFixed_all_histories
#print axioms besFixed_all_histories
#print axioms cxSource_eq_fixed
#print axioms besSource_eq_fixed
#print axioms source_fail_points_valid
#print axioms cxFixed_failed_then_retry
#print axioms besFixed_failed_then_retry
#print axioms cxSource_failed_then_retry
#print axioms besSource_failed_then_retry
#print axioms cxSource_all_histories
#print axioms besSource_all_histories
