import Cherab.Model.Adf

/-!
C08, install step of ADF15 thermal charge-exchange PECs: `install.py::_thermalcx_adf15_2dto3d_converter`
(the only code between `parse_adf15` and `repository.update_pec_thermal_cx_rates`).

```
for element, charge_states in rates.items():
    for charge, transitions in charge_states.items():
        for transition, rate in transitions.items():
            data = np.empty((len(rate['ne']), len(rate['te']), 2))
            data[:, :, :] = rate['rate'][:, :, None]
            new_rate = {'ne': rate['ne'], 'te': rate['te'], 'td': np.array([0.01, 10000]), 'rate': data}
            new_rates[hydrogen][0][element][charge + 1][transition] = new_rate
```
Mathlib-free, executable.  The assignment is a numpy broadcast: every axis of `rate['rate']` must have the length of the
target axis **or length 1** (then it is repeated); anything else is a `ValueError`.  That rule is transcribed (`bcastAxis`), not
assumed away: a table whose shape does not match its grids is rejected unless an axis has length 1.
-/
namespace Cherab.Adf
section cx
variable {α ν τ : Type}

/-- one axis of `data[:, :, :] = src[:, :, None]`: source length = target length, or 1 (repeated), else ValueError -/
def bcastAxis {β : Type} (want : Nat) (xs : List β) : Except Err (List β) :=
  if xs.length == want then .ok xs
  else match xs with
    | [x] => .ok (List.replicate want x)
    | _ => .error .value

/-- the donor-temperature grid written by the converter: `np.array([0.01, 10000])` -/
def tdGrid : List String := ["0.01", "10000"]

/-- the third axis: the same value at every donor temperature -/
def dupTd (x : α) : List α := tdGrid.map fun _ => x

/-- what `update_pec_thermal_cx_rates` receives per transition -/
structure Rate15x3 (α : Type) where
  ne : List α
  te : List α
  td : List String
  rate : List (List (List α))   -- rate[i_ne][i_te][i_td]
  deriving BEq, Repr, DecidableEq

def cx3dRate (r : Rate15 α) : Except Err (Rate15x3 α) := do
  let rows ← bcastAxis r.ne.length r.rate
  let data ← rows.mapM fun row => do
    let c ← bcastAxis r.te.length row
    pure (c.map dupTd)
  pure { ne := r.ne, te := r.te, td := tdGrid, rate := data }

/-- the donor under which every converted entry is filed: `new_rates[hydrogen][0]` -/
def cxDonor : String × Int := ("hydrogen", 0)

/-- `_thermalcx_adf15_2dto3d_converter`: nested dict `rates[element][charge][transition]` →
`new_rates[hydrogen][0][element][charge + 1][transition]` (the part below the constant donor key) -/
def cx2dto3d (rates : List (ν × List (Int × List (τ × Rate15 α)))) :
    Except Err (List (ν × List (Int × List (τ × Rate15x3 α)))) :=
  rates.mapM fun ec => do
    let cs ← ec.2.mapM fun qt => do
      let ts ← qt.2.mapM fun tr => do
        let r3 ← cx3dRate tr.2
        pure (tr.1, r3)
      pure (qt.1 + 1, ts)
    pure (ec.1, cs)

end cx
end Cherab.Adf
