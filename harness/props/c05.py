"""C05 — beam CX emission is a population-weighted mean, beam emission a charged sum.

T  lean/Cherab/Props/C05.lean over lean/Cherab/Model/BeamEmission.lean
K  the real BeamCXLine.emission / BeamEmissionLine.emission / Plasma.z_effective / Plasma.ion_density run on freshly
   built scenes (stub BeamAttenuator, recording LineShapeModel, mock AtomicData whose coefficient objects record their
   arguments and return an affine function of all of them); the Lean model (native driver, same definitions at Float,
   same affine mocks) gets the values the plasma/beam functions take at the plasma/beam point and must reproduce the
   radiance, the five-argument tuple and the per-species (E_int, equivalent density, T) tuples.
S  the property's formulas recomputed in plain Python from the scene description (no model): radiance,
   argument tuples, provider queries, convexity (min q <= q_c <= max q), Z_eff range, zero-density behaviour.
"""
import copy
import json
import math

from harness.vlib.util import f2b, b2f, fs, close, call

# the physical constants the property is about (CODATA 2018, hand-written; scipy ships CODATA 2022 whose amu differs by
# 1.4e-9 relative), not read from the code under test
E_CHARGE = 1.602176634e-19
AMU = 1.66053906660e-27
RECIP_4_PI = 1.0 / (4.0 * math.pi)

# "total ion density" of the property = Plasma.ion_density as documented (docstring example of node.pyx:437):
# the sum over every species of the composition, neutrals included.  See notes/C05.md (open question).
ION_DENSITY_COUNTS_NEUTRALS = True

REL = 1e-9
CX_ARG_NAMES = ('energy', 'temperature', 'density', 'z_effective', 'b_field')
P3_ARG_NAMES = ('energy', 'density', 'temperature')


# --------------------------------------------------------------------------------------------------------------------
# scene description (pure JSON) -> numbers
# --------------------------------------------------------------------------------------------------------------------
def affine(p, pt):
    """f(x,y,z) = f0 * (1 + gx x + gy y + gz z)"""
    return p[0] * (1.0 + p[1] * pt[0] + p[2] * pt[1] + p[3] * pt[2])


def cx_value(c, e, t, n, z, b):
    return c[0] + c[1] * e + c[2] * t + c[3] * n + c[4] * z + c[5] * b


def p3_value(p, e, n, t):
    if p['null']:
        return 0.0
    a = p['a']
    return a[0] + a[1] * e + a[2] * n + a[3] * t


# the mock atomic data depends on the donor (beam) species, so that data cached for a previous beam element shows
DONOR_FACTOR = {'hydrogen': 1.0, 'deuterium': 1.25, 'tritium': 1.5}


def donor_c(c, donor):
    return [x * DONOR_FACTOR[donor] for x in c]


def donor_p3(p, donor):
    return dict(null=p['null'], a=[x * DONOR_FACTOR[donor] for x in p['a']])


def sample_species(case):
    """values of every species' distribution at the plasma point, in the order of the description"""
    pt = case['plasma_point']
    out = []
    for s in case['species']:
        out.append(dict(Z=s['charge'], n=affine(s['n'], pt), T=affine(s['T'], pt),
                        v=[affine(c, pt) for c in s['v']]))
    return out


# ---- rigid transforms of scene-graph nodes, kept as plain 4x4 lists in the description (the oracle never asks the
# ---- scene graph under test for a transform)
def mat_mul(a, b):
    return [[sum(a[i][k] * b[k][j] for k in range(4)) for j in range(4)] for i in range(4)]


def mat_rigid_inverse(m):
    r = [[m[j][i] for j in range(3)] for i in range(3)]
    t = [-sum(r[i][k] * m[k][3] for k in range(3)) for i in range(3)]
    return [r[0] + [t[0]], r[1] + [t[1]], r[2] + [t[2]], [0.0, 0.0, 0.0, 1.0]]


def mat_point(m, p):
    return [m[i][0] * p[0] + m[i][1] * p[1] + m[i][2] * p[2] + m[i][3] for i in range(3)]


def mat_vector(m, v):
    return [m[i][0] * v[0] + m[i][1] * v[1] + m[i][2] * v[2] for i in range(3)]


def rnd_rigid(rng, shift=0.3, identity=0.0):
    if rng.random() < identity:
        return [[1.0, 0, 0, 0], [0, 1.0, 0, 0], [0, 0, 1.0, 0], [0, 0, 0, 1.0]]
    a, b, c = (rng.uniform(-math.pi, math.pi) * rng.choice([0.0, 1.0, 1.0]) for _ in range(3))
    ca, sa, cb, sb, cc, sc_ = math.cos(a), math.sin(a), math.cos(b), math.sin(b), math.cos(c), math.sin(c)
    rz = [[ca, -sa, 0, 0], [sa, ca, 0, 0], [0, 0, 1.0, 0], [0, 0, 0, 1.0]]
    ry = [[cb, 0, sb, 0], [0, 1.0, 0, 0], [-sb, 0, cb, 0], [0, 0, 0, 1.0]]
    rx = [[1.0, 0, 0, 0], [0, cc, -sc_, 0], [0, sc_, cc, 0], [0, 0, 0, 1.0]]
    m = mat_mul(rz, mat_mul(ry, rx))
    for i in range(3):
        m[i][3] = rng.uniform(-shift, shift)
    return m


SCENE_NODES = ('G', 'PH', 'BH', 'P', 'B')      # world -> G -> {PH -> plasma(P), BH -> beam(B)}


def beam_direction_documented(sc, pt):
    """Beam.direction as documented: e_x = x (z tan ax)^2 / (sigma^2 + (z tan ax)^2), e_y likewise, e_z = z (z > 0)"""
    x, y, z = pt
    tx, ty = math.tan(math.radians(sc['div'][0])), math.tan(math.radians(sc['div'][1]))
    zx, zy = (z * tx) ** 2, (z * ty) ** 2
    return [x * zx / (sc['sigma'] ** 2 + zx), y * zy / (sc['sigma'] ** 2 + zy), z]


def effective(case):
    """a case evaluated through the scene (`scene` entry): plasma-space point and beam direction follow from the node
    transforms of the description; otherwise the case itself"""
    sc = case.get('scene')
    if not sc:
        return case
    b2p = mat_mul(mat_rigid_inverse(mat_mul(sc['PH'], sc['P'])), mat_mul(sc['BH'], sc['B']))
    eff = dict(case)
    eff['plasma_point'] = mat_point(b2p, case['beam_point'])
    eff['direction'] = mat_vector(b2p, beam_direction_documented(sc, case['beam_point']))
    eff['observation'] = mat_vector(b2p, sc['odir'])
    return eff


def make_scene(rng, case):
    """turn a generated case into one that is evaluated through World / BeamMaterial"""
    for s_ in case['species']:
        for f in [s_['n'], s_['T']] + s_['v']:
            f[1:] = [g * 0.3 for g in f[1:]]
    for f in case['B']:
        f[1:] = [g * 0.3 for g in f[1:]]
    case['beam_point'] = [rng.uniform(-0.2, 0.2), rng.uniform(-0.2, 0.2), rng.uniform(0.1, 1.0)]
    case['scene'] = dict({n: rnd_rigid(rng, identity=0.3) for n in SCENE_NODES},
                         div=[rng.choice([0.0, rng.uniform(0.1, 2.0)]), rng.choice([0.0, rng.uniform(0.1, 2.0)])],
                         sigma=rng.uniform(0.02, 0.2), odir=[rng.uniform(-1, 1), rng.uniform(-1, 1), rng.uniform(0.1, 1)])
    return case


def rnd_affine(rng, f0, g=0.3):
    return [f0, rng.uniform(-g, g), rng.uniform(-g, g), rng.uniform(-g, g)]


def rnd_point(rng):
    return [rng.uniform(-1, 1), rng.uniform(-1, 1), rng.uniform(-1, 1)]


POOL = [('hydrogen', 1), ('deuterium', 1), ('tritium', 1), ('helium', 1), ('helium', 2), ('carbon', 6), ('carbon', 5),
        ('carbon', 2), ('nitrogen', 7), ('neon', 10), ('neon', 8), ('argon', 16), ('argon', 18), ('beryllium', 4),
        ('tungsten', 40)]
NEUTRALS = [('hydrogen', 0), ('deuterium', 0), ('helium', 0), ('carbon', 0), ('neon', 0)]


def rnd_p3(rng, null=False, scale=1.0):
    u = [rng.random() * rng.choice([0.0, 1.0, 1.0, 1.0]) for _ in range(4)]
    return dict(null=bool(null), a=[scale * u[0], scale * u[1] / 1e5, scale * u[2] / 1e19, scale * u[3] / 1e3])


def gen_case(rng, kind, edge=None):
    nsp = rng.choice([1, 1, 2, 2, 3, 3, 4, 5])
    picks = rng.sample(POOL, nsp)
    species = []
    for el, z in picks:
        v0 = [rng.uniform(-1, 1) * rng.choice([0.0, 1e4, 1e5, 1e6, 3e6]) for _ in range(3)]
        species.append(dict(element=el, charge=z,
                            n=rnd_affine(rng, 10 ** rng.uniform(15, 20)),
                            T=rnd_affine(rng, 10 ** rng.uniform(0, 4)),
                            v=[rnd_affine(rng, c) for c in v0]))
    with_neutral = rng.random() < 0.35 or edge in ('neutral-nonnull',)
    if with_neutral:
        for el, z in rng.sample(NEUTRALS, rng.choice([1, 1, 2])):
            v0 = [rng.uniform(-1, 1) * 1e4 for _ in range(3)]
            species.insert(rng.randint(0, len(species)),
                           dict(element=el, charge=0, n=rnd_affine(rng, 10 ** rng.uniform(14, 19)),
                                T=rnd_affine(rng, 10 ** rng.uniform(-1, 1)), v=[rnd_affine(rng, c) for c in v0]))
    if rng.random() < 0.15 and len(species) > 1:
        # a species that is present in the composition with zero density
        species[rng.randrange(len(species))]['n'][0] = 0.0
    case = dict(kind=kind, edge=edge,
                beam_element=rng.choice(['hydrogen', 'deuterium', 'tritium']),
                energy=10 ** rng.uniform(3, 5.3),
                direction=[rng.uniform(-1, 1) * s for s in [rng.choice([0.1, 1.0, 10.0])] * 3],
                beam_point=[rng.uniform(-0.3, 0.3), rng.uniform(-0.3, 0.3), rng.uniform(0.1, 4.9)],
                plasma_point=rnd_point(rng),
                nb=rnd_affine(rng, 10 ** rng.uniform(13, 16), 0.15),
                B=[rnd_affine(rng, rng.uniform(-5, 5)) for _ in range(3)],
                electron=dict(n=1e19, T=100.0),
                species=species)
    if rng.random() < 0.15:
        case['direction'] = rng.choice([[0, 0, 1.0], [1.0, 0, 0], [0, -2.0, 0], [0.0, 3.0, 4.0]])
    if all(c == 0 for c in case['direction']):
        case['direction'] = [0.0, 0.0, 1.0]
    if kind == 'cx':
        charged = [i for i, s in enumerate(species) if s['charge'] >= 1]
        ri = rng.choice(charged)
        # the receiver must be present unless the edge stream says otherwise
        if species[ri]['n'][0] == 0.0 and edge != 'receiver-density-zero':
            species[ri]['n'][0] = 10 ** rng.uniform(15, 20)
        case['receiver'] = ri
        case['transition'] = [rng.randint(2, 9), 1]
        nmeta = rng.choice([1, 2, 2, 3, 3, 4])
        metas = []
        for m in range(1, nmeta + 1):
            u = [rng.random() * rng.choice([0.0, 1.0, 1.0, 1.0]) for _ in range(6)]
            s = 1e-33 * 10 ** rng.uniform(-1, 1)
            metas.append(dict(m=m, c=[s * u[0], s * u[1] / 1e5, s * u[2] / 1e3, s * u[3] / 1e19, s * u[4] / 3, s * u[5] / 3]))
        rng.shuffle(metas)           # the provider may return the metastables in any order
        case['metas'] = metas
        case['pops'] = {str(m): [rnd_p3(rng, null=(s['charge'] == 0 and edge != 'neutral-nonnull'),
                                        scale=rng.choice([0.05, 0.3, 2.0])) for s in species]
                        for m in range(2, nmeta + 1)}
    else:
        case['bes'] = [rnd_p3(rng, null=(s['charge'] == 0 and edge != 'neutral-nonnull'),
                              scale=1e-33 * 10 ** rng.uniform(-1, 1)) for s in species]
    # ---- edge streams
    if edge == 'beam-density-zero':
        case['nb'][0] = 0.0
    elif edge == 'beam-point-outside':
        case['beam_point'][2] = rng.choice([-0.5, 5.5])
    elif edge == 'receiver-density-zero':
        species[case['receiver']]['n'][0] = 0.0
    elif edge == 'receiver-temperature-zero':
        species[case['receiver']]['T'][0] = 0.0
    elif edge == 'zero-direction':
        case['direction'] = [0.0, 0.0, 0.0]
    elif edge == 'stationary':
        for s in species:
            s['v'] = [[0.0, 0.0, 0.0, 0.0]] * 3
    elif edge == 'plasma-density-zero':
        for s in species:
            s['n'][0] = 0.0
    elif edge == 'receiver-missing':
        # CX line of an ion that is not in the composition: _populate_cache raises RuntimeError (K only)
        have = {(s_['element'], s_['charge']) for s_ in species}
        case['receiver_override'] = rng.choice([p_ for p_ in POOL if p_ not in have])
        case['receiver'] = len(species)
    elif edge == 'uniform':
        # ground and excited coefficients identical constants: the mean must be that constant whatever the populations
        c0 = case['metas'][0]['c'][0] or 1e-33
        for mt in case['metas']:
            mt['c'] = [c0, 0.0, 0.0, 0.0, 0.0, 0.0]
    return case


ZEROS_CX = ['q-excited-one', 'q-excited-one', 'q-ground', 'q-all-but-one', 'q-all', 'k-one-metastable', 'k-one-species',
            'k-all-but-one-species', 'n-one', 'n-all-but-receiver', 'T-one', 'T-all-but-receiver', 'B-zero', 'v-zero-receiver']
ZEROS_BES = ['q-one', 'q-all-but-one', 'q-all', 'n-one', 'n-all-but-one', 'T-one', 'T-all-but-one', 'T-all']


def apply_zeros(rng, case, tag):
    """make one ingredient *exactly* zero while the others stay non-zero (a coefficient value, a relative population,
    a density, a temperature), including the 'all but one' variants"""
    sp = case['species']
    ions = [i for i, s in enumerate(sp) if s['charge'] >= 1]
    Z6, Z4 = [0.0] * 6, [0.0] * 4

    def positive(p, scale):
        if not p['null']:
            p['a'] = [scale * rng.uniform(0.2, 1.0), scale * rng.random() / 1e5, scale * rng.random() / 1e19, scale * rng.random() / 1e3]

    if case['kind'] == 'cx':
        r = case['receiver']
        metas = case['metas']
        if tag.startswith(('q-excited', 'q-all-but', 'k-')) and len(metas) < 2:
            # these need an excited metastable
            m = 2
            s_ = 1e-33
            metas.append(dict(m=m, c=[s_ * rng.uniform(0.2, 1), s_ * rng.random() / 1e5, s_ * rng.random() / 1e3,
                                      s_ * rng.random() / 1e19, s_ * rng.random() / 3, s_ * rng.random() / 3]))
            rng.shuffle(metas)
            case['pops'][str(m)] = [rnd_p3(rng, null=(s['charge'] == 0), scale=0.3) for s in sp]
        excited = [mt for mt in metas if mt['m'] != 1]
        # everything that is not zeroed is strictly positive, so that the zero is the only one
        for mt in metas:
            if mt['c'][0] == 0.0:
                mt['c'][0] = 1e-33 * rng.uniform(0.2, 1.0)
        for m in case['pops']:
            for i in ions:
                positive(case['pops'][m][i], rng.choice([0.3, 2.0]))
        for i in ions:
            if sp[i]['n'][0] == 0.0:
                sp[i]['n'][0] = 10 ** rng.uniform(15, 20)
        if tag == 'q-excited-one':
            rng.choice(excited)['c'] = list(Z6)
        elif tag == 'q-ground':
            [mt for mt in metas if mt['m'] == 1][0]['c'] = list(Z6)
        elif tag == 'q-all-but-one':
            keep = rng.choice(metas)
            for mt in metas:
                if mt is not keep:
                    mt['c'] = list(Z6)
        elif tag == 'q-all':
            for mt in metas:
                mt['c'] = list(Z6)
        elif tag == 'k-one-metastable':
            m = str(rng.choice(excited)['m'])
            for p_ in case['pops'][m]:
                p_['a'] = list(Z4)
        elif tag == 'k-one-species':
            i = rng.choice(ions)
            for m in case['pops']:
                case['pops'][m][i]['a'] = list(Z4)
        elif tag == 'k-all-but-one-species':
            i = rng.choice(ions)
            for m in case['pops']:
                for j, p_ in enumerate(case['pops'][m]):
                    if j != i:
                        p_['a'] = list(Z4)
        elif tag == 'n-one':
            others = [i for i in range(len(sp)) if i != r]
            if others:
                sp[rng.choice(others)]['n'][0] = 0.0
        elif tag == 'n-all-but-receiver':
            for i in range(len(sp)):
                if i != r:
                    sp[i]['n'][0] = 0.0
        elif tag == 'T-one':
            others = [i for i in range(len(sp)) if i != r]
            if others:
                sp[rng.choice(others)]['T'][0] = 0.0
        elif tag == 'T-all-but-receiver':
            for i in range(len(sp)):
                if i != r:
                    sp[i]['T'][0] = 0.0
        elif tag == 'B-zero':
            case['B'] = [[0.0, 0.0, 0.0, 0.0]] * 3
        elif tag == 'v-zero-receiver':
            sp[r]['v'] = [[0.0, 0.0, 0.0, 0.0]] * 3
    else:
        for i in ions:
            positive(case['bes'][i], 1e-33)
            if sp[i]['n'][0] == 0.0:
                sp[i]['n'][0] = 10 ** rng.uniform(15, 20)
        one = rng.choice(ions)
        if tag == 'q-one':
            case['bes'][one]['a'] = list(Z4)
        elif tag == 'q-all-but-one':
            for i in range(len(sp)):
                if i != one:
                    case['bes'][i]['a'] = list(Z4)
        elif tag == 'q-all':
            for p_ in case['bes']:
                p_['a'] = list(Z4)
        elif tag == 'n-one':
            sp[one]['n'][0] = 0.0
        elif tag == 'n-all-but-one':
            for i in range(len(sp)):
                if i != one:
                    sp[i]['n'][0] = 0.0
        elif tag == 'T-one':
            sp[one]['T'][0] = 0.0
        elif tag == 'T-all-but-one':
            for i in range(len(sp)):
                if i != one:
                    sp[i]['T'][0] = 0.0
        elif tag == 'T-all':
            for s_ in sp:
                s_['T'][0] = 0.0
    case['edge'] = 'zero:' + tag
    return case



# --------------------------------------------------------------------------------------------------------------------
# the implementation under the harness
# --------------------------------------------------------------------------------------------------------------------
_CLS = {}


def _classes():
    if _CLS:
        return _CLS
    from raysect.core import Vector3D
    from cherab.core.atomic import AtomicData, BeamCXPEC, BeamPopulationRate, BeamEmissionPEC
    from cherab.core.beam import BeamAttenuator
    from cherab.core.distribution import DistributionFunction
    from cherab.core.model.lineshape import LineShapeModel

    class Dist(DistributionFunction):
        def __init__(self, n, T, v):
            super().__init__()
            self.n, self.T, self.v = n, T, v

        def density(self, x, y, z):
            return affine(self.n, (x, y, z))

        def effective_temperature(self, x, y, z):
            return affine(self.T, (x, y, z))

        def bulk_velocity(self, x, y, z):
            return Vector3D(*[affine(c, (x, y, z)) for c in self.v])

    class Att(BeamAttenuator):
        def __init__(self, nb):
            super().__init__()
            self.nb = nb
            self.calls = []
            self.clamp_sigma = 5.0      # read by Beam._generate_geometry when models are attached

        def density(self, x, y, z):
            self.calls.append((x, y, z))
            return affine(self.nb, (x, y, z))

    class CX(BeamCXPEC):
        def __init__(self, m, c):
            super().__init__(m)
            self.c = c
            self.calls = []

        def evaluate(self, e, t, n, z, b):
            self.calls.append((e, t, n, z, b))
            return cx_value(self.c, e, t, n, z, b)

    class Pop(BeamPopulationRate):
        def __init__(self, p):
            self.p = p
            self.calls = []

        def evaluate(self, e, n, t):
            self.calls.append((e, n, t))
            return p3_value(self.p, e, n, t)

    class BES(BeamEmissionPEC):
        def __init__(self, p):
            self.p = p
            self.calls = []

        def evaluate(self, e, n, t):
            self.calls.append((e, n, t))
            return p3_value(self.p, e, n, t)

    class Provider(AtomicData):
        def __init__(self, case):
            super().__init__()
            self.case = case
            self.queries = []
            self.cx = []
            self.pop = {}
            self.bes = {}
            self.unknown = 0

        def reset(self):
            """forget what was recorded so far (a later evaluation is observed on its own)"""
            for r in list(self.cx) + list(self.pop.values()) + list(self.bes.values()):
                r.calls.clear()
            self.queries.clear()
            self.unknown = 0
            self.cx, self.pop, self.bes = [], {}, {}

        def wavelength(self, ion, charge, transition):
            self.queries.append(('wavelength', ion.name, charge, tuple(transition)))
            return 656.1

        def beam_cx_pec(self, donor, receiver, receiver_charge, transition):
            self.queries.append(('beam_cx_pec', donor.name, receiver.name, receiver_charge, tuple(transition)))
            self.cx = [CX(mt['m'], donor_c(mt['c'], donor.name)) for mt in self.case['metas']]
            return list(self.cx)

        def _find(self, element, charge):
            for i, s in enumerate(self.case['species']):
                if s['element'] == element.name and s['charge'] == charge:
                    return i
            return None

        def beam_population_rate(self, beam_ion, metastable, plasma_ion, charge):
            self.queries.append(('beam_population_rate', beam_ion.name, metastable, plasma_ion.name, charge))
            i = self._find(plasma_ion, charge)
            try:
                p = self.case['pops'][str(metastable)][i]
            except (KeyError, TypeError, IndexError):
                self.unknown += 1
                p = dict(null=False, a=[7.0, 0.0, 0.0, 0.0])
            r = Pop(donor_p3(p, beam_ion.name))
            self.pop[(metastable, i)] = r
            return r

        def beam_emission_pec(self, beam_ion, plasma_ion, charge, transition):
            self.queries.append(('beam_emission_pec', beam_ion.name, plasma_ion.name, charge, tuple(transition)))
            i = self._find(plasma_ion, charge)
            if i is None:
                self.unknown += 1
                p = dict(null=False, a=[7e-33, 0.0, 0.0, 0.0])
            else:
                p = self.case['bes'][i]
            r = BES(donor_p3(p, beam_ion.name))
            self.bes[i] = r
            return r

    class Shape(LineShapeModel):
        log = []

        def __init__(self, line, wavelength, target_species, plasma, atomic_data, *a, **kw):
            super().__init__(line, wavelength, target_species, plasma, atomic_data)
            self.ctor = (line, wavelength, target_species)

        def add_line(self, radiance, point, direction, spectrum):
            Shape.log.append((radiance, (point.x, point.y, point.z), (direction.x, direction.y, direction.z)) + self.ctor)
            return spectrum

    _CLS.update(Dist=Dist, Att=Att, Provider=Provider, Shape=Shape)
    return _CLS


def build(case):
    """fresh scene: set everything, then observe"""
    from raysect.core import Vector3D
    from cherab.core import Beam, Plasma, Species
    from cherab.core.atomic import elements
    k = _classes()
    ad = k['Provider'](case)
    sc = case.get('scene')
    nodes = None
    if sc:
        from raysect.core import AffineMatrix3D, Node
        from raysect.optical import World
        nodes = dict(world=World())
        nodes['G'] = Node(parent=nodes['world'], transform=AffineMatrix3D(sc['G']))
        nodes['PH'] = Node(parent=nodes['G'], transform=AffineMatrix3D(sc['PH']))
        nodes['BH'] = Node(parent=nodes['G'], transform=AffineMatrix3D(sc['BH']))
        plasma = Plasma(parent=nodes['PH'], transform=AffineMatrix3D(sc['P']))
    else:
        plasma = Plasma()
    B = case['B']
    plasma.b_field = lambda x, y, z: Vector3D(*[affine(c, (x, y, z)) for c in B])
    plasma.electron_distribution = k['Dist']([case['electron']['n'], 0, 0, 0], [case['electron']['T'], 0, 0, 0], [[0.0] * 4] * 3)
    plasma.composition = [Species(getattr(elements, s['element']), s['charge'], k['Dist'](s['n'], s['T'], s['v']))
                          for s in case['species']]
    plasma.atomic_data = ad
    if sc:
        beam = Beam(parent=nodes['BH'], transform=AffineMatrix3D(sc['B']))
        beam.sigma = sc['sigma']
        beam.divergence_x, beam.divergence_y = sc['div']
        nodes['P'], nodes['B'] = plasma, beam
    else:
        beam = Beam()
    beam.atomic_data = ad
    beam.plasma = plasma
    att = k['Att'](case['nb'])
    beam.attenuator = att
    beam.energy = case['energy']
    beam.power = 1e6
    beam.temperature = 10.0
    beam.element = getattr(elements, case['beam_element'])
    beam.length = 5.0
    return ad, plasma, beam, att, nodes


ELEMENT_INDEX = {n: i + 1 for i, n in enumerate(['hydrogen', 'deuterium', 'tritium', 'helium', 'beryllium', 'carbon', 'nitrogen',
                                                    'neon', 'argon', 'tungsten'])}


def comp_key(species):
    """(element, charge) as the number the Lean Composition model uses"""
    return ELEMENT_INDEX[species.element.name] * 100 + species.charge


def _mk_species(s):
    from cherab.core import Species
    from cherab.core.atomic import elements
    k = _classes()
    return Species(getattr(elements, s['element']), s['charge'], k['Dist'](s['n'], s['T'], s['v']))


class Scene:
    """a live scene: real Plasma, Beam and emission model; `observe` evaluates the model once, `apply` changes the
    scene through public API and returns the description of the new current state"""

    def __init__(self, case, attached=False, ghosts=0):
        from cherab.core.atomic import Line, elements
        from cherab.core.model import BeamCXLine, BeamEmissionLine
        k = _classes()
        self.kind = case['kind']
        self.attached = attached
        self.ad, self.plasma, self.beam, self.att, self.nodes = build(case)
        attached = self.attached = attached or bool(self.nodes)
        if self.kind == 'cx':
            if case.get('receiver_override'):
                rs = dict(element=case['receiver_override'][0], charge=case['receiver_override'][1])
            else:
                rs = case['species'][case['receiver']]
            self.line = Line(getattr(elements, rs['element']), rs['charge'] - 1, tuple(case['transition']))

            def mk():
                if attached:
                    return BeamCXLine(self.line, lineshape=k['Shape'])
                return BeamCXLine(self.line, self.beam, self.plasma, self.ad, lineshape=k['Shape'])
        else:
            self.line = Line(getattr(elements, case['beam_element']), 0, (3, 2))

            def mk():
                if attached:
                    return BeamEmissionLine(self.line)
                return BeamEmissionLine(self.line, self.beam, self.plasma, self.ad)
        # earlier models of the same beam / plasma that have been dropped since (they registered with the plasma's and
        # the beam's notifier before the live model did and are garbage by now)
        for _ in range(ghosts):
            ghost = mk()
            if attached:
                self.beam.models = [ghost]
            del ghost
        self.model = mk()
        if attached:
            self.beam.models = [self.model]      # the documented way: the beam hands plasma / beam / atomic data to the model
        if ghosts:
            import gc
            gc.collect(1)      # young generations only: the ghosts were created a moment ago
        self.notes = 0
        self.comp_log = []
        self.plasma.notifier.add(self._note)

    def _note(self):
        self.notes += 1

    def comp_op(self, op, items, do):
        """perform a mutator of plasma.composition and record what the Composition state machine did:
        items = Species objects / 'other' / None (in the order handed to the mutator)"""
        before = list(self.plasma.composition)
        n0 = self.notes
        st, msg = call(do)
        after = list(self.plasma.composition)

        def ordinal(obj):
            for j, it in enumerate(items):
                if it is obj:
                    return 100 + j
            for i, b in enumerate(before):
                if b is obj:
                    return i
            return -1

        self.comp_log.append(dict(op=op, before=[comp_key(b) for b in before],
                                  items=[(-2 if it is None else -1 if not hasattr(it, 'charge') else comp_key(it)) for it in items],
                                  raised=st != 'ok', notified=self.notes > n0,
                                  after=[(comp_key(a), ordinal(a)) for a in after]))
        return st, msg

    def observe(self, case):
        """one emission() call for the current state described by `case`"""
        from raysect.core import Point3D, Vector3D
        from raysect.optical import Spectrum
        k = _classes()
        ad, plasma, att, model = self.ad, self.plasma, self.att, self.model
        ad.case = case
        ad.reset()
        att.calls.clear()
        order = [(s.element.name, s.charge) for s in plasma.composition]
        obs = dict(order=order)
        eff = effective(case)
        bp, pp = Point3D(*case['beam_point']), Point3D(*eff['plasma_point'])
        bdir, odir = Vector3D(*eff['direction']), Vector3D(0.3, -0.4, 0.5)
        if self.nodes:
            # through the scene: the beam's material transforms point and directions into plasma space itself
            sdir = Vector3D(*case['scene']['odir'])

            def emit(bp_, pp_, bdir_, odir_, spectrum_):
                material = self.beam.children[0].material
                return material.emission_function(bp_, sdir, spectrum_, self.nodes['world'], None, None, None, None)
        else:
            emit = model.emission
        if self.kind == 'cx':
            if case.get('receiver_override'):
                rs = dict(element=case['receiver_override'][0], charge=case['receiver_override'][1])
            else:
                rs = case['species'][case['receiver']]
            k['Shape'].log.clear()
            spectrum = Spectrum(400, 800, 4)
            st, res = call(emit, bp, pp, bdir, odir, spectrum)
            obs['status'] = st
            obs['msg'] = res if st != 'ok' else ''
            log = list(k['Shape'].log)
            obs['lines'] = [(l[0], l[1], l[2]) for l in log]
            obs['shape_ok'] = all(l[3] is self.line and l[4] == 656.1 and (l[5].element.name, l[5].charge) == (rs['element'], rs['charge'])
                                  for l in log)
            obs['cx_calls'] = [(c.donor_metastable, list(c.calls)) for c in ad.cx]
            obs['pop_calls'] = {'%d/%d' % key: list(v.calls) for key, v in ad.pop.items() if key[1] is not None}
            obs['returned_same_spectrum'] = (st == 'ok' and res is spectrum)
            obs['spectrum_untouched'] = not any(spectrum.samples)
        else:
            spectrum = Spectrum(400, 900, 1)
            st, res = call(emit, bp, pp, bdir, odir, spectrum)
            obs['status'] = st
            obs['msg'] = res if st != 'ok' else ''
            obs['total'] = float(spectrum.samples[0] * spectrum.delta_wavelength)
            obs['bes_calls'] = {str(i): list(v.calls) for i, v in ad.bes.items() if i is not None}
        obs['queries'] = list(ad.queries)
        obs['unknown_queries'] = ad.unknown
        obs['att_calls'] = list(att.calls)
        obs['zeff'] = call(plasma.z_effective, *eff['plasma_point'])
        obs['ion_density'] = call(plasma.ion_density, *eff['plasma_point'])
        obs['species_ids'] = [id(sp_) for sp_ in plasma.composition]
        obs['n_species'] = len(plasma.composition)
        return obs

    # ---- changes through public API ------------------------------------------------------------------------------
    def changes(self, case):
        out = ['composition.add:replace-species', 'composition.add:new-species', 'composition.set', 'plasma.composition=',
               'plasma.electron_distribution', 'plasma.b_field', 'beam.energy', 'beam.element', 'beam.attenuator',
               'plasma.atomic_data', 'plasma-swap']
        if self.kind == 'cx':
            out += ['composition.add:replace-receiver', 'composition.add:replace-receiver']
            if sum(1 for s in case['species'] if s['charge'] >= 1 and s['n'][0] > 0) > 1:
                out.append('model.line')
        out += ['beam.atomic_data', 'beam.atomic_data'] if self.attached else ['model.atomic_data', 'model.atomic_data']
        out += REJECTED      # assignments / calls that must raise and leave everything as it was
        if self.nodes:
            # moves of the plasma node, of the beam node, of their private parents and of the common ancestor
            out = MOVES * 6 + out[:len(out) // 3]
        return out

    def apply(self, rng, case, change):
        """perform `change` on the live objects; returns the description of the new current state"""
        from raysect.core import Vector3D
        from cherab.core import Plasma
        from cherab.core.atomic import Line, elements
        k = _classes()
        sp = case['species']
        if change.startswith('rejected:'):
            return self.apply_rejected(rng, case, change)
        if change.startswith('move:'):
            from raysect.core import AffineMatrix3D
            which = change[len('move:'):]
            new = copy.deepcopy(case)
            new['scene'][which] = rnd_rigid(rng)
            self.nodes[which].transform = AffineMatrix3D(new['scene'][which])
            new['edge'] = 'after-' + change
            return new
        ent = [(s, i) for i, s in enumerate(sp)]
        new = None
        if change in ('composition.add:replace-receiver', 'composition.add:replace-species'):
            i = case['receiver'] if change.endswith('receiver') else rng.randrange(len(sp))
            ns = redraw_species(rng, sp[i])
            ent[i] = (ns, i)
            new = set_species(case, rng, ent)
            obj = _mk_species(ns)
            self.comp_op('add', [obj], lambda: self.plasma.composition.add(obj))
        elif change == 'composition.add:new-species':
            have = {(s['element'], s['charge']) for s in sp}
            el, z = rng.choice([q for q in POOL if q not in have])
            ns = redraw_species(rng, dict(element=el, charge=z))
            ent.append((ns, None))
            new = set_species(case, rng, ent)
            obj = _mk_species(ns)
            self.comp_op('add', [obj], lambda: self.plasma.composition.add(obj))
        elif change in ('composition.set', 'plasma.composition=', 'plasma-swap'):
            keep = list(range(len(sp)))
            if len(keep) > 1 and rng.random() < 0.5:
                drop = rng.choice([i for i in keep if self.kind != 'cx' or i != case['receiver']])
                keep.remove(drop)
            rng.shuffle(keep)
            ent = [(redraw_species(rng, sp[i]), i) for i in keep]
            new = set_species(case, rng, ent)
            objs = [_mk_species(s) for s, _ in ent]
            if change == 'composition.set':
                self.comp_op('set', objs, lambda: self.plasma.composition.set(objs))
            elif change == 'plasma.composition=':
                self.comp_op('set', objs, lambda: setattr(self.plasma, 'composition', objs))
            else:
                new['B'] = [rnd_affine(rng, rng.uniform(-5, 5)) for _ in range(3)]
                B = new['B']
                pl = Plasma()
                pl.b_field = lambda x, y, z: Vector3D(*[affine(c, (x, y, z)) for c in B])
                pl.electron_distribution = k['Dist']([2e19, 0, 0, 0], [50.0, 0, 0, 0], [[0.0] * 4] * 3)
                pl.composition = objs
                pl.atomic_data = self.ad
                if self.nodes:
                    from raysect.core import AffineMatrix3D
                    pl.parent = self.nodes['PH']
                    pl.transform = AffineMatrix3D(case['scene']['P'])
                    self.nodes['P'] = pl
                self.plasma = pl
                pl.notifier.add(self._note)
                if self.attached:
                    self.beam.plasma = pl
                else:
                    self.model.plasma = pl
        else:
            new = copy.deepcopy(case)
            if change == 'plasma.electron_distribution':
                new['electron'] = dict(n=10 ** rng.uniform(18, 20), T=10 ** rng.uniform(1, 3))
                self.plasma.electron_distribution = k['Dist']([new['electron']['n'], 0, 0, 0], [new['electron']['T'], 0, 0, 0], [[0.0] * 4] * 3)
            elif change == 'plasma.b_field':
                new['B'] = [rnd_affine(rng, rng.uniform(-5, 5)) for _ in range(3)]
                B = new['B']
                self.plasma.b_field = lambda x, y, z: Vector3D(*[affine(c, (x, y, z)) for c in B])
            elif change == 'beam.energy':
                new['energy'] = 10 ** rng.uniform(3, 5.3)
                self.beam.energy = new['energy']
            elif change == 'beam.element':
                new['beam_element'] = rng.choice([e for e in ('hydrogen', 'deuterium', 'tritium') if e != case['beam_element']])
                self.beam.element = getattr(elements, new['beam_element'])
                if self.kind == 'bes':      # the Balmer-alpha line must belong to the beam species
                    self.line = Line(getattr(elements, new['beam_element']), 0, (3, 2))
                    self.model.line = self.line
            elif change == 'beam.attenuator':
                new['nb'] = rnd_affine(rng, 10 ** rng.uniform(13, 16), 0.15)
                self.att = k['Att'](new['nb'])
                self.beam.attenuator = self.att
            elif change in ('model.atomic_data', 'beam.atomic_data'):
                redraw_coefficients(rng, new)
                self.ad = k['Provider'](new)
                if change == 'model.atomic_data':
                    self.model.atomic_data = self.ad
                else:
                    self.beam.atomic_data = self.ad
            elif change == 'plasma.atomic_data':
                # beam models take their data from the beam, not from the plasma: nothing may change
                self.plasma.atomic_data = k['Provider'](redraw_coefficients(rng, copy.deepcopy(case)))
            elif change == 'model.line':
                cand = [i for i, s in enumerate(sp) if s['charge'] >= 1 and s['n'][0] > 0 and i != case['receiver']]
                new['receiver'] = rng.choice(cand)
                new['transition'] = [rng.randint(2, 9), 1]
                rs = sp[new['receiver']]
                self.line = Line(getattr(elements, rs['element']), rs['charge'] - 1, tuple(new['transition']))
                self.model.line = self.line
            else:
                raise ValueError(change)
        new['edge'] = 'after-' + change
        return new


MOVES = ['move:P', 'move:P', 'move:B', 'move:PH', 'move:BH', 'move:G']     # P = the plasma node, B = the beam node

REJECTED = ['rejected:plasma.composition=[species..., non-Species]', 'rejected:plasma.composition=[species..., non-Species]',
            'rejected:plasma.composition=[species..., None]', 'rejected:composition.set([species..., non-Species])',
            'rejected:composition.set([non-Species, species...])', 'rejected:plasma.composition=non-iterable',
            'rejected:composition.add(None)', 'rejected:composition.add(non-Species)',
            'rejected:beam.energy=negative', 'rejected:beam.power=negative', 'rejected:beam.temperature=negative',
            'rejected:beam.element=None', 'rejected:beam.atomic_data=wrong-type', 'rejected:model.atomic_data=wrong-type',
            'rejected:plasma.atomic_data=wrong-type', 'rejected:beam.models=[model, non-model]', 'rejected:plasma.models=[non-model]',
            'rejected:plasma.electron_distribution=wrong-type', 'rejected:model.line=None',
            'rejected:beam.attenuator=None', 'rejected:beam.plasma=None', 'rejected:model.plasma=None', 'rejected:model.beam=None']


def _apply_rejected(self, rng, case, change):
    """an assignment / call that must raise; the description of the current state stays what it was"""
    what = change[len('rejected:'):]
    sp = case['species']
    k = list(range(len(sp)))
    rng.shuffle(k)
    # valid Species with *new* parameters in front of the offending item: a partially applied list shows in the values
    valid = [_mk_species(redraw_species(rng, sp[i])) for i in k[:rng.randint(1, len(k))]]

    def setattr_(obj, name, value):
        return lambda: setattr(obj, name, value)

    act = {
        'plasma.composition=[species..., non-Species]': setattr_(self.plasma, 'composition', valid + ['not a species']),
        'plasma.composition=[species..., None]': setattr_(self.plasma, 'composition', valid + [None]),
        'composition.set([species..., non-Species])': lambda: self.plasma.composition.set(valid + [42]),
        'composition.set([non-Species, species...])': lambda: self.plasma.composition.set([object()] + valid),
        'plasma.composition=non-iterable': setattr_(self.plasma, 'composition', 5),
        'composition.add(None)': lambda: self.plasma.composition.add(None),
        'composition.add(non-Species)': lambda: self.plasma.composition.add('deuterium'),
        'beam.energy=negative': setattr_(self.beam, 'energy', -abs(case['energy'])),
        'beam.power=negative': setattr_(self.beam, 'power', -1.0),
        'beam.temperature=negative': setattr_(self.beam, 'temperature', -1.0),
        'beam.element=None': setattr_(self.beam, 'element', None),
        'beam.atomic_data=wrong-type': setattr_(self.beam, 'atomic_data', rng.choice([None, 'openadas', 7])),
        'model.atomic_data=wrong-type': setattr_(self.model, 'atomic_data', rng.choice([None, 'openadas', 7])),
        'plasma.atomic_data=wrong-type': setattr_(self.plasma, 'atomic_data', rng.choice(['openadas', 7])),
        'beam.models=[model, non-model]': setattr_(self.beam, 'models', [self.model, 'not a model']),
        'plasma.models=[non-model]': setattr_(self.plasma, 'models', [self.model]),
        'plasma.electron_distribution=wrong-type': setattr_(self.plasma, 'electron_distribution', 'maxwellian'),
        'model.line=None': setattr_(self.model, 'line', None),
        'beam.attenuator=None': setattr_(self.beam, 'attenuator', None),
        'beam.plasma=None': setattr_(self.beam, 'plasma', None),
        'model.plasma=None': setattr_(self.model, 'plasma', None),
        'model.beam=None': setattr_(self.model, 'beam', None),
    }[what]
    comp = {'plasma.composition=[species..., non-Species]': ('set', valid + ['not a species']),
            'plasma.composition=[species..., None]': ('set', valid + ['none in a list']),
            'composition.set([species..., non-Species])': ('set', valid + [42]),
            'composition.set([non-Species, species...])': ('set', ['object'] + valid),
            'composition.add(None)': ('add', [None]),
            'composition.add(non-Species)': ('add', ['deuterium'])}.get(what)
    if comp:
        st, msg = self.comp_op(comp[0], comp[1], act)
    else:
        st, msg = call(act)
    self.last_rejection = (st, msg)
    new = copy.deepcopy(case)
    new['edge'] = 'after-' + change
    return new


Scene.apply_rejected = _apply_rejected


def redraw_species(rng, s):
    v0 = [rng.uniform(-1, 1) * rng.choice([0.0, 1e4, 1e5, 1e6, 3e6]) for _ in range(3)]
    z = s['charge']
    return dict(element=s['element'], charge=z,
                n=rnd_affine(rng, 10 ** (rng.uniform(15, 20) if z else rng.uniform(14, 19))),
                T=rnd_affine(rng, 10 ** rng.uniform(0, 4)), v=[rnd_affine(rng, c) for c in v0])


def set_species(case, rng, entries):
    """new description with the species list `entries` = [(species, index in the old list | None)]; the atomic data is
    keyed by (element, charge), so coefficients follow their species"""
    new = copy.deepcopy(case)
    new['species'] = [copy.deepcopy(s) for s, _ in entries]

    def p3_for(s, src, table, scale):
        if src is not None:
            return copy.deepcopy(table[src])
        return rnd_p3(rng, null=(s['charge'] == 0), scale=scale)

    if case['kind'] == 'cx':
        new['pops'] = {m: [p3_for(s, src, tab, 0.3) for s, src in entries] for m, tab in case['pops'].items()}
        old = case['species'][case['receiver']]
        new['receiver'] = [i for i, (s, _) in enumerate(entries)
                           if (s['element'], s['charge']) == (old['element'], old['charge'])][0]
    else:
        new['bes'] = [p3_for(s, src, case['bes'], 1e-33) for s, src in entries]
    return new


def redraw_coefficients(rng, case):
    """a different atomic data provider for the same scene"""
    sp = case['species']
    if case['kind'] == 'cx':
        for mt in case['metas']:
            u = [rng.random() for _ in range(6)]
            s_ = 1e-33 * 10 ** rng.uniform(-1, 1)
            mt['c'] = [s_ * u[0], s_ * u[1] / 1e5, s_ * u[2] / 1e3, s_ * u[3] / 1e19, s_ * u[4] / 3, s_ * u[5] / 3]
        case['pops'] = {m: [rnd_p3(rng, null=(s['charge'] == 0), scale=rng.choice([0.05, 0.3, 2.0])) for s in sp]
                        for m in case['pops']}
    else:
        case['bes'] = [rnd_p3(rng, null=(s['charge'] == 0), scale=1e-33 * 10 ** rng.uniform(-1, 1)) for s in sp]
    return case


def run_impl(case):
    """the observation of one emission() call on a fresh scene"""
    return Scene(case).observe(case)


# --------------------------------------------------------------------------------------------------------------------
# protocol lines for the Lean model
# --------------------------------------------------------------------------------------------------------------------
def _species_tokens(sp):
    return ' '.join('%d %s' % (s['Z'], fs([s['n'], s['T']] + s['v'])) for s in sp)


def _p3_tokens(p):
    return '%d %s' % (1 if p['null'] else 0, fs(p['a']))


def model_line(case):
    sp = sample_species(case)
    nb = affine(case['nb'], case['beam_point'])
    if not (0.0 <= case['beam_point'][2] <= 5.0):
        nb = 0.0        # Beam.density clamps outside 0 <= z <= length (C04's business; the model gets the clamped value)
    head = fs([case['energy']] + case['direction'] + [nb])
    if case['kind'] == 'cx':
        B = [affine(c, case['plasma_point']) for c in case['B']]
        # the model wants the ground state first, then the excited ones in provider order
        metas = sorted(case['metas'], key=lambda mt: 0 if mt['m'] == 1 else 1)
        toks = ['cx', head, fs(B), str(case['receiver']), str(len(sp)), _species_tokens(sp), str(len(metas))]
        d = case['beam_element']
        toks += [fs(donor_c(mt['c'], d)) for mt in metas]
        for mt in metas[1:]:
            toks += [_p3_tokens(donor_p3(p, d)) for p in case['pops'][str(mt['m'])]]
        return ' '.join(toks)
    toks = ['bes', head, str(len(sp)), _species_tokens(sp)] + [_p3_tokens(donor_p3(p, case['beam_element'])) for p in case['bes']]
    return ' '.join(toks)


# --------------------------------------------------------------------------------------------------------------------
# S: the property's formulas, recomputed from the description
# --------------------------------------------------------------------------------------------------------------------
def oracle(case):
    sp = sample_species(case)
    d = case['direction']
    L = math.sqrt(d[0] * d[0] + d[1] * d[1] + d[2] * d[2])
    out = dict(species=sp)
    nb = affine(case['nb'], case['beam_point'])
    if not (0.0 <= case['beam_point'][2] <= 5.0):
        nb = 0.0
    out['nb'] = nb
    if L == 0.0:
        out['undefined'] = 'zero beam direction'
        return out
    speed = math.sqrt(2.0 * case['energy'] * E_CHARGE / AMU)
    vb = [c / L * speed for c in d]

    def e_int(v):
        return 0.5 * AMU / E_CHARGE * sum((a - b) ** 2 for a, b in zip(vb, v))

    ions = [s for s in sp if s['Z'] >= 1]
    D = math.fsum(s['Z'] ** 2 * s['n'] for s in ions)
    snz = math.fsum(s['Z'] * s['n'] for s in ions)
    out['p3_args'] = [(e_int(s['v']), (D / s['Z'] if s['Z'] else None), s['T']) for s in sp]
    out['zeff'] = D / snz if D != 0 else None
    out['ion_density'] = math.fsum(s['n'] for s in (sp if ION_DENSITY_COUNTS_NEUTRALS else ions))

    def charged_sum(ps):
        return math.fsum(s['Z'] * s['n'] * p3_value(donor_p3(p, case['beam_element']), e_int(s['v']), D / s['Z'], s['T'])
                         for s, p in zip(sp, ps) if s['Z'] >= 1)

    if case['kind'] == 'cx':
        r = sp[case['receiver']]
        B = [affine(c, case['plasma_point']) for c in case['B']]
        args = (e_int(r['v']), r['T'], out['ion_density'], out['zeff'], math.sqrt(sum(b * b for b in B)))
        out['args'] = args
        out['nr'] = r['n']
        if nb == 0 or r['n'] == 0:
            out['radiance'] = 0.0
            return out
        if r['T'] == 0:
            out['undefined'] = 'receiver temperature zero (the code emits nothing there; outside the property)'
            return out
        qs = {mt['m']: cx_value(donor_c(mt['c'], case['beam_element']), *args) for mt in case['metas']}
        ks = {m: charged_sum(case['pops'][str(m)]) / snz for m in qs if m != 1}
        out['qs'], out['ks'] = qs, ks
        q = (qs[1] + math.fsum(ks[m] * qs[m] for m in ks)) / (1.0 + math.fsum(ks.values()))
        out['q'] = q
        out['radiance'] = RECIP_4_PI * nb * r['n'] * q
    else:
        if nb == 0:
            out['radiance'] = 0.0
            return out
        out['radiance'] = RECIP_4_PI * nb * charged_sum(case['bes'])
    return out


def in_quantifier(case):
    """the property's quantifier: ions with charge >= 1 plus neutrals whose coefficients are null rates"""
    for i, s in enumerate(case['species']):
        if s['charge'] == 0:
            ps = ([case['pops'][m][i] for m in case['pops']] if case['kind'] == 'cx' else [case['bes'][i]])
            if not all(p['null'] for p in ps):
                return False
    return True


def check_property(ctx, case, obs, after=None, root=None):
    """direct oracle on the implementation's observations; calls ctx.fail on a violation of the property"""
    if not in_quantifier(case):
        ctx.count('outside-quantifier(neutral with non-null rate): K only')
        return
    if case.get('receiver_override'):
        ctx.count('S-skipped: receiver species not in the plasma')
        return
    o = oracle(case)
    kind = case['kind']
    who = 'BeamCXLine.emission' if kind == 'cx' else 'BeamEmissionLine.emission'
    # the replay re-runs `case`; after a change that is the generated root case (its `reeval` entry reproduces the changes)
    rep = dict(case=root, state=case, change=after) if after else dict(case=case)

    def fail(tag, text):
        if after:
            # a live model after a change of plasma / beam / provider: one signature per (model, change)
            ctx.fail('C05:%s:after-%s:differs-from-documented-for-current-state' % (who, after),
                     '%s after %s differs from the documented expression for the current state [%s] %s' % (who, after, tag, text), rep)
        else:
            ctx.fail('C05:%s:%s' % (who, tag), '%s: %s' % (who, text), rep)

    if 'undefined' in o:
        ctx.count('S-skipped: ' + o['undefined'][:30])
        return
    if obs['status'] != 'ok':
        fail('raised-' + obs['status'], 'raised %s (%s) on a scene inside the quantifier' % (obs['status'], obs['msg']))
        return
    if obs['unknown_queries']:
        fail('provider-query', 'atomic data was requested for a species/metastable that is not in the scene: %r' % (obs['queries'],))
    sp = o['species']
    n_sp = len(sp)
    # ---- provider queries
    want_order = [(s['element'], s['charge']) for s in case['species']]
    if obs['order'] != want_order:
        ctx.broke('correspondence', 'C05 composition order', dict(got=obs['order'], want=want_order))
    if after and not obs['queries']:
        ctx.count('S: no provider query in a re-evaluation (cache kept; the values decide whether it was stale)')
    elif kind == 'cx':
        rs = case['species'][case['receiver']]
        wantq = ('beam_cx_pec', case['beam_element'], rs['element'], rs['charge'], tuple(case['transition']))
        if wantq not in obs['queries']:
            fail('provider-query:beam_cx_pec', 'beam_cx_pec not queried with (donor, receiver, receiver charge, transition) = %r; queries %r' % (wantq[1:], [q for q in obs['queries'] if q[0] == 'beam_cx_pec']))
        for mt in case['metas']:
            if mt['m'] == 1:
                continue
            for s in case['species']:
                wq = ('beam_population_rate', case['beam_element'], mt['m'], s['element'], s['charge'])
                if o['nb'] != 0 and o['nr'] != 0 and wq not in obs['queries']:
                    fail('provider-query:beam_population_rate', 'population coefficient not requested for %r' % (wq[1:],))
    else:
        for s in case['species']:
            wq = ('beam_emission_pec', case['beam_element'], s['element'], s['charge'], (3, 2))
            if wq not in obs['queries']:
                fail('provider-query:beam_emission_pec', 'beam emission rate not requested for %r' % (wq[1:],))
    # ---- radiance
    if kind == 'cx':
        lines = obs['lines']
        got = math.fsum(l[0] for l in lines)
        if o['radiance'] == 0.0:
            if got != 0.0 or not obs['spectrum_untouched']:
                which = 'beam' if o['nb'] == 0 else 'receiver'
                fail('nonzero-at-zero-%s-density' % which, 'emits %r although the %s density is zero' % (got, which))
            return
        if not lines:
            fail('no-line-added', 'no line was added although (1/4pi) n_b n_r q = %r' % o['radiance'])
            return
        if not obs['shape_ok']:
            fail('lineshape-construction', 'line shape built with the wrong line / wavelength / target species')
        for l in lines:
            if not all(abs(a_ - b_) <= 1e-9 for a_, b_ in zip(l[1], case['plasma_point'])):
                fail('add_line-point', 'line added at %r, plasma point is %r' % (l[1], case['plasma_point']))
            if case.get('observation') and not all(abs(a_ - b_) <= 1e-9 for a_, b_ in zip(l[2], case['observation'])):
                fail('add_line-direction', 'line added for observation direction %r, in plasma space it is %r' % (l[2], case['observation']))
        # every evaluation of every metastable-resolved coefficient is at the prescribed tuple
        for m, calls in obs['cx_calls']:
            for c in calls:
                for name, g, w in zip(CX_ARG_NAMES, c, o['args']):
                    if not close(g, w, REL):
                        hint = ''
                        if name == 'density' and close(g, o['nr'], REL):
                            hint = ' (that is the receiver density, not the total ion density)'
                        fail('argument:' + name, 'metastable %d coefficient evaluated at %s = %r, prescribed %r%s' % (m, name, g, w, hint))
        # population coefficients: (E_int,i , sum Z^2 n / Z_i , T_i)
        for key, calls in obs['pop_calls'].items():
            m, i = (int(t) for t in key.split('/'))
            if sp[i]['Z'] == 0:
                continue
            for c in calls:
                for name, g, w in zip(P3_ARG_NAMES, c, o['p3_args'][i]):
                    if not close(g, w, REL):
                        fail('population-argument:' + name, 'population coefficient m=%d of species %d (Z=%d) evaluated at %s = %r, prescribed %r' % (m, i, sp[i]['Z'], name, g, w))
        if not close(got, o['radiance'], REL):
            fail('radiance', 'radiance %r, (1/4pi) n_b n_r q = %r (n_b=%r n_r=%r q=%r, q_m=%r, k_m=%r)' % (got, o['radiance'], o['nb'], o['nr'], o['q'], o['qs'], o['ks']))
        # convexity: q between the smallest and the largest individual coefficient (values the mocks returned)
        vals = [cx_value(donor_c(mt['c'], case['beam_element']), *calls[0]) for mt, (m, calls) in zip(case['metas'], obs['cx_calls']) if calls]
        if vals and o['nb'] and o['nr']:
            qc = got / (RECIP_4_PI * o['nb'] * o['nr'])
            lo, hi = min(vals), max(vals)
            if not (lo * (1 - 1e-9) - 1e-300 <= qc <= hi * (1 + 1e-9) + 1e-300):
                fail('mean-outside-range', 'composite coefficient %r outside [min, max] = [%r, %r] of the individual ones' % (qc, lo, hi))
    else:
        got = obs['total']
        if o['radiance'] == 0.0:
            if got != 0.0:
                fail('nonzero-at-zero-density', 'emits %r although beam or plasma density is zero' % got)
            return
        for key, calls in obs['bes_calls'].items():
            i = int(key)
            if sp[i]['Z'] == 0:
                continue
            for c in calls:
                for name, g, w in zip(P3_ARG_NAMES, c, o['p3_args'][i]):
                    if not close(g, w, REL):
                        fail('argument:' + name, 'beam emission rate of species %d (Z=%d) evaluated at %s = %r, prescribed %r' % (i, sp[i]['Z'], name, g, w))
        if not close(got, o['radiance'], REL, floor=abs(o['radiance']) * 1e-12):
            fail('radiance', 'wavelength-integrated emission %r, (1/4pi) n_b sum Z n q = %r' % (got, o['radiance']))
    # ---- beam density sampled at the beam point
    if obs['att_calls'] and tuple(obs['att_calls'][0]) != tuple(case['beam_point']):
        fail('beam-density-point', 'beam density sampled at %r, beam point is %r' % (obs['att_calls'][0], case['beam_point']))


def check_rejected(ctx, case, obs, prev, change, root):
    """a refused assignment / call leaves the composition and the emission exactly as they were"""
    who = 'BeamCXLine.emission' if case['kind'] == 'cx' else 'BeamEmissionLine.emission'
    rep = dict(case=root, state=case, change=change)
    if obs['species_ids'] != prev['species_ids'] or obs['n_species'] != prev['n_species']:
        ctx.fail('C05:%s:after-%s:composition-changed-by-rejected-change' % (who, change),
                 '%s raised, yet the composition changed: %d species %r before, %d species %r after'
                 % (change, prev['n_species'], prev['order'], obs['n_species'], obs['order']), rep)

    def emitted(o):
        if o['status'] != 'ok':
            return ('raised', o['status'])
        return tuple(l[0] for l in o['lines']) if case['kind'] == 'cx' else (o['total'],)

    a, b = emitted(prev), emitted(obs)
    same = len(a) == len(b) and all(x == y or (x != x and y != y) for x, y in zip(a, b))
    if not same:
        ctx.fail('C05:%s:after-%s:emission-changed-by-rejected-change' % (who, change),
                 '%s raised, yet the emission changed from %r to %r' % (change, a, b), rep)
    for name in ('zeff', 'ion_density'):
        if prev[name] != obs[name] and not (prev[name][1] != prev[name][1]):
            ctx.fail('C05:Plasma.%s:after-%s:changed-by-rejected-change' % ('z_effective' if name == 'zeff' else name, change),
                     '%s raised, yet %s changed from %r to %r' % (change, name, prev[name], obs[name]), rep)


def check_plasma(ctx, case, obs):
    """Plasma.z_effective / ion_density against the formulas, and the range of Z_eff"""
    sp = sample_species(case)
    ions = [s for s in sp if s['Z'] >= 1 and s['n'] > 0]
    rep = dict(case=case)
    st, ze = obs['zeff']
    D = math.fsum(s['Z'] ** 2 * s['n'] for s in ions)
    if D == 0:
        if st != 'ValueError':
            ctx.fail('C05:Plasma.z_effective:no-ions-accepted', 'z_effective returned %r for a plasma without ions' % (ze,), rep)
    else:
        want = D / math.fsum(s['Z'] * s['n'] for s in ions)
        if st != 'ok' or not close(ze, want, REL):
            ctx.fail('C05:Plasma.z_effective:formula', 'z_effective = %r (%s), sum n Z^2 / sum n Z = %r' % (ze, st, want), rep)
        else:
            lo, hi = min(s['Z'] for s in ions), max(s['Z'] for s in ions)
            if not (lo * (1 - 1e-12) <= ze <= hi * (1 + 1e-12)):
                ctx.fail('C05:Plasma.z_effective:range', 'z_effective = %r outside [%d, %d]' % (ze, lo, hi), rep)
    st, ni = obs['ion_density']
    want = math.fsum(s['n'] for s in sp if ION_DENSITY_COUNTS_NEUTRALS or s['Z'] >= 1)
    if st != 'ok' or not close(ni, want, REL):
        ctx.fail('C05:Plasma.ion_density:formula', 'ion_density = %r (%s), sum of species densities = %r' % (ni, st, want), rep)


# --------------------------------------------------------------------------------------------------------------------
# K: model vs implementation
# --------------------------------------------------------------------------------------------------------------------
def compare(ctx, case, obs, out, stats):
    """out: the driver's answer for model_line(case)"""
    kind = case['kind']
    toks = out.split()
    tag = toks[0] if toks else ''
    vals = [b2f(t) for t in toks[1:]] if tag == 'line' else []

    def broke(what, detail):
        ctx.disagreements += 1
        ctx.count('disagreement:' + kind + ':' + what)
        ctx.broke('correspondence', 'C05 stream %s (%s)' % (kind, what), dict(detail=detail, model=out[:400], case=case))

    def track(a, b):
        if a == b or (a != a and b != b):
            stats['bit-exact'] += 1
        else:
            stats['rounded'] += 1
            if a and b:
                stats['maxrel'] = max(stats['maxrel'], abs(a - b) / max(abs(a), abs(b)))

    if obs['status'] != 'ok':
        want = {'ZeroDivisionError': 'zerodiv', 'ValueError': 'valueerror', 'RuntimeError': 'indexerror'}.get(obs['status'], obs['status'])
        if tag != want:
            broke('exception', 'implementation raised %s, model says %s' % (obs['status'], tag))
        return
    if kind == 'cx':
        lines = obs['lines']
        # "nothing emitted" is one observable: an early return and add_line(0.0) are not distinguished
        if tag == 'skip':
            if any(l[0] != 0.0 for l in lines) or not obs['returned_same_spectrum']:
                broke('skip', 'model emits nothing, implementation called add_line %r' % (lines,))
            elif lines:
                ctx.count('K: early exit in the model, add_line(0.0) in the implementation')
            return
        if tag == 'line' and not lines and vals[0] == 0.0:
            ctx.count('K: add_line(0.0) in the model, early exit in the implementation')
            return
        if tag != 'line' or not lines:
            broke('shape', 'model %s, implementation add_line calls %r' % (tag, lines))
            return
        r = vals[0]
        got = math.fsum(l[0] for l in lines)
        track(r, got)
        if not close(r, got, REL):
            broke('radiance', 'model %r implementation %r' % (r, got))
        for m, calls in obs['cx_calls']:
            if not calls:
                broke('evaluations', 'metastable %d never evaluated' % m)
            for c in calls:
                for name, g, w in zip(CX_ARG_NAMES, c, vals[1:6]):
                    track(w, g)
                    if not close(g, w, REL):
                        broke('argument-' + name, 'metastable %d: model %r implementation %r' % (m, w, g))
    else:
        if tag == 'skip':
            if obs['total'] != 0.0:
                broke('skip', 'model skips, implementation emitted %r' % obs['total'])
            return
        if tag != 'line':
            broke('shape', 'model %s' % tag)
            return
        r = vals[0]
        if not close(r, obs['total'], REL, floor=abs(r) * 1e-12):
            broke('radiance', 'model %r implementation (integrated multiplet) %r' % (r, obs['total']))
        for key, calls in obs['bes_calls'].items():
            i = int(key)
            if not calls:
                broke('evaluations', 'species %d never evaluated' % i)
            for c in calls:
                for name, g, w in zip(P3_ARG_NAMES, c, vals[1 + 3 * i: 4 + 3 * i]):
                    track(w, g)
                    if not close(g, w, REL):
                        broke('argument-' + name, 'species %d: model %r implementation %r' % (i, w, g))


def compare_plasma(ctx, case, obs, out):
    toks = out.split()
    st, ze = obs['zeff']
    _, ni = obs['ion_density']
    ok = True
    if toks[0] == 'ok':
        ok = st == 'ok' and close(ze, b2f(toks[1]), REL) and close(ni, b2f(toks[2]), REL)
    else:
        ok = st == 'ValueError' and close(ni, b2f(toks[1]), REL)
    if not ok:
        ctx.disagreements += 1
        ctx.broke('correspondence', 'C05 stream plasma (z_effective / ion_density)',
                  dict(model=out, implementation=[obs['zeff'], obs['ion_density']], case=case))


def plasma_line(case):
    sp = sample_species(case)
    return 'zeff %d %s' % (len(sp), ' '.join('%d %s' % (s['Z'], f2b(s['n'])) for s in sp))


EDGES_CX = ['beam-density-zero', 'beam-point-outside', 'receiver-density-zero', 'receiver-temperature-zero',
            'zero-direction', 'stationary', 'neutral-nonnull', 'uniform', 'receiver-missing', 'plasma-density-zero']
EDGES_BES = ['beam-density-zero', 'beam-point-outside', 'zero-direction', 'stationary', 'neutral-nonnull',
             'plasma-density-zero']


def gen_all(ctx, n):
    rng = ctx.rng
    cases = []
    for i in range(n):
        kind = 'cx' if i % 5 < 3 else 'bes'
        edge = None
        u = rng.random()
        if u < 0.2:
            edge = rng.choice(EDGES_CX if kind == 'cx' else EDGES_BES)
        case = gen_case(rng, kind, edge)
        if 0.2 <= u < 0.4:
            # exact zeros: one ingredient exactly 0, the others non-zero
            apply_zeros(rng, case, rng.choice(ZEROS_CX if kind == 'cx' else ZEROS_BES))
        elif 0.4 <= u < 0.65:
            # re-evaluation stream: evaluate, change the scene through public API, evaluate again
            case['reeval'] = dict(seed=rng.randrange(1 << 30), attached=rng.random() < 0.5, n=rng.choice([1, 1, 2, 3]),
                                  ghosts=rng.choice([0, 0, 1, 1, 2, 3]))
            if rng.random() < 0.4:
                # ... evaluated through the scene (World -> nodes -> Plasma / Beam -> BeamMaterial), with moves of the nodes
                make_scene(rng, case)
        cases.append(case)
    # only-neutral and single-ion plasmas for the z_effective stream
    for i in range(max(4, n // 50)):
        c = gen_case(rng, 'bes', None)
        for s in c['species']:
            if rng.random() < 0.7:
                s['n'][0] = 0.0
        c['edge'] = 'sparse-plasma'
        cases.append(c)
    return cases


def expand(ctx, case):
    """the evaluations one generated case stands for:
    [(state description, observation, change | None, previous obs | None, observation of a fresh scene | None)]"""
    re = case.get('reeval')
    if not re:
        return [(case, run_impl(case), None, None, None)], []
    import random
    rng = random.Random(re['seed'])
    sc = Scene(case, re['attached'], re.get('ghosts', 0))
    prev = sc.observe(case)
    out = [(effective(case), prev, None, None, None)]
    cur = case
    for _ in range(re['n']):
        ch = rng.choice(sc.changes(cur))
        st, new = call(sc.apply, rng, cur, ch)
        if st != 'ok':
            ctx.broke('correspondence', 'C05 re-evaluation stream: change %s raised %s' % (ch, st), dict(msg=new, case=case))
            break
        rejected = ch.startswith('rejected:')
        if rejected and sc.last_rejection[0] == 'ok':
            # the API accepted what it documents to refuse; the state that follows is not defined by C05
            ctx.broke('correspondence', 'C05 re-evaluation stream: %s did not raise' % ch, dict(case=case))
            break
        new.pop('reeval', None)
        cur = new
        obs = sc.observe(cur)
        fresh = Scene(cur, True).observe(cur) if ch.startswith('move:') else None
        out.append((effective(cur), obs, ch, prev if rejected else None, fresh))
        prev = obs
    return out, sc.comp_log


def check_fresh(ctx, case, obs, fresh, change, root):
    """a live scene after a move emits what a scene built from scratch in the final configuration emits"""
    who = 'BeamCXLine.emission' if case['kind'] == 'cx' else 'BeamEmissionLine.emission'

    def emitted(o):
        if o['status'] != 'ok':
            return None
        return math.fsum(l[0] for l in o['lines']) if case['kind'] == 'cx' else o['total']

    a, b = emitted(obs), emitted(fresh)
    if a is None or b is None:
        if (a is None) != (b is None):
            ctx.fail('C05:%s:after-%s:differs-from-fresh-scene' % (who, change),
                     'after %s the live scene gives %r (%s), a fresh scene in the same configuration %r (%s)'
                     % (change, a, obs['status'], b, fresh['status']), dict(case=root, state=case, change=change))
        return
    if not close(a, b, 1e-12):
        ctx.fail('C05:%s:after-%s:differs-from-fresh-scene' % (who, change),
                 'after %s the live scene emits %r, a fresh scene in the same configuration %r' % (change, a, b),
                 dict(case=root, state=case, change=change))


def corpus_cases():
    import glob
    import os
    from harness.vlib.util import VERIF
    out = []
    for p in sorted(glob.glob(os.path.join(VERIF, 'corpus', 'C05', '*.json'))):
        d = json.load(open(p))
        out.append(d.get('case', d.get('replay', {}).get('case', d)))
    return out


class _Spy:
    """ctx that remembers whether a failing input was reported through it"""

    def __init__(self, ctx):
        self._ctx = ctx
        self.hit = False

    def __getattr__(self, name):
        return getattr(self._ctx, name)

    def fail(self, *a, **k):
        self.hit = True
        return self._ctx.fail(*a, **k)


def process(ctx, cases):
    stats = dict(**{'bit-exact': 0, 'rounded': 0, 'maxrel': 0.0})
    lines = ['const ' + fs([E_CHARGE, AMU, RECIP_4_PI])]
    items = []
    comps = []
    for root in cases:
        evals, comp_log = expand(ctx, root)
        comps += [(root, rec) for rec in comp_log]
        for state, obs, change, prev, fresh in evals:
            items.append((root, state, obs, change, prev, fresh))
            lines.append(model_line(state))
            lines.append(plasma_line(state))
    if not items:
        return stats
    for root, rec in comps:
        lines.append('comp %s %d %s %d %s' % (rec['op'], len(rec['before']), ' '.join(str(k_) for k_ in rec['before']),
                                              len(rec['items']), ' '.join(str(k_) for k_ in rec['items'])))
    outs = ctx.driver(lines)
    # K for the Composition state machine: raised / notified / resulting (key, object) list
    for (root, rec), out in zip(comps, outs[1 + 2 * len(items):]):
        want = '%s %d %s' % ('raised' if rec['raised'] else 'ok', 1 if rec['notified'] else 0,
                             ' '.join('%d:%d' % ko for ko in rec['after']))
        ctx.traces += 1
        ctx.count('composition:%s:%s' % (rec['op'], 'rejected' if rec['raised'] else 'accepted'))
        if out.split() != want.split():
            ctx.disagreements += 1
            ctx.broke('correspondence', 'C05 stream composition (%s)' % rec['op'], dict(model=out, implementation=want, record=rec, case=root))
    if outs[0] != 'ok':
        ctx.broke('correspondence', 'C05 driver const', outs[0])
    derailed = set()
    for j, (root, case, obs, change, prev, fresh) in enumerate(items):
        sp = case['species']
        key = (case['kind'], case['edge'], len(sp), sum(1 for s in sp if s['charge'] == 0),
               len(case.get('metas', [])), f2b(case['energy']))
        trivial = obs['status'] == 'ok' and case['kind'] == 'cx' and not obs['lines'] and case['edge'] is None
        ctx.case(key=None if trivial else key,
                 sample=dict(kind=case['kind'], edge=case['edge'], species=[(s['element'], s['charge']) for s in sp],
                             metastables=[mt['m'] for mt in case.get('metas', [])], energy=case['energy'],
                             radiance=(obs.get('lines') or [[obs.get('total')]])[0][0]) if j % 97 == 0 else None)
        ctx.count('%s:%s' % (case['kind'], case['edge'] or 'generic'))
        ctx.count('%s:species=%d' % (case['kind'], len(sp)))
        if case['kind'] == 'cx':
            ctx.count('cx:metastables=%d' % len(case['metas']))
        if any(s['charge'] == 0 for s in sp):
            ctx.count('%s:with-neutral' % case['kind'])
        if root.get('reeval'):
            ctx.count('re-evaluation:%s' % ('attached' if root['reeval']['attached'] else 'detached'))
        if id(root) in derailed:
            # an earlier step of this change sequence already failed: the description no longer tracks the scene
            ctx.count('re-evaluation: step after a failed step (not judged)')
            continue
        nb_ = len(ctx.broken)
        compare(ctx, case, obs, outs[1 + 2 * j], stats)
        compare_plasma(ctx, case, obs, outs[2 + 2 * j])
        ctx.traces += 2
        spy = _Spy(ctx)
        check_property(spy, case, obs, after=change, root=root)
        if prev is not None:
            check_rejected(spy, case, obs, prev, change, root)
        if fresh is not None:
            check_fresh(spy, case, obs, fresh, change, root)
        if case.get('scene'):
            ctx.count('through-the-scene:%s' % (change or 'first evaluation'))
        check_plasma(spy, case, obs)
        if root.get('reeval') and (spy.hit or len(ctx.broken) > nb_):
            derailed.add(id(root))
    return stats


# ---- round 6: the data cache of the two beam models as a state machine (Model/BeamCache.lean) ------------------------------
from harness.translators.beam_cache import CACHE_CALLS  # noqa: E402

CACHE_WITNESSES = [('cx', ['f:pec', 'e']), ('cx', ['e', 'c:line', 'f:shape', 'e']), ('cx', ['f:wavelength', 'e', 'e']),
                   ('cx', ['f:pop', 'e']), ('bes', ['f:pec2', 'e']), ('bes', ['f:wavelength', 'e']), ('bes', ['f:pec1', 'e', 'c:composition', 'e'])]


def cache_histories(ctx, n):
    rng = ctx.rng
    out = [dict(kind=k_, steps=list(st)) for k_, st in CACHE_WITNESSES]
    for _ in range(n):
        kind = rng.choice(['cx', 'bes'])
        wheres = [w for w, _ in CACHE_CALLS[kind]]
        changes = ['c:line', 'c:composition', 'c:beam.energy'] if kind == 'cx' else ['c:composition', 'c:beam.energy']
        steps = []
        for _ in range(rng.randrange(2, 7)):
            u = rng.random()
            steps.append('e' if u < 0.4 else 'f:' + rng.choice(wheres) if u < 0.7 else rng.choice(changes))
        steps.append('e')
        out.append(dict(kind=kind, steps=steps))
    for i, h in enumerate(out):
        h['id'] = i
    return out


def cache_run_impl(histories):
    """{id: [(step, obs, detail)]}; the worker is restarted after the history that killed it"""
    import os
    import subprocess
    import sys
    from harness.vlib.util import VERIF
    res = {h['id']: [] for h in histories}
    todo = list(histories)
    while todo:
        p = subprocess.run([sys.executable, '-m', 'harness.props.c05_cache_worker'], input=json.dumps(todo), cwd=VERIF,
                           stdout=subprocess.PIPE, stderr=subprocess.PIPE, text=True, timeout=600)
        started = None
        for ln in p.stdout.splitlines():
            try:
                r = json.loads(ln)
            except ValueError:
                continue
            if r['obs'] == 'started':
                started = (r['id'], r['step'])
            else:
                res[r['id']].append((r['step'], r['obs'], r.get('detail', '')))
                started = None
        if p.returncode == 0:
            break
        if started is None:
            raise RuntimeError('C05 cache worker failed outside an emission: %s' % p.stderr[-500:])
        res[started[0]].append((started[1], 'broken', 'the interpreter died inside emission() (exit status %d)' % p.returncode))
        todo = [h for h in todo if h['id'] > started[0]]
    return res


def cache_stream(ctx, designs):
    names = ctx.driver(['design cxHead', 'design besHead', 'design cxFixed', 'design besFixed'])
    # the protocols transcribed in Model/BeamCache.lean (theorems are about those) are the ones the source has today
    for k_, head, fixed in (('cx', names[0], names[2]), ('bes', names[1], names[3])):
        ctx.traces += 1
        mine = ' '.join(designs[k_]['tokens'])
        if mine != fixed:
            # (the theorems cxSource_eq_fixed / besSource_eq_fixed fail to build in that case as well)
            ctx.disagreements += 1
            ctx.broke('correspondence', 'C05 stream cache-design (%s): the source does not write the guard attribute last%s'
                      % (k_, ' - it is the order of cxHead / besHead, for which *_failed_populate_broken are theorems' if mine == head else ''),
                      dict(source=mine, model_old_order=head, model_guard_last=fixed))
        ctx.count('cache-design:%s:%s' % (k_, 'as-transcribed-head' if mine == head else 'guard-written-last' if mine == fixed else 'unknown'))
    hist = cache_histories(ctx, ctx.n(6, 60))
    # a provider call the translator no longer finds in _populate_cache (moved into a helper, renamed): the tie is broken for the
    # histories that fail there - reported as such, never as a harness exception; the remaining histories and every other stream run
    missing = sorted({(h['kind'], st[2:]) for h in hist for st in h['steps'] if st.startswith('f:') and st[2:] not in designs[h['kind']]['fail_at']})
    if missing:
        ctx.disagreements += 1
        ctx.broke('translator', 'C05 beam_cache: provider call(s) not found in _populate_cache of the current source: %s' % missing,
                  dict(missing=missing, fail_at={k_: designs[k_]['fail_at'] for k_ in designs}))
        hist = [h for h in hist if not any(st.startswith('f:') and st[2:] not in designs[h['kind']]['fail_at'] for st in h['steps'])]
    res = cache_run_impl(hist)
    lines = []
    for h in hist:
        d = designs[h['kind']]
        ops = []
        for st in h['steps']:
            ops.append('e' if st == 'e' else 'f%d' % d['fail_at'][st[2:]] if st.startswith('f:') else None)
        cfg = 0
        for i, st in enumerate(h['steps']):
            if st.startswith('c:'):
                cfg += 1
                ops[i] = 'c%d' % cfg
        lines.append('cache ' + ' '.join(d['tokens']) + ' 0 ' + ' '.join(ops))
    outs = ctx.driver(lines)
    for h, out in zip(hist, outs):
        who = 'BeamCXLine.emission' if h['kind'] == 'cx' else 'BeamEmissionLine.emission'
        got = res[h['id']]
        model = out.split()
        ctx.traces += 1
        ctx.count('cache-history:%s' % h['kind'])
        # K: the state machine predicts every observation up to (and including) the one that killed the process
        if [g[1] for g in got] != model[:len(got)] or (len(got) < len(model) and got and got[-1][1] != 'broken') or not got:
            ctx.disagreements += 1
            ctx.broke('correspondence', 'C05 stream cache-history (%s)' % h['kind'],
                      dict(model=out, implementation=[g[1] for g in got], history=h))
        # S: every emission is the one of a model constructed now, or raises because the provider failed in that very call
        for (step, obs, detail), st in zip(got, [s_ for s_ in h['steps'] if not s_.startswith('c:')]):
            ctx.count('cache-history:observation:%s' % obs)
            bad = obs in ('broken', 'stale') or (obs == 'raised' and st == 'e')
            if bad:
                ctx.fail('C05:%s:after-failed-populate' % who,
                         'history %s on one live model: emission number %d is %s (%s); documented: the emission of the current '
                         'configuration (a model constructed now gives it), or the provider\'s exception in the call where it '
                         'failed' % (' '.join(h['steps']), step, obs, detail[:300]), dict(cache_history=h))
                break
    return designs


def constants_monitor(ctx):
    """the constants the formulas use are the physical ones (scipy CODATA), and the driver's Float agrees with CPython"""
    from scipy import constants as sc
    if not (close(sc.elementary_charge, E_CHARGE, 1e-12) and close(sc.atomic_mass, AMU, 1e-8)):
        ctx.broke('correspondence', 'C05 constants', 'harness constants differ from scipy CODATA')


def run(ctx, extra_cases=()):
    ctx.rule = ('fresh scene per case (Plasma with 1-5 ion species drawn from 15 (element, charge) pairs, 0-2 neutrals, spatially '
                'varying densities/temperatures/flows/B, stub beam density, 1-4 beam metastables returned in shuffled order, affine '
                'non-negative mock coefficients of all their arguments, 3 beam isotopes, random beam energy/direction/points) + edge '
                'streams (zero beam/receiver/plasma density, beam point outside the beam, zero receiver temperature, zero direction, '
                'stationary plasma, neutral with non-null rate, identical coefficients, sparse plasmas) + exact-zero streams (one coefficient '
                '/ relative population / density / temperature / B exactly 0 with the others non-zero, and all-but-one-zero) + '
                're-evaluation stream (evaluate, change plasma / beam / provider through public API, model attached via beam.models or '
                'stand-alone, evaluate again against the current state; about half of the steps are assignments / calls that must raise '
                '- non-Species in a composition list, add(None), negative energy/power/temperature, None element/line/plasma/beam/'
                'attenuator, wrong-typed atomic data, non-model in a models list - after which composition and emission must be '
                'exactly what they were); a case is distinct by '
                '(model, edge stream, #species, #neutrals, #metastables, beam energy bits); non-trivial = a line was emitted or an '
                'edge stream was exercised')
    ctx.trusted += ['C sqrt is a parameter of the model under SqrtSpec (non-negative, squares back) - met by Real.sqrt (example in Props/C05.lean); the driver uses Float.sqrt',
                    'rate coefficients are arbitrary functions in the theorems; K/S use affine mocks recording their arguments',
                    'raysect Vector3D normalise/mul/sub/length transcribed into the model (compared through the interaction energy)',
                    'BeamEmissionMultiplet distributes the radiance over 9 Gaussians summing to it (observed through the integrated spectrum, one bin 400-900 nm)',
                    'physical constants e, amu, 1/4pi are parameters of the model; K/S feed CODATA values, not values read from /repo']
    ctx.assumptions += ['temperatures > 0 where densities > 0 (the code emits nothing at receiver temperature 0: modelled, exercised in K, outside S)',
                        'compositions of ions with charge >= 1 plus neutrals whose population / beam-emission coefficients are null rates (Guard in Props/C05.lean); neutrals with non-null rates are exercised in K only (both sides give nan)',
                        '"total ion density" = Plasma.ion_density as documented: the sum over every species of the composition, neutrals included (open question in notes/C05.md)',
                        'float rounding is not modelled; K and S compare to 1e-9 relative']
    from harness.translators import beam_cache
    tr = beam_cache.translate()
    ctx.extra['translator_beam_cache'] = dict(regenerated=tr['changed'], designs={k_: ' '.join(v['tokens']) for k_, v in tr['designs'].items()},
                                              fail_at={k_: v['fail_at'] for k_, v in tr['designs'].items()})
    ctx.trusted += ['harness/translators/beam_cache.py (syntactic; the protocol it reads is run by the driver and compared with the running classes in the cache-history stream)']
    ctx.lean_check(['Cherab.Props.C05Cache'], 'Cherab/Audit/C05Cache.lean')
    ctx.lean_check(['Cherab.Props.C05'], 'Cherab/Audit/C05.lean')
    ctx.checker_cmd = ('cd /verif/lean && lake build Cherab.Props.C05 Cherab.Props.C05Cache && lake env lean Cherab/Audit/C05.lean '
                       '&& lake env lean Cherab/Audit/C05Cache.lean')
    constants_monitor(ctx)
    cache_stream(ctx, tr['designs'])
    total = ctx.n(4000, 120000)
    stats = process(ctx, list(extra_cases) + corpus_cases())
    done = 0
    while done < total:                      # batches keep the memory flat in the thorough tier
        k = min(20000, total - done)
        st = process(ctx, gen_all(ctx, k))
        for key in ('bit-exact', 'rounded'):
            stats[key] += st[key]
        stats['maxrel'] = max(stats['maxrel'], st['maxrel'])
        done += k
    ctx.extra['float_agreement'] = stats


def replay(ctx, path):
    r = json.load(open(path))
    rep = r.get('replay') or {}
    case = rep.get('case')
    extra = []
    if case:
        obs = run_impl(case)
        print('replayed case: status %s, observation %s' % (obs['status'], json.dumps({k: v for k, v in obs.items() if k in ('lines', 'total', 'cx_calls', 'zeff', 'ion_density')}, default=str)[:1500]))
        extra = [case]
    else:
        print(json.dumps(r, indent=1, default=str)[:2000])
    run(ctx, extra)
    return ctx.finish()
