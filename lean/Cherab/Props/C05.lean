import Cherab.Model.BeamEmission
import Cherab.Lemmas.BeamEmission
import Mathlib.Tactic.Ring
import Mathlib.Tactic.Linarith
import Mathlib.Tactic.FieldSimp
import Mathlib.Tactic.Positivity
import Mathlib.Tactic.NormNum
import Mathlib.Algebra.Order.Field.Basic
import Mathlib.Algebra.Order.Ring.Rat
import Mathlib.Algebra.BigOperators.Group.List.Basic
import Mathlib.Analysis.Real.Sqrt

/-!
# C05 — beam CX emission is a population-weighted mean, beam emission a charged sum

Property theorems only, about `Cherab.BeamEmission` (the transcription of `charge_exchange.pyx`,
`beam_emission.pyx`, `Plasma.z_effective/ion_density`), over an arbitrary ordered field.

`sqrt` is a parameter under the contract `SqrtSpec`; rate coefficients are arbitrary functions.
Sums are written `(l.map f).sum`; `ions sp` is the sub-list of species with charge ≥ 1.
-/
namespace Cherab.Props.C05
set_option linter.unusedSectionVars false
set_option linter.unusedVariables false
open Cherab.BeamEmission Cherab.Lemmas.BeamEmission

variable {α : Type} [Field α] [LinearOrder α] [IsStrictOrderedRing α]

/-- contract of the C `sqrt` on non-negative arguments -/
def SqrtSpec (sqrt : α → α) : Prop := ∀ t : α, 0 ≤ t → 0 ≤ sqrt t ∧ sqrt t * sqrt t = t

/-- species of the composition that are ions -/
def ions (sp : List (Species α)) : List (Species α) := sp.filter fun s => decide (1 ≤ s.charge)

/-! ## composite CX coefficient -/

/-- `q_c = (q₁ + Σ kᵢ qᵢ) / (1 + Σ kᵢ)` -/
theorem composite_formula (q1 : α) (ex : List (α × α)) :
    compositeCXRate q1 ex = (q1 + (ex.map fun kq => kq.1 * kq.2).sum) / (1 + (ex.map fun kq => kq.1).sum) := by
  unfold compositeCXRate; rw [sumFrom_eq, sumFrom_eq]

/-- no excited metastables: the ground-state coefficient itself -/
theorem composite_single (q1 : α) : compositeCXRate q1 [] = q1 := by
  simp [compositeCXRate, sumFrom]

/-- with non-negative relative populations the composite coefficient lies between any bounds of the individual ones -/
theorem composite_is_convex_mean (q1 : α) (ex : List (α × α)) (lo hi : α)
    (hk : ∀ kq ∈ ex, 0 ≤ kq.1) (h1 : lo ≤ q1 ∧ q1 ≤ hi) (hq : ∀ kq ∈ ex, lo ≤ kq.2 ∧ kq.2 ≤ hi) :
    lo ≤ compositeCXRate q1 ex ∧ compositeCXRate q1 ex ≤ hi := by
  rw [composite_formula]
  have hs : 0 ≤ (ex.map fun kq => kq.1).sum := sum_nonneg' ex _ hk
  have hD : 0 < 1 + (ex.map fun kq => kq.1).sum := by linarith
  have hge := sum_mul_ge ex (fun kq => kq.1) (fun kq => kq.2) lo hk (fun s hs _ => (hq s hs).1)
  have hle := sum_mul_le ex (fun kq => kq.1) (fun kq => kq.2) hi hk (fun s hs _ => (hq s hs).2)
  constructor
  · rw [le_div_iff₀ hD]; linarith [h1.1]
  · rw [div_le_iff₀ hD]; linarith [h1.2]

/-- … hence between the smallest and the largest individual coefficient -/
theorem composite_between_extremes (q1 : α) (ex : List (α × α)) (hk : ∀ kq ∈ ex, 0 ≤ kq.1) :
    ∃ a ∈ q1 :: ex.map (fun kq => kq.2), ∃ b ∈ q1 :: ex.map (fun kq => kq.2),
      (∀ x ∈ q1 :: ex.map (fun kq => kq.2), a ≤ x ∧ x ≤ b) ∧
      a ≤ compositeCXRate q1 ex ∧ compositeCXRate q1 ex ≤ b := by
  obtain ⟨⟨m, hm, hmin⟩, ⟨M, hM, hmax⟩⟩ := exists_min_max q1 (ex.map fun kq => kq.2)
  refine ⟨m, hm, M, hM, fun x hx => ⟨hmin x hx, hmax x hx⟩, ?_⟩
  apply composite_is_convex_mean q1 ex m M hk ⟨hmin q1 (by simp), hmax q1 (by simp)⟩
  intro kq hkq
  have : kq.2 ∈ q1 :: ex.map (fun kq => kq.2) := by
    simp only [List.mem_cons, List.mem_map]; exact Or.inr ⟨kq, hkq, rfl⟩
  exact ⟨hmin _ this, hmax _ this⟩

/-- the populations really weigh: the mean of two states is the stated convex combination -/
theorem composite_two (q1 k q2 : α) : compositeCXRate q1 [(k, q2)] = (q1 + k * q2) / (1 + k) := by
  simp [compositeCXRate, sumFrom]

/-- a metastable whose coefficient is exactly zero still weighs in the normalisation `1 + Σ kᵢ` -/
theorem composite_zero_coefficient_keeps_weight (q1 k : α) (ex : List (α × α)) :
    compositeCXRate q1 ((k, 0) :: ex)
      = (q1 + (ex.map fun kq => kq.1 * kq.2).sum) / (1 + k + (ex.map fun kq => kq.1).sum) := by
  rw [composite_formula]
  simp only [List.map_cons, List.sum_cons, mul_zero, zero_add]
  congr 1; ring

/-! ## `Plasma.ion_density`, `Plasma.z_effective` -/

/-- `ion_density` is the sum of the densities of all species of the composition -/
theorem ion_density_formula (sp : List (Species α)) : ionDensity sp = (sp.map fun s => s.density).sum := by
  unfold ionDensity; rw [sumL_eq]

theorem chargedOnly_eq_ions (sp : List (Species α)) : chargedOnly sp = ions sp := by
  unfold chargedOnly ions
  congr 1

/-- `Z_eff = Σ n Z² / Σ n Z` over the ions; raises when `Σ n Z² = 0` -/
theorem zeff_formula (sp : List (Species α)) :
    zEffective sp =
      if ((ions sp).map fun s => s.density * (s.charge : α) * (s.charge : α)).sum = 0 then none
      else some (((ions sp).map fun s => s.density * (s.charge : α) * (s.charge : α)).sum /
                 ((ions sp).map fun s => s.density * (s.charge : α)).sum) := by
  unfold zEffective sumNZ2 sumNZ
  rw [sumL_eq, sumL_eq, chargedOnly_eq_ions]
  simp only [beq_iff_eq]

/-- `Z_eff` lies between the smallest and the largest charge of the ions that are present -/
theorem zeff_between_min_max_charge (sp : List (Species α)) (zlo zhi : ℕ) (ze : α)
    (hn : ∀ s ∈ sp, 0 ≤ s.density)
    (hz : ∀ s ∈ sp, 1 ≤ s.charge → 0 < s.density → zlo ≤ s.charge ∧ s.charge ≤ zhi)
    (h : zEffective sp = some ze) : (zlo : α) ≤ ze ∧ ze ≤ (zhi : α) := by
  rw [zeff_formula] at h
  split_ifs at h with h0
  simp only [Option.some.injEq] at h
  have hmem : ∀ s ∈ ions sp, s ∈ sp ∧ 1 ≤ s.charge := by
    intro s hs; unfold ions at hs; simpa using hs
  have hw : ∀ s ∈ ions sp, 0 ≤ s.density * (s.charge : α) := by
    intro s hs
    have := hn s (hmem s hs).1
    positivity
  have hx : ∀ s ∈ ions sp, 0 < s.density * (s.charge : α) → (zlo : α) ≤ (s.charge : α) ∧ (s.charge : α) ≤ (zhi : α) := by
    intro s hs hpos
    have hd : 0 < s.density := by
      rcases (hn s (hmem s hs).1).eq_or_lt with h' | h'
      · rw [← h'] at hpos; simp at hpos
      · exact h'
    obtain ⟨a, b⟩ := hz s (hmem s hs).1 (hmem s hs).2 hd
    exact ⟨by exact_mod_cast a, by exact_mod_cast b⟩
  have e2 : ((ions sp).map fun s => s.density * (s.charge : α) * (s.charge : α)).sum
      = ((ions sp).map fun s => (s.density * (s.charge : α)) * (s.charge : α)).sum := rfl
  have hle := sum_mul_le (ions sp) (fun s => s.density * (s.charge : α)) (fun s => (s.charge : α)) (zhi : α) hw
    (fun s hs h' => (hx s hs h').2)
  have hS2 : 0 ≤ ((ions sp).map fun s => s.density * (s.charge : α) * (s.charge : α)).sum := by
    apply sum_nonneg'
    intro s hs
    have := hn s (hmem s hs).1
    positivity
  have hS1 : 0 ≤ ((ions sp).map fun s => s.density * (s.charge : α)).sum := sum_nonneg' _ _ hw
  have hpos : 0 < ((ions sp).map fun s => s.density * (s.charge : α)).sum := by
    rcases hS1.eq_or_lt with h' | h'
    · exfalso
      rw [← h'] at hle
      simp only [mul_zero] at hle
      exact h0 (le_antisymm hle hS2)
    · exact h'
  rw [← h]
  exact weighted_mean_bounds (ions sp) (fun s => s.density * (s.charge : α)) (fun s => (s.charge : α))
    (zlo : α) (zhi : α) hw hpos hx

/-- in particular `Z_eff ≥ 1` -/
theorem zeff_ge_one (sp : List (Species α)) (ze : α) (hn : ∀ s ∈ sp, 0 ≤ s.density)
    (h : zEffective sp = some ze) : 1 ≤ ze := by
  obtain ⟨zhi, hzhi⟩ : ∃ zhi : ℕ, ∀ s ∈ sp, s.charge ≤ zhi := by
    refine ⟨(sp.map fun s => s.charge).sum, fun s hs => ?_⟩
    exact List.single_le_sum (by simp) _ (List.mem_map.mpr ⟨s, hs, rfl⟩)
  have := (zeff_between_min_max_charge sp 1 zhi ze hn (fun s hs h1 _ => ⟨h1, hzhi s hs⟩) h).1
  simpa using this

/-! ## interaction energy -/

theorem length_sq (sqrt : α → α) (hs : SqrtSpec sqrt) (v : V3 α) :
    v.length sqrt * v.length sqrt = v.normSq := by
  unfold V3.length
  refine (hs _ ?_).2
  unfold V3.normSq
  nlinarith [mul_self_nonneg v.x, mul_self_nonneg v.y, mul_self_nonneg v.z]

/-- `E_int = ½ (amu / e) |v_beam − v_target|²` (eV/amu): depends on the relative velocity only -/
theorem interaction_energy_formula (c : Consts α) (sqrt : α → α) (hs : SqrtSpec sqrt) (vb vt : V3 α) :
    interactionEnergy c sqrt vb vt
      = 1 / 2 * ((vb.x - vt.x) * (vb.x - vt.x) + (vb.y - vt.y) * (vb.y - vt.y) + (vb.z - vt.z) * (vb.z - vt.z))
          * c.amu / c.e := by
  unfold interactionEnergy msToEvamu
  rw [length_sq sqrt hs]
  unfold V3.normSq V3.sub
  norm_num
  ring

/-- Galilean invariance: the same drift added to donor and receiver leaves the interaction energy unchanged -/
theorem interaction_energy_frame_invariant (c : Consts α) (sqrt : α → α) (vb vt w : V3 α) :
    interactionEnergy c sqrt ⟨vb.x + w.x, vb.y + w.y, vb.z + w.z⟩ ⟨vt.x + w.x, vt.y + w.y, vt.z + w.z⟩
      = interactionEnergy c sqrt vb vt := by
  unfold interactionEnergy V3.length V3.normSq V3.sub
  simp only [add_sub_add_right_eq_sub]

/-- `evamu_to_ms(E)² = 2 E e / amu` -/
theorem evamu_sq (c : Consts α) (sqrt : α → α) (hs : SqrtSpec sqrt) (energy : α)
    (hE : 0 ≤ energy) (he : 0 < c.e) (hm : 0 < c.amu) :
    0 ≤ evamuToMs c sqrt energy ∧ evamuToMs c sqrt energy * evamuToMs c sqrt energy = 2 * energy * c.e / c.amu := by
  unfold evamuToMs
  rw [two_lit]
  have hq : 0 ≤ 2 * energy * c.e * (1 / c.amu) := by positivity
  obtain ⟨h0, h1⟩ := hs _ hq
  exact ⟨h0, by rw [h1]; ring⟩

/-- the beam velocity has the direction of `beam_direction` and speed `√(2 E e / amu)` -/
theorem beam_velocity_spec (c : Consts α) (sqrt : α → α) (hs : SqrtSpec sqrt) (energy : α) (dir : V3 α)
    (hE : 0 ≤ energy) (he : 0 < c.e) (hm : 0 < c.amu) (hd : dir.normSq ≠ 0) :
    ∃ lam : α, beamVelocity c sqrt energy dir = some ⟨dir.x * lam, dir.y * lam, dir.z * lam⟩ ∧ 0 ≤ lam ∧
      (⟨dir.x * lam, dir.y * lam, dir.z * lam⟩ : V3 α).normSq = 2 * energy * c.e / c.amu := by
  have hpos : 0 < dir.normSq := by
    have : 0 ≤ dir.normSq := by
      unfold V3.normSq; nlinarith [mul_self_nonneg dir.x, mul_self_nonneg dir.y, mul_self_nonneg dir.z]
    exact lt_of_le_of_ne this (Ne.symm hd)
  obtain ⟨hr0, hrr⟩ := hs dir.normSq hpos.le
  have hrne : sqrt dir.normSq ≠ 0 := by
    intro h0; rw [h0] at hrr; simp at hrr; exact hd hrr.symm
  obtain ⟨hu0, huu⟩ := evamu_sq c sqrt hs energy hE he hm
  refine ⟨1 / sqrt dir.normSq * evamuToMs c sqrt energy, ?_, ?_, ?_⟩
  · unfold beamVelocity V3.normalise
    simp only [beq_iff_eq, hd, if_false, Option.map_some, V3.mul]
    congr 2 <;> ring
  · have : 0 < sqrt dir.normSq := lt_of_le_of_ne hr0 (Ne.symm hrne)
    positivity
  · generalize hr : sqrt dir.normSq = r at hrr hrne
    generalize evamuToMs c sqrt energy = u at hu0 huu ⊢
    have key : (⟨dir.x * (1 / r * u), dir.y * (1 / r * u), dir.z * (1 / r * u)⟩ : V3 α).normSq
        = dir.normSq / (r * r) * (u * u) := by
      unfold V3.normSq
      field_simp
    rw [key, hrr, huu, div_self hd]
    ring

/-- against a receiver at rest the interaction energy is the beam energy -/
theorem interaction_energy_stationary (c : Consts α) (sqrt : α → α) (hs : SqrtSpec sqrt) (energy : α) (dir vd : V3 α)
    (hE : 0 ≤ energy) (he : 0 < c.e) (hm : 0 < c.amu) (hd : dir.normSq ≠ 0)
    (hv : beamVelocity c sqrt energy dir = some vd) :
    interactionEnergy c sqrt vd ⟨0, 0, 0⟩ = energy := by
  obtain ⟨lam, hb, _, hn⟩ := beam_velocity_spec c sqrt hs energy dir hE he hm hd
  rw [hb] at hv
  simp only [Option.some.injEq] at hv
  rw [interaction_energy_formula c sqrt hs, ← hv]
  unfold V3.normSq at hn
  simp only [sub_zero]
  rw [hn]
  field_simp

/-! ## charge-density weighted sums (`_beam_population`, `_beam_emission_rate`)

A neutral species makes the code divide by `target_z = 0`.  The property restricts the composition to ions
(`charge ≥ 1`) plus neutrals whose coefficient is the provider's null rate; that restriction is the hypothesis
`Guard`, and the right-hand sides below range over the ions only, so they never divide by zero. -/

abbrev Coeff3 (α : Type) := α → α → α → α
abbrev Coeff5 (α : Type) := α → α → α → α → α → α

/-- every species is an ion, or its coefficient is identically zero (null rate) -/
def Guard (data : List (Species α × Coeff3 α)) : Prop :=
  ∀ sc ∈ data, 1 ≤ sc.1.charge ∨ ∀ a b d, sc.2 a b d = 0

def ionsData (data : List (Species α × Coeff3 α)) : List (Species α × Coeff3 α) :=
  data.filter fun sc => decide (1 ≤ sc.1.charge)

/-- `Σ_j Z_j² n_j` over the ions -/
def zSqDensity (data : List (Species α × Coeff3 α)) : α :=
  ((ionsData data).map fun sc => (sc.1.charge : α) ^ 2 * sc.1.density).sum

/-- `Σ_i Z_i n_i` over the ions -/
def chargeDensity (data : List (Species α × Coeff3 α)) : α :=
  ((ionsData data).map fun sc => (sc.1.charge : α) * sc.1.density).sum

/-- value of species `i`'s coefficient at `(E_int,i , Σ_j Z_j² n_j / Z_i , T_i)` -/
def coeffValue (c : Consts α) (sqrt : α → α) (vb : V3 α) (data : List (Species α × Coeff3 α))
    (sc : Species α × Coeff3 α) : α :=
  sc.2 (interactionEnergy c sqrt vb sc.1.velocity) (zSqDensity data / (sc.1.charge : α)) sc.1.temperature

/-- `Σ_i Z_i n_i q_i(E_int,i , Σ_j Z_j² n_j / Z_i , T_i)` over the ions -/
def chargedSum (c : Consts α) (sqrt : α → α) (vb : V3 α) (data : List (Species α × Coeff3 α)) : α :=
  ((ionsData data).map fun sc => (sc.1.charge : α) * sc.1.density * coeffValue c sqrt vb data sc).sum

theorem densitySum_eq (data : List (Species α × Coeff3 α)) :
    densitySum (data.map Prod.fst) = zSqDensity data := by
  unfold densitySum zSqDensity ionsData
  rw [sumL_eq, List.map_map]
  rw [sum_filter_of_zero data (fun sc => decide (1 ≤ sc.1.charge))]
  · apply congrArg; apply List.map_congr_left; intro sc _
    simp only [Function.comp]; push_cast; ring
  · intro sc _ hp
    have : sc.1.charge = 0 := by simpa using hp
    simp [Function.comp, this]

theorem totalNe_eq (data : List (Species α × Coeff3 α)) :
    sumL (fun sc : Species α × Coeff3 α => targetNe sc.1) data = chargeDensity data := by
  unfold chargeDensity ionsData targetNe
  rw [sumL_eq, sum_filter_of_zero data (fun sc => decide (1 ≤ sc.1.charge))]
  · apply congrArg; apply List.map_congr_left; intro sc _; ring
  · intro sc _ hp
    have : sc.1.charge = 0 := by simpa using hp
    simp [this]

/-- the code's accumulated sum is the charged sum over the ions -/
theorem weighted_sum_formula (c : Consts α) (sqrt : α → α) (vb : V3 α) (data : List (Species α × Coeff3 α))
    (hg : Guard data) : weightedSum c sqrt vb data = chargedSum c sqrt vb data := by
  unfold weightedSum chargedSum
  simp only []
  rw [sumL_eq, densitySum_eq]
  unfold ionsData
  rw [sum_filter_of_zero data (fun sc => decide (1 ≤ sc.1.charge))]
  · apply congrArg; apply List.map_congr_left; intro sc _
    unfold weightedTerm targetNe equivNe coeffValue; ring
  · intro sc hsc hp
    have hz : ¬ 1 ≤ sc.1.charge := by simpa using hp
    rcases hg sc hsc with h | h
    · exact absurd h hz
    · unfold weightedTerm; rw [h]; ring

/-- relative beam population: charge-density weighted mean of the population coefficients, each evaluated at
`(E_int,i , Σ_j Z_j² n_j / Z_i , T_i)` -/
theorem beam_population_formula (c : Consts α) (sqrt : α → α) (vb : V3 α) (data : List (Species α × Coeff3 α))
    (hg : Guard data) : beamPopulation c sqrt vb data = chargedSum c sqrt vb data / chargeDensity data := by
  unfold beamPopulation; rw [weighted_sum_formula c sqrt vb data hg, totalNe_eq]

/-- … so it lies between bounds of the coefficient values of the ions that are present -/
theorem beam_population_is_weighted_mean (c : Consts α) (sqrt : α → α) (vb : V3 α)
    (data : List (Species α × Coeff3 α)) (lo hi : α) (hg : Guard data)
    (hn : ∀ sc ∈ data, 0 ≤ sc.1.density) (hpos : 0 < chargeDensity data)
    (hx : ∀ sc ∈ data, 1 ≤ sc.1.charge → 0 < sc.1.density →
      lo ≤ coeffValue c sqrt vb data sc ∧ coeffValue c sqrt vb data sc ≤ hi) :
    lo ≤ beamPopulation c sqrt vb data ∧ beamPopulation c sqrt vb data ≤ hi := by
  rw [beam_population_formula c sqrt vb data hg]
  unfold chargedSum chargeDensity at *
  have hmem : ∀ sc ∈ ionsData data, sc ∈ data ∧ 1 ≤ sc.1.charge := by
    intro sc hs; unfold ionsData at hs; simpa using hs
  apply weighted_mean_bounds (ionsData data) (fun sc => (sc.1.charge : α) * sc.1.density)
    (fun sc => coeffValue c sqrt vb data sc) lo hi
  · intro sc hs
    have := hn sc (hmem sc hs).1
    positivity
  · exact hpos
  · intro sc hs hw
    have h0 := hn sc (hmem sc hs).1
    have hd : 0 < sc.1.density := by
      rcases h0.eq_or_lt with h' | h'
      · rw [← h'] at hw; simp at hw
      · exact h'
    exact hx sc (hmem sc hs).1 (hmem sc hs).2 hd

/-! ## beam emission -/

/-- beam emission = `(1/4π) n_b Σ_i Z_i n_i q_i(E_int,i , Σ_j Z_j² n_j / Z_i , T_i)` -/
theorem beam_emission_formula (c : Consts α) (sqrt : α → α) (s : BESScene α) (rates : List (Coeff3 α)) (vb : V3 α)
    (hg : Guard (s.species.zip rates)) (hnb : s.beamDensity ≠ 0)
    (hv : beamVelocity c sqrt s.beamEnergy s.beamDirection = some vb) :
    besEmission c sqrt s rates
      = .line (c.recip4pi * s.beamDensity * chargedSum c sqrt vb (s.species.zip rates)) := by
  unfold besEmission beamEmissionRate
  simp only [beq_iff_eq, hnb, if_false, hv]
  rw [weighted_sum_formula c sqrt vb _ hg]

/-- linear in the beam density: the factor multiplying `n_b` does not depend on it -/
theorem beam_emission_linear_in_beam_density (c : Consts α) (sqrt : α → α) (s : BESScene α) (rates : List (Coeff3 α))
    (vb : V3 α) (hv : beamVelocity c sqrt s.beamEnergy s.beamDirection = some vb) :
    ∃ R : α, ∀ nb : α, nb ≠ 0 →
      besEmission c sqrt { s with beamDensity := nb } rates = .line (nb * R) := by
  refine ⟨c.recip4pi * beamEmissionRate c sqrt vb (s.species.zip rates), fun nb hnb => ?_⟩
  unfold besEmission
  simp only [beq_iff_eq, hnb, if_false, hv]
  congr 1; ring

/-- no beam, no emission (`add_line` is not even called) -/
theorem beam_emission_zero_when_beam_density_zero (c : Consts α) (sqrt : α → α) (s : BESScene α)
    (rates : List (Coeff3 α)) (h : s.beamDensity = 0) : besEmission c sqrt s rates = .skip := by
  unfold besEmission; simp [h]

/-- no plasma, no emission -/
theorem beam_emission_zero_when_plasma_density_zero (c : Consts α) (sqrt : α → α) (s : BESScene α)
    (rates : List (Coeff3 α)) (vb : V3 α) (hnb : s.beamDensity ≠ 0)
    (hv : beamVelocity c sqrt s.beamEnergy s.beamDirection = some vb)
    (h0 : ∀ sp ∈ s.species, sp.density = 0) : besEmission c sqrt s rates = .line 0 := by
  unfold besEmission beamEmissionRate weightedSum
  simp only [beq_iff_eq, hnb, if_false, hv]
  rw [sumL_eq]
  have : ((s.species.zip rates).map (weightedTerm c sqrt vb (densitySum ((s.species.zip rates).map Prod.fst)))).sum = 0 := by
    apply List.sum_eq_zero
    intro x hx
    obtain ⟨sc, hsc, rfl⟩ := List.mem_map.mp hx
    have : sc.1 ∈ s.species := (List.of_mem_zip hsc).1
    unfold weightedTerm targetNe
    rw [h0 _ this]; ring
  rw [this]; simp

/-! ## charge exchange -/

/-- the argument tuple the property prescribes for every metastable-resolved coefficient:
donor–receiver interaction energy, receiver temperature, total ion density (`Plasma.ion_density`: every species of
the composition), `Z_eff`, `|B|` -/
def specArgs (c : Consts α) (sqrt : α → α) (s : CXScene α) (r : Species α) (vd : V3 α) : CXArgs α where
  energy := interactionEnergy c sqrt vd r.velocity
  temperature := r.temperature
  density := (s.species.map fun x => x.density).sum
  zEffective := ((ions s.species).map fun x => x.density * (x.charge : α) * (x.charge : α)).sum /
                ((ions s.species).map fun x => x.density * (x.charge : α)).sum
  bField := sqrt (s.bField.x * s.bField.x + s.bField.y * s.bField.y + s.bField.z * s.bField.z)

/-- the five arguments handed to `BeamCXPEC.evaluate` are the prescribed quantities -/
theorem coefficient_arguments (c : Consts α) (sqrt : α → α) (s : CXScene α) (r : Species α) (vd : V3 α)
    (hz : ((ions s.species).map fun x => x.density * (x.charge : α) * (x.charge : α)).sum ≠ 0) :
    cxArgs sqrt s.species s.bField (interactionEnergy c sqrt vd r.velocity) r.temperature
      = some (specArgs c sqrt s r vd) := by
  unfold cxArgs
  rw [zeff_formula]
  simp only [hz, if_false, Option.map_some, specArgs, ion_density_formula, V3.length, V3.normSq]

/-- relative population of an excited beam metastable as the property states it -/
def specPopulation (c : Consts α) (sqrt : α → α) (vd : V3 α) (data : List (Species α × Coeff3 α)) : α :=
  chargedSum c sqrt vd data / chargeDensity data

/-- the composite coefficient as the property states it -/
def specComposite (c : Consts α) (sqrt : α → α) (vd : V3 α) (sp : List (Species α)) (a : CXArgs α)
    (ground : Coeff5 α) (excited : List (Coeff5 α × List (Coeff3 α))) : α :=
  (a.apply ground + (excited.map fun e => specPopulation c sqrt vd (sp.zip e.2) * a.apply e.1).sum) /
  (1 + (excited.map fun e => specPopulation c sqrt vd (sp.zip e.2)).sum)

theorem composite_at_formula (c : Consts α) (sqrt : α → α) (vd : V3 α) (sp : List (Species α)) (a : CXArgs α)
    (ground : Coeff5 α) (excited : List (Coeff5 α × List (Coeff3 α)))
    (hg : ∀ e ∈ excited, Guard (sp.zip e.2)) :
    compositeAt c sqrt vd sp a ground excited = specComposite c sqrt vd sp a ground excited := by
  unfold compositeAt specComposite
  rw [composite_formula]
  simp only [List.map_map]
  have e1 : (excited.map ((fun kq : α × α => kq.1 * kq.2) ∘ fun e => (beamPopulation c sqrt vd (sp.zip e.2), a.apply e.1)))
      = excited.map fun e => specPopulation c sqrt vd (sp.zip e.2) * a.apply e.1 := by
    apply List.map_congr_left; intro e he
    simp only [Function.comp, specPopulation, beam_population_formula c sqrt vd _ (hg e he)]
  have e2 : (excited.map ((fun kq : α × α => kq.1) ∘ fun e => (beamPopulation c sqrt vd (sp.zip e.2), a.apply e.1)))
      = excited.map fun e => specPopulation c sqrt vd (sp.zip e.2) := by
    apply List.map_congr_left; intro e he
    simp only [Function.comp, specPopulation, beam_population_formula c sqrt vd _ (hg e he)]
  rw [e1, e2]

/-- CX radiance = `(1/4π) n_beam n_receiver q_c`, every coefficient evaluated at the prescribed tuple -/
theorem cx_radiance_formula (c : Consts α) (sqrt : α → α) (s : CXScene α) (ground : Coeff5 α)
    (excited : List (Coeff5 α × List (Coeff3 α))) (r : Species α) (vd : V3 α)
    (hr : s.species[s.receiver]? = some r) (hnb : s.beamDensity ≠ 0) (hnr : r.density ≠ 0) (hT : r.temperature ≠ 0)
    (hv : beamVelocity c sqrt s.beamEnergy s.beamDirection = some vd)
    (hz : ((ions s.species).map fun x => x.density * (x.charge : α) * (x.charge : α)).sum ≠ 0)
    (hg : ∀ e ∈ excited, Guard (s.species.zip e.2)) :
    cxEmission c sqrt s ground excited
      = .line (c.recip4pi * s.beamDensity * r.density *
               specComposite c sqrt vd s.species (specArgs c sqrt s r vd) ground excited) := by
  unfold cxEmission
  simp only [hr, beq_iff_eq, hnb, hnr, hT, if_false, hv, coefficient_arguments c sqrt s r vd hz]
  rw [composite_at_formula c sqrt vd s.species _ ground excited hg]

/-- the emitted composite coefficient lies between bounds of the individual metastable-resolved coefficients
when the relative populations are non-negative -/
theorem cx_rate_between_min_max (c : Consts α) (sqrt : α → α) (vd : V3 α) (sp : List (Species α)) (a : CXArgs α)
    (ground : Coeff5 α) (excited : List (Coeff5 α × List (Coeff3 α))) (lo hi : α)
    (hk : ∀ e ∈ excited, 0 ≤ beamPopulation c sqrt vd (sp.zip e.2))
    (h1 : lo ≤ a.apply ground ∧ a.apply ground ≤ hi)
    (hq : ∀ e ∈ excited, lo ≤ a.apply e.1 ∧ a.apply e.1 ≤ hi) :
    lo ≤ compositeAt c sqrt vd sp a ground excited ∧ compositeAt c sqrt vd sp a ground excited ≤ hi := by
  unfold compositeAt
  apply composite_is_convex_mean _ _ lo hi _ h1
  · intro kq hkq
    obtain ⟨e, he, rfl⟩ := List.mem_map.mp hkq
    exact hq e he
  · intro kq hkq
    obtain ⟨e, he, rfl⟩ := List.mem_map.mp hkq
    exact hk e he

/-- populations are non-negative for non-negative population coefficients and densities -/
theorem beam_population_nonneg (c : Consts α) (sqrt : α → α) (vb : V3 α) (data : List (Species α × Coeff3 α))
    (hg : Guard data) (hn : ∀ sc ∈ data, 0 ≤ sc.1.density) (hpos : 0 < chargeDensity data)
    (hc : ∀ sc ∈ data, ∀ x y z, 0 ≤ sc.2 x y z) : 0 ≤ beamPopulation c sqrt vb data := by
  obtain ⟨M, _, hM⟩ := (exists_min_max (0 : α) (data.map fun sc => coeffValue c sqrt vb data sc)).2
  refine (beam_population_is_weighted_mean c sqrt vb data 0 M hg hn hpos ?_).1
  intro sc hsc _ _
  refine ⟨hc sc hsc _ _ _, hM _ ?_⟩
  simp only [List.mem_cons, List.mem_map]
  exact Or.inr ⟨sc, hsc, rfl⟩

/-- no beam or no receiver ions: nothing is emitted (`add_line` is not called) -/
theorem cx_zero_when_density_zero (c : Consts α) (sqrt : α → α) (s : CXScene α) (ground : Coeff5 α)
    (excited : List (Coeff5 α × List (Coeff3 α))) (r : Species α)
    (hr : s.species[s.receiver]? = some r) (h : s.beamDensity = 0 ∨ r.density = 0) :
    cxEmission c sqrt s ground excited = .skip := by
  unfold cxEmission
  simp only [hr, beq_iff_eq]
  rcases h with h | h
  · simp [h]
  · simp [h]

/-- linear in the beam density -/
theorem cx_linear_in_beam_density (c : Consts α) (sqrt : α → α) (s : CXScene α) (ground : Coeff5 α)
    (excited : List (Coeff5 α × List (Coeff3 α))) (r : Species α) (vd : V3 α)
    (hr : s.species[s.receiver]? = some r) (hnr : r.density ≠ 0) (hT : r.temperature ≠ 0)
    (hv : beamVelocity c sqrt s.beamEnergy s.beamDirection = some vd)
    (hz : ((ions s.species).map fun x => x.density * (x.charge : α) * (x.charge : α)).sum ≠ 0) :
    ∃ R : α, ∀ nb : α, nb ≠ 0 →
      cxEmission c sqrt { s with beamDensity := nb } ground excited = .line (nb * R) := by
  refine ⟨c.recip4pi * r.density * compositeAt c sqrt vd s.species (specArgs c sqrt s r vd) ground excited, fun nb hnb => ?_⟩
  unfold cxEmission
  have := coefficient_arguments c sqrt s r vd hz
  simp only [hr, beq_iff_eq, hnb, hnr, hT, if_false, hv, this]
  congr 1; ring

/-- the statement of the property for CX, assembled: for non-negative densities and non-negative population
coefficients the radiance is `(1/4π) n_beam n_receiver q` with `q` between any bounds of the metastable-resolved
coefficients evaluated at the prescribed tuple -/
theorem cx_emission_between_extremes (c : Consts α) (sqrt : α → α) (s : CXScene α) (ground : Coeff5 α)
    (excited : List (Coeff5 α × List (Coeff3 α))) (r : Species α) (vd : V3 α) (lo hi : α)
    (hr : s.species[s.receiver]? = some r) (hnb : s.beamDensity ≠ 0) (hnr : r.density ≠ 0) (hT : r.temperature ≠ 0)
    (hv : beamVelocity c sqrt s.beamEnergy s.beamDirection = some vd)
    (hz : ((ions s.species).map fun x => x.density * (x.charge : α) * (x.charge : α)).sum ≠ 0)
    (hg : ∀ e ∈ excited, Guard (s.species.zip e.2))
    (hn : ∀ x ∈ s.species, 0 ≤ x.density)
    (hpos : ∀ e ∈ excited, 0 < chargeDensity (s.species.zip e.2))
    (hc : ∀ e ∈ excited, ∀ f ∈ e.2, ∀ x y z, 0 ≤ f x y z)
    (h1 : lo ≤ (specArgs c sqrt s r vd).apply ground ∧ (specArgs c sqrt s r vd).apply ground ≤ hi)
    (hq : ∀ e ∈ excited, lo ≤ (specArgs c sqrt s r vd).apply e.1 ∧ (specArgs c sqrt s r vd).apply e.1 ≤ hi) :
    ∃ q : α, cxEmission c sqrt s ground excited = .line (c.recip4pi * s.beamDensity * r.density * q) ∧
      lo ≤ q ∧ q ≤ hi := by
  refine ⟨specComposite c sqrt vd s.species (specArgs c sqrt s r vd) ground excited,
    cx_radiance_formula c sqrt s ground excited r vd hr hnb hnr hT hv hz hg, ?_⟩
  rw [← composite_at_formula c sqrt vd s.species _ ground excited hg]
  apply cx_rate_between_min_max c sqrt vd s.species _ ground excited lo hi _ h1 hq
  intro e he
  apply beam_population_nonneg c sqrt vd _ (hg e he) _ (hpos e he)
  · intro sc hsc x y z
    exact hc e he sc.2 (List.of_mem_zip hsc).2 x y z
  · intro sc hsc
    exact hn sc.1 (List.of_mem_zip hsc).1

/-- as-is behaviour outside the physical domain: at receiver temperature exactly 0 the code emits nothing, whatever
the densities (the formula theorems above therefore carry `r.temperature ≠ 0`) -/
theorem cx_zero_temperature_skip (c : Consts α) (sqrt : α → α) (s : CXScene α) (ground : Coeff5 α)
    (excited : List (Coeff5 α × List (Coeff3 α))) (r : Species α)
    (hr : s.species[s.receiver]? = some r) (h : r.temperature = 0) :
    cxEmission c sqrt s ground excited = .skip := by
  unfold cxEmission
  simp only [hr, beq_iff_eq, h, if_true]
  split_ifs <;> rfl

/-- inside the quantifier `z_effective` cannot raise: a receiver ion with positive density makes `Σ n Z² > 0` -/
theorem ions_present_of_receiver (sp : List (Species α)) (r : Species α) (hmem : r ∈ sp) (hZ : 1 ≤ r.charge)
    (hn : ∀ x ∈ sp, 0 ≤ x.density) (hr : 0 < r.density) :
    ((ions sp).map fun x => x.density * (x.charge : α) * (x.charge : α)).sum ≠ 0 := by
  have hri : r ∈ ions sp := by unfold ions; simp [hmem, hZ]
  have hterm : 0 < r.density * (r.charge : α) * (r.charge : α) := by
    have : (1 : α) ≤ (r.charge : α) := by exact_mod_cast hZ
    have h0 : (0 : α) < (r.charge : α) := by linarith
    positivity
  have hall : ∀ y ∈ (ions sp).map (fun x => x.density * (x.charge : α) * (x.charge : α)), 0 ≤ y := by
    intro y hy
    obtain ⟨x, hx, rfl⟩ := List.mem_map.mp hy
    have hxs : x ∈ sp := by unfold ions at hx; exact (List.mem_filter.mp hx).1
    have := hn x hxs
    positivity
  have := List.single_le_sum hall _ (List.mem_map.mpr ⟨r, hri, rfl⟩)
  intro h0
  rw [h0] at this
  linarith

/-! ## proof-deepening pass: weights, order independence, direction scale, physical-hypotheses-only statement -/

/-- the composite coefficient is literally a convex combination: weights `1/(1+Σk)` for the ground state and
`kᵢ/(1+Σk)` for the excited states; for `kᵢ ≥ 0` they are non-negative and sum to 1 — also when some coefficients
or some populations are exactly zero (nothing is skipped) -/
theorem composite_convex_weights (q1 : α) (ex : List (α × α)) (hk : ∀ kq ∈ ex, 0 ≤ kq.1) :
    let D := 1 + (ex.map fun kq => kq.1).sum
    compositeCXRate q1 ex = (1 / D) * q1 + (ex.map fun kq => (kq.1 / D) * kq.2).sum ∧
    0 < 1 / D ∧ (∀ kq ∈ ex, 0 ≤ kq.1 / D) ∧ 1 / D + (ex.map fun kq => kq.1 / D).sum = 1 := by
  intro D
  have hs : 0 ≤ (ex.map fun kq => kq.1).sum := sum_nonneg' ex _ hk
  have hD : 0 < D := by show 0 < 1 + _; linarith
  have e1 : (ex.map fun kq => (kq.1 / D) * kq.2).sum = (ex.map fun kq => kq.1 * kq.2).sum / D := by
    have : (fun kq : α × α => (kq.1 / D) * kq.2) = fun kq => (kq.1 * kq.2) * D⁻¹ := by
      funext kq; rw [div_eq_mul_inv]; ring
    rw [this, List.sum_map_mul_right, div_eq_mul_inv]
  have e2 : (ex.map fun kq => kq.1 / D).sum = (ex.map fun kq => kq.1).sum / D := by
    have : (fun kq : α × α => kq.1 / D) = fun kq => kq.1 * D⁻¹ := by
      funext kq; rw [div_eq_mul_inv]
    rw [this, List.sum_map_mul_right, div_eq_mul_inv]
  refine ⟨?_, by positivity, fun kq h => div_nonneg (hk kq h) hD.le, ?_⟩
  · rw [composite_formula, e1]
    show _ / D = _
    field_simp
  · rw [e2, ← add_div]; exact div_self hD.ne'

/-- a metastable with relative population exactly zero has no influence, whatever its coefficient -/
theorem composite_zero_population_drops (q1 q : α) (ex : List (α × α)) :
    compositeCXRate q1 ((0, q) :: ex) = compositeCXRate q1 ex := by
  rw [composite_formula, composite_formula]
  simp only [List.map_cons, List.sum_cons, zero_mul, zero_add]

/-- the order in which the provider lists the excited metastables does not matter -/
theorem composite_perm_invariant (q1 : α) (ex ex' : List (α × α)) (h : ex.Perm ex') :
    compositeCXRate q1 ex = compositeCXRate q1 ex' := by
  rw [composite_formula, composite_formula, (h.map _).sum_eq, (h.map _).sum_eq]

/-- … at the level of `_composite_cx_rate`: any reordering of `_excited_beam_data` gives the same coefficient -/
theorem composite_at_perm_invariant (c : Consts α) (sqrt : α → α) (vd : V3 α) (sp : List (Species α)) (a : CXArgs α)
    (ground : Coeff5 α) (excited excited' : List (Coeff5 α × List (Coeff3 α))) (h : excited.Perm excited') :
    compositeAt c sqrt vd sp a ground excited = compositeAt c sqrt vd sp a ground excited' := by
  unfold compositeAt
  exact composite_perm_invariant _ _ _ (h.map _)

/-- the order of the species in the composition does not matter for the charged sums (population, beam emission) -/
theorem weighted_sum_perm_invariant (c : Consts α) (sqrt : α → α) (vb : V3 α)
    (data data' : List (Species α × Coeff3 α)) (h : data.Perm data') :
    weightedSum c sqrt vb data = weightedSum c sqrt vb data' ∧
    beamPopulation c sqrt vb data = beamPopulation c sqrt vb data' := by
  have hd : densitySum (data.map Prod.fst) = densitySum (data'.map Prod.fst) := by
    unfold densitySum; rw [sumL_eq, sumL_eq]; exact ((h.map _).map _).sum_eq
  have hw : weightedSum c sqrt vb data = weightedSum c sqrt vb data' := by
    unfold weightedSum; simp only []; rw [sumL_eq, sumL_eq, hd]; exact (h.map _).sum_eq
  refine ⟨hw, ?_⟩
  unfold beamPopulation
  rw [hw, sumL_eq, sumL_eq, (h.map _).sum_eq]

/-- non-negative square roots are unique -/
theorem sqrt_unique (sqrt : α → α) (hs : SqrtSpec sqrt) (t y : α) (ht : 0 ≤ t) (hy : 0 ≤ y) (h : y * y = t) :
    sqrt t = y := by
  obtain ⟨h0, h1⟩ := hs t ht
  have : (sqrt t - y) * (sqrt t + y) = 0 := by ring_nf; rw [← sub_eq_zero] at h; nlinarith [h, h1]
  rcases mul_eq_zero.mp this with h' | h'
  · linarith
  · have hz : sqrt t = 0 ∧ y = 0 := by constructor <;> linarith
    rw [hz.1, hz.2]

/-- `beam_direction` is normalised: scaling it by any positive factor leaves the beam velocity unchanged -/
theorem beam_velocity_scale_invariant (c : Consts α) (sqrt : α → α) (hs : SqrtSpec sqrt) (energy a : α) (dir : V3 α)
    (ha : 0 < a) (hd : dir.normSq ≠ 0) :
    beamVelocity c sqrt energy ⟨a * dir.x, a * dir.y, a * dir.z⟩ = beamVelocity c sqrt energy dir := by
  have hpos : 0 < dir.normSq := by
    have : 0 ≤ dir.normSq := by
      unfold V3.normSq; nlinarith [mul_self_nonneg dir.x, mul_self_nonneg dir.y, mul_self_nonneg dir.z]
    exact lt_of_le_of_ne this (Ne.symm hd)
  obtain ⟨hr0, hrr⟩ := hs dir.normSq hpos.le
  have hrne : sqrt dir.normSq ≠ 0 := by
    intro h0; rw [h0] at hrr; simp at hrr; exact hd hrr.symm
  have hn : (⟨a * dir.x, a * dir.y, a * dir.z⟩ : V3 α).normSq = a * a * dir.normSq := by
    unfold V3.normSq; ring
  have hsq : sqrt (a * a * dir.normSq) = a * sqrt dir.normSq :=
    sqrt_unique sqrt hs _ _ (by positivity) (by positivity) (by nlinarith [hrr])
  have hne' : a * a * dir.normSq ≠ 0 := by positivity
  unfold beamVelocity V3.normalise
  simp only [hn, beq_iff_eq, hne', hd, if_false, Option.map_some, hsq]
  congr 2
  congr 1 <;> field_simp

/-- … hence both emissions depend on the *direction* of `beam_direction` only -/
theorem emission_direction_scale_invariant (c : Consts α) (sqrt : α → α) (hs : SqrtSpec sqrt) (a : α) (ha : 0 < a)
    (s : CXScene α) (ground : Coeff5 α) (excited : List (Coeff5 α × List (Coeff3 α)))
    (b : BESScene α) (rates : List (Coeff3 α))
    (hds : s.beamDirection.normSq ≠ 0) (hdb : b.beamDirection.normSq ≠ 0) :
    cxEmission c sqrt { s with beamDirection := ⟨a * s.beamDirection.x, a * s.beamDirection.y, a * s.beamDirection.z⟩ }
        ground excited = cxEmission c sqrt s ground excited ∧
    besEmission c sqrt { b with beamDirection := ⟨a * b.beamDirection.x, a * b.beamDirection.y, a * b.beamDirection.z⟩ }
        rates = besEmission c sqrt b rates := by
  constructor
  · unfold cxEmission
    simp only [beam_velocity_scale_invariant c sqrt hs s.beamEnergy a s.beamDirection ha hds]
  · unfold besEmission
    simp only [beam_velocity_scale_invariant c sqrt hs b.beamEnergy a b.beamDirection ha hdb]

/-- with one population coefficient per species, a receiver ion of positive density makes `Σ Zᵢ nᵢ > 0` -/
theorem charge_density_pos_of_receiver (sp : List (Species α)) (fs : List (Coeff3 α)) (i : Nat) (r : Species α)
    (hlen : fs.length = sp.length) (hr : sp[i]? = some r) (hZ : 1 ≤ r.charge)
    (hn : ∀ x ∈ sp, 0 ≤ x.density) (hpos : 0 < r.density) : 0 < chargeDensity (sp.zip fs) := by
  have hi : i < sp.length := by
    rcases Nat.lt_or_ge i sp.length with h | h
    · exact h
    · rw [List.getElem?_eq_none h] at hr; cases hr
  obtain ⟨f, hf⟩ : ∃ f, fs[i]? = some f := ⟨fs[i]'(by omega), List.getElem?_eq_getElem (by omega)⟩
  have hz : (sp.zip fs)[i]? = some (r, f) := List.getElem?_zip_eq_some.mpr ⟨hr, hf⟩
  have hmem : (r, f) ∈ sp.zip fs := List.mem_of_getElem? hz
  have hion : (r, f) ∈ ionsData (sp.zip fs) := by unfold ionsData; simp [hmem, hZ]
  have hterm : 0 < (r.charge : α) * r.density := by
    have : (1 : α) ≤ (r.charge : α) := by exact_mod_cast hZ
    have h0 : (0 : α) < (r.charge : α) := by linarith
    positivity
  have hall : ∀ y ∈ (ionsData (sp.zip fs)).map (fun sc => (sc.1.charge : α) * sc.1.density), 0 ≤ y := by
    intro y hy
    obtain ⟨x, hx, rfl⟩ := List.mem_map.mp hy
    have hxs : x.1 ∈ sp := by
      unfold ionsData at hx; exact (List.of_mem_zip (List.mem_filter.mp hx).1).1
    have := hn x.1 hxs
    positivity
  have := List.single_le_sum hall _ (List.mem_map.mpr ⟨(r, f), hion, rfl⟩)
  unfold chargeDensity
  linarith

/-- **The CX clause of the property from physical hypotheses only**: a receiver ion (charge ≥ 1) of positive density
and non-zero temperature, a non-zero beam density and direction, non-negative densities, one non-negative population
coefficient per species for every excited metastable, neutrals only with null rates (`Guard`).  Then the emission is
`(1/4π) n_beam n_receiver q` with every coefficient evaluated at the prescribed tuple and `q` between any bounds of the
individual coefficients.  (`z_effective` cannot raise, the populations are well defined and non-negative: no further
side conditions.) -/
theorem cx_emission_statement (c : Consts α) (sqrt : α → α) (s : CXScene α) (ground : Coeff5 α)
    (excited : List (Coeff5 α × List (Coeff3 α))) (r : Species α) (vd : V3 α) (lo hi : α)
    (hr : s.species[s.receiver]? = some r) (hZ : 1 ≤ r.charge) (hnb : s.beamDensity ≠ 0) (hnr : 0 < r.density)
    (hT : r.temperature ≠ 0) (hv : beamVelocity c sqrt s.beamEnergy s.beamDirection = some vd)
    (hn : ∀ x ∈ s.species, 0 ≤ x.density)
    (hlen : ∀ e ∈ excited, e.2.length = s.species.length)
    (hg : ∀ e ∈ excited, Guard (s.species.zip e.2))
    (hc : ∀ e ∈ excited, ∀ f ∈ e.2, ∀ x y z, 0 ≤ f x y z)
    (h1 : lo ≤ (specArgs c sqrt s r vd).apply ground ∧ (specArgs c sqrt s r vd).apply ground ≤ hi)
    (hq : ∀ e ∈ excited, lo ≤ (specArgs c sqrt s r vd).apply e.1 ∧ (specArgs c sqrt s r vd).apply e.1 ≤ hi) :
    ∃ q : α, cxEmission c sqrt s ground excited = .line (c.recip4pi * s.beamDensity * r.density * q) ∧
      q = specComposite c sqrt vd s.species (specArgs c sqrt s r vd) ground excited ∧ lo ≤ q ∧ q ≤ hi := by
  have hmem : r ∈ s.species := List.mem_of_getElem? hr
  have hz := ions_present_of_receiver s.species r hmem hZ hn hnr
  have hpos : ∀ e ∈ excited, 0 < chargeDensity (s.species.zip e.2) :=
    fun e he => charge_density_pos_of_receiver s.species e.2 s.receiver r (hlen e he) hr hZ hn hnr
  have hform := cx_radiance_formula c sqrt s ground excited r vd hr hnb hnr.ne' hT hv hz hg
  refine ⟨specComposite c sqrt vd s.species (specArgs c sqrt s r vd) ground excited, hform, rfl, ?_⟩
  rw [← composite_at_formula c sqrt vd s.species _ ground excited hg]
  apply cx_rate_between_min_max c sqrt vd s.species _ ground excited lo hi _ h1 hq
  intro e he
  apply beam_population_nonneg c sqrt vd _ (hg e he) _ (hpos e he)
  · intro sc hsc x y z
    exact hc e he sc.2 (List.of_mem_zip hsc).2 x y z
  · intro sc hsc
    exact hn sc.1 (List.of_mem_zip hsc).1

/-! ## `Composition` as a state machine: rejected mutators change nothing, accepted ones notify -/

def keys (d : List (Nat × Nat)) : List Nat := d.map Prod.fst

/-- a mutator of the composition -/
inductive CompOp where
  | set (items : List Item)
  | add (item : Option Item)
  | clear

def compStep (d : List (Nat × Nat)) : CompOp → CompResult
  | .set items => compositionSet d items
  | .add item => compositionAdd d item
  | .clear => compositionClear d

/-- dictionary after a history of mutators (a raising call leaves it as it was) -/
def compRun (d : List (Nat × Nat)) (ops : List CompOp) : List (Nat × Nat) :=
  ops.foldl (fun d op => (compStep d op).dict) d

/-- a rejected mutator (`set` with a non-Species item, `add(None)`, `add(non-Species)`) leaves the composition exactly
as it was and sends no notification -/
theorem composition_rejected_unchanged (d : List (Nat × Nat)) (op : CompOp) (h : (compStep d op).raised = true) :
    (compStep d op).dict = d ∧ (compStep d op).notified = false := by
  cases op with
  | set items =>
    by_cases hall : items.all Item.isSpecies = true
    · simp [compStep, compositionSet, hall] at h
    · simp [compStep, compositionSet, hall]
  | add item =>
    simp only [compStep, compositionAdd] at h ⊢
    split at h <;> simp_all
  | clear => simp [compStep, compositionClear] at h

/-- every accepted mutator notifies (dependent models then drop their caches), every rejected one does not -/
theorem composition_notifies_iff_accepted (d : List (Nat × Nat)) (op : CompOp) :
    (compStep d op).notified = !(compStep d op).raised := by
  cases op with
  | set items => simp only [compStep, compositionSet]; split_ifs <;> rfl
  | add item => simp only [compStep, compositionAdd]; split <;> rfl
  | clear => rfl

/-- `set` raises exactly when some item is not a Species -/
theorem composition_set_raises_iff (d : List (Nat × Nat)) (items : List Item) :
    (compositionSet d items).raised = true ↔ ∃ it ∈ items, it.isSpecies = false := by
  by_cases hall : items.all Item.isSpecies = true
  · simp only [compositionSet, hall, if_true, Bool.false_eq_true, false_iff, not_exists, not_and]
    intro it hit
    simpa using List.all_eq_true.mp hall it hit
  · have hex : ∃ it ∈ items, it.isSpecies = false := by simpa using hall
    simpa [compositionSet, hall] using hex

/-- an accepted `set` replaces the composition wholesale: the result does not depend on what was there before -/
theorem composition_set_history_independent (d d' : List (Nat × Nat)) (items : List Item)
    (h : (compositionSet d items).raised = false) :
    (compositionSet d items).dict = (compositionSet d' items).dict := by
  by_cases hall : items.all Item.isSpecies = true
  · simp [compositionSet, hall]
  · simp [compositionSet, hall] at h

/-- assigning to a key that is present keeps every key at its position; a new key goes to the end -/
theorem dictAssign_keys (d : List (Nat × Nat)) (k o : Nat) :
    keys (dictAssign d k o) = if k ∈ keys d then keys d else keys d ++ [k] := by
  unfold dictAssign keys
  have hany : (d.any fun e => e.1 == k) = true ↔ k ∈ d.map Prod.fst := by
    simp only [List.any_eq_true, beq_iff_eq, List.mem_map]
  by_cases hk : k ∈ d.map Prod.fst
  · rw [if_pos (hany.mpr hk), if_pos hk, List.map_map]
    apply List.map_congr_left
    intro e _
    simp only [Function.comp]
    split_ifs with h
    · exact (beq_iff_eq.mp h).symm
    · rfl
  · rw [if_neg (fun h => hk (hany.mp h)), if_neg hk]
    simp

/-- … and the object stored under the key is the new one, all other entries are untouched -/
theorem dictAssign_lookup (d : List (Nat × Nat)) (k o : Nat) :
    (k, o) ∈ dictAssign d k o ∧ ∀ e ∈ d, e.1 ≠ k → e ∈ dictAssign d k o := by
  unfold dictAssign
  split_ifs with hany
  · constructor
    · obtain ⟨e, he, hek⟩ := List.any_eq_true.mp hany
      exact List.mem_map.mpr ⟨e, he, by simp [hek]⟩
    · intro e he hne
      refine List.mem_map.mpr ⟨e, he, ?_⟩
      simp [hne]
  · exact ⟨by simp, fun e he _ => by simp [he]⟩

theorem dictAssign_nodup (d : List (Nat × Nat)) (k o : Nat) (h : (keys d).Nodup) :
    (keys (dictAssign d k o)).Nodup := by
  rw [dictAssign_keys]
  split_ifs with hk
  · exact h
  · refine List.nodup_append.mpr ⟨h, by simp, ?_⟩
    intro a ha b hb
    simp only [List.mem_singleton] at hb
    rintro rfl
    exact hk (hb ▸ ha)

/-- for every history of mutators, accepted or rejected, no (element, charge) key occurs twice -/
theorem composition_keys_nodup_all_histories (d : List (Nat × Nat)) (ops : List CompOp) (h : (keys d).Nodup) :
    (keys (compRun d ops)).Nodup := by
  have hfold : ∀ (items : List Item) (d0 : List (Nat × Nat)), (keys d0).Nodup →
      (keys (items.foldl insertItem d0)).Nodup := by
    intro items
    induction items with
    | nil => intro d0 h0; exact h0
    | cons it t ih =>
      intro d0 h0
      simp only [List.foldl_cons]
      apply ih
      cases it with
      | species k o => exact dictAssign_nodup d0 k o h0
      | other => exact h0
  induction ops generalizing d with
  | nil => exact h
  | cons op t ih =>
    simp only [compRun, List.foldl_cons]
    apply ih
    cases op with
    | set items =>
      simp only [compStep, compositionSet]
      split_ifs
      · exact hfold items [] (by simp [keys])
      · exact h
    | add item =>
      simp only [compStep, compositionAdd]
      split
      · exact dictAssign_nodup d _ _ h
      · exact h
    | clear => simp [compStep, compositionClear, keys]

/-- a history in which every call is rejected leaves the composition untouched -/
theorem composition_all_rejected_unchanged (d : List (Nat × Nat)) (ops : List CompOp)
    (h : ∀ op ∈ ops, ∀ d', (compStep d' op).raised = true) : compRun d ops = d := by
  induction ops generalizing d with
  | nil => rfl
  | cons op t ih =>
    simp only [compRun, List.foldl_cons]
    rw [(composition_rejected_unchanged d op (h op (by simp) d)).1]
    exact ih d (fun op' hop' => h op' (by simp [hop']))

/-! ## non-vacuity -/

/-- the `sqrt` contract is met by the real square root -/
example : SqrtSpec Real.sqrt := fun t ht => ⟨Real.sqrt_nonneg t, Real.mul_self_sqrt ht⟩

/-- two excited metastables with populations ½ and ¼ -/
example : compositeCXRate (1 : ℚ) [(1/2, 3), (1/4, 5)] = 15 / 7 := by
  norm_num [compositeCXRate, sumFrom]

/-- … so dropping such a metastable would change the mean: `(1 + 1·0)/(1 + 1) = 1/2`, not `1` -/
example : compositeCXRate (1 : ℚ) [(1, 0)] = 1 / 2 ∧ compositeCXRate (1 : ℚ) [] = 1 := by
  constructor <;> norm_num [compositeCXRate, sumFrom]

/-- D⁺, C⁶⁺ and neutral D: `Z_eff = (1·1 + 36·(1/100)) / (1 + 6/100)`; the neutral counts in `ion_density` only -/
def exSpecies : List (Species ℚ) :=
  [⟨1, 1, 100, ⟨0, 0, 0⟩⟩, ⟨6, 1/100, 200, ⟨1, 0, 0⟩⟩, ⟨0, 1/1000, 2, ⟨0, 0, 0⟩⟩]

example : zEffective exSpecies = some (68 / 53) := by
  norm_num [zEffective, sumNZ2, sumNZ, sumL, sumFrom, chargedOnly, exSpecies]

example : ionDensity exSpecies = 1011 / 1000 := by
  norm_num [ionDensity, sumL, sumFrom, exSpecies]

/-- a composition with a neutral satisfies `Guard` when the neutral's coefficient is the null rate -/
def exData : List (Species ℚ × Coeff3 ℚ) :=
  exSpecies.zip [fun e n t => 1 + e + n + t, fun e n t => 2 + e * n, fun _ _ _ => 0]

example : Guard exData := by
  intro sc hsc
  simp only [exData, exSpecies, List.zip_cons_cons, List.zip_nil_right, List.mem_cons, List.not_mem_nil, or_false] at hsc
  rcases hsc with rfl | rfl | rfl
  · left; decide
  · left; decide
  · right; intro _ _ _; rfl

/-- … and the hypotheses of `beam_population_is_weighted_mean` are consistent (positive charge density) -/
example : 0 < chargeDensity exData := by
  norm_num [chargeDensity, ionsData, exData, exSpecies]

/-- a complete CX scene meeting every hypothesis of `cx_radiance_formula` (with `sqrt := id`, which the formula
statement does not constrain) -/
def exScene : CXScene ℚ := ⟨4, ⟨0, 0, 2⟩, 3, exSpecies, 1, ⟨0, 1, 0⟩⟩
def exConsts : Consts ℚ := ⟨1, 1, 1⟩

example : beamVelocity exConsts id exScene.beamEnergy exScene.beamDirection = some ⟨0, 0, 4⟩ := by
  norm_num [beamVelocity, V3.normalise, V3.normSq, V3.mul, evamuToMs, exScene, exConsts]

example : ((ions exScene.species).map fun x => x.density * (x.charge : ℚ) * (x.charge : ℚ)).sum ≠ 0 := by
  norm_num [ions, exScene, exSpecies]

/-- weights of `composite_convex_weights` on a concrete list containing a zero coefficient and a zero population -/
example : compositeCXRate (2 : ℚ) [(1, 0), (0, 7), (2, 1)] = 1 := by
  norm_num [compositeCXRate, sumFrom]

example : List.Perm [((1 : ℚ), (3 : ℚ)), (2, 5)] [(2, 5), (1, 3)] := List.Perm.swap _ _ _

example : compositeCXRate (1 : ℚ) [(1, 3), (2, 5)] = compositeCXRate 1 [(2, 5), (1, 3)] :=
  composite_perm_invariant _ _ _ (List.Perm.swap _ _ _)

/-- the hypotheses of `beam_velocity_scale_invariant` are met by the real square root and a non-unit direction -/
example : beamVelocity (⟨1, 1, 1⟩ : Consts ℝ) Real.sqrt 2 ⟨3 * 0, 3 * 3, 3 * 4⟩
    = beamVelocity ⟨1, 1, 1⟩ Real.sqrt 2 ⟨0, 3, 4⟩ :=
  beam_velocity_scale_invariant _ Real.sqrt (fun t ht => ⟨Real.sqrt_nonneg t, Real.mul_self_sqrt ht⟩) 2 3 ⟨0, 3, 4⟩
    (by norm_num) (by norm_num [V3.normSq])

/-- the physical hypotheses of `cx_emission_statement` are consistent: `exScene` (receiver C⁶⁺, index 1) with one
excited metastable whose population coefficients are constants and a null rate for the neutral -/
example : (0 : ℚ) < chargeDensity (exScene.species.zip [fun _ _ _ => 1, fun _ _ _ => 2, fun _ _ _ => 0]) :=
  charge_density_pos_of_receiver exScene.species _ 1 ⟨6, 1/100, 200, ⟨1, 0, 0⟩⟩ rfl rfl (by decide)
    (by intro x hx; simp only [exScene, exSpecies, List.mem_cons, List.not_mem_nil, or_false] at hx
        rcases hx with rfl | rfl | rfl <;> norm_num)
    (by norm_num)

/-- the seeded `Composition.set` change (type check after the reset) contradicts `composition_rejected_unchanged`:
here is what the as-is model does with `[C⁶⁺(new), 'x']` on `{D⁺, C⁶⁺}` — raises, keeps both, no notification -/
example : compStep [(101, 0), (606, 1)] (.set [.species 606 7, .other]) = ⟨[(101, 0), (606, 1)], true, false⟩ := by decide

example : (compStep [(101, 0), (606, 1)] (.add none)).raised = true := by decide

/-- replacement keeps the position, a new key is appended, both notify -/
example : compStep [(101, 0), (606, 1)] (.add (some (.species 101 9))) = ⟨[(101, 9), (606, 1)], false, true⟩ := by decide
example : compStep [(101, 0)] (.set [.species 606 1, .species 101 2, .species 606 3]) = ⟨[(606, 3), (101, 2)], false, true⟩ := by
  decide

end Cherab.Props.C05
