/-
C06, round 6 — truncation atomicity of a single file write ("an update that is rejected … leaves previously stored keys
readable", at the level of `open(path,'w')` / `json.dump`, which `Model/Repository.lean` abstracts into one `FS.write`).

* `safe_write_all_or_nothing` — for EVERY statement sequence that satisfies the syntactic criterion `safe`, every oracle of
  raising statements, every previous file state and every new content: the call either returns normally and the file
  holds exactly the new content, or it raises and the file is exactly what it was; a file that was not truncated never
  becomes truncated.
* `safe_write_refines_fs_write` — hence the atomic `FS.write` of the high-level model is a sound abstraction of a safe segment.
* `dump_after_open_truncates` — the criterion is not vacuous: the pre-fix shape of `add_beam_stopping_rate` destroys a stored file.
* `writers_never_truncate_current` — `decide` on the table regenerated from the source on every run: all nine writers are covered and safe.
-/
import Cherab.Model.RepoWrite
import Cherab.Model.Repository
import Cherab.Gen.RepoWrites

namespace Cherab.Props.C06Write
open Cherab.RepoWrite

theorem runOpen_of_safe {α : Type} (fails : Nat → Bool) (new : α) (steps : List WStep) (i : Nat) (text : Bool)
    (h : safeOpen steps text = true) : runOpen fails new steps i text = (.valid new, true) := by
  cases steps with
  | nil => simp [safeOpen] at h
  | cons s rest =>
    cases s <;> simp [safeOpen] at h <;> simp [runOpen, h]

theorem runPre_of_safe {α : Type} (fails : Nat → Bool) (d : Disk α) (new : α) (steps : List WStep) :
    ∀ (i : Nat) (text : Bool), safePre steps text = true →
      runPre fails d new steps i text = (.valid new, true) ∨ runPre fails d new steps i text = (d, false) := by
  induction steps with
  | nil => intro i text h; simp [safePre] at h
  | cons s rest ih =>
    intro i text h
    cases s
    case validate =>
      simp only [safePre] at h
      simp only [runPre]
      split
      · exact Or.inr rfl
      · exact ih _ _ h
    case serialise =>
      simp only [safePre] at h
      simp only [runPre]
      split
      · exact Or.inr rfl
      · exact ih _ _ h
    case mkdirs =>
      simp only [safePre] at h
      simp only [runPre]
      exact ih _ _ h
    case openW =>
      simp only [safePre] at h
      simp only [runPre]
      exact Or.inl (runOpen_of_safe fails new rest _ _ h)
    all_goals simp [safePre] at h

/-- all-or-nothing for every safe statement sequence, every raising pattern, every previous state, every content -/
theorem safe_write_all_or_nothing {α : Type} (steps : List WStep) (fails : Nat → Bool) (d : Disk α) (new : α)
    (h : safe steps = true) :
    ((run steps fails d new).2 = true → (run steps fails d new).1 = .valid new) ∧
    ((run steps fails d new).2 = false → (run steps fails d new).1 = d) ∧
    (d ≠ .truncated → (run steps fails d new).1 ≠ .truncated) := by
  unfold run
  rcases runPre_of_safe fails d new steps 0 false h with e | e <;> rw [e] <;> simp

/-- the atomic `FS.write` of `Model/Repository.lean` is what a safe segment does to the file system: with the disk state of
`p` read off `fs`, an accepted segment yields the state read off `fs.write p new`, a rejected one the state read off `fs` -/
def diskOf (fs : Cherab.Repository.FS) (p : Cherab.Repository.Path) : Disk Cherab.Repository.File :=
  match fs.read p with | some c => .valid c | none => .absent

theorem safe_write_refines_fs_write (steps : List WStep) (fails : Nat → Bool) (fs : Cherab.Repository.FS)
    (p : Cherab.Repository.Path) (new : Cherab.Repository.File) (h : safe steps = true) :
    run steps fails (diskOf fs p) new = (diskOf (fs.write p new) p, true) ∨
    run steps fails (diskOf fs p) new = (diskOf fs p, false) := by
  have hw : diskOf (fs.write p new) p = .valid new := by
    unfold diskOf Cherab.Repository.FS.read Cherab.Repository.FS.write
    have : Cherab.Repository.alookup p (Cherab.Repository.ainsert p new fs) = some new := by
      induction fs with
      | nil => simp [Cherab.Repository.ainsert, Cherab.Repository.alookup]
      | cons e rest ih =>
        obtain ⟨k, v⟩ := e
        by_cases hk : k = p
        · subst hk; simp [Cherab.Repository.ainsert, Cherab.Repository.alookup]
        · simp [Cherab.Repository.ainsert, Cherab.Repository.alookup, hk, ih]
    rw [this]
  rw [hw]
  unfold run
  exact runPre_of_safe fails _ new steps 0 false h

/-- non-vacuity of the two implications: a safe sequence with a raising and a non-raising oracle -/
example : safe [.validate, .serialise, .validate, .mkdirs, .openW, .writeText] = true ∧
    run [.validate, .serialise, .validate, .mkdirs, .openW, .writeText] (fun i => i == 1) (.valid 7) 9 = (.valid 7, false) ∧
    run [.validate, .serialise, .validate, .mkdirs, .openW, .writeText] (fun _ => false) (.valid 7) 9 = (.valid 9, true) := by
  decide

/-- the criterion cannot be dropped: the pre-fix shape of `add_beam_stopping_rate` / `add_beam_population_rate`
(`json.dump(rate, f)` of the caller's dictionary after `open(path,'w')`) raises and leaves a stored file truncated -/
theorem dump_after_open_truncates :
    safe legacyDump = false ∧
    run legacyDump (fun i => i == 3) (.valid 7) 9 = ((.truncated : Disk Nat), false) := by
  decide

/-- serialising into the open file is harmless only when the dumped object cannot be rejected: the same sequence with
`dumpBuilt` is safe, and so is `dumps` before `open` + `write` -/
theorem dumps_before_open_is_safe :
    safe [.validate, .mkdirs, .openW, .dumpBuilt] = true ∧
    safe [.validate, .serialise, .mkdirs, .openW, .writeText] = true ∧
    safe [.validate, .mkdirs, .openW, .writeText] = false ∧
    safe [.validate, .mkdirs, .openW, .validate, .dumpBuilt] = false := by
  decide

/-- table obligation (regenerated from /repo on every run): every writer of the anchored files is in the table and no
statement that can raise stands between its `open(path,'w')` and the statement that fills the file -/
theorem writers_never_truncate_current :
    covers Cherab.Gen.RepoWrites.writeSegments = true ∧ allSafe Cherab.Gen.RepoWrites.writeSegments = true := by
  decide

/-- lifting the decided table to all inputs: every write of every writer in the generated table is all-or-nothing -/
theorem writers_all_or_nothing_current {α : Type} (name : String) (steps : List WStep)
    (hm : (name, steps) ∈ Cherab.Gen.RepoWrites.writeSegments) (fails : Nat → Bool) (d : Disk α) (new : α) :
    run steps fails d new = (.valid new, true) ∨ run steps fails d new = (d, false) := by
  have hs : safe steps = true := by
    have := writers_never_truncate_current.2
    unfold allSafe at this
    exact (List.all_eq_true.mp this) (name, steps) hm
  unfold run
  exact runPre_of_safe fails d new steps 0 false hs

example : ("wavelength.py:update_wavelengths", [WStep.validate, .mkdirs, .openW, .dumpBuilt]) ∈
    Cherab.Gen.RepoWrites.writeSegments := by decide

end Cherab.Props.C06Write
