import Cherab.Props.C06
open Cherab.Props.C06
#print axioms refines_kv
#print axioms outcome_refines
#print axioms last_write_wins
#print axioms never_written_raises
#print axioms getter_reads_kv
#print axioms beam_cx_getter_reads_kv
#print axioms accepted_update_writes_all
#print axioms stored_arrays_are_inputs
#print axioms paths_injective
#print axioms keys_injective
#print axioms transition_key_iff_lower_equal
#print axioms transition_separator_collision
#print axioms rejected_update_preserves
#print axioms writes_under_root
#print axioms writes_under_root_of_tables
#print axioms add_matches_update_of_tables
#print axioms misrouted_add_never_updates_own_family
#print axioms dropped_root_escapes
#print axioms idealTables_wellFormed
#print axioms prep_id_of_lower_classes
#print axioms prep_id_of_tables
#print axioms pec_mixed_case_class_reads_other_entry
#print axioms front_ends_write_under_root
