import Cherab.Model.Rates
import Cherab.Lemmas.Rates


/-!
# C07 — OpenADAS rates reproduce stored tables and honour the range / missing-data policy

Property theorems about `Cherab/Model/Rates.lean`, for every table size and every input, over an arbitrary ordered
field.  `10 ** x`, the two `log10`s and raysect's interpolators are parameters constrained by `ExtSpec`
(the contract of an interpolant: passes through its knots; inside the knot range it returns; outside it raises iff
the extrapolation type is 'none').  The table-dependent obligations are in `Props/C07Table.lean`.
-/
namespace Cherab.Props.C07
set_option linter.unusedSectionVars false
set_option linter.unusedVariables false
open Cherab.Rates

variable {α : Type} [Field α] [LinearOrder α] [IsStrictOrderedRing α]


/-! ## 2-D log-log classes -/


/-- **table reproduction** (2-D classes): at a grid point the rate equals the stored value after the unit
conversion — provided the two `log10`s agree on that grid point's coordinates (see `grid2_edge_knot_raises`). -/
theorem grid2_at_knot {E : Ext α} (S : ExtSpec E) (cf : α) (wl : Option α) (hcf : 0 < cf) (hwl : ∀ w ∈ wl, 0 < w)
    (k : Extrap) (ex : Bool) (t : Table2 α) (h : WF2 t) (h1 : 2 ≤ t.ne.length) (h2 : 2 ≤ t.te.length)
    (i j : Nat) (n T y : α) (row : List α) (hn : t.ne[i]? = some n) (hT : t.te[j]? = some T)
    (hrow : t.rate[i]? = some row) (hy : row[j]? = some y)
    (hln : E.loge n = E.logc n) (hlT : E.loge T = E.logc T) :
    grid2 E cf wl k ex t n T = Out.val (conv cf wl y) := by
  have hnpos : 0 < n := h.ne.2 n (List.mem_of_getElem? hn)
  have hTpos : 0 < T := h.te.2 T (List.mem_of_getElem? hT)
  have hypos : 0 < y := h.pos row (List.mem_of_getElem? hrow) y (List.mem_of_getElem? hy)
  unfold grid2
  rw [if_neg (by omega), if_neg (by push Not; exact ⟨hnpos, hTpos⟩), hln, hlT]
  rw [S.i2_knot _ _ _ _ i j (E.logc n) (E.logc T) (row.map fun y => E.logc (conv cf wl y)) (E.logc (conv cf wl y))
    (valid2_of_wf S h _ h1 h2) (by simp [hn]) (by simp [hT]) (by simp [hrow]) (by simp [hy])]
  simp only
  rw [S.pow_log _ (conv_pos cf wl hcf hwl y hypos)]


theorem grid2_at_knot_raw {E : Ext α} (S : ExtSpec E) (hl : LogAgree E) (cf : α) (wl : Option α) (hcf : 0 < cf)
    (hwl : ∀ w ∈ wl, 0 < w) (k : Extrap) (ex : Bool) (t : Table2 α) (h : WF2 t) (h1 : 2 ≤ t.ne.length)
    (h2 : 2 ≤ t.te.length) (i j : Nat) (n T y : α) (row : List α) (hn : t.ne[i]? = some n) (hT : t.te[j]? = some T)
    (hrow : t.rate[i]? = some row) (hy : row[j]? = some y) :
    grid2 E cf wl k ex t n T = Out.val (conv cf wl y) :=
  grid2_at_knot S cf wl hcf hwl k ex t h h1 h2 i j n T y row hn hT hrow hy
    (hl n (h.ne.2 n (List.mem_of_getElem? hn))) (hl T (h.te.2 T (List.mem_of_getElem? hT)))


/-- **non-negativity**, for every table (well-formed or not) and all arguments -/
theorem grid2_nonneg {E : Ext α} (S : ExtSpec E) (cf : α) (wl : Option α) (k : Extrap) (ex : Bool) (t : Table2 α)
    (d T v : α) (h : grid2 E cf wl k ex t d T = Out.val v) : 0 ≤ v := by
  unfold grid2 at h
  split_ifs at h with h1 h2
  · cases h; exact le_refl _
  · split at h
    · cases h; exact (S.pow_pos _).le
    · cases h


/-- **zero on a non-positive density or temperature** (whenever the object could be constructed) -/
theorem grid2_zero_on_nonpositive (E : Ext α) (cf : α) (wl : Option α) (k : Extrap) (ex : Bool) (t : Table2 α)
    (h1 : 2 ≤ t.ne.length) (h2 : 2 ≤ t.te.length) (d T : α) (h : d ≤ 0 ∨ T ≤ 0) :
    grid2 E cf wl k ex t d T = Out.val 0 := by
  unfold grid2
  rw [if_neg (by omega), if_pos h]


/-- raysect refuses a single-point axis: the accessor raises ValueError instead of returning a rate object -/
theorem grid2_single_point_axis (E : Ext α) (cf : α) (wl : Option α) (k : Extrap) (ex : Bool) (t : Table2 α)
    (h : t.ne.length < 2 ∨ t.te.length < 2) (d T : α) : grid2 E cf wl k ex t d T = Out.ctorError := by
  unfold grid2
  rw [if_pos h]


/-- **range policy, extrapolation not permitted**: outside the tabulated range (in the log space the code compares
in) the call raises -/
theorem grid2_outside_raises {E : Ext α} (S : ExtSpec E) (cf : α) (wl : Option α) (k : Extrap) (t : Table2 α)
    (h : WF2 t) (h1 : 2 ≤ t.ne.length) (h2 : 2 ≤ t.te.length) (d T : α) (hd : 0 < d) (hT : 0 < T)
    (hout : Below (t.ne.map E.logc) (E.loge d) ∨ Above (t.ne.map E.logc) (E.loge d) ∨
      Below (t.te.map E.logc) (E.loge T) ∨ Above (t.te.map E.logc) (E.loge T)) :
    grid2 E cf wl k false t d T = Out.valueError := by
  unfold grid2
  rw [if_neg (by omega), if_neg (by push Not; exact ⟨hd, hT⟩)]
  have : kindOf k false = Extrap.none := rfl
  rw [this, S.i2_outside _ _ _ _ _ (valid2_of_wf S h _ h1 h2) hout]


/-- the same in terms of the raw arguments when the two `log10`s agree -/
theorem grid2_below_density_range_raises {E : Ext α} (S : ExtSpec E) (hl : LogAgree E) (cf : α) (wl : Option α)
    (k : Extrap) (t : Table2 α) (h : WF2 t) (h1 : 2 ≤ t.ne.length) (h2 : 2 ≤ t.te.length) (d T n0 : α)
    (hd : 0 < d) (hT : 0 < T) (hn0 : t.ne.head? = some n0) (hlt : d < n0) :
    grid2 E cf wl k false t d T = Out.valueError := by
  apply grid2_outside_raises S cf wl k t h h1 h2 d T hd hT
  left
  refine ⟨E.logc n0, ?_, ?_⟩
  · rw [head_map_logc, hn0]; rfl
  · rw [hl d hd]; exact S.logc_mono d n0 hd hlt


theorem grid2_above_temperature_range_raises {E : Ext α} (S : ExtSpec E) (hl : LogAgree E) (cf : α) (wl : Option α)
    (k : Extrap) (t : Table2 α) (h : WF2 t) (h1 : 2 ≤ t.ne.length) (h2 : 2 ≤ t.te.length) (d T T1 : α)
    (hd : 0 < d) (hT : 0 < T) (hT1 : t.te.getLast? = some T1) (hlt : T1 < T) :
    grid2 E cf wl k false t d T = Out.valueError := by
  apply grid2_outside_raises S cf wl k t h h1 h2 d T hd hT
  right; right; right
  refine ⟨E.logc T1, ?_, ?_⟩
  · rw [getLast_map_logc, hT1]; rfl
  · rw [hl T hT]
    exact S.logc_mono T1 T (h.te.2 T1 (List.mem_of_getLast? hT1)) hlt


/-- **the float gap, as a theorem about the model**: if libm's `log10` of the lowest tabulated density is smaller
than NumPy's (1 ulp suffices), evaluating *at that grid point* raises instead of reproducing the table.  This is
the behaviour of the unchanged tree (finding C07:grid-point:edge-knot-raises). -/
theorem grid2_edge_knot_raises {E : Ext α} (S : ExtSpec E) (cf : α) (wl : Option α) (k : Extrap) (t : Table2 α)
    (h : WF2 t) (h1 : 2 ≤ t.ne.length) (h2 : 2 ≤ t.te.length) (n0 T : α) (hT : 0 < T)
    (hn0 : t.ne.head? = some n0) (hgap : E.loge n0 < E.logc n0) :
    grid2 E cf wl k false t n0 T = Out.valueError := by
  apply grid2_outside_raises S cf wl k t h h1 h2 n0 T (h.ne.2 n0 (List.mem_of_head? hn0)) hT
  left
  exact ⟨E.logc n0, by rw [head_map_logc, hn0]; rfl, hgap⟩


/-- **range policy, extrapolation permitted**: every positive argument pair yields a (positive) value -/
theorem grid2_extrapolated_returns {E : Ext α} (S : ExtSpec E) (cf : α) (wl : Option α) (k : Extrap)
    (hk : k ≠ Extrap.none) (t : Table2 α) (h : WF2 t) (h1 : 2 ≤ t.ne.length) (h2 : 2 ≤ t.te.length) (d T : α)
    (hd : 0 < d) (hT : 0 < T) : ∃ v, 0 < v ∧ grid2 E cf wl k true t d T = Out.val v := by
  unfold grid2
  rw [if_neg (by omega), if_neg (by push Not; exact ⟨hd, hT⟩)]
  have hk' : kindOf k true = k := rfl
  have := S.i2_extrap (kindOf k true) _ _ _ (E.loge d) (E.loge T) (valid2_of_wf S h
    (fun y => E.logc (conv cf wl y)) h1 h2) (by rw [hk']; exact hk)
  obtain ⟨v, hv⟩ := Option.isSome_iff_exists.mp this
  rw [hv]
  exact ⟨_, S.pow_pos v, rfl⟩


/-- inside the tabulated range a value is returned whatever the extrapolation setting -/
theorem grid2_within_returns {E : Ext α} (S : ExtSpec E) (cf : α) (wl : Option α) (k : Extrap) (ex : Bool)
    (t : Table2 α) (h : WF2 t) (h1 : 2 ≤ t.ne.length) (h2 : 2 ≤ t.te.length) (d T : α) (hd : 0 < d) (hT : 0 < T)
    (hin1 : Within (t.ne.map E.logc) (E.loge d)) (hin2 : Within (t.te.map E.logc) (E.loge T)) :
    ∃ v, 0 < v ∧ grid2 E cf wl k ex t d T = Out.val v := by
  unfold grid2
  rw [if_neg (by omega), if_neg (by push Not; exact ⟨hd, hT⟩)]
  have := S.i2_within (kindOf k ex) _ _ _ (E.loge d) (E.loge T) (valid2_of_wf S h
    (fun y => E.logc (conv cf wl y)) h1 h2) hin1 hin2
  obtain ⟨v, hv⟩ := Option.isSome_iff_exists.mp this
  rw [hv]
  exact ⟨_, S.pow_pos v, rfl⟩


/-- **documented unit conversion** of the photon emission coefficients: `x ↦ x · (hc·10⁹) / λ` -/
theorem conv_photon (cf w x : α) : conv cf (some w) x = x * cf / w := by
  simp only [conv, photonToJ]; ring


theorem conv_plain (cf x : α) : conv cf none x = x := rfl


/-- a different wavelength gives a different converted value: the species whose wavelength is used matters -/
theorem conv_photon_injective_in_wavelength (cf w w' x : α) (hcf : 0 < cf) (hx : 0 < x) (hw : 0 < w) (hw' : 0 < w')
    (h : conv cf (some w) x = conv cf (some w') x) : w = w' := by
  rw [conv_photon, conv_photon] at h
  have hne : x * cf ≠ 0 := (mul_pos hx hcf).ne'
  field_simp at h
  linarith [h]


/-! ## ThermalCXPEC (3-D) -/


/-- **table reproduction** (ThermalCXPEC) -/
theorem grid3_at_knot {E : Ext α} (S : ExtSpec E) (cf wl : α) (hcf : 0 < cf) (hwl : 0 < wl) (ex : Bool)
    (t : Table3 α) (h : WF3 t) (h1 : 2 ≤ t.ne.length) (h2 : 2 ≤ t.te.length) (h3 : 2 ≤ t.td.length)
    (i j l : Nat) (n T D y : α) (pl : List (List α)) (row : List α)
    (hn : t.ne[i]? = some n) (hT : t.te[j]? = some T) (hD : t.td[l]? = some D)
    (hpl : t.rate[i]? = some pl) (hrow : pl[j]? = some row) (hy : row[l]? = some y)
    (hln : E.loge n = E.logc n) (hlT : E.loge T = E.logc T) (hlD : E.loge D = E.logc D) :
    grid3 E cf wl ex t n T D = Out.val (photonToJ cf y wl) := by
  have hnpos : 0 < n := h.ne.2 n (List.mem_of_getElem? hn)
  have hTpos : 0 < T := h.te.2 T (List.mem_of_getElem? hT)
  have hDpos : 0 < D := h.td.2 D (List.mem_of_getElem? hD)
  have hypos : 0 < y := h.pos pl (List.mem_of_getElem? hpl) row (List.mem_of_getElem? hrow) y (List.mem_of_getElem? hy)
  unfold grid3
  rw [if_neg (by omega), if_neg (by push Not; exact ⟨hnpos, hTpos, hDpos⟩), hln, hlT, hlD]
  rw [S.i3_knot _ _ _ _ _ i j l (E.logc n) (E.logc T) (E.logc D)
    (pl.map fun row => row.map fun y => E.logc (photonToJ cf y wl)) (row.map fun y => E.logc (photonToJ cf y wl))
    (E.logc (photonToJ cf y wl)) (valid3_of_wf S h _ h1 h2 h3) (by simp [hn]) (by simp [hT]) (by simp [hD])
    (by simp [hpl]) (by simp [hrow]) (by simp [hy])]
  simp only
  rw [S.pow_log]
  simp only [photonToJ]; positivity


theorem grid3_nonneg {E : Ext α} (S : ExtSpec E) (cf wl : α) (ex : Bool) (t : Table3 α) (d T D v : α)
    (h : grid3 E cf wl ex t d T D = Out.val v) : 0 ≤ v := by
  unfold grid3 at h
  split_ifs at h with h1 h2
  · cases h; exact le_refl _
  · split at h
    · cases h; exact (S.pow_pos _).le
    · cases h


theorem grid3_zero_on_nonpositive (E : Ext α) (cf wl : α) (ex : Bool) (t : Table3 α) (h1 : 2 ≤ t.ne.length)
    (h2 : 2 ≤ t.te.length) (h3 : 2 ≤ t.td.length) (d T D : α) (h : d ≤ 0 ∨ T ≤ 0 ∨ D ≤ 0) :
    grid3 E cf wl ex t d T D = Out.val 0 := by
  unfold grid3
  rw [if_neg (by omega), if_pos h]


theorem grid3_outside_raises {E : Ext α} (S : ExtSpec E) (cf wl : α) (t : Table3 α) (h : WF3 t)
    (h1 : 2 ≤ t.ne.length) (h2 : 2 ≤ t.te.length) (h3 : 2 ≤ t.td.length) (d T D : α) (hd : 0 < d) (hT : 0 < T)
    (hD : 0 < D)
    (hout : Below (t.ne.map E.logc) (E.loge d) ∨ Above (t.ne.map E.logc) (E.loge d) ∨
      Below (t.te.map E.logc) (E.loge T) ∨ Above (t.te.map E.logc) (E.loge T) ∨
      Below (t.td.map E.logc) (E.loge D) ∨ Above (t.td.map E.logc) (E.loge D)) :
    grid3 E cf wl false t d T D = Out.valueError := by
  unfold grid3
  rw [if_neg (by omega), if_neg (by push Not; exact ⟨hd, hT, hD⟩)]
  have : kindOf Extrap.nearest false = Extrap.none := rfl
  rw [this, S.i3_outside _ _ _ _ _ _ _ (valid3_of_wf S h _ h1 h2 h3) hout]


theorem grid3_extrapolated_returns {E : Ext α} (S : ExtSpec E) (cf wl : α) (t : Table3 α) (h : WF3 t)
    (h1 : 2 ≤ t.ne.length) (h2 : 2 ≤ t.te.length) (h3 : 2 ≤ t.td.length) (d T D : α) (hd : 0 < d) (hT : 0 < T)
    (hD : 0 < D) : ∃ v, 0 < v ∧ grid3 E cf wl true t d T D = Out.val v := by
  unfold grid3
  rw [if_neg (by omega), if_neg (by push Not; exact ⟨hd, hT, hD⟩)]
  have := S.i3_extrap (kindOf Extrap.nearest true) _ _ _ _ (E.loge d) (E.loge T) (E.loge D) (valid3_of_wf S h
    (fun y => E.logc (photonToJ cf y wl)) h1 h2 h3) (by decide)
  obtain ⟨v, hv⟩ := Option.isSome_iff_exists.mp this
  rw [hv]
  exact ⟨_, S.pow_pos v, rfl⟩


/-! ## Null rates -/


/-- every Null class evaluates to zero, whatever the arguments -/
theorem null_rate_zero : (nullRate : Out α) = Out.val 0 := rfl


/-! ## beam stopping / population / emission -/


/-- the energy–density factor at a grid point, through whichever of the four constructions `__init__` chose -/
theorem beamNpl_at_knot {E : Ext α} (S : ExtSpec E) (cf : α) (wl : Option α) (ex : Bool) (b : BeamTable α)
    (h : WFB b) (i j : Nat) (en d y : α) (row : List α) (he : b.e[i]? = some en) (hn : b.n[j]? = some d)
    (hrow : b.sen[i]? = some row) (hy : row[j]? = some y) (hle : E.loge en = E.logc en)
    (hld : E.loge d = E.logc d) :
    beamNpl E cf wl ex b en d = some (E.logc (conv cf wl y)) := by
  have hrowlen : row.length = b.n.length := h.cols row (List.mem_of_getElem? hrow)
  have hmaprow : (b.logSen E cf wl)[i]? = some (row.map fun y => E.logc (conv cf wl y)) := by
    simp [BeamTable.logSen, hrow]
  unfold beamNpl
  simp only []
  split_ifs with c1 c2 c3
  · -- Constant2D
    simp only [Bool.and_eq_true, beq_iff_eq] at c1
    have hi := idx_zero_of_length_one he c1.1
    have hj := idx_zero_of_length_one hn c1.2
    subst hi; subst hj
    rw [headD_of_getElem?_zero hmaprow]
    exact congrArg some (headD_of_getElem?_zero (by simp [hy]))
  · -- single energy: 1-D in density
    simp only [beq_iff_eq] at c2
    simp only [Bool.and_eq_true, beq_iff_eq, not_and] at c1
    have hi := idx_zero_of_length_one he c2
    subst hi
    rw [headD_of_getElem?_zero hmaprow, hld]
    have hn2 : 2 ≤ b.n.length := by have := h.n1; have := c1 c2; omega
    exact S.i1_knot _ _ _ j _ _ ⟨by simpa using hn2, by simp [hrowlen], sorted_map_logc S h.n⟩ (by simp [hn])
      (by simp [hy])
  · -- single density: 1-D in energy
    simp only [beq_iff_eq] at c2 c3
    have hj := idx_zero_of_length_one hn c3
    subst hj
    rw [hle]
    have he2 : 2 ≤ b.e.length := by have := h.e1; omega
    refine S.i1_knot _ _ _ i _ _ ⟨by simpa using he2, by simp [BeamTable.logSen, h.rows], sorted_map_logc S h.e⟩
      (by simp [he]) ?_
    simp only [List.getElem?_map, hmaprow, Option.map_some]
    exact congrArg some (headD_of_getElem?_zero (by simp [hy]))
  · -- 2-D
    simp only [beq_iff_eq] at c2 c3
    rw [hle, hld]
    have he2 : 2 ≤ b.e.length := by have := h.e1; omega
    have hn2 : 2 ≤ b.n.length := by have := h.n1; omega
    refine S.i2_knot _ _ _ _ i j _ _ (row.map fun y => E.logc (conv cf wl y)) _ ?_ (by simp [he]) (by simp [hn])
      hmaprow (by simp [hy])
    refine ⟨by simpa using he2, by simpa using hn2, sorted_map_logc S h.e, sorted_map_logc S h.n,
      by simp [BeamTable.logSen, h.rows], ?_⟩
    intro r hr
    simp only [BeamTable.logSen] at hr
    obtain ⟨r', hr', rfl⟩ := List.mem_map.mp hr
    simpa using h.cols r' hr'


/-- **table reproduction** (beam coefficients): `sen · st / sref` after the photon conversion of `sen`, for every
combination of single-point / multi-point energy and density axes -/
theorem beam_at_knot {E : Ext α} (S : ExtSpec E) (cf : α) (wl : Option α) (hcf : 0 < cf) (hwl : ∀ w ∈ wl, 0 < w)
    (ex : Bool) (b : BeamTable α) (h : WFB b) (i j k : Nat) (en d T y s : α) (row : List α)
    (he : b.e[i]? = some en) (hn : b.n[j]? = some d) (ht : b.t[k]? = some T)
    (hrow : b.sen[i]? = some row) (hy : row[j]? = some y) (hs : b.st[k]? = some s)
    (hle : E.loge en = E.logc en) (hld : E.loge d = E.logc d) (hlT : E.loge T = E.logc T) :
    beam E cf wl ex b en d T = Out.val (conv cf wl y * s / b.sref) := by
  have hepos : 0 < en := h.e.2 en (List.mem_of_getElem? he)
  have hdpos : 0 < d := h.n.2 d (List.mem_of_getElem? hn)
  have hTpos : 0 < T := h.t.2 T (List.mem_of_getElem? ht)
  have hypos : 0 < y := h.pos row (List.mem_of_getElem? hrow) y (List.mem_of_getElem? hy)
  have hspos : 0 < s := h.stpos s (List.mem_of_getElem? hs)
  unfold beam
  rw [beamCtorOk_of_wf h]
  simp only [Bool.not_true, Bool.false_eq_true, if_false]
  rw [if_neg (by push Not; exact ⟨hepos, hdpos, hTpos⟩)]
  rw [beamNpl_at_knot S cf wl ex b h i j en d y row he hn hrow hy hle hld]
  simp only []
  rw [hlT, S.i1_knot _ _ _ k (E.logc T) (E.logc (s / b.sref)) (valid1_t S h) (by simp [ht])
    (by simp [BeamTable.logSt, hs])]
  simp only []
  rw [S.pow_add, S.pow_log _ (conv_pos cf wl hcf hwl y hypos), S.pow_log _ (div_pos hspos h.sref)]
  congr 1; ring


theorem beam_nonneg {E : Ext α} (S : ExtSpec E) (cf : α) (wl : Option α) (ex : Bool) (b : BeamTable α)
    (en d T v : α) (h : beam E cf wl ex b en d T = Out.val v) : 0 ≤ v := by
  unfold beam at h
  split_ifs at h with h1 h2
  · cases h; exact le_refl _
  · split at h
    · cases h
    · split at h
      · cases h
      · cases h; exact (S.pow_pos _).le


theorem beam_zero_on_nonpositive (E : Ext α) (cf : α) (wl : Option α) (ex : Bool) (b : BeamTable α)
    (hc : beamCtorOk b = true) (en d T : α) (h : en ≤ 0 ∨ d ≤ 0 ∨ T ≤ 0) :
    beam E cf wl ex b en d T = Out.val 0 := by
  unfold beam
  rw [hc]
  simp only [Bool.not_true, Bool.false_eq_true, if_false]
  rw [if_pos h]


/-- temperature outside the tabulated range, extrapolation not permitted: raises -/
theorem beam_temperature_outside_raises {E : Ext α} (S : ExtSpec E) (cf : α) (wl : Option α) (b : BeamTable α)
    (h : WFB b) (en d T : α) (he : 0 < en) (hd : 0 < d) (hT : 0 < T)
    (hout : Below (b.t.map E.logc) (E.loge T) ∨ Above (b.t.map E.logc) (E.loge T)) :
    beam E cf wl false b en d T = Out.valueError := by
  unfold beam
  rw [beamCtorOk_of_wf h]
  simp only [Bool.not_true, Bool.false_eq_true, if_false]
  rw [if_neg (by push Not; exact ⟨he, hd, hT⟩)]
  have hk : kindOf Extrap.quadratic false = Extrap.none := rfl
  cases beamNpl E cf wl false b en d with
  | none => rfl
  | some a =>
    simp only []
    rw [hk, S.i1_outside _ _ _ (valid1_t S h) hout]


/-- energy or density outside the tabulated range of a genuinely two-dimensional `sen`: raises -/
theorem beam_energy_density_outside_raises {E : Ext α} (S : ExtSpec E) (cf : α) (wl : Option α) (b : BeamTable α)
    (h : WFB b) (he2 : 2 ≤ b.e.length) (hn2 : 2 ≤ b.n.length) (en d T : α) (he : 0 < en) (hd : 0 < d) (hT : 0 < T)
    (hout : Below (b.e.map E.logc) (E.loge en) ∨ Above (b.e.map E.logc) (E.loge en) ∨
      Below (b.n.map E.logc) (E.loge d) ∨ Above (b.n.map E.logc) (E.loge d)) :
    beam E cf wl false b en d T = Out.valueError := by
  have hnpl : beamNpl E cf wl false b en d = none := by
    unfold beamNpl
    simp only []
    rw [if_neg (by simp; omega), if_neg (by simp; omega), if_neg (by simp; omega)]
    have hk : kindOf Extrap.linear false = Extrap.none := rfl
    rw [hk]
    apply S.i2_outside _ _ _ _ _ _ hout
    refine ⟨by simpa using he2, by simpa using hn2, sorted_map_logc S h.e, sorted_map_logc S h.n,
      by simp [BeamTable.logSen, h.rows], ?_⟩
    intro r hr
    simp only [BeamTable.logSen] at hr
    obtain ⟨r', hr', rfl⟩ := List.mem_map.mp hr
    simpa using h.cols r' hr'
  unfold beam
  rw [beamCtorOk_of_wf h]
  simp only [Bool.not_true, Bool.false_eq_true, if_false]
  rw [if_neg (by push Not; exact ⟨he, hd, hT⟩), hnpl]


/-- a single-point energy *and* density axis tabulates no dependence: the factor ignores both arguments (there is
no range to leave along such an axis) -/
theorem beamNpl_single_point_constant (E : Ext α) (cf : α) (wl : Option α) (ex : Bool) (b : BeamTable α)
    (he : b.e.length = 1) (hn : b.n.length = 1) (en d en' d' : α) :
    beamNpl E cf wl ex b en d = beamNpl E cf wl ex b en' d' := by
  unfold beamNpl
  simp only []
  rw [if_pos (by simp [he, hn]), if_pos (by simp [he, hn])]


/-- **range policy, extrapolation permitted** (beam coefficients): never raises, returns a positive value -/
theorem beam_extrapolated_returns {E : Ext α} (S : ExtSpec E) (cf : α) (wl : Option α) (b : BeamTable α)
    (h : WFB b) (en d T : α) (he : 0 < en) (hd : 0 < d) (hT : 0 < T) :
    ∃ v, 0 < v ∧ beam E cf wl true b en d T = Out.val v := by
  have hcols : ∀ r ∈ b.logSen E cf wl, r.length = (b.n.map E.logc).length := by
    intro r hr
    simp only [BeamTable.logSen] at hr
    obtain ⟨r', hr', rfl⟩ := List.mem_map.mp hr
    simpa using h.cols r' hr'
  have hnpl : (beamNpl E cf wl true b en d).isSome := by
    unfold beamNpl
    simp only []
    split_ifs with c1 c2 c3
    · rfl
    · simp only [beq_iff_eq] at c2
      simp only [Bool.and_eq_true, beq_iff_eq, not_and] at c1
      have hn2 : 2 ≤ b.n.length := by have := h.n1; have := c1 c2; omega
      refine S.i1_extrap _ _ _ _ ⟨by simpa using hn2, ?_, sorted_map_logc S h.n⟩ (by decide)
      have hne : b.logSen E cf wl ≠ [] := by
        intro h0
        have : (b.logSen E cf wl).length = b.e.length := by simp [BeamTable.logSen, h.rows]
        rw [h0] at this; simp at this; omega
      obtain ⟨r, rs, hrs⟩ := List.exists_cons_of_ne_nil hne
      rw [hrs]
      simpa using hcols r (by rw [hrs]; simp)
    · simp only [beq_iff_eq] at c2 c3
      have he2 : 2 ≤ b.e.length := by have := h.e1; omega
      exact S.i1_extrap _ _ _ _ ⟨by simpa using he2, by simp [BeamTable.logSen, h.rows], sorted_map_logc S h.e⟩
        (by decide)
    · simp only [beq_iff_eq] at c2 c3
      have he2 : 2 ≤ b.e.length := by have := h.e1; omega
      have hn2 : 2 ≤ b.n.length := by have := h.n1; omega
      exact S.i2_extrap _ _ _ _ _ _ ⟨by simpa using he2, by simpa using hn2, sorted_map_logc S h.e,
        sorted_map_logc S h.n, by simp [BeamTable.logSen, h.rows], hcols⟩ (by decide)
  have htp := S.i1_extrap (kindOf Extrap.quadratic true) _ _ (E.loge T) (valid1_t S h) (by decide)
  obtain ⟨a, ha⟩ := Option.isSome_iff_exists.mp hnpl
  obtain ⟨c, hc⟩ := Option.isSome_iff_exists.mp htp
  unfold beam
  rw [beamCtorOk_of_wf h]
  simp only [Bool.not_true, Bool.false_eq_true, if_false]
  rw [if_neg (by push Not; exact ⟨he, hd, hT⟩), ha]
  simp only []
  rw [hc]
  exact ⟨_, S.pow_pos _, rfl⟩


/-! ## beam CX -/


/-- **table reproduction** (beam CX): `qeb·hc/λ · qti/qref · qni/qref · qz/qref · qb/qref` at a grid point, whatever
mixture of interpolated and single-point axes -/
theorem beamCX_at_knot {E : Ext α} (S : ExtSpec E) (cf wl : α) (hcf : 0 < cf) (hwl : 0 < wl) (ex : Bool)
    (c : CXTable α) (h : WFC c) (i1 i2 i3 i4 i5 : Nat) (en T d z bf qe qt qn qz qb : α)
    (h1 : c.eb[i1]? = some en) (h2 : c.ti[i2]? = some T) (h3 : c.ni[i3]? = some d) (h4 : c.z[i4]? = some z)
    (h5 : c.b[i5]? = some bf) (g1 : c.qeb[i1]? = some qe) (g2 : c.qti[i2]? = some qt) (g3 : c.qni[i3]? = some qn)
    (g4 : c.qz[i4]? = some qz) (g5 : c.qb[i5]? = some qb) (hle : E.loge en = E.logc en) :
    beamCX E cf wl ex c en T d z bf =
      Out.val (photonToJ cf qe wl * (qt / c.qref) * (qn / c.qref) * (qz / c.qref) * (qb / c.qref)) := by
  have henpos : 0 < en := h.eb.2 en (List.mem_of_getElem? h1)
  have p1 : 0 < qe := h.pos.1 qe (List.mem_of_getElem? g1)
  have p2 : 0 < qt := h.pos.2.1 qt (List.mem_of_getElem? g2)
  have p3 : 0 < qn := h.pos.2.2.1 qn (List.mem_of_getElem? g3)
  have p4 : 0 < qz := h.pos.2.2.2.1 qz (List.mem_of_getElem? g4)
  have p5 : 0 < qb := h.pos.2.2.2.2 qb (List.mem_of_getElem? g5)
  have hq := h.qref
  have pj : 0 < photonToJ cf qe wl := by simp only [photonToJ]; positivity
  unfold beamCX
  simp only []
  rw [if_neg (not_le.mpr henpos), hle]
  rw [interpOrConst_at_knot S _ (c.eb.map E.logc) (c.qeb.map fun y => E.logc (photonToJ cf y wl)) i1 (E.logc en)
    (E.logc (photonToJ cf qe wl)) (sorted_map_logc S h.eb) (by simp [h.leb.1]) (by simpa using h.leb.2)
    (by simp [h1]) (by simp [g1])]
  simp only []
  rw [S.pow_log _ pj]
  rw [interpOrConst_at_knot S _ c.ti (c.qti.map fun y => y / c.qref) i2 T (qt / c.qref) h.ti (by simp [h.lti.1])
    h.lti.2 h2 (by simp [g2])]
  simp only []
  rw [clampMul_pos pj (div_pos p2 hq)]
  simp only []
  rw [interpOrConst_at_knot S _ c.ni (c.qni.map fun y => y / c.qref) i3 d (qn / c.qref) h.ni (by simp [h.lni.1])
    h.lni.2 h3 (by simp [g3])]
  simp only []
  rw [clampMul_pos (mul_pos pj (div_pos p2 hq)) (div_pos p3 hq)]
  simp only []
  rw [interpOrConst_at_knot S _ c.z (c.qz.map fun y => y / c.qref) i4 z (qz / c.qref) h.z (by simp [h.lz.1])
    h.lz.2 h4 (by simp [g4])]
  simp only []
  rw [clampMul_pos (mul_pos (mul_pos pj (div_pos p2 hq)) (div_pos p3 hq)) (div_pos p4 hq)]
  simp only []
  rw [interpOrConst_at_knot S _ c.b (c.qb.map fun y => y / c.qref) i5 bf (qb / c.qref) h.b (by simp [h.lb.1])
    h.lb.2 h5 (by simp [g5])]
  simp only []
  rw [clampMul_pos (mul_pos (mul_pos (mul_pos pj (div_pos p2 hq)) (div_pos p3 hq)) (div_pos p4 hq)) (div_pos p5 hq)]


/-- … which is the documented `q_eb·q_ti·q_ni·q_z·q_b / q_ref⁴`, converted with hc/λ -/
theorem beamCX_documented_product (cf wl qe qt qn qz qb qref : α) (hq : qref ≠ 0) :
    photonToJ cf qe wl * (qt / qref) * (qn / qref) * (qz / qref) * (qb / qref) =
      photonToJ cf (qe * qt * qn * qz * qb / qref ^ 4) wl := by
  simp only [photonToJ]
  field_simp


theorem beamCX_zero_on_nonpositive_energy (E : Ext α) (cf wl : α) (ex : Bool) (c : CXTable α)
    (en T d z bf : α) (h : en ≤ 0) : beamCX E cf wl ex c en T d z bf = Out.val 0 := by
  unfold beamCX
  simp only []
  rw [if_pos h]


theorem beamCX_nonneg {E : Ext α} (S : ExtSpec E) (cf wl : α) (ex : Bool) (c : CXTable α) (en T d z bf v : α)
    (h : beamCX E cf wl ex c en T d z bf = Out.val v) : 0 ≤ v := by
  unfold beamCX at h
  simp only [] at h
  split_ifs at h with h0
  · cases h; exact le_refl _
  · repeat' split at h
    all_goals first
      | (cases h; done)
      | (cases h; exact le_refl _)
      | (cases h; exact (clampMul_some_pos ‹_›).le)


/-- **why the complete guard is needed** (finding C07:BeamCXPEC:nonpositive-…-not-zero, fixed in 57a68d0): the bare
interpolation chain does not return zero for a non-positive temperature or density — with single-point temperature /
density / Z_eff / B axes (`Constant1D`) the rate does not look at those arguments at all — for a non-positive
temperature or density it is the same *positive* number, not zero. -/
theorem beamCX_single_point_ignores_arguments {E : Ext α} (S : ExtSpec E) (cf wl : α) (hcf : 0 < cf) (hwl : 0 < wl)
    (ex : Bool) (c : CXTable α) (qe qt qn qz qb : α) (hqe : c.qeb = [qe]) (hqt : c.qti = [qt]) (hqn : c.qni = [qn])
    (hqz : c.qz = [qz]) (hqb : c.qb = [qb]) (p1 : 0 < qe) (p2 : 0 < qt) (p3 : 0 < qn) (p4 : 0 < qz) (p5 : 0 < qb)
    (hq : 0 < c.qref) (en : α) (hen : 0 < en) (T d z bf : α) :
    beamCX E cf wl ex c en T d z bf =
        Out.val (photonToJ cf qe wl * (qt / c.qref) * (qn / c.qref) * (qz / c.qref) * (qb / c.qref))
      ∧ 0 < photonToJ cf qe wl * (qt / c.qref) * (qn / c.qref) * (qz / c.qref) * (qb / c.qref) := by
  have pj : 0 < photonToJ cf qe wl := by simp only [photonToJ]; positivity
  refine ⟨?_, by positivity⟩
  unfold beamCX
  simp only [interpOrConst, hqe, hqt, hqn, hqz, hqb, List.map_cons, List.map_nil, List.length_cons, List.length_nil,
    Nat.zero_add, lt_self_iff_false, if_false, List.headD_cons]
  rw [if_neg (not_le.mpr hen)]
  try simp only []
  rw [S.pow_log _ pj, clampMul_pos pj (div_pos p2 hq)]
  try simp only []
  rw [clampMul_pos (mul_pos pj (div_pos p2 hq)) (div_pos p3 hq)]
  try simp only []
  rw [clampMul_pos (mul_pos (mul_pos pj (div_pos p2 hq)) (div_pos p3 hq)) (div_pos p4 hq)]
  try simp only []
  rw [clampMul_pos (mul_pos (mul_pos (mul_pos pj (div_pos p2 hq)) (div_pos p3 hq)) (div_pos p4 hq)) (div_pos p5 hq)]


/-- the negation of "zero on a non-positive temperature" for the chain without the leading guard -/
theorem beamCX_not_zero_on_nonpositive_temperature {E : Ext α} (S : ExtSpec E) (cf wl : α) (hcf : 0 < cf)
    (hwl : 0 < wl) (ex : Bool) (c : CXTable α) (qe qt qn qz qb : α) (hqe : c.qeb = [qe]) (hqt : c.qti = [qt])
    (hqn : c.qni = [qn]) (hqz : c.qz = [qz]) (hqb : c.qb = [qb]) (p1 : 0 < qe) (p2 : 0 < qt) (p3 : 0 < qn)
    (p4 : 0 < qz) (p5 : 0 < qb) (hq : 0 < c.qref) (en : α) (hen : 0 < en) (T d z bf : α) (hT : T ≤ 0 ∨ d ≤ 0) :
    beamCX E cf wl ex c en T d z bf ≠ Out.val 0 := by
  obtain ⟨h1, h2⟩ := beamCX_single_point_ignores_arguments S cf wl hcf hwl ex c qe qt qn qz qb hqe hqt hqn hqz hqb
    p1 p2 p3 p4 p5 hq en hen T d z bf
  rw [h1]
  intro h
  have := Out.val.inj h
  rw [this] at h2
  exact lt_irrefl _ h2


/-- with an interpolated temperature axis and extrapolation not permitted a non-positive temperature (below every
positive knot) raises instead of returning zero -/
theorem beamCX_temperature_outside_raises {E : Ext α} (S : ExtSpec E) (cf wl : α) (c : CXTable α) (h : WFC c)
    (h2 : 2 ≤ c.ti.length) (en T d z bf l : α) (hen : 0 < en)
    (heb : interpOrConst E (kindOf Extrap.quadratic false) (c.eb.map E.logc)
      (c.qeb.map fun y => E.logc (photonToJ cf y wl)) (E.loge en) = some l)
    (hout : Below c.ti T ∨ Above c.ti T) :
    beamCX E cf wl false c en T d z bf = Out.valueError := by
  unfold beamCX
  simp only []
  rw [if_neg (not_le.mpr hen), heb]
  simp only []
  have : interpOrConst E (kindOf Extrap.nearest false) c.ti (c.qti.map fun y => y / c.qref) T = none := by
    unfold interpOrConst
    rw [if_pos (by simp [h.lti.1]; omega)]
    exact S.i1_outside _ _ _ ⟨h2, by simp [h.lti.1], h.ti⟩ hout
  rw [this]


/-- an interaction energy outside the tabulated range of an interpolated `qeb`, extrapolation not permitted: raises -/
theorem beamCX_energy_outside_raises {E : Ext α} (S : ExtSpec E) (cf wl : α) (c : CXTable α) (h : WFC c)
    (h2 : 2 ≤ c.eb.length) (en T d z bf : α) (hen : 0 < en)
    (hout : Below (c.eb.map E.logc) (E.loge en) ∨ Above (c.eb.map E.logc) (E.loge en)) :
    beamCX E cf wl false c en T d z bf = Out.valueError := by
  unfold beamCX
  simp only []
  rw [if_neg (not_le.mpr hen)]
  have : interpOrConst E (kindOf Extrap.quadratic false) (c.eb.map E.logc)
      (c.qeb.map fun y => E.logc (photonToJ cf y wl)) (E.loge en) = none := by
    unfold interpOrConst
    rw [if_pos (by simp [h.leb.1]; omega)]
    exact S.i1_outside _ _ _ ⟨by simpa using h2, by simp [h.leb.1], sorted_map_logc S h.eb⟩ hout
  rw [this]

/-- **range policy, extrapolation permitted** (beam CX): never raises -/
theorem beamCX_extrapolated_returns {E : Ext α} (S : ExtSpec E) (cf wl : α) (c : CXTable α) (h : WFC c)
    (en T d z bf : α) : ∃ v, 0 ≤ v ∧ beamCX E cf wl true c en T d z bf = Out.val v := by
  have e1 := interpOrConst_extrap S (kindOf Extrap.quadratic true) (by decide) (c.eb.map E.logc)
    (c.qeb.map fun y => E.logc (photonToJ cf y wl)) (E.loge en) (sorted_map_logc S h.eb) (by simp [h.leb.1])
  have e2 := interpOrConst_extrap S (kindOf Extrap.nearest true) (by decide) c.ti (c.qti.map fun y => y / c.qref) T
    h.ti (by simp [h.lti.1])
  have e3 := interpOrConst_extrap S (kindOf Extrap.nearest true) (by decide) c.ni (c.qni.map fun y => y / c.qref) d
    h.ni (by simp [h.lni.1])
  have e4 := interpOrConst_extrap S (kindOf Extrap.nearest true) (by decide) c.z (c.qz.map fun y => y / c.qref) z
    h.z (by simp [h.lz.1])
  have e5 := interpOrConst_extrap S (kindOf Extrap.nearest true) (by decide) c.b (c.qb.map fun y => y / c.qref) bf
    h.b (by simp [h.lb.1])
  obtain ⟨v1, hv1⟩ := Option.isSome_iff_exists.mp e1
  obtain ⟨v2, hv2⟩ := Option.isSome_iff_exists.mp e2
  obtain ⟨v3, hv3⟩ := Option.isSome_iff_exists.mp e3
  obtain ⟨v4, hv4⟩ := Option.isSome_iff_exists.mp e4
  obtain ⟨v5, hv5⟩ := Option.isSome_iff_exists.mp e5
  have key : ∀ w, beamCX E cf wl true c en T d z bf = Out.val w → 0 ≤ w :=
    fun w hw => beamCX_nonneg S cf wl true c en T d z bf w hw
  have hval : ∃ v, beamCX E cf wl true c en T d z bf = Out.val v := by
    unfold beamCX
    simp only []
    split_ifs
    · exact ⟨_, rfl⟩
    · rw [hv1]; simp only []
      rw [hv2]; simp only []
      cases clampMul (E.pow10 v1) v2 with
      | none => exact ⟨_, rfl⟩
      | some r1 =>
        simp only []
        rw [hv3]; simp only []
        cases clampMul r1 v3 with
        | none => exact ⟨_, rfl⟩
        | some r2 =>
          simp only []
          rw [hv4]; simp only []
          cases clampMul r2 v4 with
          | none => exact ⟨_, rfl⟩
          | some r3 =>
            simp only []
            rw [hv5]; simp only []
            cases clampMul r3 v5 with
            | none => exact ⟨_, rfl⟩
            | some r4 => exact ⟨_, rfl⟩
  obtain ⟨v, hv⟩ := hval
  exact ⟨v, key v hv, hv⟩


/-! ### the clamp chain: non-negativity of BeamCXPEC rests on *every* `if rate <= 0: return 0.0`

The factors `qti qni qz qb` are cubic-interpolated in linear space, so between knots of a steep (strictly positive)
table they can be negative.  `cxChainF` runs the chain with the clamp flags the translator reads from the source. -/

/-- the nested transcription `beamCX` is the fully clamped chain applied to the interpolators' values -/
theorem beamCX_eq_chain (E : Ext α) (cf wl : α) (ex : Bool) (c : CXTable α) (en T d z bf : α) :
    beamCX E cf wl ex c en T d z bf =
      if en ≤ 0 then Out.val 0 else
      match interpOrConst E (kindOf Extrap.quadratic ex) (c.eb.map E.logc)
          (c.qeb.map fun y => E.logc (photonToJ cf y wl)) (E.loge en) with
      | none => Out.valueError
      | some l => cxChain (E.pow10 l)
          [interpOrConst E (kindOf Extrap.nearest ex) c.ti (c.qti.map fun y => y / c.qref) T,
           interpOrConst E (kindOf Extrap.nearest ex) c.ni (c.qni.map fun y => y / c.qref) d,
           interpOrConst E (kindOf Extrap.nearest ex) c.z (c.qz.map fun y => y / c.qref) z,
           interpOrConst E (kindOf Extrap.nearest ex) c.b (c.qb.map fun y => y / c.qref) bf] := by
  unfold beamCX
  simp only []
  split_ifs with h0
  · rfl
  · cases interpOrConst E (kindOf Extrap.quadratic ex) (c.eb.map E.logc)
        (c.qeb.map fun y => E.logc (photonToJ cf y wl)) (E.loge en) with
    | none => rfl
    | some l =>
      simp only [cxChain, List.map_cons, List.map_nil]
      cases interpOrConst E (kindOf Extrap.nearest ex) c.ti (c.qti.map fun y => y / c.qref) T with
      | none => simp [cxChainF]
      | some f1 =>
        by_cases c1 : E.pow10 l * f1 ≤ 0
        · simp [cxChainF, clampMul, c1]
        · cases interpOrConst E (kindOf Extrap.nearest ex) c.ni (c.qni.map fun y => y / c.qref) d with
          | none => simp [cxChainF, clampMul, c1]
          | some f2 =>
            by_cases c2 : E.pow10 l * f1 * f2 ≤ 0
            · simp [cxChainF, clampMul, c1, c2]
            · cases interpOrConst E (kindOf Extrap.nearest ex) c.z (c.qz.map fun y => y / c.qref) z with
              | none => simp [cxChainF, clampMul, c1, c2]
              | some f3 =>
                by_cases c3 : E.pow10 l * f1 * f2 * f3 ≤ 0
                · simp [cxChainF, clampMul, c1, c2, c3]
                · cases interpOrConst E (kindOf Extrap.nearest ex) c.b (c.qb.map fun y => y / c.qref) bf with
                  | none => simp [cxChainF, clampMul, c1, c2, c3]
                  | some f4 =>
                    by_cases c4 : E.pow10 l * f1 * f2 * f3 * f4 ≤ 0
                    · simp [cxChainF, clampMul, c1, c2, c3, c4]
                    · simp [cxChainF, clampMul, c1, c2, c3, c4]

/-- **non-negativity of the chain** for any number of factors with any (also negative) values — *provided every
factor is clamped* -/
theorem cxChainF_nonneg (fs : List (Option α × Bool)) (hall : ∀ p ∈ fs, p.2 = true) (rate v : α) (hr : 0 < rate)
    (h : cxChainF rate fs = Out.val v) : 0 ≤ v := by
  induction fs generalizing rate with
  | nil => simp only [cxChainF] at h; cases h; exact hr.le
  | cons p rest ih =>
    obtain ⟨f, cl⟩ := p
    have hcl : cl = true := hall (f, cl) (by simp)
    subst hcl
    cases f with
    | none => simp [cxChainF] at h
    | some f =>
      simp only [cxChainF, true_and] at h
      split_ifs at h with hc
      · cases h; exact le_refl _
      · exact ih (fun p hp => hall p (List.mem_cons_of_mem _ hp)) (rate * f) (not_le.mp hc) h

/-- … and it **depends on the final clamp**: drop it (`return rate * self._b.evaluate(b_field)`) and a negative last
factor — a cubic undershoot of a steep positive `qb` table — comes out as a negative rate -/
theorem cxChainF_negative_without_final_clamp (fs : List (Option α × Bool)) (rate f r : α)
    (h : cxChainF rate fs = Out.val r) (hr : 0 < r) (hf : f < 0) :
    ∃ v, v < 0 ∧ cxChainF rate (fs ++ [(some f, false)]) = Out.val v := by
  induction fs generalizing rate with
  | nil =>
    simp only [cxChainF] at h
    cases h
    exact ⟨r * f, mul_neg_of_pos_of_neg hr hf, by simp [cxChainF]⟩
  | cons p rest ih =>
    obtain ⟨g, cl⟩ := p
    cases g with
    | none => simp [cxChainF] at h
    | some g =>
      simp only [cxChainF] at h
      simp only [List.cons_append, cxChainF]
      split_ifs at h with hc
      · cases h; exact absurd hr (lt_irrefl _)
      · rw [if_neg hc]; exact ih (rate * g) h

/-! ### BeamCXPEC as it is: the complete guard in front of the chain (`beamCXGuarded true`) -/

theorem beamCXGuarded_as_is (E : Ext α) (cf wl : α) (ex : Bool) (c : CXTable α) (en T d z bf : α) :
    beamCXGuarded false E cf wl ex c en T d z bf = beamCX E cf wl ex c en T d z bf := by
  simp [beamCXGuarded]

/-- **zero on a non-positive energy, temperature or density** (BeamCXPEC) -/
theorem beamCXGuarded_zero_on_nonpositive (E : Ext α) (cf wl : α) (ex : Bool) (c : CXTable α) (en T d z bf : α)
    (h : en ≤ 0 ∨ T ≤ 0 ∨ d ≤ 0) : beamCXGuarded true E cf wl ex c en T d z bf = Out.val 0 := by
  unfold beamCXGuarded
  rw [if_pos ⟨rfl, h⟩]

theorem beamCXGuarded_nonneg {E : Ext α} (S : ExtSpec E) (g : Bool) (cf wl : α) (ex : Bool) (c : CXTable α)
    (en T d z bf v : α) (h : beamCXGuarded g E cf wl ex c en T d z bf = Out.val v) : 0 ≤ v := by
  unfold beamCXGuarded at h
  split_ifs at h
  · cases h; exact le_refl _
  · exact beamCX_nonneg S cf wl ex c en T d z bf v h

/-- the guard does not disturb positive arguments: table reproduction etc. carry over verbatim -/
theorem beamCXGuarded_of_pos (g : Bool) (E : Ext α) (cf wl : α) (ex : Bool) (c : CXTable α) (en T d z bf : α)
    (hen : 0 < en) (hT : 0 < T) (hd : 0 < d) :
    beamCXGuarded g E cf wl ex c en T d z bf = beamCX E cf wl ex c en T d z bf := by
  unfold beamCXGuarded
  rw [if_neg]
  rintro ⟨_, h | h | h⟩
  · exact absurd hen (not_lt.mpr h)
  · exact absurd hT (not_lt.mpr h)
  · exact absurd hd (not_lt.mpr h)

/-- **table reproduction** (BeamCXPEC as it is) -/
theorem beamCXGuarded_at_knot {E : Ext α} (S : ExtSpec E) (g : Bool) (cf wl : α) (hcf : 0 < cf) (hwl : 0 < wl)
    (ex : Bool) (c : CXTable α) (h : WFC c) (hti : ∀ x ∈ c.ti, 0 < x) (hni : ∀ x ∈ c.ni, 0 < x)
    (i1 i2 i3 i4 i5 : Nat) (en T d z bf qe qt qn qz qb : α)
    (h1 : c.eb[i1]? = some en) (h2 : c.ti[i2]? = some T) (h3 : c.ni[i3]? = some d) (h4 : c.z[i4]? = some z)
    (h5 : c.b[i5]? = some bf) (g1 : c.qeb[i1]? = some qe) (g2 : c.qti[i2]? = some qt) (g3 : c.qni[i3]? = some qn)
    (g4 : c.qz[i4]? = some qz) (g5 : c.qb[i5]? = some qb) (hle : E.loge en = E.logc en) :
    beamCXGuarded g E cf wl ex c en T d z bf =
      Out.val (photonToJ cf (qe * qt * qn * qz * qb / c.qref ^ 4) wl) := by
  rw [beamCXGuarded_of_pos g E cf wl ex c en T d z bf (h.eb.2 en (List.mem_of_getElem? h1))
    (hti T (List.mem_of_getElem? h2)) (hni d (List.mem_of_getElem? h3)),
    beamCX_at_knot S cf wl hcf hwl ex c h i1 i2 i3 i4 i5 en T d z bf qe qt qn qz qb h1 h2 h3 h4 h5 g1 g2 g3 g4 g5 hle,
    beamCX_documented_product cf wl qe qt qn qz qb c.qref h.qref.ne']

/-- **range policy** (BeamCXPEC as it is): with extrapolation permitted it never raises -/
theorem beamCXGuarded_extrapolated_returns {E : Ext α} (S : ExtSpec E) (g : Bool) (cf wl : α) (c : CXTable α)
    (h : WFC c) (en T d z bf : α) : ∃ v, 0 ≤ v ∧ beamCXGuarded g E cf wl true c en T d z bf = Out.val v := by
  unfold beamCXGuarded
  split_ifs
  · exact ⟨0, le_refl _, rfl⟩
  · exact beamCX_extrapolated_returns S cf wl c h en T d z bf

/-! ## accessor policy: general theorems about `Policy.run` for an *arbitrary* accessor descriptor

`Props/C07Table.lean` shows which of the generated descriptors are `Uniform`; these theorems say what uniformity buys
(the property's missing-data / isotope / wavelength clauses) and what each kind of deviation causes. -/

section policy

open Cherab.Rates.Policy


/-- **missing data**: a uniform accessor raises `RuntimeError`, or, if null rates were requested, returns its Null
rate (zero everywhere by `null_rate_zero` / `null_classes_zero`) -/
theorem missing_policy (sigs : List NullSig) (w : WavelengthPolicy) (a : Accessor) (c : Call)
    (hu : Uniform sigs a = true) (hmiss : c.stored.contains (keyOf a c) = false) :
    run sigs w a c = if c.nullRequested then Result.null a.nullInList else Result.raises "RuntimeError" := by
  obtain ⟨hr, hh, hc, hn, _, _, _⟩ := uniform_unpack hu
  unfold run
  simp only [hr, hh, hmiss, hc, hn, Bool.not_true, Bool.or_self, Bool.false_eq_true, if_false, Bool.not_false, if_true]
  have : catchesRuntimeError ["RuntimeError"] = true := by decide
  rw [this]
  simp


/-- **isotopes are served from the element's rates**: every symbol in the repository key of a uniform accessor is the
*element* symbol of one of the species arguments -/
theorem uniform_reads_element (sigs : List NullSig) (a : Accessor) (c : Call) (hu : Uniform sigs a = true)
    (hc : ∀ sp ∈ c.species, sp.param ∈ a.species) :
    ∀ s ∈ keyOf a c, ∃ sp ∈ c.species, s = sp.elemSym := by
  obtain ⟨_, _, _, _, hraw, _, _⟩ := uniform_unpack hu
  intro s hs
  unfold keyOf at hs
  obtain ⟨x, hx, hsym⟩ := List.mem_filterMap.mp hs
  cases x with
  | raw p =>
    simp only [symOf, Option.map_eq_some_iff] at hsym
    obtain ⟨sp, hf, _⟩ := hsym
    have hmem : sp ∈ c.species := List.mem_of_find?_eq_some hf
    have hp : sp.param = p := by simpa using List.find?_some hf
    have := hraw _ hx p rfl
    have hin := hc sp hmem
    rw [hp] at hin
    simp [hin] at this
  | elem p =>
    simp only [symOf, Option.map_eq_some_iff] at hsym
    obtain ⟨sp, hf, hs'⟩ := hsym
    exact ⟨sp, List.mem_of_find?_eq_some hf, hs'.symm⟩
  | other o => simp [symOf] at hsym


/-- … and every species argument contributes (its element) to the key -/
theorem uniform_key_covers_species (sigs : List NullSig) (a : Accessor) (c : Call) (hu : Uniform sigs a = true)
    (sp : Sp) (hf : findSp c sp.param = some sp) (hp : sp.param ∈ a.species) : sp.elemSym ∈ keyOf a c := by
  obtain ⟨_, _, _, _, _, hel, _⟩ := uniform_unpack hu
  unfold keyOf
  exact List.mem_filterMap.mpr ⟨Src.elem sp.param, hel _ hp, by simp [symOf, hf]⟩


/-- **wavelength of the requested species**: for a uniform accessor of a photon coefficient under the documented
`wavelength` method, the conversion uses the requested species' own wavelength when stored, the element's only for an
isotope with `wavelength_element_fallback`, and otherwise the call raises `RuntimeError` -/
theorem uniform_wavelength_requested (sigs : List NullSig) (w : WavelengthPolicy) (a : Accessor) (c : Call)
    (wc : WlCall) (p : String) (sp : Sp) (hu : Uniform sigs a = true) (hw : WlUniform w = true)
    (hwl : a.wl = some wc) (hsp : wc.species = Src.raw p) (hf : findSp c p = some sp)
    (hpres : c.stored.contains (keyOf a c) = true) :
    run sigs w a c =
      if c.wlStored.contains sp.sym then Result.rate (keyOf a c) (some sp.sym) a.rateInList
      else if sp.isIsotope && c.wlFallback && c.wlStored.contains sp.elemSym then
        Result.rate (keyOf a c) (some sp.elemSym) a.rateInList
      else Result.raises "RuntimeError" := by
  obtain ⟨hr, hh, _, _, _, _, _⟩ := uniform_unpack hu
  simp only [WlUniform, Bool.and_eq_true] at hw
  obtain ⟨⟨⟨⟨wr, wg⟩, wcg⟩, wf⟩, wp⟩ := hw
  have wcg' : w.caught = ["RuntimeError"] := eq_of_beq wcg
  have hcatch : catchesRuntimeError ["RuntimeError"] = true := by decide
  unfold run
  simp only [hr, hh, hpres, hwl, Bool.not_true, Bool.or_self, Bool.false_eq_true, if_false]
  unfold wavelengthLookup
  simp only [wr, wp, hsp, hf, wg, wcg', hcatch, wf, Bool.not_true, Bool.or_self, Bool.false_eq_true, if_false,
    Bool.true_and, if_true]
  by_cases h1 : sp.sym ∈ c.wlStored <;> by_cases h2 : sp.isIsotope = true <;> by_cases h3 : c.wlFallback = true <;>
    by_cases h4 : sp.elemSym ∈ c.wlStored <;> simp [h1, h2, h3, h4]


/-- a uniform accessor that converts photons asks for the wavelength of a species *as requested* -/
theorem uniform_wl_raw (sigs : List NullSig) (a : Accessor) (wc : WlCall) (hu : Uniform sigs a = true)
    (hwl : a.wl = some wc) : ∃ p, wc.species = Src.raw p ∧ a.species.contains p = true := by
  simp only [Uniform, Bool.and_eq_true, hwl] at hu
  obtain ⟨⟨_, hw⟩, _⟩ := hu
  cases hs : wc.species with
  | raw p => rw [hs] at hw; exact ⟨p, rfl, hw⟩
  | elem p => rw [hs] at hw; simp at hw
  | other o => rw [hs] at hw; simp at hw


/-- deviation 1 (today: `recombination_pec`): an `except` clause that does not catch `RuntimeError` lets the
repository's error through even when null rates were requested -/
theorem wrong_except_clause_defeats_null (sigs : List NullSig) (w : WavelengthPolicy) (a : Accessor) (c : Call)
    (hr : a.recognised = true) (hh : a.handlerStd = true) (hc : catchesRuntimeError a.caught = false)
    (hmiss : c.stored.contains (keyOf a c) = false) : run sigs w a c = Result.raises "RuntimeError" := by
  have hm : keyOf a c ∉ c.stored := by simpa using hmiss
  unfold run
  simp [hr, hh, hm, hc]


/-- deviation 2 (today: `beam_cx_pec`): a Null constructor called with an argument list its class rejects turns a
null request into a `TypeError` -/
theorem bad_null_arity_raises_typeerror (sigs : List NullSig) (w : WavelengthPolicy) (a : Accessor) (c : Call)
    (hr : a.recognised = true) (hh : a.handlerStd = true) (hc : catchesRuntimeError a.caught = true)
    (hn : nullArity sigs a.nullClass a.nullArgs.length = false) (hnull : c.nullRequested = true)
    (hmiss : c.stored.contains (keyOf a c) = false) : run sigs w a c = Result.raises "TypeError" := by
  have hm : keyOf a c ∉ c.stored := by simpa using hmiss
  unfold run
  simp [hr, hh, hm, hc, hn, hnull]


/-- deviation 3 (today: `thermal_cx_pec`): when the wavelength is requested for the *element* of an argument, an
isotope's own stored wavelength is never used — the element's is, or the call raises although the isotope's exists -/
theorem element_wavelength_ignores_isotope (sigs : List NullSig) (w : WavelengthPolicy) (a : Accessor) (c : Call)
    (wc : WlCall) (p : String) (sp : Sp) (hr : a.recognised = true) (hh : a.handlerStd = true)
    (wr : w.recognised = true) (wp : w.plainUsesRaw = true) (hwl : a.wl = some wc) (hsp : wc.species = Src.elem p)
    (hf : findSp c p = some sp) (hpres : c.stored.contains (keyOf a c) = true) :
    run sigs w a c = if c.wlStored.contains sp.elemSym then Result.rate (keyOf a c) (some sp.elemSym) a.rateInList
      else Result.raises "RuntimeError" := by
  unfold run
  simp only [hr, hh, hpres, hwl, Bool.not_true, Bool.or_self, Bool.false_eq_true, if_false]
  unfold wavelengthLookup
  simp only [wr, wp, hsp, hf, Bool.not_true, Bool.or_self, Bool.false_eq_true, if_false]
  by_cases h : sp.elemSym ∈ c.wlStored <;> simp [h]


end policy


/-! ## Non-vacuity: the hypotheses are satisfiable

`ExtSpec` is realised over ℝ by `10 ^ x`, `Real.logb 10` and a "look the knot up" interpolant (value at a knot, 0
elsewhere, `none` outside the knot range iff the extrapolation type is 'none').  The theorems above are then applied
to concrete tables. -/

section nonvacuity

open Classical


/-- a concrete 2×2 table -/
def exTable : Table2 ℝ := ⟨[1, 10], [2, 20], [[3, 4], [5, 6]]⟩


theorem exTable_wf : WF2 exTable := by
  refine ⟨⟨?_, ?_⟩, ⟨?_, ?_⟩, rfl, ?_, ?_⟩
  · simp [Sorted, exTable]
  · intro x hx; simp [exTable] at hx; rcases hx with rfl | rfl <;> norm_num
  · simp [Sorted, exTable]; norm_num
  · intro x hx; simp [exTable] at hx; rcases hx with rfl | rfl <;> norm_num
  · intro r hr; simp [exTable] at hr; rcases hr with rfl | rfl <;> rfl
  · intro r hr y hy
    simp [exTable] at hr
    rcases hr with rfl | rfl <;> simp at hy <;> rcases hy with rfl | rfl <;> norm_num


/-- table reproduction on the concrete table: grid point (10, 2) ↦ stored value 5 (no photon conversion) … -/
example : grid2 (realExt 0) 1 none Extrap.nearest false exTable 10 2 = Out.val 5 :=
  grid2_at_knot_raw (realExt_spec 0) realExt_logAgree 1 none one_pos (by simp) Extrap.nearest false exTable exTable_wf
    (by simp [exTable]) (by simp [exTable]) 1 0 10 2 5 [5, 6] rfl rfl rfl rfl


/-- … and with the photon conversion `x · cf / λ` -/
example : grid2 (realExt 0) 3 (some 2) Extrap.nearest true exTable 1 20 = Out.val (4 * 3 / 2) := by
  rw [← conv_photon]
  exact grid2_at_knot_raw (realExt_spec 0) realExt_logAgree 3 (some 2) (by norm_num) (by simp) Extrap.nearest true exTable
    exTable_wf (by simp [exTable]) (by simp [exTable]) 0 1 1 20 4 [3, 4] rfl rfl rfl rfl


/-- the float gap hypothesis is satisfiable: with `evaluate`'s log10 one unit below the constructor's, the first
grid point raises although the contract of every external function holds -/
example : grid2 (realExt 1) 1 none Extrap.nearest false exTable 1 2 = Out.valueError :=
  grid2_edge_knot_raises (realExt_spec 1) 1 none Extrap.nearest exTable exTable_wf (by simp [exTable])
    (by simp [exTable]) 1 2 (by norm_num) rfl (by simp [realExt])


/-- below the range without extrapolation: raises; with: returns -/
example : grid2 (realExt 0) 1 none Extrap.linear false exTable (1 / 2) 2 = Out.valueError :=
  grid2_below_density_range_raises (realExt_spec 0) realExt_logAgree 1 none Extrap.linear exTable exTable_wf
    (by simp [exTable]) (by simp [exTable]) (1 / 2) 2 1 (by norm_num) (by norm_num) rfl (by norm_num)


example : ∃ v, 0 < v ∧ grid2 (realExt 0) 1 none Extrap.linear true exTable (1 / 2) 2 = Out.val v :=
  grid2_extrapolated_returns (realExt_spec 0) 1 none Extrap.linear (by decide) exTable exTable_wf (by simp [exTable])
    (by simp [exTable]) (1 / 2) 2 (by norm_num) (by norm_num)


/-- beam coefficient with a single-point energy axis (the `IsoMapper2D(Arg2D('y'), Interpolator1DArray)` branch):
`sen · st / sref` at the grid point (5, 10, 20) -/
def exBeam : BeamTable ℝ := ⟨[5], [1, 10], [2, 20], [[3, 4]], [6, 8], 2⟩


theorem exBeam_wf : WFB exBeam := by
  refine ⟨⟨by simp [Sorted, exBeam], ?_⟩, ⟨by simp [Sorted, exBeam], ?_⟩, ⟨by simp [Sorted, exBeam]; norm_num, ?_⟩,
    by simp [exBeam], by simp [exBeam], by simp [exBeam], rfl, ?_, rfl, ?_, ?_, by simp [exBeam]⟩
  · intro x hx; simp [exBeam] at hx; subst hx; norm_num
  · intro x hx; simp [exBeam] at hx; rcases hx with rfl | rfl <;> norm_num
  · intro x hx; simp [exBeam] at hx; rcases hx with rfl | rfl <;> norm_num
  · intro r hr; simp [exBeam] at hr; subst hr; rfl
  · intro r hr y hy; simp [exBeam] at hr; subst hr; simp at hy; rcases hy with rfl | rfl <;> norm_num
  · intro y hy; simp [exBeam] at hy; rcases hy with rfl | rfl <;> norm_num


example : beam (realExt 0) 1 none false exBeam 5 10 20 = Out.val (4 * 8 / 2) :=
  beam_at_knot (realExt_spec 0) 1 none one_pos (by simp) false exBeam exBeam_wf 0 1 1 5 10 20 4 8 [3, 4]
    rfl rfl rfl rfl rfl rfl (by simp [realExt]) (by simp [realExt]) (by simp [realExt])


/-- beam CX with single-point axes: a non-positive temperature and density do *not* give zero -/
def exCX : CXTable ℝ := ⟨[1], [1], [1], [1], [1], [2], [3], [5], [7], [11], 1⟩


example : beamCX (realExt 0) 1 1 true exCX 1 (-1) 0 1 1 ≠ Out.val 0 :=
  beamCX_not_zero_on_nonpositive_temperature (realExt_spec 0) 1 1 one_pos one_pos true exCX 2 3 5 7 11 rfl rfl rfl rfl
    rfl (by norm_num) (by norm_num) (by norm_num) (by norm_num) (by norm_num) (by simp [exCX]) 1 one_pos (-1) 0 1 1
    (Or.inl (by norm_num))


end nonvacuity



/-! ## Proof-deepening pass

### single-point axes, per axis: no dependence, hence no range to leave -/

/-- a single-point component is a `Constant1D`: the same value at every abscissa, for every extrapolation setting -/
theorem interpOrConst_single_point (E : Ext α) (k k' : Extrap) (x q : List α) (hq : q.length = 1) (p p' : α) :
    interpOrConst E k x q p = interpOrConst E k' x q p' ∧ (interpOrConst E k x q p).isSome := by
  unfold interpOrConst
  rw [if_neg (by omega), if_neg (by omega)]
  exact ⟨rfl, rfl⟩

/-- beam coefficients, single-point **energy** axis (several densities): the energy–density factor does not look at the
energy — any energy, inside or outside what would be a range, gives the same factor -/
theorem beamNpl_single_energy_axis (E : Ext α) (cf : α) (wl : Option α) (ex : Bool) (b : BeamTable α)
    (he : b.e.length = 1) (en en' d : α) : beamNpl E cf wl ex b en d = beamNpl E cf wl ex b en' d := by
  unfold beamNpl
  simp only []
  split_ifs with c1 c2 c3
  · rfl
  · rfl
  · exact absurd (by simp [he]) c2
  · exact absurd (by simp [he]) c2

/-- … and single-point **density** axis (several energies): the factor does not look at the density -/
theorem beamNpl_single_density_axis (E : Ext α) (cf : α) (wl : Option α) (ex : Bool) (b : BeamTable α)
    (hn : b.n.length = 1) (en d d' : α) : beamNpl E cf wl ex b en d = beamNpl E cf wl ex b en d' := by
  unfold beamNpl
  simp only []
  split_ifs with c1 c2 c3
  · rfl
  · exact absurd (by simp only [Bool.and_eq_true, beq_iff_eq] at c2 ⊢; exact ⟨c2, hn⟩) c1
  · rfl
  · exact absurd (by simp [hn]) c3

/-- hence the whole beam coefficient: along a single-point energy axis every positive energy gives the same result
(value or raise), with either extrapolation setting — there is no range policy along such an axis -/
theorem beam_single_energy_axis_no_range (E : Ext α) (cf : α) (wl : Option α) (ex : Bool) (b : BeamTable α)
    (he : b.e.length = 1) (en en' d T : α) (h : 0 < en) (h' : 0 < en') :
    beam E cf wl ex b en d T = beam E cf wl ex b en' d T := by
  unfold beam
  rw [beamNpl_single_energy_axis E cf wl ex b he en en' d]
  by_cases hc : beamCtorOk b = true
  · simp only [hc, Bool.not_true, Bool.false_eq_true, if_false]
    have e1 : (en ≤ 0 ∨ d ≤ 0 ∨ T ≤ 0) ↔ (en' ≤ 0 ∨ d ≤ 0 ∨ T ≤ 0) := by
      constructor <;> rintro (h1 | h1) <;> first | exact absurd h1 (not_le.mpr ‹_›) | exact Or.inr h1
    by_cases hg : en ≤ 0 ∨ d ≤ 0 ∨ T ≤ 0
    · rw [if_pos hg, if_pos (e1.mp hg)]
    · rw [if_neg hg, if_neg (fun h2 => hg (e1.mpr h2))]
  · simp [hc]

theorem beam_single_density_axis_no_range (E : Ext α) (cf : α) (wl : Option α) (ex : Bool) (b : BeamTable α)
    (hn : b.n.length = 1) (en d d' T : α) (h : 0 < d) (h' : 0 < d') :
    beam E cf wl ex b en d T = beam E cf wl ex b en d' T := by
  unfold beam
  rw [beamNpl_single_density_axis E cf wl ex b hn en d d']
  by_cases hc : beamCtorOk b = true
  · simp only [hc, Bool.not_true, Bool.false_eq_true, if_false]
    have e1 : (en ≤ 0 ∨ d ≤ 0 ∨ T ≤ 0) ↔ (en ≤ 0 ∨ d' ≤ 0 ∨ T ≤ 0) := by
      constructor <;> rintro (h1 | h1 | h1) <;>
        first | exact Or.inl h1 | exact absurd h1 (not_le.mpr ‹_›) | exact Or.inr (Or.inr h1)
    by_cases hg : en ≤ 0 ∨ d ≤ 0 ∨ T ≤ 0
    · rw [if_pos hg, if_pos (e1.mp hg)]
    · rw [if_neg hg, if_neg (fun h2 => hg (e1.mpr h2))]
  · simp [hc]

/-- BeamCXPEC, per linear axis: a single-point `qti` (resp. `qni`, `qz`, `qb`) makes the rate independent of the
temperature (resp. density, Z_eff, B) — for positive temperatures / densities, which the leading guard lets through -/
theorem beamCX_single_temperature_axis_no_range (E : Ext α) (cf wl : α) (ex : Bool) (c : CXTable α)
    (h1 : c.qti.length = 1) (en T T' d z bf : α) :
    beamCX E cf wl ex c en T d z bf = beamCX E cf wl ex c en T' d z bf := by
  unfold beamCX
  simp only []
  rw [(interpOrConst_single_point E (kindOf Extrap.nearest ex) (kindOf Extrap.nearest ex) c.ti
    (c.qti.map fun y => y / c.qref) (by simpa using h1) T T').1]

theorem beamCX_single_density_axis_no_range (E : Ext α) (cf wl : α) (ex : Bool) (c : CXTable α)
    (h1 : c.qni.length = 1) (en T d d' z bf : α) :
    beamCX E cf wl ex c en T d z bf = beamCX E cf wl ex c en T d' z bf := by
  unfold beamCX
  simp only []
  rw [(interpOrConst_single_point E (kindOf Extrap.nearest ex) (kindOf Extrap.nearest ex) c.ni
    (c.qni.map fun y => y / c.qref) (by simpa using h1) d d').1]

theorem beamCX_single_zeff_axis_no_range (E : Ext α) (cf wl : α) (ex : Bool) (c : CXTable α)
    (h1 : c.qz.length = 1) (en T d z z' bf : α) :
    beamCX E cf wl ex c en T d z bf = beamCX E cf wl ex c en T d z' bf := by
  unfold beamCX
  simp only []
  rw [(interpOrConst_single_point E (kindOf Extrap.nearest ex) (kindOf Extrap.nearest ex) c.z
    (c.qz.map fun y => y / c.qref) (by simpa using h1) z z').1]

theorem beamCX_single_bfield_axis_no_range (E : Ext α) (cf wl : α) (ex : Bool) (c : CXTable α)
    (h1 : c.qb.length = 1) (en T d z bf bf' : α) :
    beamCX E cf wl ex c en T d z bf = beamCX E cf wl ex c en T d z bf' := by
  unfold beamCX
  simp only []
  rw [(interpOrConst_single_point E (kindOf Extrap.nearest ex) (kindOf Extrap.nearest ex) c.b
    (c.qb.map fun y => y / c.qref) (by simpa using h1) bf bf').1]

/-- non-vacuity: the single-energy beam table of the examples above -/
example : beam (realExt 0) 1 none false exBeam 5 10 20 = beam (realExt 0) 1 none false exBeam 7000 10 20 :=
  beam_single_energy_axis_no_range (realExt 0) 1 none false exBeam rfl 5 7000 10 20 (by norm_num) (by norm_num)

example : beamCX (realExt 0) 1 1 false exCX 1 3 1 1 1 = beamCX (realExt 0) 1 1 false exCX 1 900 1 1 1 :=
  beamCX_single_temperature_axis_no_range (realExt 0) 1 1 false exCX rfl 1 3 900 1 1 1


/-! ### provider statelessness: a memoising provider refines the stateless one iff its key determines the answer -/
section memo
open Cherab.Rates.Memo
variable {ρ κ σ : Type} [DecidableEq κ]

/-- invariant of the memo: every remembered answer is the function's answer for some request with that key -/
def MemoOk (key : ρ → κ) (f : ρ → σ) (memo : List (κ × σ)) : Prop := ∀ e ∈ memo, ∃ r, key r = e.1 ∧ e.2 = f r

theorem memo_step_spec (key : ρ → κ) (f : ρ → σ) (hk : ∀ r r', key r = key r' → f r = f r') (memo : List (κ × σ))
    (hm : MemoOk key f memo) (r : ρ) : (step key f memo r).2 = f r ∧ MemoOk key f (step key f memo r).1 := by
  unfold step
  cases hfind : memo.find? (fun e => e.1 = key r) with
  | some e =>
    have hmem := List.mem_of_find?_eq_some hfind
    have hkey : e.1 = key r := by simpa using List.find?_some hfind
    obtain ⟨r', hr', hv⟩ := hm e hmem
    exact ⟨by simp only []; rw [hv]; exact hk r' r (hr'.trans hkey), hm⟩
  | none =>
    refine ⟨rfl, ?_⟩
    intro e he
    rcases List.mem_cons.mp he with rfl | he
    · exact ⟨r, rfl, rfl⟩
    · exact hm e he

/-- **statelessness, sufficiency**: when the key determines the answer, the memoising provider answers *every* history
of requests exactly like the stateless function (the answer to a request is independent of all earlier requests) -/
theorem memo_transparent (key : ρ → κ) (f : ρ → σ) (hk : ∀ r r', key r = key r' → f r = f r') (memo : List (κ × σ))
    (hm : MemoOk key f memo) (hist : List ρ) : answers key f memo hist = hist.map f := by
  induction hist generalizing memo with
  | nil => rfl
  | cons r rest ih =>
    obtain ⟨h1, h2⟩ := memo_step_spec key f hk memo hm r
    simp only [answers, List.map_cons, h1, ih _ h2]

/-- **necessity** (the seeded wavelength cache): two requests with the same key and different answers, asked in a row,
make the provider give the first one's answer to the second -/
theorem memo_coarse_key_witness (key : ρ → κ) (f : ρ → σ) (r r' : ρ) (hkey : key r = key r') :
    answers key f [] [r, r'] = [f r, f r] := by
  simp [answers, step, hkey]

/-- the two together: transparency for all histories ⇔ the key determines the answer -/
theorem memo_transparent_iff (key : ρ → κ) (f : ρ → σ) :
    (∀ hist, answers key f [] hist = hist.map f) ↔ (∀ r r', key r = key r' → f r = f r') := by
  constructor
  · intro h r r' hkey
    have h1 := h [r, r']
    rw [memo_coarse_key_witness key f r r' hkey] at h1
    simpa using h1
  · intro hk hist
    exact memo_transparent key f hk [] (fun e he => absurd he (by simp)) hist

/-- non-vacuity: a memo keyed by the request itself is transparent … -/
example : answers (fun n : Nat => n) (fun n => n * n) [] [3, 4, 3] = [9, 16, 9] :=
  memo_transparent _ _ (fun _ _ h => by rw [h]) [] (fun e he => absurd he (by simp)) _

/-- … one keyed too coarsely (parity) is not -/
example : answers (fun n : Nat => n % 2) (fun n => n * n) [] [3, 5] = [9, 9] :=
  memo_coarse_key_witness _ _ 3 5 rfl

end memo


/-! ### the guard-order decision table, uniformly: the zero guard wins in every class and every argument position -/

/-- a table of any of the four shapes -/
inductive Tab (α : Type)
  | g2 (t : Table2 α)
  | g3 (t : Table3 α)
  | bm (b : BeamTable α)
  | cx (c : CXTable α)

/-- the constructor succeeds (otherwise the accessor raises and no rate object exists) -/
def Tab.ctorOk : Tab α → Prop
  | Tab.g2 t => 2 ≤ t.ne.length ∧ 2 ≤ t.te.length
  | Tab.g3 t => 2 ≤ t.ne.length ∧ 2 ≤ t.te.length ∧ 2 ≤ t.td.length
  | Tab.bm b => beamCtorOk b = true
  | Tab.cx _ => True

/-- number of leading `evaluate` parameters that are a density, a temperature or an energy
(`guard_positions_table` in `Props/C07Table.lean` ties this to the parameter names of the generated table) -/
def Tab.dteCount : Tab α → Nat
  | Tab.g2 _ => 2
  | Tab.g3 _ => 3
  | Tab.bm _ => 3
  | Tab.cx _ => 3

/-- `RateClass(table, …)(args…)` for any class (`none` = wrong number of arguments) -/
def evalClass (E : Ext α) (cf : α) (wl : Option α) (onExtrap : Extrap) (ex : Bool) (tab : Tab α) (args : List α) :
    Option (Out α) :=
  match tab with
  | Tab.g2 t => match args with
    | [d, T] => some (grid2 E cf wl onExtrap ex t d T)
    | _ => none
  | Tab.g3 t => match args with
    | [d, T, D] => some (grid3 E cf (wl.getD 1) ex t d T D)
    | _ => none
  | Tab.bm b => match args with
    | [en, d, T] => some (beam E cf wl ex b en d T)
    | _ => none
  | Tab.cx c => match args with
    | [en, T, d, z, bf] => some (beamCXGuarded true E cf (wl.getD 1) ex c en T d z bf)
    | _ => none

/-- **the zero guard wins** — for every class, every density / temperature / energy position, *whatever the other
arguments are* (inside, outside the table, on a knot, non-positive themselves), whatever the extrapolation setting, the
wavelength, and whatever the external functions do (no hypothesis on `E`: also when an interpolator would raise) -/
theorem zero_guard_wins (E : Ext α) (cf : α) (wl : Option α) (k : Extrap) (ex : Bool) (tab : Tab α) (args : List α)
    (hc : tab.ctorOk) (i : Nat) (x : α) (hi : i < tab.dteCount) (hx : args[i]? = some x) (hneg : x ≤ 0) (out : Out α)
    (hout : evalClass E cf wl k ex tab args = some out) : out = Out.val 0 := by
  cases tab with
  | g2 t =>
    rcases args with _ | ⟨d, _ | ⟨T, _ | ⟨_, _⟩⟩⟩ <;> simp only [evalClass, Option.some.injEq, reduceCtorEq] at hout
    subst hout
    apply grid2_zero_on_nonpositive E cf wl k ex t hc.1 hc.2
    simp only [Tab.dteCount] at hi
    rcases i with _ | _ | i
    · simp at hx; subst hx; exact Or.inl hneg
    · simp at hx; subst hx; exact Or.inr hneg
    · omega
  | g3 t =>
    rcases args with _ | ⟨d, _ | ⟨T, _ | ⟨D, _ | ⟨_, _⟩⟩⟩⟩ <;>
      simp only [evalClass, Option.some.injEq, reduceCtorEq] at hout
    subst hout
    apply grid3_zero_on_nonpositive E cf _ ex t hc.1 hc.2.1 hc.2.2
    simp only [Tab.dteCount] at hi
    rcases i with _ | _ | _ | i
    · simp at hx; subst hx; exact Or.inl hneg
    · simp at hx; subst hx; exact Or.inr (Or.inl hneg)
    · simp at hx; subst hx; exact Or.inr (Or.inr hneg)
    · omega
  | bm b =>
    rcases args with _ | ⟨en, _ | ⟨d, _ | ⟨T, _ | ⟨_, _⟩⟩⟩⟩ <;>
      simp only [evalClass, Option.some.injEq, reduceCtorEq] at hout
    subst hout
    apply beam_zero_on_nonpositive E cf wl ex b hc
    simp only [Tab.dteCount] at hi
    rcases i with _ | _ | _ | i
    · simp at hx; subst hx; exact Or.inl hneg
    · simp at hx; subst hx; exact Or.inr (Or.inl hneg)
    · simp at hx; subst hx; exact Or.inr (Or.inr hneg)
    · omega
  | cx c =>
    rcases args with _ | ⟨en, _ | ⟨T, _ | ⟨d, _ | ⟨z, _ | ⟨bf, _ | ⟨_, _⟩⟩⟩⟩⟩⟩ <;>
      simp only [evalClass, Option.some.injEq, reduceCtorEq] at hout
    subst hout
    apply beamCXGuarded_zero_on_nonpositive E cf _ ex c
    simp only [Tab.dteCount] at hi
    rcases i with _ | _ | _ | i
    · simp at hx; subst hx; exact Or.inl hneg
    · simp at hx; subst hx; exact Or.inr (Or.inl hneg)
    · simp at hx; subst hx; exact Or.inr (Or.inr hneg)
    · omega

/-- the rest of the decision table for the 2-D classes in one statement: with positive arguments, outside the table
raises iff extrapolation is off, otherwise a positive value comes back -/
theorem grid2_decision_table {E : Ext α} (S : ExtSpec E) (cf : α) (wl : Option α) (k : Extrap) (hk : k ≠ Extrap.none)
    (ex : Bool) (t : Table2 α) (h : WF2 t) (h1 : 2 ≤ t.ne.length) (h2 : 2 ≤ t.te.length) (d T : α) :
    ((d ≤ 0 ∨ T ≤ 0) → grid2 E cf wl k ex t d T = Out.val 0) ∧
    (0 < d → 0 < T → ex = false →
      (Below (t.ne.map E.logc) (E.loge d) ∨ Above (t.ne.map E.logc) (E.loge d) ∨
        Below (t.te.map E.logc) (E.loge T) ∨ Above (t.te.map E.logc) (E.loge T)) →
      grid2 E cf wl k ex t d T = Out.valueError) ∧
    (0 < d → 0 < T → (ex = true ∨ (Within (t.ne.map E.logc) (E.loge d) ∧ Within (t.te.map E.logc) (E.loge T))) →
      ∃ v, 0 < v ∧ grid2 E cf wl k ex t d T = Out.val v) := by
  refine ⟨grid2_zero_on_nonpositive E cf wl k ex t h1 h2 d T, ?_, ?_⟩
  · intro hd hT hex hout
    subst hex
    exact grid2_outside_raises S cf wl k t h h1 h2 d T hd hT hout
  · intro hd hT hcase
    rcases hcase with hex | ⟨w1, w2⟩
    · subst hex
      exact grid2_extrapolated_returns S cf wl k hk t h h1 h2 d T hd hT
    · exact grid2_within_returns S cf wl k ex t h h1 h2 d T hd hT w1 w2

/-- non-vacuity: a zero temperature beats an out-of-range density on the concrete table, extrapolation off -/
example : grid2 (realExt 0) 1 none Extrap.nearest false exTable (1 / 1000) 0 = Out.val 0 :=
  zero_guard_wins (realExt 0) 1 none Extrap.nearest false (Tab.g2 exTable) [1 / 1000, 0]
    ⟨by simp [exTable], by simp [exTable]⟩ 1 0 (by simp [Tab.dteCount]) rfl (le_refl _) _ rfl

end Cherab.Props.C07
