import Cherab.Model.BremsConfig
import Cherab.Gen.BremsFlags
import Mathlib.Data.List.Forall2

/-!
C03 round 6 — "…bremsstrahlung with the **provider's** Gaunt factor": which Gaunt factor a `Bremsstrahlung` instance
evaluates with after an arbitrary history of `gaunt_factor = …`, `atomic_data = …`, `plasma = …`, plasma change
notifications and `emission` calls.

Documented (class docstring): "gaunt_factor: … If not provided, the `atomic_data` is used."  The documented
configuration is the triple (plasma attached?, current provider, last assigned user Gaunt factor).
-/
namespace Cherab.Passive

/-- the documented configuration: what the user last assigned -/
structure BremsDoc where
  plasma : Bool
  atomic : Option Nat
  user : Option Nat
  deriving DecidableEq, Repr

def docStep (d : BremsDoc) : BremsOp → BremsDoc
  | .setGaunt v => { d with user := v }
  | .setAtomic a => { d with atomic := a }
  | .setPlasma => { d with plasma := true }
  | .change => d
  | .eval => d

/-- documented outcome of an evaluation: the user's Gaunt factor if one is assigned, else the current provider's -/
def docEval (d : BremsDoc) : BremsOut :=
  if !d.plasma then .errNoPlasma
  else match d.user with
    | some g => .used (.user g)
    | none => match d.atomic with
      | none => .errNoAtomic
      | some a => .used (.provider a)

def docOut (d : BremsDoc) : BremsOp → BremsOut
  | .eval => docEval d
  | _ => .silent

def docRun : BremsDoc → List BremsOp → List BremsOut
  | _, [] => []
  | d, o :: os => docOut d o :: docRun (docStep d o) os

/-- simulation relation between the instance and the documented configuration -/
def CfgRel (s : BremsCfg) (d : BremsDoc) : Prop :=
  s.plasma = d.plasma ∧ s.atomic = d.atomic ∧ s.userProvided = d.user.isSome ∧
  (∀ g, d.user = some g → s.gaunt = some (.user g)) ∧
  (d.user = none → s.gaunt = none ∨ ∃ a, s.gaunt = some (.provider a) ∧ s.atomic = some a ∧ s.loaded = true) ∧
  (s.loaded = true → s.plasma = true)

/-- the state the code can be in but must not evaluate in: arrays cached, no Gaunt factor held -/
def CfgBad (s : BremsCfg) : Prop := s.loaded = true ∧ s.gaunt = none

theorem cfgInit_rel (p : Bool) (a g : Option Nat) : CfgRel (cfgInit p a g) ⟨p, a, g⟩ ∧ ¬ CfgBad (cfgInit p a g) := by
  cases g <;> simp [cfgInit, cfgChange, cfgSetGaunt, CfgRel, CfgBad]

/-- one operation: the relation is kept by **every** operation, and the output is the documented one unless the
operation is an `emission` in the bad state, where it is a call through `None` -/
theorem cfgStep_rel (gg : Bool) (s : BremsCfg) (d : BremsDoc) (op : BremsOp) (h : CfgRel s d) :
    CfgRel (cfgStep gg s op).1 (docStep d op) ∧
    ((cfgStep gg s op).2 = docOut d op ∨
      ((cfgStep gg s op).2 = .nullDeref ∧ op = .eval ∧ CfgBad s ∧ gg = false)) := by
  obtain ⟨sp, sa, sg, su, sl⟩ := s
  obtain ⟨dp, da, du⟩ := d
  obtain ⟨h1, h2, h3, h4, h5, h6⟩ := h
  simp only at h1 h2 h3 h4 h5 h6
  subst h1 h2
  cases op with
  | setGaunt v =>
    cases v <;> simp [cfgStep, cfgSetGaunt, docStep, docOut, CfgRel] <;> exact h6
  | setAtomic a =>
    cases du with
    | none =>
      simp at h3; subst h3
      simp [cfgStep, cfgChange, docStep, docOut, CfgRel]
    | some g =>
      simp at h3; subst h3
      have := h4 g rfl
      simp [cfgStep, cfgChange, docStep, docOut, CfgRel, this]
  | setPlasma =>
    cases du with
    | none =>
      simp at h3; subst h3
      simp [cfgStep, cfgChange, docStep, docOut, CfgRel]
    | some g =>
      simp at h3; subst h3
      have := h4 g rfl
      simp [cfgStep, cfgChange, docStep, docOut, CfgRel, this]
  | change =>
    cases du with
    | none =>
      simp at h3; subst h3
      simp [cfgStep, cfgChange, docStep, docOut, CfgRel]
    | some g =>
      simp at h3; subst h3
      have := h4 g rfl
      simp [cfgStep, cfgChange, docStep, docOut, CfgRel, this]
  | eval =>
    cases du with
    | some g =>
      simp at h3; subst h3
      have hg : sg = some (.user g) := h4 g rfl
      subst hg
      cases gg <;> cases sl <;> cases sp <;>
        simp_all [cfgStep, cfgEval, cfgPopulate, docStep, docOut, docEval, CfgRel, CfgBad]
    | none =>
      simp at h3; subst h3
      have h5' : sg = none ∨ ∃ a, sg = some (.provider a) ∧ sa = some a ∧ sl = true := h5 rfl
      cases gg <;> cases sl <;> cases sp <;> cases sa <;> rcases h5' with hg | ⟨a, hg, ha, hl⟩ <;>
        simp_all [cfgStep, cfgEval, cfgPopulate, docStep, docOut, docEval, CfgRel, CfgBad]

/-- the bad state is entered only by un-assigning the Gaunt factor (`gaunt_factor = None`) -/
theorem cfgStep_keeps_good (gg : Bool) (s : BremsCfg) (d : BremsDoc) (op : BremsOp) (h : CfgRel s d) (hg : ¬ CfgBad s)
    (hop : op ≠ .setGaunt none) : ¬ CfgBad (cfgStep gg s op).1 := by
  obtain ⟨sp, sa, sg, su, sl⟩ := s
  obtain ⟨dp, da, du⟩ := d
  obtain ⟨h1, h2, h3, h4, h5, h6⟩ := h
  simp only at h1 h2 h3 h4 h5 h6
  cases op with
  | setGaunt v =>
    cases v with
    | none => exact absurd rfl hop
    | some g => simp [cfgStep, cfgSetGaunt, CfgBad]
  | setAtomic a => simp [cfgStep, cfgChange, CfgBad]
  | setPlasma => simp [cfgStep, cfgChange, CfgBad]
  | change => simp [cfgStep, cfgChange, CfgBad]
  | eval =>
    cases gg <;> cases sl <;> cases sp <;> cases sg <;> cases sa <;>
      simp_all [cfgStep, cfgEval, cfgPopulate, CfgBad]

/-- **All histories**: after any sequence of operations on an instance constructed with any arguments, every output is
the documented one — the user's Gaunt factor if one is assigned, otherwise the *current* provider's, the two
RuntimeErrors in the documented order — or it is a call through `None`. -/
theorem brems_gaunt_selection_any_history (gg : Bool) (ops : List BremsOp) (s : BremsCfg) (d : BremsDoc) (h : CfgRel s d) :
    List.Forall₂ (fun o e => o = e ∨ o = BremsOut.nullDeref) (cfgRun gg s ops) (docRun d ops) := by
  induction ops generalizing s d with
  | nil => exact List.Forall₂.nil
  | cons op os ih =>
    have hs := cfgStep_rel gg s d op h
    simp only [cfgRun, cfgTrace, docRun, List.map_cons]
    refine List.Forall₂.cons ?_ (ih _ _ hs.1)
    rcases hs.2 with h' | h'
    · exact Or.inl h'
    · exact Or.inr h'.1

/-- **Histories that never un-assign the Gaunt factor** (`gaunt_factor = None` does not occur; assigning user factors,
swapping providers and plasmas, change notifications and evaluations in any order and number do): the outputs are
exactly the documented ones. -/
theorem brems_gaunt_selection (gg : Bool) (ops : List BremsOp) (hops : ∀ op ∈ ops, op ≠ BremsOp.setGaunt none)
    (s : BremsCfg) (d : BremsDoc) (h : CfgRel s d) (hg : ¬ CfgBad s) :
    cfgRun gg s ops = docRun d ops := by
  induction ops generalizing s d with
  | nil => rfl
  | cons op os ih =>
    have hs := cfgStep_rel gg s d op h
    have hk := cfgStep_keeps_good gg s d op h hg (hops op (List.mem_cons_self))
    have := ih (fun o ho => hops o (List.mem_cons_of_mem _ ho)) _ _ hs.1 hk
    simp only [cfgRun, cfgTrace, docRun, List.map_cons] at this ⊢
    rw [this]
    rcases hs.2 with h' | h'
    · rw [h']
    · exact absurd h'.2.2.1 hg

/-- the same from the constructor, for every constructor argument triple -/
theorem brems_gaunt_selection_from_init (gg : Bool) (p : Bool) (a g : Option Nat) (ops : List BremsOp)
    (hops : ∀ op ∈ ops, op ≠ BremsOp.setGaunt none) :
    cfgRun gg (cfgInit p a g) ops = docRun ⟨p, a, g⟩ ops :=
  brems_gaunt_selection gg ops hops _ _ (cfgInit_rel p a g).1 (cfgInit_rel p a g).2

/-- **ALL histories, guard that also tests `gaunt_factor is None`** (the source since commit 7210ef7): no side condition —
`gaunt_factor = None` at any time means "the current provider's factor from the next evaluation on". -/
theorem brems_gaunt_selection_guarded (ops : List BremsOp) (s : BremsCfg) (d : BremsDoc) (h : CfgRel s d) :
    cfgRun true s ops = docRun d ops := by
  induction ops generalizing s d with
  | nil => rfl
  | cons op os ih =>
    have hs := cfgStep_rel true s d op h
    have := ih _ _ hs.1
    simp only [cfgRun, cfgTrace, docRun, List.map_cons] at this ⊢
    rw [this]
    rcases hs.2 with h' | h'
    · rw [h']
    · exact absurd h'.2.2.2 (by decide)

/-- the flag read from bremsstrahlung.pyx on this run says the guard tests the Gaunt factor -/
theorem brems_guard_tests_gaunt_current_source : Cherab.Gen.BremsFlags.emissionGuardTestsGaunt = true := by decide

/-- **The property clause on the current source**: for every constructor argument triple and EVERY history of
assignments (incl. `gaunt_factor = None`), provider / plasma swaps, change notifications and evaluations, each evaluation
uses the user's Gaunt factor if one is assigned and the current provider's otherwise. -/
theorem brems_gaunt_selection_current_source (p : Bool) (a g : Option Nat) (ops : List BremsOp) :
    cfgRun Cherab.Gen.BremsFlags.emissionGuardTestsGaunt (cfgInit p a g) ops = docRun ⟨p, a, g⟩ ops := by
  rw [brems_guard_tests_gaunt_current_source]
  exact brems_gaunt_selection_guarded ops _ _ (cfgInit_rel p a g).1

example : cfgRun Cherab.Gen.BremsFlags.emissionGuardTestsGaunt (cfgInit true (some 1) none)
    [.eval, .setGaunt none, .eval, .setGaunt (some 4), .eval, .setGaunt none, .setAtomic (some 2), .eval] =
    [.used (.provider 1), .silent, .used (.provider 1), .silent, .used (.user 4), .silent, .silent,
      .used (.provider 2)] := by decide

example : cfgRun false (cfgInit true (some 1) none)
    [.eval, .setGaunt (some 7), .eval, .setAtomic (some 2), .eval, .change, .eval] =
    [.used (.provider 1), .silent, .used (.user 7), .silent, .used (.user 7), .silent, .used (.user 7)] := by decide

example : cfgRun false (cfgInit false none none) [.eval, .setPlasma, .eval, .setAtomic (some 3), .eval] =
    [.errNoPlasma, .silent, .errNoAtomic, .silent, .used (.provider 3)] := by decide

/-- **With the guard that tests only `species_charge is None` (the source before commit 7210ef7) the statement without
the side condition is false** (witness): construct with a
provider and no user Gaunt factor, evaluate once (cache populated, provider factor fetched), assign
`gaunt_factor = None` (documented meaning: "use the atomic data"), evaluate again: the model calls through `None`,
the documented outcome is the provider's Gaunt factor.  Replayed on the implementation before the fix: segmentation fault. -/
theorem brems_gaunt_unset_after_use_null_deref :
    cfgRun false (cfgInit true (some 1) none) [.eval, .setGaunt none, .eval]
      = [.used (.provider 1), .silent, .nullDeref] ∧
    docRun ⟨true, some 1, none⟩ [.eval, .setGaunt none, .eval]
      = [.used (.provider 1), .silent, .used (.provider 1)] := by decide

/-- `_change()` after the un-assignment (any plasma / provider change) repairs the instance: the bad state does not
survive a change notification. -/
theorem brems_gaunt_change_repairs (s : BremsCfg) : ¬ CfgBad (cfgChange s) := by
  simp [cfgChange, CfgBad]

end Cherab.Passive
