import Cherab.Props.C08
open Cherab.Props.C08
#print axioms readvalues_chunks
#print axioms adf2x_roundtrip
