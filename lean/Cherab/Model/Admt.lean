/-
C20 — executable model of `generate_derivative_operators` and `calculate_admt`
(cherab/tools/inversions/admt_utils.py), assembled from the generated pieces of `Cherab/Gen/Admt.lean`
(assignment program, scalings, coefficient formulas, entry formula) and the hand-transcribed remainder
(cell centres, extraction of dx/dy, dictionary lookups, dense matrices, matrix–vector products).  Mathlib-free.

Vectors are functions `Nat → α` on `0 … n-1`, matrices `Nat → Nat → α`; the driver backs them by arrays.
-/
import Cherab.Model.AdmtCore
import Cherab.Gen.Admt
namespace Cherab.Admt
open Cherab.Gen.Admt

/-! ### the two index maps
`cells[k]` is `grid_index_1d_to_2d_map[k]`; `grid_index_2d_to_1d_map` is its inverse (a dict: a failed lookup is
`KeyError`). -/

def lookup (cells : List (Int × Int)) (jx jy : Int) : Option Nat :=
  cells.findIdx? (fun c => c.1 == jx && c.2 == jy)

/-- the lookup `grid_index_2d_to_1d_map[ix + Δix, iy + Δiy]` for stencil position `p` of the cell with 2-D index `c` -/
def neighbour (cells : List (Int × Int)) (c : Int × Int) (p : Pos) : Option Nat :=
  lookup cells (c.1 + p.off.1) (c.2 + p.off.2)

def hasOf (cells : List (Int × Int)) (c : Int × Int) : Pos → Bool := fun p => (neighbour cells c p).isSome

/-- the documented layout: `n_x × n_y` cells, 1-D index `ix * n_y + iy` (column-major, `iy` fastest, top to bottom) -/
def fullCells (nx ny : Nat) : List (Int × Int) :=
  (List.range (nx * ny)).map fun k => (((k / ny : Nat) : Int), ((k % ny : Nat) : Int))

section
variable {α : Type} [Add α] [Sub α] [Mul α] [Div α] [Neg α] [Zero α] [NatCast α]
  [LT α] [DecidableLT α] [BEq α]

/-! ### lines 83, 95–100: cell centres and the extraction of dx, dy -/

/-- `np.mean(voxel_vertices, axis=1)` for one voxel -/
def centre (vs : List (α × α)) : α × α :=
  match vs with
  | [] => (0, 0)
  | v :: r =>
    let s := r.foldl (fun (a : α × α) w => (a.1 + w.1, a.2 + w.2)) v
    (s.1 / ((vs.length : Nat) : α), s.2 / ((vs.length : Nat) : α))

/-- `np.diff(xs)` -/
def diffs : List α → List α
  | a :: b :: r => (b - a) :: diffs (b :: r)
  | _ => []

def absA (x : α) : α := if x < 0 then -x else x

/-- `np.min(abs(d[d != 0]))`; `none` = `ValueError` (empty selection) -/
def minAbsNonzero (ds : List α) : Option α :=
  match (ds.filter fun d => !(d == 0)).map absA with
  | [] => none
  | a :: r => some (r.foldl (fun m x => if x < m then x else m) a)

/-- interpretation of the generated difference-vector expressions on the list of cell centres -/
def evalV (centres : List (α × α)) : VExpr → List α
  | .diffCol 0 => diffs (centres.map (·.1))
  | .diffCol _ => diffs (centres.map (·.2))
  | .nonzero v => (evalV centres v).filter fun d => !(d == 0)
  | .abs v => (evalV centres v).map absA

/-- `np.min` / `np.max` of a vector; `none` = `ValueError` (zero-size array) -/
def evalS (centres : List (α × α)) : SExpr → Option α
  | .min v => match evalV centres v with
    | [] => none
    | a :: r => some (r.foldl (fun m x => if x < m then x else m) a)
  | .max v => match evalV centres v with
    | [] => none
    | a :: r => some (r.foldl (fun m x => if m < x then x else m) a)

/-- `(dx, dy)` as the generated `stepDx`, `stepDy` extract them from the successive cell centres -/
def extractSteps (centres : List (α × α)) : Option (α × α) :=
  match evalS centres stepDx, evalS centres stepDy with
  | some dx, some dy => some (dx, dy)
  | _, _ => none

/-! ### lines 106–254: the rows -/

/-- the position-keyed rows of the cell with 2-D index `c`; `none` = `IndexError` (assignment through a `nan` index) -/
def rowTable (cells : List (Int × Int)) (c : Int × Int) : Option Table :=
  runProgram program (hasOf cells c)

/-- entry `[i, j]` of the matrix before scaling.  The Python code writes `D[i, n_p] = coef`; for an injective
2-D → 1-D map the entry of column `j` is the coefficient of the unique position `p` with `n_p = j`. -/
def rawEntry (cells : List (Int × Int)) (c : Int × Int) (t : Table) (op : Op5) (j : Nat) : α :=
  Pos.all.foldl (fun s p => if neighbour cells c p == some j then s + t.val op p else s) 0

/-- entry `[i, j]` of the returned operator (`D / scaleDen`) given the row table of cell `i` -/
def opEntry (cells : List (Int × Int)) (dx dy : α) (c : Int × Int) (t : Table) (op : Op5) (j : Nat) : α :=
  rawEntry cells c t op j / scaleDen op dx dy

/-- sum over the nine stencil positions -/
def psum (f : Pos → α) : α := Pos.all.foldl (fun s p => s + f p) 0

/-- the 2-D (stencil) form of `(D @ field)[cell]`: `g Δix Δiy` is the field value at the neighbour with that offset.
`Props/C20.lean` (`dense_dot_eq_stencil`) proves that the dense row of `opEntry` times a vector is this sum. -/
def applyStencil (t : Table) (op : Op5) (dx dy : α) (g : Int → Int → α) : α :=
  psum (fun p => t.val op p * g p.off.1 p.off.2) / scaleDen op dx dy

/-! ### `calculate_admt` on dense operators -/

/-- `(M @ v)[i]` for a row given as a function, columns `0 … n-1` in order -/
def dotN (n : Nat) (row v : Nat → α) : α :=
  (List.range n).foldl (fun s j => s + row j * v j) 0

/-- the coefficients `cx, cy, cxx, cxy, cyy` of cell `i` -/
def admtCoeffs (n : Nat) (radii : Nat → α) (M : Op5 → Nat → Nat → α) (psi : Nat → α) (anisotropy : α)
    (i : Nat) : Coeffs α :=
  let pre := preVectors anisotropy
  let vDpar : Nat → α := fun _ => pre.getD 0 0
  let vDperp : Nat → α := fun _ => pre.getD 1 0
  coeffs anisotropy (radii i)
    (dotN n (M .Dx i) psi) (dotN n (M .Dy i) psi) (dotN n (M .Dxx i) psi) (dotN n (M .Dxy i) psi)
    (dotN n (M .Dyy i) psi)
    (dotN n (M .Dx i) vDpar) (dotN n (M .Dy i) vDpar) (dotN n (M .Dx i) vDperp) (dotN n (M .Dy i) vDperp)

/-- entry `[i, j]` of the ADMT operator given the coefficients of row `i` -/
def admtEntryOf (sqrt : α → α) (M : Op5 → Nat → Nat → α) (dx dy : α) (k : Coeffs α) (i j : Nat) : α :=
  entry k.cx k.cy k.cxx k.cxy k.cyy (M .Dx i j) (M .Dy i j) (M .Dxx i j) (M .Dxy i j) (M .Dyy i j)
    * finalScale sqrt dx dy

def admtEntry (sqrt : α → α) (n : Nat) (radii : Nat → α) (M : Op5 → Nat → Nat → α) (psi : Nat → α)
    (dx dy anisotropy : α) (i j : Nat) : α :=
  admtEntryOf sqrt M dx dy (admtCoeffs n radii M psi anisotropy i) i j

end
end Cherab.Admt
