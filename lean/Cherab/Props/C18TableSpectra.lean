import Cherab.Props.C18
import Cherab.Gen.LaserEdges
namespace Cherab.Props.C18Table
open Cherab.Laser Cherab.Props.C18 Cherab.Gen.LaserEdges

/-- every spectrum setter that writes a field read by `_update_cache` (through `_get_bin_power_spectral_density` /
`evaluate`) re-bins -/
theorem covered_spectra : spectra.all coveredB = true := by decide

end Cherab.Props.C18Table
