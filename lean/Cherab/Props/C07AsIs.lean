import Cherab.Props.C07Table

/-!
# C07 — witnesses that the defects found on the unchanged tree are real (as-is model, negations on the concrete table)

These theorems say that the *current* generated table deviates from the property exactly where the check reports a
failing input.  They are expected to stop compiling when the corresponding fix lands in /repo (the regenerated table
then no longer has the defect); `harness/props/c07.py` therefore builds this module separately and treats a failure
as information ("as-is witness no longer holds"), never as a broken obligation.
-/
namespace Cherab.Props.C07AsIs
open Cherab.Rates Cherab.Rates.Policy Cherab.Gen.OpenAdasPolicy Cherab.Props.C07Table

/-- the excuse lists are tight: exactly these accessors / classes deviate today -/
theorem policy_deviants_exact :
    (accessors.filter fun a => !Uniform nullSigs a).map (·.name) = ["beam_cx_pec", "recombination_pec", "thermal_cx_pec"] := by
  decide

theorem guards_deviants_exact :
    (rateClasses.filter fun c => !c.isNull && !(c.evalParams.all fun p => !isDTE p || c.guarded.contains p)).map (·.name)
      = ["BeamCXPEC"] := by decide

/-- DESIGN §6 #6: `NullBeamCXPEC()` — the class needs one argument -/
theorem beam_cx_pec_null_arity : nullArity nullSigs acc_beam_cx_pec.nullClass acc_beam_cx_pec.nullArgs.length = false := by
  decide

theorem beam_cx_pec_null_request_typeerror (c : Call) (hnull : c.nullRequested = true)
    (hmiss : c.stored.contains (keyOf acc_beam_cx_pec c) = false) :
    run nullSigs wavelengthPolicy acc_beam_cx_pec c = Result.raises "TypeError" :=
  Cherab.Props.C07.bad_null_arity_raises_typeerror _ _ _ c rfl rfl (by decide) (by decide) hnull hmiss

/-- DESIGN §6 #7: `except (FileNotFoundError, KeyError)` around a read that raises `RuntimeError` -/
theorem recombination_pec_catches_wrong : catchesRuntimeError acc_recombination_pec.caught = false := by decide

theorem recombination_pec_null_request_still_raises (c : Call)
    (hmiss : c.stored.contains (keyOf acc_recombination_pec c) = false) :
    run nullSigs wavelengthPolicy acc_recombination_pec c = Result.raises "RuntimeError" :=
  Cherab.Props.C07.wrong_except_clause_defeats_null _ _ _ c rfl rfl (by decide) hmiss

/-- `thermal_cx_pec` asks for the wavelength of the receiver's *element* -/
theorem thermal_cx_pec_wavelength_of_element :
    acc_thermal_cx_pec.wl.map (·.species) = some (Src.elem "receiver_element") := by decide

/-- … so an isotope receiver's own stored wavelength is ignored -/
theorem thermal_cx_pec_ignores_isotope_wavelength :
    run nullSigs wavelengthPolicy acc_thermal_cx_pec
      ⟨[⟨"donor_element", "H", "H", false⟩, ⟨"receiver_element", "C13", "C", true⟩], [["H", "C"]], ["C13", "C"], false,
        false⟩ = Result.rate ["H", "C"] (some "C") false := by
  decide

/-- the float gap: every constructor computes its log-space knots with NumPy's `log10` while `evaluate` uses libm's -/
theorem axis_logs_numpy : ∀ c ∈ rateClasses, c.isNull = true ∨ c.axisLogNumpy = true := by decide

end Cherab.Props.C07AsIs
