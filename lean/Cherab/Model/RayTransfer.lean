/-
C10 — ray-transfer matrices (cherab/tools/raytransfer/emitters.pyx, raytransfer.py).  Mathlib-free.

Transcribed from the code as it is:

* `CartesianRayTransferIntegrator.integrate` (emitters.pyx:169-224) and
  `CylindricalRayTransferIntegrator.integrate` (emitters.pyx:88-152): sample count, `dt`, midpoints, index
  arithmetic, the two-level run-length accumulator (`i?_current` / `isource_current` / `res`) and the final flush;
* `RayTransferEmitter._map_from_mask` and the `bins = voxel_map.max() + 1` rule (emitters.pyx:292-337);
* the bounding primitives of `RayTransferBox` / `RayTransferCylinder` (raytransfer.py:183-200, 253-268).

The scalar type is polymorphic over notation; `sqrt`, `atan2`, `fmod`, `pi` and the C cast `<int>` (`trunc`) are
parameters.  The memoryview accesses are bounds-checked in the compiled module (`boundscheck` is not switched off in
emitters.pyx), so an out-of-range cell or source index is an `IndexError`: modelled as `none`.
-/
namespace Cherab.RayTransfer

/-- grid cell index triple, in the order of the `voxel_map` axes -/
abbrev Cell := Int × Int × Int

/-! ### run-length accumulator -/
section core
variable {α : Type} [Add α] [Zero α]

/-- `spectrum.samples_mv[i] += v` on a spectrum seen as a function of the bin index -/
def bump (spec : Int → α) (i : Int) (v : α) : Int → α := fun j => if j = i then spec j + v else spec j

/-- bounds-checked write (`wraparound(False)`, boundscheck on): callers guarantee `i > -1` -/
def write (bins : Nat) (spec : Int → α) (i : Int) (v : α) : Option (Int → α) :=
  if i < (bins : Int) then some (bump spec i v) else none

/-- loop-carried state of `integrate` -/
structure Acc (α : Type) where
  spec : Int → α
  /-- `(ix_current, iy_current, iz_current)` / `(ir_current, iphi_current, iz_current)` -/
  cell : Cell
  /-- `isource_current` -/
  cur  : Int
  res  : α

def Acc.init (spec : Int → α) : Acc α := { spec := spec, cell := (-1, -1, -1), cur := -1, res := 0 }

/-- one loop iteration given the cell of the sample (emitters.pyx:137-148 and 209-220).
`c ≠ a.cell` is `ix != ix_current or iy != iy_current or iz != iz_current`. -/
def stepAcc (look : Cell → Option Int) (bins : Nat) (dt : α) (a : Acc α) (c : Cell) : Option (Acc α) :=
  let a1? : Option (Acc α) :=
    if c ≠ a.cell then                                   -- we moved to the next cell
      match look c with                                  -- isource = voxel_map_mv[ix, iy, iz]
      | none => none
      | some isource =>
        if isource ≠ a.cur then                          -- we moved to the next source
          if a.cur > -1 then
            (write bins a.spec a.cur a.res).map fun s => { spec := s, cell := c, cur := isource, res := 0 }
          else some { spec := a.spec, cell := c, cur := isource, res := 0 }
        else some { a with cell := c }
    else some a
  a1?.map fun a1 => if a1.cur > -1 then { a1 with res := a1.res + dt } else a1

/-- the write after the loop (emitters.pyx:149-150, 221-222) -/
def flush (bins : Nat) (a : Acc α) : Option (Int → α) :=
  if a.cur > -1 then write bins a.spec a.cur a.res else some a.spec

def foldAcc (look : Cell → Option Int) (bins : Nat) (dt : α) : Acc α → List Cell → Option (Acc α)
  | a, [] => some a
  | a, c :: cs => (stepAcc look bins dt a c).bind fun a' => foldAcc look bins dt a' cs

/-- the loop and the flush over the cells of the successive samples -/
def accumulate (look : Cell → Option Int) (bins : Nat) (dt : α) (spec : Int → α) (cells : List Cell) :
    Option (Int → α) :=
  (foldAcc look bins dt (Acc.init spec) cells).bind (flush bins)

/-- `emission_function` of both emitters (emitters.pyx:452-473, 557-571): unit emissivity added to the source of the
point's cell; a negative source leaves the spectrum alone; bounds-checked like `integrate`. -/
def emit [One α] (look : Cell → Option Int) (bins : Nat) (spec : Int → α) (c : Cell) : Option (Int → α) :=
  match look c with
  | none => none
  | some isource => if isource < 0 then some spec else write bins spec isource 1

/-- specification: every sample adds `dt` to the source of its cell when that source is `> -1` -/
def naive (look : Cell → Option Int) (dt : α) (spec : Int → α) (cells : List Cell) : Int → α :=
  cells.foldl (fun s c => match look c with
    | some src => if src > -1 then bump s src dt else s
    | none => s) spec

end core

/-! ### voxel map -/

/-- int32 voxel map of shape `(n0, n1, n2)`, C order -/
structure VMap where
  n0 : Nat
  n1 : Nat
  n2 : Nat
  data : Array Int

/-- `voxel_map_mv[i, j, k]` with bounds check and no wrap-around -/
def VMap.look (m : VMap) (c : Cell) : Option Int :=
  if 0 ≤ c.1 ∧ c.1 < m.n0 ∧ 0 ≤ c.2.1 ∧ c.2.1 < m.n1 ∧ 0 ≤ c.2.2 ∧ c.2.2 < m.n2 then
    some (m.data.getD ((c.1.toNat * m.n1 + c.2.1.toNat) * m.n2 + c.2.2.toNat) (-1))
  else none

/-- `_map_from_mask`: `voxel_map = -1; voxel_map[mask] = arange(mask.sum())` on the C-order flattening -/
def mapFromMaskAux : List Bool → Nat → List Int
  | [], _ => []
  | true :: bs, k => (k : Int) :: mapFromMaskAux bs (k + 1)
  | false :: bs, k => -1 :: mapFromMaskAux bs k

def mapFromMask (mask : List Bool) : List Int := mapFromMaskAux mask 0

/-- `self._bins = self._voxel_map.max() + 1` (numpy raises on an empty array; shapes are ≥ 1 per axis) -/
def bins : List Int → Option Int
  | [] => none
  | v :: vs => some (vs.foldl max v + 1)

/-- `mask` getter: `voxel_map > -1` -/
def maskOf (vm : List Int) : List Bool := vm.map fun v => decide (v > -1)

/-! ### map setters as a state machine (emitters.pyx:313-337, after fix C10-2) -/

/-- `_grid_shape`, `_voxel_map`, `voxel_map_mv` (what `integrate` reads), `_bins` -/
structure EmitterState where
  shape : Nat × Nat × Nat
  vmap : List Int
  mv : List Int
  nbins : Option Int

def ncells (sh : Nat × Nat × Nat) : Nat := sh.1 * sh.2.1 * sh.2.2

inductive MapOp where
  /-- `obj.voxel_map = value` with `value.shape = shape`, flattened in C order (any dtype / memory layout) -/
  | voxelMap (shape : Nat × Nat × Nat) (data : List Int)
  /-- `obj.mask = value` -/
  | mask (shape : Nat × Nat × Nat) (data : List Bool)

/-- the two setters: a shape mismatch raises before anything is assigned; otherwise a private C-ordered copy becomes
the map, the memoryview and the source of `bins` together -/
def EmitterState.apply (st : EmitterState) : MapOp → EmitterState × Bool
  | .voxelMap sh data =>
      if sh ≠ st.shape ∨ data.length ≠ ncells sh then (st, false)
      else ({ st with vmap := data, mv := data, nbins := bins data }, true)
  | .mask sh data =>
      if sh ≠ st.shape ∨ data.length ≠ ncells sh then (st, false)
      else ({ st with vmap := mapFromMask data, mv := mapFromMask data, nbins := bins (mapFromMask data) }, true)

def EmitterState.run (st : EmitterState) (ops : List MapOp) : EmitterState :=
  ops.foldl (fun s o => (s.apply o).1) st

/-- constructor without map arguments: `mask = None` = all cells -/
def EmitterState.new (sh : Nat × Nat × Nat) : EmitterState :=
  let m := mapFromMask (List.replicate (ncells sh) true)
  { shape := sh, vmap := m, mv := m, nbins := bins m }

/-! ### sampling and index arithmetic -/
section scalar
variable {α : Type} [Add α] [Sub α] [Mul α] [Div α] [Neg α] [Zero α] [One α] [OfScientific α] [NatCast α]
  [LT α] [LE α] [DecidableLT α] [DecidableLE α] [BEq α]

/-- `n = max(self._min_samples, <int>(length / self._step) + extra)`; `extra` is read from the source by the translator
(`Gen/RayTransfer.lean`): 0 on the tree as it is, 1 once notes/fixes/C10-1.diff is applied -/
def nSamples (trunc : α → Int) (extra : Int) (minSamples : Int) (length step : α) : Int :=
  max minSamples (trunc (length / step) + extra)

/-- `dt = length / n` -/
def dtOf (length : α) (n : Int) : α := length / ((n.toNat : Nat) : α)

/-- `t = (it + 0.5) * dt` -/
def midpoint (dt : α) (it : Nat) : α := ((it : α) + 0.5) * dt

/-- Cartesian indices (emitters.pyx:206-208) -/
def cartCell (trunc : α → Int) (dx dy dz : α) (x y z : α) : Cell :=
  (trunc (x / dx), trunc (y / dy), trunc (z / dz))

/-- φ index (emitters.pyx:131-136); `phi` is already in degrees -/
def phiIndex (trunc : α → Int) (fmod : α → α → α) (nphi : Nat) (dphi period : α) (phi : α) : Int :=
  if nphi = 1 then 0 else trunc (fmod (phi + 360.0) period / dphi)

/-- cylindrical indices (emitters.pyx:128-136), order `(ir, iphi, iz)` -/
def cylCell (trunc : α → Int) (sqrt : α → α) (atan2 : α → α → α) (fmod : α → α → α) (pi : α)
    (nphi : Nat) (dr dphi dz rmin period : α) (x y z : α) : Cell :=
  let iz := trunc (z / dz)
  let r := sqrt (x * x + y * y)
  let ir := trunc ((r - rmin) / dr)
  let iphi := phiIndex trunc fmod nphi dphi period ((180.0 / pi) * atan2 y x)
  (ir, iphi, iz)

/-- a segment in the primitive's local coordinates (after `transform(world_to_primitive)`) -/
structure Seg (α : Type) where
  sx : α
  sy : α
  sz : α
  ex : α
  ey : α
  ez : α

/-- what `integrate` computes before the loop; `none` = the early `return spectrum` (path shorter than `0.1*step`) -/
structure Plan (α : Type) where
  n : Int
  dt : α
  ux : α
  uy : α
  uz : α

def plan (trunc : α → Int) (sqrt : α → α) (extra : Int) (step : α) (minSamples : Int) (s : Seg α) : Option (Plan α) :=
  let vx := s.ex - s.sx                      -- start.vector_to(end)
  let vy := s.ey - s.sy
  let vz := s.ez - s.sz
  let length := sqrt (vx * vx + vy * vy + vz * vz)      -- get_length
  if length < 0.1 * step then none else
  let t := 1.0 / sqrt (vx * vx + vy * vy + vz * vz)     -- normalise
  let n := nSamples trunc extra minSamples length step
  some { n := n, dt := dtOf length n, ux := vx * t, uy := vy * t, uz := vz * t }

/-- cells of the successive sample points -/
def sampleCells (cellOf : α → α → α → Cell) (s : Seg α) (p : Plan α) : List Cell :=
  (List.range p.n.toNat).map fun it =>
    let t := midpoint p.dt it
    cellOf (s.sx + p.ux * t) (s.sy + p.uy * t) (s.sz + p.uz * t)

/-- `integrate` for either geometry, given its index function -/
def integrateWith (cellOf : α → α → α → Cell) (trunc : α → Int) (sqrt : α → α)
    (look : Cell → Option Int) (nbins : Nat) (extra : Int) (step : α) (minSamples : Int)
    (spec : Int → α) (s : Seg α) : Option (Int → α) :=
  match plan trunc sqrt extra step minSamples s with
  | none => some spec
  | some p => accumulate look nbins p.dt spec (sampleCells cellOf s p)

def integrateCart (trunc : α → Int) (sqrt : α → α) (look : Cell → Option Int) (nbins : Nat) (extra : Int)
    (dx dy dz step : α) (minSamples : Int) (spec : Int → α) (s : Seg α) : Option (Int → α) :=
  integrateWith (cartCell trunc dx dy dz) trunc sqrt look nbins extra step minSamples spec s

def integrateCyl (trunc : α → Int) (sqrt : α → α) (atan2 : α → α → α) (fmod : α → α → α) (pi : α)
    (look : Cell → Option Int) (nbins : Nat) (extra : Int) (nphi : Nat) (dr dphi dz rmin period step : α)
    (minSamples : Int) (spec : Int → α) (s : Seg α) : Option (Int → α) :=
  integrateWith (cylCell trunc sqrt atan2 fmod pi nphi dr dphi dz rmin period) trunc sqrt look nbins extra step
    minSamples spec s

/-! ### setters as a state machine (emitters.pyx:52-70, 313-337) -/

/-- `RayTransferIntegrator`: `_step`, `_min_samples` -/
structure IntegState (α : Type) where
  step : α
  minSamples : Int

/-- a write either succeeds (`ok`) or raises (`raised`); both carry the state the object is left in -/
inductive Outcome (σ : Type) where
  | ok (s : σ)
  | raised (s : σ)

def Outcome.state {σ : Type} : Outcome σ → σ
  | .ok s => s
  | .raised s => s

def Outcome.isOk {σ : Type} : Outcome σ → Bool
  | .ok _ => true
  | .raised _ => false

/-- `step` setter: `if value <= 0: raise ValueError; self._step = value` -/
def IntegState.setStep (st : IntegState α) (value : α) : Outcome (IntegState α) :=
  if value ≤ 0 then .raised st else .ok { st with step := value }

/-- `min_samples` setter: `if value < 2: raise ValueError; self._min_samples = value` -/
def IntegState.setMinSamples (st : IntegState α) (value : Int) : Outcome (IntegState α) :=
  if value < 2 then .raised st else .ok { st with minSamples := value }

inductive IntegOp (α : Type) where
  | step (v : α)
  | minSamples (v : Int)

def IntegState.apply (st : IntegState α) : IntegOp α → Outcome (IntegState α)
  | .step v => st.setStep v
  | .minSamples v => st.setMinSamples v

/-- a history of writes, each inside try/except -/
def IntegState.run (st : IntegState α) (ops : List (IntegOp α)) : IntegState α :=
  ops.foldl (fun s o => (s.apply o).state) st

/-! ### pipelines (pipelines.py): what one `observe()` does to a pipeline object -/

/-- `RayTransferPixelProcessorBase` + `add_sample`: `_matrix += spectrum.samples [* sensitivity]`, packed as `(matrix, 0)` -/
def pixelProcess (power : Bool) (bins : Nat) (samples : List (List α × α)) : List α :=
  samples.foldl (fun m s => List.zipWith (· + ·) m (if power then s.1.map (· * s.2) else s.1)) (List.replicate bins 0)

/-- state of a `RayTransferPipeline0D`: `_samples`, `_bins`, `_matrix` -/
structure Pipe0D (α : Type) where
  samples : Nat
  bins : Nat
  matrix : List α

/-- `__init__`: `_matrix = None`, `_samples = 0`, `_bins = 0` -/
def Pipe0D.new : Pipe0D α := { samples := 0, bins := 0, matrix := [] }

/-- `initialise`: `_samples = 0; _bins = spectral_bins; _matrix = zeros(spectral_bins)` -/
def Pipe0D.initialise (_p : Pipe0D α) (bins : Nat) : Pipe0D α :=
  { samples := 0, bins := bins, matrix := List.replicate bins 0 }

/-- `update`: `_samples += pixel_samples; _matrix += packed_result[0]` -/
def Pipe0D.update (p : Pipe0D α) (packed : List α) (pixelSamples : Nat) : Pipe0D α :=
  { p with samples := p.samples + pixelSamples, matrix := List.zipWith (· + ·) p.matrix packed }

/-- `finalise`: `_matrix /= _samples` -/
def Pipe0D.finalise (p : Pipe0D α) : Pipe0D α :=
  { p with matrix := p.matrix.map (· / (p.samples : α)) }

/-- one `observe()` of the 0D observer that owns the pipeline: initialise, one update per render task, finalise -/
def Pipe0D.observe (p : Pipe0D α) (bins : Nat) (results : List (List α × Nat)) : Pipe0D α :=
  (results.foldl (fun q r => q.update r.1 r.2) (p.initialise bins)).finalise

/-- state of a `RayTransferPipeline1D` (2D is the same with a pixel pair): `_pixels`, `_samples`, `_bins`, `_matrix` -/
structure Pipe1D (α : Type) where
  pixels : Nat
  samples : Nat
  bins : Nat
  matrix : List (List α)

def Pipe1D.new : Pipe1D α := { pixels := 0, samples := 0, bins := 0, matrix := [] }

/-- `initialise`: `_pixels = pixels; _samples = pixel_samples; _bins = spectral_bins; _matrix = zeros((pixels, bins))` -/
def Pipe1D.initialise (_p : Pipe1D α) (pixels pixelSamples bins : Nat) : Pipe1D α :=
  { pixels := pixels, samples := pixelSamples, bins := bins, matrix := List.replicate pixels (List.replicate bins 0) }

/-- `update`: `_matrix[pixel] = packed_result[0] / _samples` -/
def Pipe1D.update (p : Pipe1D α) (pixel : Nat) (packed : List α) : Pipe1D α :=
  { p with matrix := p.matrix.set pixel (packed.map (· / (p.samples : α))) }

/-- one `observe()`: initialise, one update per pixel task (`finalise` is `pass`) -/
def Pipe1D.observe (p : Pipe1D α) (pixels pixelSamples bins : Nat) (results : List (Nat × List α)) : Pipe1D α :=
  results.foldl (fun q r => q.update r.1 r.2) (p.initialise pixels pixelSamples bins)

/-! ### bounding primitives (raytransfer.py) -/

/-- `RayTransferBox`: grid steps, default integration step, upper corner of the `Box` (lower corner is the origin) -/
structure BoxGeom (α : Type) where
  dx : α
  dy : α
  dz : α
  step : α
  ux : α
  uy : α
  uz : α

def min2 (a b : α) : α := if b < a then b else a

def boxGeom (xmax ymax zmax : α) (nx ny nz : Nat) : BoxGeom α :=
  let dx := xmax / (nx : α)
  let dy := ymax / (ny : α)
  let dz := zmax / (nz : α)
  { dx := dx, dy := dy, dz := dz, step := 0.1 * min2 (min2 dx dy) dz,
    ux := xmax - 1.0e-5 * dx, uy := ymax - 1.0e-5 * dy, uz := zmax - 1.0e-5 * dz }

/-- `RayTransferCylinder`: grid steps, default step, radii and height of the two coaxial cylinders -/
structure CylGeom (α : Type) where
  dr : α
  dphi : α
  dz : α
  step : α
  rOuter : α
  rInner : α
  height : α

def cylGeom (radiusOuter height : α) (nr nz : Nat) (radiusInner : α) (npolar : Nat) (period : α) : CylGeom α :=
  let dr := (radiusOuter - radiusInner) / (nr : α)
  let dz := height / (nz : α)
  let dphi := period / (npolar : α)
  { dr := dr, dphi := dphi, dz := dz, step := 0.1 * min2 dr dz,
    rOuter := radiusOuter - 1.0e-5 * dr, rInner := radiusInner + 1.0e-5 * dr, height := height - 1.0e-5 * dz }

end scalar
end Cherab.RayTransfer
