/- shared: Gaussian normalisation over ℝ² (used by C04 beam cross-section and C18 laser profiles) -/
import Mathlib.Analysis.SpecialFunctions.Gaussian.GaussianIntegral
import Mathlib.MeasureTheory.Integral.Prod

open Real MeasureTheory

namespace Cherab.Lemmas

/-- 1D: ∫ exp(-x²/(2σ²)) = σ √(2π) -/
theorem gauss1d (σ : ℝ) (hσ : 0 < σ) :
    ∫ x : ℝ, Real.exp (-(1 / (2 * σ ^ 2)) * x ^ 2) = σ * Real.sqrt (2 * π) := by
  rw [integral_gaussian]
  have h2 : (0:ℝ) < 2 * σ ^ 2 := by positivity
  rw [show π / (1 / (2 * σ ^ 2)) = σ ^ 2 * (2 * π) by field_simp]
  rw [Real.sqrt_mul (by positivity), Real.sqrt_sq hσ.le]

theorem gauss2d (sx sy : ℝ) (hx : 0 < sx) (hy : 0 < sy) :
    ∫ p : ℝ × ℝ, (Real.exp (-(1 / (2 * sx ^ 2)) * p.1 ^ 2) * Real.exp (-(1 / (2 * sy ^ 2)) * p.2 ^ 2))
      = 2 * π * sx * sy := by
  rw [Measure.volume_eq_prod]
  rw [integral_prod_mul (f := fun x : ℝ => Real.exp (-(1 / (2 * sx ^ 2)) * x ^ 2))
        (g := fun y : ℝ => Real.exp (-(1 / (2 * sy ^ 2)) * y ^ 2))]
  rw [gauss1d sx hx, gauss1d sy hy]
  have : Real.sqrt (2 * π) * Real.sqrt (2 * π) = 2 * π := Real.mul_self_sqrt (by positivity)
  calc sx * √(2 * π) * (sy * √(2 * π)) = sx * sy * (√(2 * π) * √(2 * π)) := by ring
    _ = 2 * π * sx * sy := by rw [this]; ring

end Cherab.Lemmas
