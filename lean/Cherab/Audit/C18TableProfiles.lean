import Cherab.Props.C18TableProfiles
open Cherab.Props.C18Table
#print axioms covered_profiles
