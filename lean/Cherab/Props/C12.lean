import Cherab.Model.Equilibrium
import Mathlib.Tactic.Ring
import Mathlib.Tactic.Linarith
import Mathlib.Tactic.FieldSimp
import Mathlib.Tactic.LinearCombination
import Mathlib.Tactic.Positivity
import Mathlib.Tactic.NormNum
import Mathlib.Algebra.Order.Field.Basic
import Mathlib.Analysis.Real.Sqrt

/-!
# C12 — equilibrium mapping and flux-surface basis

Property theorems only, about `Cherab/Model/Equilibrium.lean`, over an arbitrary ordered field.
`sqrt`, `atan2`, `cos`, `sin`, `pi`, the interpolators, the polygon mask and the profiles are parameters;
the contracts used are named (`SqrtSpec`, `c*c + s*s = 1`, `pi ≠ 0`).
-/
namespace Cherab.Props.C12
set_option linter.unusedSectionVars false
set_option linter.unusedVariables false
open Cherab.Equilibrium

variable {α : Type} [Field α] [LinearOrder α] [IsStrictOrderedRing α]

/-- contract of the square root on non-negative arguments -/
def SqrtSpec (sqrt : α → α) : Prop := ∀ x : α, 0 ≤ x → sqrt x * sqrt x = x ∧ 0 ≤ sqrt x

theorem V3.ext' {a b : V3 α} (hx : a.x = b.x) (hy : a.y = b.y) (hz : a.z = b.z) : a = b := by
  cases a; cases b; simp_all

/-! ## normalised flux -/

/-- normalised flux is never negative -/
theorem psiN_nonneg (interpN : α → α → α) (r z : α) : 0 ≤ psiN interpN r z := by
  unfold psiN clampLo; split_ifs with h
  · exact le_refl _
  · exact not_lt.mp h

/-- … and is the interpolated normalised grid value wherever that is non-negative -/
theorem psiN_eq_max (interpN : α → α → α) (r z : α) : psiN interpN r z = max 0 (interpN r z) := by
  unfold psiN clampLo; split_ifs with h
  · exact (max_eq_left h.le).symm
  · exact (max_eq_right (not_lt.mp h)).symm

/-- the grid normalisation sends the axis value to 0 and the LCFS value to 1 for either sign of
`psi_lcfs - psi_axis` -/
theorem normGrid_axis_lcfs (axis lcfs : α) (h : lcfs ≠ axis) :
    normGrid axis axis lcfs = 0 ∧ normGrid lcfs axis lcfs = 1 := by
  unfold normGrid
  have : lcfs - axis ≠ 0 := sub_ne_zero.mpr h
  constructor
  · simp
  · exact div_self this

/-- with an interpolation scheme that commutes with affine maps of the data (true of raysect's cubic
interpolator up to rounding; monitored in S) `psi_normalised` is the normalised flux of the point -/
theorem psiN_normalised_flux (interpN interpPsi : α → α → α) (axis lcfs r z : α)
    (haff : interpN r z = normGrid (interpPsi r z) axis lcfs) :
    psiN interpN r z = max 0 ((interpPsi r z - axis) / (lcfs - axis)) := by
  rw [psiN_eq_max, haff]; rfl

/-! ## LCFS mask and scalar mapping -/

theorem insideLcfs_one (poly psin : α) (h1 : 0 < poly) (h2 : psin ≤ 1) : insideLcfs poly psin = 1 := by
  unfold insideLcfs; rw [if_pos ⟨h1, h2⟩]

theorem insideLcfs_zero (poly psin : α) (h : ¬ (0 < poly ∧ psin ≤ 1)) : insideLcfs poly psin = 0 := by
  unfold insideLcfs; rw [if_neg h]

theorem blend_one (f1 f2 : α) : blend 1 f1 f2 = f2 := by
  simp [blend, clamp01]

theorem blend_zero (f1 f2 : α) : blend 0 f1 f2 = f1 := by
  simp [blend, clamp01]

/-- a 2×N array is read as (abscissa row, ordinate row) for every N — in particular a 2×2 array is **not** transposed -/
theorem profileRows_2xN {β : Type} (x f : List β) : profileRows [x, f] = some (x, f) := rfl

theorem profileRows_2x2 {β : Type} (a b c d : β) : profileRows [[a, b], [c, d]] = some ([a, b], [c, d]) := rfl

/-- the code as it stands does not validate the shape: any array with at least two rows is accepted and read through its
first two rows (3×N: third row ignored; N×2 with N ≥ 3: rows 0 and 1 become a two-knot profile) -/
theorem profileRows_extra_rows {β : Type} (x f : List β) (rest : List (List β)) :
    profileRows (x :: f :: rest) = some (x, f) := rfl

/-- fewer than two rows (1×N, empty) and arrays that are not 2-d are rejected -/
theorem profileRows_rejects {β : Type} (rows : List (List β)) (h : rows.length < 2) : profileRows rows = none := by
  match rows, h with
  | [], _ => rfl
  | [_], _ => rfl

theorem profileOfArray_ndim {β : Type} (ndim : Nat) (rows : List (List β)) :
    profileOfArray ndim rows = if ndim = 2 then profileRows rows else none := rfl

/-- inside the LCFS (polygon ∧ ψN ≤ 1) the mapped function is the profile at the normalised flux of the point -/
theorem map2d_inside (outside : α) (profile : α → α) (poly interpN : α → α → α) (r z : α)
    (h1 : 0 < poly r z) (h2 : psiN interpN r z ≤ 1) :
    map2d outside profile poly interpN r z = profile (psiN interpN r z) := by
  unfold map2d; rw [insideLcfs_one _ _ h1 h2, blend_one]

/-- elsewhere it is the given outside value -/
theorem map2d_outside (outside : α) (profile : α → α) (poly interpN : α → α → α) (r z : α)
    (h : ¬ (0 < poly r z ∧ psiN interpN r z ≤ 1)) :
    map2d outside profile poly interpN r z = outside := by
  unfold map2d; rw [insideLcfs_zero _ _ h, blend_zero]

theorem map2d_cases (outside : α) (profile : α → α) (poly interpN : α → α → α) (r z : α) :
    map2d outside profile poly interpN r z =
      if 0 < poly r z ∧ psiN interpN r z ≤ 1 then profile (psiN interpN r z) else outside := by
  split_ifs with h
  · exact map2d_inside _ _ _ _ _ _ h.1 h.2
  · exact map2d_outside _ _ _ _ _ _ h

/-- contract of the polygon mask (cherab `PolygonMask2D` over raysect's triangulated `Discrete2DMesh`): positive
exactly on the points of the LCFS polygon.  **This hypothesis is what finding C12-1 refutes for the unpatched
implementation** at floating-point points lying on an internal edge of the polygon triangulation (S: crack search);
the theorem itself is about the model and unaffected. -/
def MaskSpec (poly : α → α → α) (inPolygon : α → α → Prop) : Prop := ∀ r z, 0 < poly r z ↔ inPolygon r z

/-- the property sentence in geometric terms: with a correct polygon mask the mapped function is the profile at
the normalised flux of the point exactly on {polygon ∧ ψN ≤ 1} and the outside value elsewhere -/
theorem map2d_geometric (outside : α) (profile : α → α) (poly interpN : α → α → α) (inPolygon : α → α → Prop)
    [∀ r z, Decidable (inPolygon r z)] (hmask : MaskSpec poly inPolygon) (r z : α) :
    map2d outside profile poly interpN r z =
      if inPolygon r z ∧ psiN interpN r z ≤ 1 then profile (psiN interpN r z) else outside := by
  rw [map2d_cases]
  by_cases h : inPolygon r z
  · have : 0 < poly r z := (hmask r z).mpr h
    simp [h, this]
  · have : ¬ 0 < poly r z := fun hp => h ((hmask r z).mp hp)
    simp [h, this]

/-- the 3-D map is the 2-D map at the cylindrical radius … -/
theorem map3d_eq_map2d (sqrt : α → α) (outside : α) (profile : α → α) (poly interpN : α → α → α) (x y z : α) :
    map3d sqrt outside profile poly interpN x y z = map2d outside profile poly interpN (sqrt (x * x + y * y)) z := rfl

/-- … so it depends on `(x, y)` only through `x² + y²`: it is invariant under every rotation about the z axis -/
theorem map3d_axisymmetric (sqrt : α → α) (outside : α) (profile : α → α) (poly interpN : α → α → α)
    (x y z c s : α) (hcs : c * c + s * s = 1) :
    map3d sqrt outside profile poly interpN (c * x - s * y) (s * x + c * y) z =
      map3d sqrt outside profile poly interpN x y z := by
  unfold map3d
  have : (c * x - s * y) * (c * x - s * y) + (s * x + c * y) * (s * x + c * y) = x * x + y * y := by
    linear_combination (x * x + y * y) * hcs
  rw [this]

theorem map3d_radius_only (sqrt : α → α) (outside : α) (profile : α → α) (poly interpN : α → α → α)
    (x y x' y' z : α) (h : x * x + y * y = x' * x' + y' * y') :
    map3d sqrt outside profile poly interpN x y z = map3d sqrt outside profile poly interpN x' y' z := by
  unfold map3d; rw [h]

/-- with the sqrt contract the radius handed to the 2-D function is the non-negative cylindrical radius -/
theorem map3d_radius (sqrt : α → α) (hs : SqrtSpec sqrt) (x y : α) :
    sqrt (x * x + y * y) * sqrt (x * x + y * y) = x * x + y * y ∧ 0 ≤ sqrt (x * x + y * y) :=
  hs _ (add_nonneg (mul_self_nonneg x) (mul_self_nonneg y))

/-! ## magnetic field -/

/-- `B = (−ψ_z / r, F(ψN) / r  |  B_vac R_vac / r, ψ_r / r)` -/
theorem bField_components (dr dz inside psin : α) (fprof : α → α) (rvac bvac r : α) :
    (bField dr dz inside psin fprof rvac bvac r).x = -dz / r ∧
    (bField dr dz inside psin fprof rvac bvac r).z = dr / r ∧
    (inside ≠ 0 → (bField dr dz inside psin fprof rvac bvac r).y = fprof psin / r) ∧
    (inside = 0 → (bField dr dz inside psin fprof rvac bvac r).y = bvac * rvac / r) := by
  refine ⟨rfl, rfl, ?_, ?_⟩ <;> intro h <;> simp [bField, h]

/-- the in-plane field is tangent to the flux surface: `B · ∇ψ = 0` -/
theorem field_tangent_to_flux_surface (dr dz inside psin : α) (fprof : α → α) (rvac bvac r : α) :
    (bField dr dz inside psin fprof rvac bvac r).x * dr + (bField dr dz inside psin fprof rvac bvac r).z * dz = 0 := by
  simp only [bField]
  by_cases hr : r = 0
  · subst hr; simp
  · field_simp; ring

/-! ## flux-surface basis -/

/-- squared length of the in-plane field -/
def bp2 (b : V3 α) : α := b.x * b.x + b.z * b.z

theorem bp2_pos (b : V3 α) (h : ¬ (b.x = 0 ∧ b.z = 0)) : 0 < bp2 b := by
  unfold bp2
  by_cases hx : b.x = 0
  · have hz : b.z ≠ 0 := fun hz => h ⟨hx, hz⟩
    have := mul_self_pos.mpr hz
    nlinarith [mul_self_nonneg b.x]
  · have := mul_self_pos.mpr hx
    nlinarith [mul_self_nonneg b.z]

theorem sqrt_bp2 (sqrt : α → α) (hs : SqrtSpec sqrt) (b : V3 α) (h : ¬ (b.x = 0 ∧ b.z = 0)) :
    sqrt (bp2 b) * sqrt (bp2 b) = bp2 b ∧ 0 < sqrt (bp2 b) := by
  have hp := bp2_pos b h
  obtain ⟨h1, h2⟩ := hs (bp2 b) hp.le
  refine ⟨h1, lt_of_le_of_ne h2 ?_⟩
  intro h0; rw [← h0] at h1; simp at h1; exact hp.ne' h1.symm

/-- closed form of `PoloidalFieldVector.evaluate` away from the degenerate point -/
theorem poloidal_closed (sqrt : α → α) (b : V3 α) (h : ¬ (b.x = 0 ∧ b.z = 0)) :
    poloidalVector sqrt b = some ⟨b.x * (1 / sqrt (bp2 b)), 0 * (1 / sqrt (bp2 b)), b.z * (1 / sqrt (bp2 b))⟩ := by
  have hp := bp2_pos b h
  have e : b.x * b.x + 0 * 0 + b.z * b.z = bp2 b := by unfold bp2; ring
  have hc : (b.x == 0 && b.z == 0) = false := by
    simp only [Bool.and_eq_false_iff, beq_eq_false_iff_ne, ne_eq]; tauto
  simp only [poloidalVector, hc, normalise, e, beq_iff_eq, hp.ne', if_false, Bool.false_eq_true]

/-- closed form of `FluxSurfaceNormal.evaluate` away from the degenerate point -/
theorem normal_closed (sqrt : α → α) (b : V3 α) (h : ¬ (b.x = 0 ∧ b.z = 0)) :
    surfaceNormal sqrt b = some ⟨-b.z * (1 / sqrt (bp2 b)), 0 * (1 / sqrt (bp2 b)), b.x * (1 / sqrt (bp2 b))⟩ := by
  have hp := bp2_pos b h
  have e : -b.z * -b.z + 0 * 0 + b.x * b.x = bp2 b := by unfold bp2; ring
  have hc : (b.x == 0 && b.z == 0) = false := by
    simp only [Bool.and_eq_false_iff, beq_eq_false_iff_ne, ne_eq]; tauto
  simp only [surfaceNormal, hc, normalise, e, beq_iff_eq, hp.ne', if_false, Bool.false_eq_true]

/-- neither basis vector raises in exact arithmetic: the guard `b.x == 0 and b.z == 0` covers exactly the
zero-length case (in floating point `b.x*b.x + b.z*b.z` can underflow to 0 for |b| < 1e-162: monitored) -/
theorem basis_defined (sqrt : α → α) (b : V3 α) :
    (∃ p, poloidalVector sqrt b = some p) ∧ (∃ n, surfaceNormal sqrt b = some n) := by
  by_cases h : b.x = 0 ∧ b.z = 0
  · constructor
    · exact ⟨⟨0, 0, 0⟩, by simp [poloidalVector, h.1, h.2]⟩
    · exact ⟨⟨0, 0, 0⟩, by simp [surfaceNormal, h.1, h.2]⟩
  · exact ⟨⟨_, poloidal_closed sqrt b h⟩, ⟨_, normal_closed sqrt b h⟩⟩

/-- documented convenience: at a point with no in-plane field both vectors are the zero vector -/
theorem basis_degenerate (sqrt : α → α) (b : V3 α) (h : b.x = 0 ∧ b.z = 0) :
    poloidalVector sqrt b = some ⟨0, 0, 0⟩ ∧ surfaceNormal sqrt b = some ⟨0, 0, 0⟩ := by
  constructor
  · simp [poloidalVector, h.1, h.2]
  · simp [surfaceNormal, h.1, h.2]

/-- toroidal, poloidal and surface-normal vectors are orthonormal -/
theorem basis_orthonormal (sqrt : α → α) (hs : SqrtSpec sqrt) (b p n : V3 α) (h : ¬ (b.x = 0 ∧ b.z = 0))
    (hp : poloidalVector sqrt b = some p) (hn : surfaceNormal sqrt b = some n) :
    dot p p = 1 ∧ dot n n = 1 ∧ dot (toroidalVector : V3 α) toroidalVector = 1 ∧
    dot p n = 0 ∧ dot p toroidalVector = 0 ∧ dot n toroidalVector = 0 := by
  obtain ⟨hss, hs0⟩ := sqrt_bp2 sqrt hs b h
  rw [poloidal_closed sqrt b h] at hp; rw [normal_closed sqrt b h] at hn
  cases hp; cases hn
  have hne := hs0.ne'
  have hss' : sqrt (bp2 b) * sqrt (bp2 b) = b.x * b.x + b.z * b.z := hss
  simp only [dot, toroidalVector]
  refine ⟨?_, ?_, by ring, ?_, by ring, by ring⟩
  · field_simp; linear_combination (-1 : α) * hss'
  · field_simp; linear_combination (-1 : α) * hss'
  · field_simp; ring

/-- normal = poloidal × toroidal -/
theorem normal_is_pol_cross_tor (sqrt : α → α) (b p n : V3 α)
    (hp : poloidalVector sqrt b = some p) (hn : surfaceNormal sqrt b = some n) :
    n = cross p toroidalVector := by
  by_cases h : b.x = 0 ∧ b.z = 0
  · obtain ⟨h1, h2⟩ := basis_degenerate sqrt b h
    rw [h1] at hp; rw [h2] at hn; cases hp; cases hn
    apply V3.ext' <;> simp [cross, toroidalVector]
  · rw [poloidal_closed sqrt b h] at hp; rw [normal_closed sqrt b h] at hn
    cases hp; cases hn
    apply V3.ext' <;> simp [cross, toroidalVector]

/-- the poloidal vector lies along the in-plane field `(b_r, 0, b_z)`, same sense -/
theorem poloidal_along_field (sqrt : α → α) (hs : SqrtSpec sqrt) (b p : V3 α) (h : ¬ (b.x = 0 ∧ b.z = 0))
    (hp : poloidalVector sqrt b = some p) : ∃ k : α, 0 < k ∧ p = smul k ⟨b.x, 0, b.z⟩ := by
  obtain ⟨hss, hs0⟩ := sqrt_bp2 sqrt hs b h
  rw [poloidal_closed sqrt b h] at hp; cases hp
  refine ⟨1 / sqrt (bp2 b), by positivity, ?_⟩
  apply V3.ext' <;> simp [smul] <;> ring

/-- the field has no component along the surface normal (any field vector, degenerate point included) -/
theorem field_tangent (sqrt : α → α) (b n : V3 α) (hn : surfaceNormal sqrt b = some n) : dot b n = 0 := by
  by_cases h : b.x = 0 ∧ b.z = 0
  · rw [(basis_degenerate sqrt b h).2] at hn; cases hn; simp [dot]
  · rw [normal_closed sqrt b h] at hn; cases hn; simp only [dot]; ring

/-- the same statement for the equilibrium's own field at any point -/
theorem eq_field_tangent (sqrt : α → α) (e : Eq α) (r z : α) (n : V3 α) (hn : e.normal sqrt r z = some n) :
    dot (e.bField r z) n = 0 := field_tangent sqrt _ n hn

/-- the surface normal is anti-parallel to `∇ψ` for `r > 0` (it points outwards iff ψ decreases outwards:
the sense follows the sign of `psi_lcfs − psi_axis`; the property only fixes `n = p × t`) -/
theorem normal_antiparallel_grad_psi (sqrt : α → α) (hs : SqrtSpec sqrt) (e : Eq α) (r z : α) (n : V3 α) (hr : 0 < r)
    (h : ¬ ((e.bField r z).x = 0 ∧ (e.bField r z).z = 0)) (hn : e.normal sqrt r z = some n) :
    ∃ k : α, 0 < k ∧ n = smul (-k) ⟨e.dpsidr r z, 0, e.dpsidz r z⟩ := by
  obtain ⟨hss, hs0⟩ := sqrt_bp2 sqrt hs _ h
  unfold Eq.normal at hn
  rw [normal_closed sqrt _ h] at hn; cases hn
  refine ⟨1 / (r * sqrt (bp2 (e.bField r z))), by positivity, ?_⟩
  have hr' := hr.ne'
  have hne := hs0.ne'
  apply V3.ext'
  · simp only [smul, Eq.bField, bField]; field_simp
  · simp only [smul]; ring
  · simp only [smul, Eq.bField, bField]; field_simp

/-! ## velocity mapping -/

/-- closed form of `FluxCoordToCartesian.evaluate` away from the degenerate point -/
theorem flux_closed (sqrt : α → α) (f : V3 α) (psi : α) (tor pol nrm : α → α) (h : ¬ (f.x = 0 ∧ f.z = 0)) :
    fluxCoordToCartesian sqrt f psi tor pol nrm =
      some ⟨f.x * (pol psi / sqrt (bp2 f)) + -f.z * (nrm psi / sqrt (bp2 f)), tor psi,
            f.z * (pol psi / sqrt (bp2 f)) + f.x * (nrm psi / sqrt (bp2 f))⟩ := by
  have hp := bp2_pos f h
  have e1 : f.x * f.x + 0 * 0 + f.z * f.z = bp2 f := by unfold bp2; ring
  have e2 : -f.z * -f.z + 0 * 0 + f.x * f.x = bp2 f := by unfold bp2; ring
  have hc : (f.x == 0 && f.z == 0) = false := by
    simp only [Bool.and_eq_false_iff, beq_eq_false_iff_ne, ne_eq]; tauto
  simp only [fluxCoordToCartesian, hc, setLength, e1, e2, beq_iff_eq, hp.ne', if_false, Bool.false_eq_true]

/-- a mapped velocity has exactly the prescribed toroidal, poloidal and normal components in the flux basis
(and the conversion does not raise) -/
theorem velocity_components (sqrt : α → α) (hs : SqrtSpec sqrt) (f p n : V3 α) (psi : α) (tor pol nrm : α → α)
    (h : ¬ (f.x = 0 ∧ f.z = 0))
    (hp : poloidalVector sqrt f = some p) (hn : surfaceNormal sqrt f = some n) :
    ∃ v, fluxCoordToCartesian sqrt f psi tor pol nrm = some v ∧
      dot v toroidalVector = tor psi ∧ dot v p = pol psi ∧ dot v n = nrm psi := by
  obtain ⟨hss, hs0⟩ := sqrt_bp2 sqrt hs f h
  rw [poloidal_closed sqrt f h] at hp; rw [normal_closed sqrt f h] at hn
  cases hp; cases hn
  refine ⟨_, flux_closed sqrt f psi tor pol nrm h, ?_, ?_, ?_⟩
  · simp [dot, toroidalVector]
  · have hne := hs0.ne'
    have hss' : sqrt (bp2 f) * sqrt (bp2 f) = f.x * f.x + f.z * f.z := hss
    simp only [dot]; field_simp
    linear_combination (-(pol psi)) * hss'
  · have hne := hs0.ne'
    have hss' : sqrt (bp2 f) * sqrt (bp2 f) = f.x * f.x + f.z * f.z := hss
    simp only [dot]; field_simp
    linear_combination (-(nrm psi)) * hss'

/-- degenerate point: only the toroidal component survives (documented convenience) -/
theorem velocity_degenerate (sqrt : α → α) (f : V3 α) (psi : α) (tor pol nrm : α → α) (h : f.x = 0 ∧ f.z = 0) :
    fluxCoordToCartesian sqrt f psi tor pol nrm = some ⟨0, tor psi, 0⟩ := by
  simp [fluxCoordToCartesian, h.1, h.2]

theorem blendV_one (slerp : V3 α → V3 α → α → V3 α) (f1 : V3 α) (f2 : Option (V3 α)) :
    blendV slerp 1 f1 f2 = f2 := by
  cases f2 <;> simp [blendV, clamp01]

theorem blendV_zero (slerp : V3 α → V3 α → α → V3 α) (f1 : V3 α) (f2 : Option (V3 α)) :
    blendV slerp 0 f1 f2 = some f1 := by
  simp [blendV, clamp01]

/-- `map_vector2d`: flux-coordinate velocity at the normalised flux of the point inside the LCFS, the given
vector elsewhere -/
theorem mapVector2d_cases (sqrt : α → α) (slerp : V3 α → V3 α → α → V3 α) (e : Eq α) (outside : V3 α)
    (tor pol nrm : α → α) (r z : α) :
    e.mapVector2d sqrt slerp outside tor pol nrm r z =
      if 0 < e.poly r z ∧ e.psiN r z ≤ 1 then fluxCoordToCartesian sqrt (e.bField r z) (e.psiN r z) tor pol nrm
      else some outside := by
  unfold Eq.mapVector2d Eq.inside
  split_ifs with h
  · rw [insideLcfs_one _ _ h.1 h.2, blendV_one]
  · rw [insideLcfs_zero _ _ h, blendV_zero]

/-- … and the toroidal field component used there is `F(ψN)/r` inside, the vacuum field outside -/
theorem eq_bField_toroidal (e : Eq α) (r z : α) :
    (e.bField r z).y = if 0 < e.poly r z ∧ e.psiN r z ≤ 1 then e.fprof (e.psiN r z) / r else e.bvac * e.rvac / r := by
  unfold Eq.bField Eq.inside
  split_ifs with h
  · rw [insideLcfs_one _ _ h.1 h.2]; simp [bField]
  · rw [insideLcfs_zero _ _ h]; simp [bField]

/-! ## rotation with toroidal angle (3-D) -/

theorem rotAngle_eq (atan2 : α → α → α) (pi x y : α) (hpi : pi ≠ 0) : rotAngle atan2 pi x y = atan2 y x := by
  unfold rotAngle
  have h180 : (((180 : ℕ) : α)) ≠ 0 := by norm_num
  field_simp

/-- rotation about z preserves scalar products … -/
theorem rotateZ_dot (c s : α) (hcs : c * c + s * s = 1) (u v : V3 α) :
    dot (rotateZ c s u) (rotateZ c s v) = dot u v := by
  simp only [dot, rotateZ]
  linear_combination (u.x * v.x + u.y * v.y) * hcs

/-- … and cross products -/
theorem rotateZ_cross (c s : α) (hcs : c * c + s * s = 1) (u v : V3 α) :
    rotateZ c s (cross u v) = cross (rotateZ c s u) (rotateZ c s v) := by
  apply V3.ext' <;> simp only [cross, rotateZ]
  · ring
  · ring
  · linear_combination (-(u.x * v.y - u.y * v.x)) * hcs

/-- 3-D: the mapped vector is the 2-D vector at the cylindrical radius rotated by the toroidal angle, and its
components in the equally rotated basis are unchanged -/
theorem rotation_preserves_components (sqrt : α → α) (atan2 : α → α → α) (cos sin : α → α) (pi : α)
    (f2d : α → α → Option (V3 α)) (x y z : α) (w : V3 α)
    (hcs : ∀ a, cos a * cos a + sin a * sin a = 1) (hpi : pi ≠ 0)
    (hw : vectorAxisymmetric sqrt atan2 cos sin pi f2d x y z = some w) :
    ∃ v, f2d (sqrt (x * x + y * y)) z = some v ∧
      w = rotateZ (cos (atan2 y x)) (sin (atan2 y x)) v ∧
      ∀ u, dot w (rotateZ (cos (atan2 y x)) (sin (atan2 y x)) u) = dot v u := by
  unfold vectorAxisymmetric at hw
  rw [rotAngle_eq atan2 pi x y hpi] at hw
  cases hv : f2d (sqrt (x * x + y * y)) z with
  | none => rw [hv] at hw; simp at hw
  | some v =>
    rw [hv] at hw; simp only [Option.some.injEq] at hw
    refine ⟨v, rfl, hw.symm, fun u => ?_⟩
    rw [← hw]; exact rotateZ_dot _ _ (hcs _) v u

/-- the rotated basis is again orthonormal with `n' = p' × t'`, `t'` being the rotated `(0,1,0)` -/
theorem rotated_basis (c s : α) (hcs : c * c + s * s = 1) (p n : V3 α)
    (hn : n = cross p toroidalVector) :
    rotateZ c s n = cross (rotateZ c s p) (rotateZ c s toroidalVector) ∧
    (rotateZ c s (toroidalVector : V3 α)) = ⟨-s, c, 0⟩ := by
  constructor
  · rw [hn, rotateZ_cross c s hcs]
  · apply V3.ext' <;> simp [rotateZ, toroidalVector]

/-- with the `atan2` contract (`cos φ = x/ρ`, `sin φ = y/ρ`) the rotated radial and toroidal unit vectors are the
cylindrical unit vectors at `(x, y)` -/
theorem rotated_directions (rho x y c s : α) (hc : c * rho = x) (hsn : s * rho = y) :
    smul rho (rotateZ c s ⟨1, 0, 0⟩) = ⟨x, y, 0⟩ ∧ smul rho (rotateZ c s toroidalVector) = ⟨-y, x, 0⟩ := by
  constructor <;> apply V3.ext' <;> simp [smul, rotateZ, toroidalVector] <;>
    first | (rw [← hc]; ring) | (rw [← hsn]; ring)

/-- `map_vector3d` = rotated `map_vector2d` at the cylindrical radius -/
theorem mapVector3d_eq (sqrt : α → α) (atan2 : α → α → α) (cos sin : α → α) (pi : α)
    (slerp : V3 α → V3 α → α → V3 α) (e : Eq α) (outside : V3 α) (tor pol nrm : α → α) (x y z : α) (w : V3 α)
    (hcs : ∀ a, cos a * cos a + sin a * sin a = 1) (hpi : pi ≠ 0)
    (hw : e.mapVector3d sqrt atan2 cos sin pi slerp outside tor pol nrm x y z = some w) :
    ∃ v, e.mapVector2d sqrt slerp outside tor pol nrm (sqrt (x * x + y * y)) z = some v ∧
      w = rotateZ (cos (atan2 y x)) (sin (atan2 y x)) v ∧
      ∀ u, dot w (rotateZ (cos (atan2 y x)) (sin (atan2 y x)) u) = dot v u :=
  rotation_preserves_components sqrt atan2 cos sin pi _ x y z w hcs hpi hw

/-! ## the property sentence at the level of one equilibrium -/

/-- scalar mapping of an equilibrium: profile at the normalised flux of the point inside the LCFS, outside value elsewhere -/
theorem eq_map2d_cases (e : Eq α) (outside : α) (profile : α → α) (r z : α) :
    e.map2d outside profile r z =
      if 0 < e.poly r z ∧ e.psiN r z ≤ 1 then profile (e.psiN r z) else outside :=
  map2d_cases outside profile e.poly e.interpN r z

/-- … axisymmetric in 3-D -/
theorem eq_map3d_axisymmetric (sqrt : α → α) (e : Eq α) (outside : α) (profile : α → α) (x y z c s : α)
    (hcs : c * c + s * s = 1) :
    e.map3d sqrt outside profile (c * x - s * y) (s * x + c * y) z = e.map3d sqrt outside profile x y z :=
  map3d_axisymmetric sqrt outside profile e.poly e.interpN x y z c s hcs

theorem eq_psiN_nonneg (e : Eq α) (r z : α) : 0 ≤ e.psiN r z := psiN_nonneg e.interpN r z

/-- inside the LCFS, away from the degenerate point, `map_vector2d` does not raise and has exactly the prescribed
components in the equilibrium's own basis at that point -/
theorem eq_velocity_components (sqrt : α → α) (hs : SqrtSpec sqrt) (slerp : V3 α → V3 α → α → V3 α) (e : Eq α)
    (outside : V3 α) (tor pol nrm : α → α) (r z : α) (p n : V3 α)
    (hin : 0 < e.poly r z ∧ e.psiN r z ≤ 1)
    (h : ¬ ((e.bField r z).x = 0 ∧ (e.bField r z).z = 0))
    (hp : e.poloidal sqrt r z = some p) (hn : e.normal sqrt r z = some n) :
    ∃ v, e.mapVector2d sqrt slerp outside tor pol nrm r z = some v ∧
      dot v toroidalVector = tor (e.psiN r z) ∧ dot v p = pol (e.psiN r z) ∧ dot v n = nrm (e.psiN r z) := by
  rw [mapVector2d_cases, if_pos hin]
  exact velocity_components sqrt hs _ p n _ tor pol nrm h hp hn

/-- 3-D: the same components with respect to the basis rotated to the toroidal angle of the point -/
theorem eq_velocity_components_3d (sqrt : α → α) (hs : SqrtSpec sqrt) (atan2 : α → α → α) (cos sin : α → α) (pi : α)
    (slerp : V3 α → V3 α → α → V3 α) (e : Eq α) (outside : V3 α) (tor pol nrm : α → α) (x y z : α) (p n w : V3 α)
    (hcs : ∀ a, cos a * cos a + sin a * sin a = 1) (hpi : pi ≠ 0)
    (hin : 0 < e.poly (sqrt (x * x + y * y)) z ∧ e.psiN (sqrt (x * x + y * y)) z ≤ 1)
    (h : ¬ ((e.bField (sqrt (x * x + y * y)) z).x = 0 ∧ (e.bField (sqrt (x * x + y * y)) z).z = 0))
    (hp : e.poloidal sqrt (sqrt (x * x + y * y)) z = some p) (hn : e.normal sqrt (sqrt (x * x + y * y)) z = some n)
    (hw : e.mapVector3d sqrt atan2 cos sin pi slerp outside tor pol nrm x y z = some w) :
    let R := rotateZ (cos (atan2 y x)) (sin (atan2 y x))
    dot w (R toroidalVector) = tor (e.psiN (sqrt (x * x + y * y)) z) ∧
    dot w (R p) = pol (e.psiN (sqrt (x * x + y * y)) z) ∧
    dot w (R n) = nrm (e.psiN (sqrt (x * x + y * y)) z) := by
  obtain ⟨v, hv, _, hdot⟩ := mapVector3d_eq sqrt atan2 cos sin pi slerp e outside tor pol nrm x y z w hcs hpi hw
  obtain ⟨v', hv', h1, h2, h3⟩ := eq_velocity_components sqrt hs slerp e outside tor pol nrm _ z p n hin h hp hn
  rw [hv] at hv'; cases hv'
  exact ⟨by rw [hdot]; exact h1, by rw [hdot]; exact h2, by rw [hdot]; exact h3⟩

/-- outside the LCFS the 3-D vector map is the rotated outside vector -/
theorem eq_mapVector2d_outside (sqrt : α → α) (slerp : V3 α → V3 α → α → V3 α) (e : Eq α)
    (outside : V3 α) (tor pol nrm : α → α) (r z : α) (hout : ¬ (0 < e.poly r z ∧ e.psiN r z ≤ 1)) :
    e.mapVector2d sqrt slerp outside tor pol nrm r z = some outside := by
  rw [mapVector2d_cases, if_neg hout]

/-! ## proof-deepening pass -/

/-! ### the flux-surface basis in terms of ∇ψ (either sign of ψ_lcfs − ψ_axis) -/

/-- the in-plane field vanishes exactly where ∇ψ does (r ≠ 0) -/
theorem eq_field_nonzero_iff_gradient (e : Eq α) (r z : α) (hr : r ≠ 0) :
    ((e.bField r z).x = 0 ∧ (e.bField r z).z = 0) ↔ (e.dpsidr r z = 0 ∧ e.dpsidz r z = 0) := by
  simp only [Eq.bField, bField, div_eq_zero_iff, neg_eq_zero, hr, or_false]
  tauto

/-- For every point with r > 0 and ∇ψ ≠ 0, whatever the sign convention of ψ: the three vectors exist, are orthonormal,
n = p × t, the poloidal vector and the field are tangent to the flux surface (p·∇ψ = 0, B·n = 0), and the normal points
down the ψ gradient (n·∇ψ < 0: outwards iff ψ decreases outwards, i.e. iff ψ_lcfs < ψ_axis). -/
theorem eq_basis_wrt_gradient (sqrt : α → α) (hs : SqrtSpec sqrt) (e : Eq α) (r z : α) (hr : 0 < r)
    (hg : ¬ (e.dpsidr r z = 0 ∧ e.dpsidz r z = 0)) :
    ∃ p n, e.poloidal sqrt r z = some p ∧ e.normal sqrt r z = some n ∧
      (dot p p = 1 ∧ dot n n = 1 ∧ dot p n = 0 ∧ dot p toroidalVector = 0 ∧ dot n toroidalVector = 0) ∧
      n = cross p toroidalVector ∧
      dot p ⟨e.dpsidr r z, 0, e.dpsidz r z⟩ = 0 ∧
      dot n ⟨e.dpsidr r z, 0, e.dpsidz r z⟩ < 0 ∧
      dot (e.bField r z) n = 0 := by
  have hb : ¬ ((e.bField r z).x = 0 ∧ (e.bField r z).z = 0) :=
    fun h => hg ((eq_field_nonzero_iff_gradient e r z hr.ne').mp h)
  obtain ⟨⟨p, hp⟩, ⟨n, hn⟩⟩ := basis_defined sqrt (e.bField r z)
  obtain ⟨h1, h2, _, h4, h5, h6⟩ := basis_orthonormal sqrt hs _ p n hb hp hn
  obtain ⟨k, hk, hpk⟩ := poloidal_along_field sqrt hs _ p hb hp
  obtain ⟨k', hk', hnk⟩ := normal_antiparallel_grad_psi sqrt hs e r z n hr hb hn
  refine ⟨p, n, hp, hn, ⟨h1, h2, h4, h5, h6⟩, normal_is_pol_cross_tor sqrt _ p n hp hn, ?_, ?_, field_tangent sqrt _ n hn⟩
  · rw [hpk]; simp only [dot, smul, Eq.bField, bField]; field_simp; ring
  · rw [hnk]; simp only [dot, smul]
    have hsq : 0 < e.dpsidr r z * e.dpsidr r z + e.dpsidz r z * e.dpsidz r z := by
      by_cases h0 : e.dpsidr r z = 0
      · have : e.dpsidz r z ≠ 0 := fun h => hg ⟨h0, h⟩
        nlinarith [mul_self_pos.mpr this, mul_self_nonneg (e.dpsidr r z)]
      · nlinarith [mul_self_pos.mpr h0, mul_self_nonneg (e.dpsidz r z)]
    nlinarith

/-- outside the LCFS the 3-D vector map is the outside vector rotated to the toroidal angle of the point -/
theorem eq_mapVector3d_outside (sqrt : α → α) (atan2 : α → α → α) (cos sin : α → α) (pi : α)
    (slerp : V3 α → V3 α → α → V3 α) (e : Eq α) (outside : V3 α) (tor pol nrm : α → α) (x y z : α)
    (hpi : pi ≠ 0)
    (hout : ¬ (0 < e.poly (sqrt (x * x + y * y)) z ∧ e.psiN (sqrt (x * x + y * y)) z ≤ 1)) :
    e.mapVector3d sqrt atan2 cos sin pi slerp outside tor pol nrm x y z =
      some (rotateZ (cos (atan2 y x)) (sin (atan2 y x)) outside) := by
  unfold Eq.mapVector3d vectorAxisymmetric
  rw [eq_mapVector2d_outside sqrt slerp e outside tor pol nrm _ z hout, rotAngle_eq atan2 pi x y hpi]

/-! ### profile tables: which rows are read is decided by the number of rows alone -/

/-- decision form: an array (list of rows) is accepted iff it has at least two rows, and then rows 0 and 1 are the abscissa
and the ordinate — independent of the number of columns, so neither 2×2 nor N×2 is ever transposed -/
theorem profileRows_decision {β : Type} (rows : List (List β)) :
    profileRows rows = if h : 2 ≤ rows.length then some (rows[0], rows[1]) else none := by
  match rows with
  | [] => rfl
  | [_] => rfl
  | _ :: _ :: _ => simp [profileRows]

/-- a 2×2 table and its transpose are read differently unless they coincide: the orientation is never guessed -/
theorem profileRows_2x2_orientation {β : Type} (a b c d : β) (h : b ≠ c) :
    profileRows [[a, b], [c, d]] ≠ profileRows [[a, c], [b, d]] := by
  simp [profileRows, h]

/-! ### finite-difference derivative grids on a non-uniform axis (`_calculate_differentials`) -/

/-- interior node on any grid: the index-space chain rule is the central divided difference over the two neighbours -/
theorem dpsi_interior_eq (fm fp rm rp : α) :
    dpsiNode (gradInterior fm fp) (gradInterior rm rp) = (fp - fm) / (rp - rm) := by
  simp only [dpsiNode, gradInterior]
  by_cases h : rp - rm = 0
  · simp [h]
  · field_simp
    norm_num

/-- exact for affine ψ(r) = a r + b at every node type of any (non-degenerate) grid -/
theorem dpsi_affine_exact (a b r0 r1 r2 : α) :
    (r2 ≠ r0 → dpsiNode (gradInterior (a * r0 + b) (a * r2 + b)) (gradInterior r0 r2) = a) ∧
    (gradFirst r0 r1 r2 ≠ 0 → dpsiNode (gradFirst (a * r0 + b) (a * r1 + b) (a * r2 + b)) (gradFirst r0 r1 r2) = a) ∧
    (gradLast r0 r1 r2 ≠ 0 → dpsiNode (gradLast (a * r0 + b) (a * r1 + b) (a * r2 + b)) (gradLast r0 r1 r2) = a) := by
  refine ⟨fun h => ?_, fun h => ?_, fun h => ?_⟩
  · rw [dpsi_interior_eq]; have : r2 - r0 ≠ 0 := sub_ne_zero.mpr h; field_simp; ring
  · have e : gradFirst (a * r0 + b) (a * r1 + b) (a * r2 + b) = a * gradFirst r0 r1 r2 := by
      simp only [gradFirst]; norm_num; ring
    rw [e]; simp only [dpsiNode]; field_simp; norm_num
  · have e : gradLast (a * r0 + b) (a * r1 + b) (a * r2 + b) = a * gradLast r0 r1 r2 := by
      simp only [gradLast]; norm_num; ring
    rw [e]; simp only [dpsiNode]; field_simp; norm_num

/-- quadratic ψ(r) = a r² + b r + c at an interior node `ri` with neighbours `rm`, `rp` on an arbitrary grid: the code's value
is the true derivative plus `a·((rp − ri) − (ri − rm))` — first-order in the local non-uniformity -/
theorem dpsi_interior_quadratic (a b c rm ri rp : α) (h : rp ≠ rm) :
    dpsiNode (gradInterior (a * rm * rm + b * rm + c) (a * rp * rp + b * rp + c)) (gradInterior rm rp)
      = (2 * a * ri + b) + a * ((rp - ri) - (ri - rm)) := by
  rw [dpsi_interior_eq]; have : rp - rm ≠ 0 := sub_ne_zero.mpr h; field_simp; ring

/-- hence exact for a quadratic iff the grid is locally uniform (or the quadratic term vanishes) -/
theorem dpsi_interior_quadratic_exact_iff (a b c rm ri rp : α) (h : rp ≠ rm) :
    dpsiNode (gradInterior (a * rm * rm + b * rm + c) (a * rp * rp + b * rp + c)) (gradInterior rm rp) = 2 * a * ri + b
      ↔ (a = 0 ∨ rp - ri = ri - rm) := by
  rw [dpsi_interior_quadratic a b c rm ri rp h]
  constructor
  · intro h1
    have : a * ((rp - ri) - (ri - rm)) = 0 := by linarith
    rcases mul_eq_zero.mp this with h2 | h2
    · exact Or.inl h2
    · exact Or.inr (by linarith)
  · rintro (h1 | h1)
    · rw [h1]; ring
    · rw [h1]; ring

/-- on a uniform grid (spacing h ≠ 0) the value is exact for quadratics at all three node types, the one-sided edge
formulas included -/
theorem dpsi_uniform_quadratic_exact (a b c r0 h : α) (hh : h ≠ 0) :
    let q : α → α := fun r => a * r * r + b * r + c
    dpsiNode (gradFirst (q r0) (q (r0 + h)) (q (r0 + 2 * h))) (gradFirst r0 (r0 + h) (r0 + 2 * h)) = 2 * a * r0 + b ∧
    dpsiNode (gradInterior (q r0) (q (r0 + 2 * h))) (gradInterior r0 (r0 + 2 * h)) = 2 * a * (r0 + h) + b ∧
    dpsiNode (gradLast (q r0) (q (r0 + h)) (q (r0 + 2 * h))) (gradLast r0 (r0 + h) (r0 + 2 * h)) = 2 * a * (r0 + 2 * h) + b := by
  intro q
  have g1 : gradFirst r0 (r0 + h) (r0 + 2 * h) = h := by simp only [gradFirst]; norm_num; ring
  have g3 : gradLast r0 (r0 + h) (r0 + 2 * h) = h := by simp only [gradLast]; norm_num; ring
  refine ⟨?_, ?_, ?_⟩
  · rw [g1]; simp only [dpsiNode, gradFirst, q]; field_simp; norm_num; ring
  · rw [dpsi_interior_eq]; simp only [q]
    have : r0 + 2 * h - r0 ≠ 0 := by simpa using hh
    field_simp; ring
  · rw [g3]; simp only [dpsiNode, gradLast, q]; field_simp; norm_num; ring

/-- witness (non-uniform axis 0, 1, 3; ψ = r²): the code's derivative at r = 1 is 3, the true one 2 -/
example : dpsiNode (gradInterior ((0 : ℚ) * 0) (3 * 3)) (gradInterior (0 : ℚ) 3) = 3 := by
  rw [dpsi_interior_eq]; norm_num

example : ∃ (e : Eq ℝ) (r z : ℝ), 0 < r ∧ ¬ (e.dpsidr r z = 0 ∧ e.dpsidz r z = 0) :=
  ⟨⟨fun _ _ => 0, fun _ _ => 1, fun _ _ => 3, fun _ _ => -4, fun _ => 1, 1, 1⟩, 2, 0, by norm_num, by norm_num⟩

example : profileRows [[(0 : ℚ), 1], [5, 9]] = some ([0, 1], [5, 9]) := rfl

/-! ## non-vacuity -/

example : SqrtSpec Real.sqrt := fun x hx => ⟨Real.mul_self_sqrt hx, Real.sqrt_nonneg x⟩

/-- a concrete non-degenerate field vector over ℝ: hypotheses of the basis theorems are satisfiable -/
example : ∃ p n : V3 ℝ, poloidalVector Real.sqrt ⟨3, 7, 4⟩ = some p ∧ surfaceNormal Real.sqrt ⟨3, 7, 4⟩ = some n ∧
    dot p n = 0 ∧ dot p p = 1 ∧ n = cross p toroidalVector := by
  have h : ¬ ((⟨3, 7, 4⟩ : V3 ℝ).x = 0 ∧ (⟨3, 7, 4⟩ : V3 ℝ).z = 0) := by norm_num
  obtain ⟨⟨p, hp⟩, ⟨n, hn⟩⟩ := basis_defined Real.sqrt (⟨3, 7, 4⟩ : V3 ℝ)
  have hs : SqrtSpec Real.sqrt := fun x hx => ⟨Real.mul_self_sqrt hx, Real.sqrt_nonneg x⟩
  obtain ⟨a, b, _, c, _, _⟩ := basis_orthonormal Real.sqrt hs _ p n h hp hn
  exact ⟨p, n, hp, hn, c, a, normal_is_pol_cross_tor Real.sqrt _ p n hp hn⟩

/-- inside / outside both occur: ψN = 1/2 inside the polygon, ψN = 2 inside the polygon (excluded by ψN ≤ 1) -/
example : map2d (7 : ℚ) (fun x => 10 * x) (fun _ _ => 1) (fun _ _ => 1 / 2) 2 0 = 5 := by
  rw [map2d_cases]; simp [psiN, clampLo]; norm_num
example : map2d (7 : ℚ) (fun x => 10 * x) (fun _ _ => 1) (fun _ _ => 2) 2 0 = 7 := by
  rw [map2d_cases]; simp [psiN, clampLo]; norm_num
example : psiN (fun _ _ => (-3 : ℚ)) 2 0 = 0 := by simp [psiN, clampLo]

/-- a rotation with `c² + s² = 1` over ℚ -/
example : ((3 : ℚ) / 5) * (3 / 5) + (4 / 5) * (4 / 5) = 1 := by norm_num

end Cherab.Props.C12
