import Cherab.Lemmas.Admt
import Mathlib.Algebra.Field.Rat
import Mathlib.Algebra.Order.Ring.Rat

/-!
# C20 — grid derivative and ADMT operators discretise the operators they claim to

Objects (all from `Model/Admt.lean`, assembled from the *generated* `Gen/Admt.lean`):

* `opTimes nx ny dx dy op v k` — `(generate_derivative_operators(...)[op] @ v)[k]` on the documented layout
  (`n_x × n_y` voxels, 1-D index `ix·n_y + iy`, `iy` growing downwards), computed from the dense row of the model;
  `none` = the call raises (`IndexError`).
* `sample` — a field sampled at the voxel centres `(x0 + ix·dx, y0 − iy·dy)`.
* `coeffs`, `entry`, `admtEntry` — `calculate_admt`.

Every theorem is for all `n_x, n_y ≥ 2`, all cells, all origins, all non-zero steps, over an arbitrary ordered field.
-/
namespace Cherab.Props.C20
set_option linter.unusedSectionVars false
set_option linter.unusedVariables false
set_option linter.unusedTactic false
set_option linter.unreachableTactic false
open Cherab.Admt Cherab.Gen.Admt

variable {α : Type} [Field α] [LinearOrder α] [IsStrictOrderedRing α]

/-- the field `f` sampled at the voxel centres; voxel `k` is `(k / n_y, k % n_y)` -/
def sample (ny : Nat) (x0 y0 dx dy : α) (f : α → α → α) (k : Nat) : α :=
  f (x0 + ((k / ny : Nat) : α) * dx) (y0 - ((k % ny : Nat) : α) * dy)

/-- 2-D index of voxel `k` -/
def cellOf (ny k : Nat) : Int × Int := (((k / ny : Nat) : Int), ((k % ny : Nat) : Int))

/-- `(generate_derivative_operators(...)[op] @ v)[k]`; `none` = `IndexError` -/
def opTimes (nx ny : Nat) (dx dy : α) (op : Op5) (v : Nat → α) (k : Nat) : Option α :=
  (rowTable (fullCells nx ny) (cellOf ny k)).map fun t =>
    dotN (nx * ny) (opEntry (fullCells nx ny) dx dy (cellOf ny k) t op) v

/-- centre of voxel `k` -/
def cx0 (ny : Nat) (x0 dx : α) (k : Nat) : α := x0 + ((k / ny : Nat) : α) * dx
def cy0 (ny : Nat) (y0 dy : α) (k : Nat) : α := y0 - ((k % ny : Nat) : α) * dy

/-- interior voxel: not in the first/last column or row -/
def interiorCell (nx ny k : Nat) : Prop := 0 < k / ny ∧ k / ny + 1 < nx ∧ 0 < k % ny ∧ k % ny + 1 < ny

/-! ### bookkeeping: from the dense row to the stencil of the boundary class -/

theorem cell_bounds {nx ny k : Nat} (hk : k < nx * ny) : k / ny < nx ∧ k % ny < ny := by
  have hny : 0 < ny := by
    rcases Nat.eq_zero_or_pos ny with h0 | h0
    · subst h0; simp at hk
    · exact h0
  exact ⟨(Nat.div_lt_iff_lt_mul hny).mpr hk, Nat.mod_lt _ hny⟩

/-- `opTimes` is the stencil of the cell's boundary class applied to the 2-D neighbourhood -/
theorem opTimes_eq (nx ny k : Nat) (h2x : 2 ≤ nx) (h2y : 2 ≤ ny) (hk : k < nx * ny) :
    ∃ t, StencilFacts (clsOf nx ny (k / ny) (k % ny)) t ∧ ∀ (op : Op5) (dx dy : α) (v : Nat → α),
      opTimes nx ny dx dy op v k = some (applyStencil t op dx dy
        (fun di dj => v ((((k / ny : Nat) : Int) + di).toNat * ny + (((k % ny : Nat) : Int) + dj).toNat))) := by
  obtain ⟨hx, hy⟩ := cell_bounds hk
  obtain ⟨t, ht, hf, hd⟩ := dense_dot_eq_stencil (α := α) nx ny (k / ny) (k % ny) hx hy h2x h2y
  refine ⟨t, hf, ?_⟩
  intro op dx dy v
  unfold opTimes cellOf
  rw [ht, Option.map_some, hd]

/-- on the positions a row actually uses, the sampled polynomial is the polynomial in the offsets -/
theorem sample_offsets (nx ny k : Nat) (hk : k < nx * ny) (t : Table)
    (hf : StencilFacts (clsOf nx ny (k / ny) (k % ny)) t) (op : Op5) (dx dy x0 y0 : α) (f : α → α → α) :
    applyStencil t op dx dy (fun di dj => sample ny x0 y0 dx dy f
        ((((k / ny : Nat) : Int) + di).toNat * ny + (((k % ny : Nat) : Int) + dj).toNat)) =
      applyStencil t op dx dy (fun di dj => f (cx0 ny x0 dx k + (di : α) * dx) (cy0 ny y0 dy k - (dj : α) * dy)) := by
  obtain ⟨hx, hy⟩ := cell_bounds hk
  apply applyStencil_congr
  intro p hp
  have hhas : (clsOf nx ny (k / ny) (k % ny)).has p = true := by
    by_contra hc
    exact hp (hf.absent op (Op5.mem_all op) p (Pos.mem_all p) (by simpa using hc))
  have hin := congrFun (hasOf_full nx ny (k / ny) (k % ny) hx hy) p
  rw [hhas] at hin
  unfold hasOf at hin
  rw [neighbour_full, isSome_ite, decide_eq_true_iff] at hin
  obtain ⟨h1, h2, h3, h4⟩ := hin
  obtain ⟨a, ha⟩ := Int.eq_ofNat_of_zero_le h1
  obtain ⟨b, hb⟩ := Int.eq_ofNat_of_zero_le h3
  have hb' : b < ny := by rw [hb] at h4; exact_mod_cast h4
  have e1 : (a * ny + b) / ny = a := by
    rw [Nat.mul_comm, Nat.mul_add_div (by omega), Nat.div_eq_of_lt hb']; rfl
  have e2 : (a * ny + b) % ny = b := by
    rw [Nat.mul_comm, Nat.mul_add_mod, Nat.mod_eq_of_lt hb']
  have ca : (a : α) = ((k / ny : Nat) : α) + ((p.off.1 : Int) : α) := by
    have : ((a : Int) : α) = (((k / ny : Nat) : Int) : α) + ((p.off.1 : Int) : α) := by rw [← ha]; push_cast; ring
    rwa [Int.cast_natCast, Int.cast_natCast] at this
  have cb : (b : α) = ((k % ny : Nat) : α) + ((p.off.2 : Int) : α) := by
    have : ((b : Int) : α) = (((k % ny : Nat) : Int) : α) + ((p.off.2 : Int) : α) := by rw [← hb]; push_cast; ring
    rwa [Int.cast_natCast, Int.cast_natCast] at this
  simp only [sample, cx0, cy0, ha, hb, Int.toNat_natCast, e1, e2, ca, cb]
  congr 1 <;> ring

/-- master formula at grid level: any operator applied to a sampled quadratic, in every cell -/
theorem opTimes_quadratic (nx ny k : Nat) (h2x : 2 ≤ nx) (h2y : 2 ≤ ny) (hk : k < nx * ny) :
    ∃ t, StencilFacts (clsOf nx ny (k / ny) (k % ny)) t ∧
      ∀ (op : Op5) (dx dy x0 y0 a0 a1 a2 a3 a4 a5 : α),
        opTimes nx ny dx dy op (sample ny x0 y0 dx dy (quad a0 a1 a2 a3 a4 a5)) k =
          some ((quad a0 a1 a2 a3 a4 a5 (cx0 ny x0 dx k) (cy0 ny y0 dy k) * (mom t op 0 0 : α)
            + (a1 + 2 * a3 * cx0 ny x0 dx k + a4 * cy0 ny y0 dy k) * dx * (mom t op 1 0 : α)
            - (a2 + a4 * cx0 ny x0 dx k + 2 * a5 * cy0 ny y0 dy k) * dy * (mom t op 0 1 : α)
            + a3 * dx ^ 2 * (mom t op 2 0 : α) - a4 * (dx * dy) * (mom t op 1 1 : α)
            + a5 * dy ^ 2 * (mom t op 0 2 : α)) / (4 * scaleDen op dx dy)) := by
  obtain ⟨t, hf, h⟩ := opTimes_eq (α := α) nx ny k h2x h2y hk
  refine ⟨t, hf, ?_⟩
  intro op dx dy x0 y0 a0 a1 a2 a3 a4 a5
  rw [h, sample_offsets nx ny k hk t hf,
    applyStencil_quadratic t op (fun p => hf.den op (Op5.mem_all op) p (Pos.mem_all p))]

/-! ### the derivative operators -/

/-- **no cell of a grid with at least two rows and two columns raises**: every neighbour lookup a row relies on
succeeds -/
theorem ops_total (nx ny k : Nat) (h2x : 2 ≤ nx) (h2y : 2 ≤ ny) (hk : k < nx * ny) (op : Op5) (dx dy : α)
    (v : Nat → α) : (opTimes nx ny dx dy op v k).isSome = true := by
  obtain ⟨t, _, h⟩ := opTimes_eq (α := α) nx ny k h2x h2y hk
  rw [h]; rfl

/-- **every generated operator maps a constant field to zero**, in every cell -/
theorem ops_annihilate_constants (nx ny k : Nat) (h2x : 2 ≤ nx) (h2y : 2 ≤ ny) (hk : k < nx * ny) (op : Op5)
    (dx dy c : α) : opTimes nx ny dx dy op (fun _ => c) k = some 0 := by
  obtain ⟨t, hf, h⟩ := opTimes_quadratic (α := α) nx ny k h2x h2y hk
  have hs : (fun _ : Nat => c) = sample ny 0 0 dx dy (quad c 0 0 0 0 0) := by
    funext j; simp [sample, quad]
  rw [hs, h, hf.m00 op (Op5.mem_all op)]
  simp [quad]

/-- **the first-derivative operators return the exact gradient of any linear field in every cell** -/
theorem dx_dy_exact_linear (nx ny k : Nat) (h2x : 2 ≤ nx) (h2y : 2 ≤ ny) (hk : k < nx * ny)
    (dx dy x0 y0 a0 a1 a2 : α) (hdx : dx ≠ 0) (hdy : dy ≠ 0) :
    opTimes nx ny dx dy .Dx (sample ny x0 y0 dx dy (fun X Y => a0 + a1 * X + a2 * Y)) k = some a1 ∧
    opTimes nx ny dx dy .Dy (sample ny x0 y0 dx dy (fun X Y => a0 + a1 * X + a2 * Y)) k = some a2 := by
  obtain ⟨t, hf, h⟩ := opTimes_quadratic (α := α) nx ny k h2x h2y hk
  have hs : (fun X Y : α => a0 + a1 * X + a2 * Y) = quad a0 a1 a2 0 0 0 := by
    funext X Y; simp [quad]
  rw [hs, h, h, hf.m00 _ (Op5.mem_all _), hf.m00 _ (Op5.mem_all _), hf.dx.1, hf.dx.2, hf.dy.1, hf.dy.2]
  constructor
  · simp only [scaleDen]; push_cast; congr 1; field_simp; ring
  · simp only [scaleDen]; push_cast; congr 1; field_simp; ring

/-- **the mixed operator returns the exact mixed derivative of any bilinear field in every cell** — in fact of any
quadratic field: all its moments up to order two other than `m₁₁` vanish in all nine boundary classes -/
theorem dxy_exact_bilinear (nx ny k : Nat) (h2x : 2 ≤ nx) (h2y : 2 ≤ ny) (hk : k < nx * ny)
    (dx dy x0 y0 a0 a1 a2 a3 a4 a5 : α) (hdx : dx ≠ 0) (hdy : dy ≠ 0) :
    opTimes nx ny dx dy .Dxy (sample ny x0 y0 dx dy (quad a0 a1 a2 a3 a4 a5)) k = some a4 := by
  obtain ⟨t, hf, h⟩ := opTimes_quadratic (α := α) nx ny k h2x h2y hk
  have hm := hf.dxy
  simp only [moms, List.cons.injEq, and_true] at hm
  obtain ⟨m1, m2, m3, m4, m5, m6⟩ := hm
  rw [h, m1, m2, m3, m4, m5, m6]
  simp only [scaleDen]; push_cast; congr 1; field_simp; ring

/-- **all five operators are exact for quadratic fields in interior cells**
(`Dxx → 2a₃`, `Dyy → 2a₅`, `Dxy → a₄`, `Dx`, `Dy` → the gradient at the cell centre) -/
theorem ops_exact_quadratic_interior (nx ny k : Nat) (h2x : 2 ≤ nx) (h2y : 2 ≤ ny) (hk : k < nx * ny)
    (hint : interiorCell nx ny k) (dx dy x0 y0 a0 a1 a2 a3 a4 a5 : α) (hdx : dx ≠ 0) (hdy : dy ≠ 0) :
    let v := sample ny x0 y0 dx dy (quad a0 a1 a2 a3 a4 a5)
    opTimes nx ny dx dy .Dxx v k = some (2 * a3) ∧ opTimes nx ny dx dy .Dyy v k = some (2 * a5) ∧
    opTimes nx ny dx dy .Dxy v k = some a4 ∧
    opTimes nx ny dx dy .Dx v k = some (a1 + 2 * a3 * cx0 ny x0 dx k + a4 * cy0 ny y0 dy k) ∧
    opTimes nx ny dx dy .Dy v k = some (a2 + a4 * cx0 ny x0 dx k + 2 * a5 * cy0 ny y0 dy k) := by
  intro v
  obtain ⟨t, hf, h⟩ := opTimes_quadratic (α := α) nx ny k h2x h2y hk
  have hi : (clsOf nx ny (k / ny) (k % ny)).interior = true := by
    obtain ⟨i1, i2, i3, i4⟩ := hint
    simp only [Cls.interior, clsOf, Bool.and_eq_true, Bool.not_eq_true', beq_eq_false_iff_ne, ne_eq]
    omega
  obtain ⟨hDx, hDy, hDxx, hDyy⟩ := hf.interior hi
  have hDxy := hf.dxy
  simp only [moms, List.cons.injEq, and_true] at hDx hDy hDxx hDyy hDxy
  refine ⟨?_, ?_, ?_, ?_, ?_⟩
  · obtain ⟨m1, m2, m3, m4, m5, m6⟩ := hDxx
    simp only [v]; rw [h, m1, m2, m3, m4, m5, m6]
    simp only [scaleDen, Cherab.Admt.sq]; push_cast; congr 1; field_simp; ring
  · obtain ⟨m1, m2, m3, m4, m5, m6⟩ := hDyy
    simp only [v]; rw [h, m1, m2, m3, m4, m5, m6]
    simp only [scaleDen, Cherab.Admt.sq]; push_cast; congr 1; field_simp; ring
  · obtain ⟨m1, m2, m3, m4, m5, m6⟩ := hDxy
    simp only [v]; rw [h, m1, m2, m3, m4, m5, m6]
    simp only [scaleDen]; push_cast; congr 1; field_simp; ring
  · obtain ⟨m1, m2, m3, m4, m5, m6⟩ := hDx
    simp only [v]; rw [h, m1, m2, m3, m4, m5, m6]
    simp only [scaleDen]; push_cast; congr 1; field_simp; ring
  · obtain ⟨m1, m2, m3, m4, m5, m6⟩ := hDy
    simp only [v]; rw [h, m1, m2, m3, m4, m5, m6]
    simp only [scaleDen]; push_cast; congr 1; field_simp; ring

/-! ### geometry enters only through `(dx, dy)` -/

/-- **independent of the origin**: the steps the code extracts from the voxel centres
(`np.min(abs(np.diff(centres)[≠ 0]))`, column-major order) are the grid's `dx, dy > 0` wherever the grid sits; the
stencils (`rowTable`) take no coordinates at all, so the operators are functions of `(n_x, n_y, dx, dy)` only and
the exactness theorems above hold for every origin `(x0, y0)` and every `dx, dy ≠ 0`. -/
theorem steps_extracted_origin_independent (nx ny : Nat) (h2x : 2 ≤ nx) (h2y : 2 ≤ ny) (x0 y0 dx dy : α)
    (hdx : 0 < dx) (hdy : 0 < dy) :
    extractSteps ((List.range (nx * ny)).map fun k =>
      centre [(cx0 ny x0 dx k + dx / 2, cy0 ny y0 dy k + dy / 2), (cx0 ny x0 dx k + dx / 2, cy0 ny y0 dy k - dy / 2),
              (cx0 ny x0 dx k - dx / 2, cy0 ny y0 dy k - dy / 2), (cx0 ny x0 dx k - dx / 2, cy0 ny y0 dy k + dy / 2)])
      = some (dx, dy) := by
  simp only [centre_rect]
  exact extractSteps_full nx ny h2x h2y x0 y0 dx dy hdx hdy

/-- a single row or a single column is outside the property (and the code raises `IndexError` there) -/
theorem degenerate_grid_raises : ∀ c ∈ allCls, c.valid = false → stencil c = none := stencil_invalid

/-! ### `calculate_admt`: the coefficients -/

/-- **The coefficient identity.**  For every field, every value of the derivatives of ψ with `|∇ψ|² ≠ 0`, every
`R ≠ 0`, anisotropy `≠ 0`, and every test function (through its derivatives `fx … fyy`), the combination
`cx·fx + cy·fy + cxx·fxx + 2cxy·fxy + cyy·fyy` formed with the code's coefficients is `div(D ∇f)` as defined by the
jet expansion `specDiv` with `D∥ = 1`, `D⊥ = 1/anisotropy` (their derivative slots are what the code feeds in:
`Dx @ Dpar`, …). -/
def CoefficientsMatchJet : Prop :=
  ∀ (β : Type) [Field β] [CharZero β] (an R px py pxx pxy pyy dparx dpary dperpx dperpy fx fy fxx fxy fyy : β),
    an ≠ 0 → R ≠ 0 → px * px + py * py ≠ 0 →
    (coeffs an R px py pxx pxy pyy dparx dpary dperpx dperpy).cx * fx
      + (coeffs an R px py pxx pxy pyy dparx dpary dperpx dperpy).cy * fy
      + (coeffs an R px py pxx pxy pyy dparx dpary dperpx dperpy).cxx * fxx
      + 2 * (coeffs an R px py pxx pxy pyy dparx dpary dperpx dperpy).cxy * fxy
      + (coeffs an R px py pxx pxy pyy dparx dpary dperpx dperpy).cyy * fyy =
      specDiv px py pxx pxy pyy ⟨1 / an, dperpx, dperpy⟩ ⟨1, dparx, dpary⟩ R fx fy fxx fxy fyy

/-- **Isotropic case.**  Anisotropy 1 (and the derivatives of the constant `D` fields zero): the coefficients are
those of `∂²/∂x² + ∂²/∂y² + (1/R) ∂/∂x`, whatever the flux map. -/
def IsotropicIsLaplacian : Prop :=
  ∀ (β : Type) [Field β] [CharZero β] (R px py pxx pxy pyy : β), R ≠ 0 → px * px + py * py ≠ 0 →
    (coeffs 1 R px py pxx pxy pyy 0 0 0 0).cx = 1 / R ∧ (coeffs 1 R px py pxx pxy pyy 0 0 0 0).cy = 0 ∧
    (coeffs 1 R px py pxx pxy pyy 0 0 0 0).cxx = 1 ∧ (coeffs 1 R px py pxx pxy pyy 0 0 0 0).cxy = 0 ∧
    (coeffs 1 R px py pxx pxy pyy 0 0 0 0).cyy = 1

/-- the part of the coefficient identity that holds for the source as it is *and* after the correction: everything
except the coefficient of `∂f/∂x` (`cy, cxx, cxy, cyy` agree with the jet expansion) -/
theorem admt_coefficients_match_jet_partial {β : Type} [Field β]
    (an R px py pxx pxy pyy dparx dpary dperpx dperpy fy fxx fxy fyy : β)
    (ha : an ≠ 0) (hR : R ≠ 0) (hN : px * px + py * py ≠ 0) :
    (coeffs an R px py pxx pxy pyy dparx dpary dperpx dperpy).cy * fy
      + (coeffs an R px py pxx pxy pyy dparx dpary dperpx dperpy).cxx * fxx
      + 2 * (coeffs an R px py pxx pxy pyy dparx dpary dperpx dperpy).cxy * fxy
      + (coeffs an R px py pxx pxy pyy dparx dpary dperpx dperpy).cyy * fyy =
      specDiv px py pxx pxy pyy ⟨1 / an, dperpx, dperpy⟩ ⟨1, dparx, dpary⟩ R 0 fy fxx fxy fyy := by
  have hN' : px ^ 2 + py ^ 2 ≠ 0 := by rwa [pow_two, pow_two]
  have hN'' : py ^ 2 + px ^ 2 ≠ 0 := by rwa [add_comm]
  have hN''' : py * py + px * px ≠ 0 := by rwa [add_comm]
  simp only [coeffs, specDiv, Cherab.Admt.sq, Jet.mul_def, Jet.add_def, Jet.sub_def, Jet.div_def, Jet.const]
  push_cast
  field_simp
  ring

/-- **Verdict on the coefficient identity for the current source** (`dnormCxSlot` is read from
`admt_utils.py` by the translator on every run).
* slot `dpsidxdy` (∂ₓ|∇ψ|² = 2(ψₓψₓₓ + ψ_yψₓ_y), the corrected code): the identity holds;
* otherwise (today: `dpsidyy`): it is **false** — refuted on the rational witness
  `anisotropy = R = 1, ∇ψ = (1, 1), ψₓₓ = ψₓ_y = 0, ψ_yy = 1, f = x`: the code gives `cx = 0`, the operator `1/R = 1`. -/
theorem admt_coefficients_jet_verdict :
    match dnormCxSlot with
    | .dpsidxdy => CoefficientsMatchJet
    | _ => ¬ CoefficientsMatchJet := by
  first
  | (show CoefficientsMatchJet
     intro β _ _ an R px py pxx pxy pyy dparx dpary dperpx dperpy fx fy fxx fxy fyy ha hR hN
     have hN' : px ^ 2 + py ^ 2 ≠ 0 := by rwa [pow_two, pow_two]
     have hN'' : py ^ 2 + px ^ 2 ≠ 0 := by rwa [add_comm]
     have hN''' : py * py + px * px ≠ 0 := by rwa [add_comm]
     simp only [coeffs, specDiv, Cherab.Admt.sq, Jet.mul_def, Jet.add_def, Jet.sub_def, Jet.div_def, Jet.const]
     push_cast
     field_simp
     ring)
  | (show ¬ CoefficientsMatchJet
     intro h
     have := h ℚ 1 1 1 1 0 0 1 0 0 0 0 1 0 0 0 0 (by norm_num) (by norm_num) (by norm_num)
     norm_num [coeffs, specDiv, Cherab.Admt.sq, Jet.mul_def, Jet.add_def, Jet.sub_def, Jet.div_def, Jet.const] at this)

/-- the identity implies the isotropic reduction (so the isotropic clause stands or falls with it) -/
theorem admt_isotropic_of_match (h : CoefficientsMatchJet) : IsotropicIsLaplacian := by
  intro β _ _ R px py pxx pxy pyy hR hN
  have hN' : px ^ 2 + py ^ 2 ≠ 0 := by rwa [pow_two, pow_two]
  have hN'' : py ^ 2 + px ^ 2 ≠ 0 := by rwa [add_comm]
  have hN''' : py * py + px * px ≠ 0 := by rwa [add_comm]
  have e := fun fx fy fxx fxy fyy => h β 1 R px py pxx pxy pyy 0 0 0 0 fx fy fxx fxy fyy one_ne_zero hR hN
  have e1 := e 1 0 0 0 0
  have e2 := e 0 1 0 0 0
  have e3 := e 0 0 1 0 0
  have e4 := e 0 0 0 1 0
  have e5 := e 0 0 0 0 1
  simp only [mul_one, mul_zero, add_zero, zero_add] at e1 e2 e3 e4 e5
  refine ⟨?_, ?_, ?_, ?_, ?_⟩
  · rw [e1]; simp only [specDiv, Jet.mul_def, Jet.add_def, Jet.sub_def, Jet.div_def, Jet.const]; field_simp; ring
  · rw [e2]; simp only [specDiv, Jet.mul_def, Jet.add_def, Jet.sub_def, Jet.div_def, Jet.const]; field_simp; ring
  · rw [e3]; simp only [specDiv, Jet.mul_def, Jet.add_def, Jet.sub_def, Jet.div_def, Jet.const]; field_simp; ring
  · have : (coeffs 1 R px py pxx pxy pyy 0 0 0 0).cxy = (2 * (coeffs 1 R px py pxx pxy pyy 0 0 0 0).cxy) / 2 := by
      field_simp
    rw [this, e4]; simp only [specDiv, Jet.mul_def, Jet.add_def, Jet.sub_def, Jet.div_def, Jet.const]; field_simp; ring
  · rw [e5]; simp only [specDiv, Jet.mul_def, Jet.add_def, Jet.sub_def, Jet.div_def, Jet.const]; field_simp; ring

/-- **Verdict on the isotropic clause for the current source**: with the corrected slot, anisotropy 1 gives exactly
the Laplacian coefficients for every flux map; with the present slot it does not (same witness: `cx = 0 ≠ 1/R`). -/
theorem admt_isotropic_laplacian_verdict :
    match dnormCxSlot with
    | .dpsidxdy => IsotropicIsLaplacian
    | _ => ¬ IsotropicIsLaplacian := by
  first
  | (show IsotropicIsLaplacian
     intro β _ _ R px py pxx pxy pyy hR hN
     have hN' : px ^ 2 + py ^ 2 ≠ 0 := by rwa [pow_two, pow_two]
     have hN'' : py ^ 2 + px ^ 2 ≠ 0 := by rwa [add_comm]
     have hN''' : py * py + px * px ≠ 0 := by rwa [add_comm]
     simp only [coeffs, Cherab.Admt.sq]
     push_cast
     refine ⟨?_, ?_, ?_, ?_, ?_⟩ <;> field_simp <;> ring)
  | (show ¬ IsotropicIsLaplacian
     intro h
     have := (h ℚ 1 1 1 0 0 1 (by norm_num) (by norm_num)).1
     norm_num [coeffs, Cherab.Admt.sq] at this)

/-- **scale invariance**: the coefficients depend on the flux map only through the *direction* of ∇ψ — ψ and `c·ψ`
(`c ≠ 0`, either sign, any magnitude) describe the same flux surfaces and give the same `cx, cy, cxx, cxy, cyy`.
(All derivatives of `c·ψ` are `c` times those of ψ because the operators are linear.) -/
theorem admt_coefficients_scale_invariant {β : Type} [Field β]
    (c an R px py pxx pxy pyy dparx dpary dperpx dperpy : β) (hc : c ≠ 0) (ha : an ≠ 0) (hR : R ≠ 0)
    (hN : px * px + py * py ≠ 0) :
    coeffs an R (c * px) (c * py) (c * pxx) (c * pxy) (c * pyy) dparx dpary dperpx dperpy =
      coeffs an R px py pxx pxy pyy dparx dpary dperpx dperpy := by
  have hN' : px ^ 2 + py ^ 2 ≠ 0 := by rwa [pow_two, pow_two]
  have hN'' : py ^ 2 + px ^ 2 ≠ 0 := by rwa [add_comm]
  have hN''' : py * py + px * px ≠ 0 := by rwa [add_comm]
  have hS : c * px * (c * px) + c * py * (c * py) ≠ 0 := by
    have : c * px * (c * px) + c * py * (c * py) = c * c * (px * px + py * py) := by ring
    rw [this]; exact mul_ne_zero (mul_ne_zero hc hc) hN
  have hS' : c * py * (c * py) + c * px * (c * px) ≠ 0 := by rwa [add_comm]
  simp only [coeffs, Cherab.Admt.sq, Coeffs.mk.injEq]
  push_cast
  refine ⟨?_, ?_, ?_, ?_, ?_⟩ <;> (field_simp; try ring)

/-- **finite**: every divisor met while evaluating the coefficients is one of `anisotropy`, `|∇ψ|²`, `R`;
none vanishes under the property's hypotheses (the list is generated from the `/` nodes of the source) -/
theorem admt_denominators_nonzero {β : Type} [Field β]
    (an R px py pxx pxy pyy dparx dpary dperpx dperpy : β) (ha : an ≠ 0) (hR : R ≠ 0)
    (hN : px * px + py * py ≠ 0) :
    ∀ d ∈ denominators an R px py pxx pxy pyy dparx dpary dperpx dperpy, d ≠ 0 := by
  have hN''' : py * py + px * px ≠ 0 := by rwa [add_comm]
  simp only [denominators, Cherab.Admt.sq, List.forall_mem_cons, List.not_mem_nil, false_imp_iff, implies_true,
    and_true]
  repeat' constructor
  all_goals assumption

/-! ### `calculate_admt` on the generated operators of a full grid -/

/-- the dense operators returned by `generate_derivative_operators` for the full grid (steps `gdx, gdy`) -/
def genOp (nx ny : Nat) (gdx gdy : α) (op : Op5) (i j : Nat) : α :=
  match rowTable (fullCells nx ny) (cellOf ny i) with
  | some t => opEntry (fullCells nx ny) gdx gdy (cellOf ny i) t op j
  | none => 0

theorem opTimes_genOp (nx ny : Nat) (gdx gdy : α) (op : Op5) (v : Nat → α) (k : Nat) (x : α)
    (h : opTimes nx ny gdx gdy op v k = some x) : dotN (nx * ny) (genOp nx ny gdx gdy op k) v = x := by
  unfold opTimes at h
  unfold genOp
  cases ht : rowTable (fullCells nx ny) (cellOf ny k) with
  | none => rw [ht] at h; simp at h
  | some t => rw [ht] at h; simpa using h

/-- discrete `|∇ψ|²` in cell `i`, as `calculate_admt` forms it -/
def normalisationAt (nx ny : Nat) (gdx gdy : α) (psi : Nat → α) (i : Nat) : α :=
  dotN (nx * ny) (genOp nx ny gdx gdy .Dx i) psi * dotN (nx * ny) (genOp nx ny gdx gdy .Dx i) psi
    + dotN (nx * ny) (genOp nx ny gdx gdy .Dy i) psi * dotN (nx * ny) (genOp nx ny gdx gdy .Dy i) psi

/-- **the ADMT operator annihilates constants**: every row sums to zero — for every flux map, anisotropy, radius,
with or without the slip in `dnorm_term_cx` (it only needs the row to be a combination of the five operator rows) -/
theorem admt_annihilates_constants (nx ny i : Nat) (h2x : 2 ≤ nx) (h2y : 2 ≤ ny) (hi : i < nx * ny)
    (sqrt : α → α) (radii psi : Nat → α) (gdx gdy dx dy an c : α) :
    dotN (nx * ny) (admtEntry sqrt (nx * ny) radii (genOp nx ny gdx gdy) psi dx dy an i) (fun _ => c) = 0 := by
  unfold admtEntry admtEntryOf
  rw [dotN_entry]
  have z : ∀ op, dotN (nx * ny) (genOp nx ny gdx gdy op i) (fun _ => c) = 0 := fun op =>
    opTimes_genOp nx ny gdx gdy op _ i 0 (ops_annihilate_constants nx ny i h2x h2y hi op gdx gdy c)
  simp only [z, entry]
  push_cast
  ring

/-- the coefficients `calculate_admt` uses in row `i` of a full grid: the derivatives of the constant `D` fields
vanish because the operators annihilate constants -/
theorem admtCoeffs_full (nx ny i : Nat) (h2x : 2 ≤ nx) (h2y : 2 ≤ ny) (hi : i < nx * ny)
    (radii psi : Nat → α) (gdx gdy an : α) :
    admtCoeffs (nx * ny) radii (genOp nx ny gdx gdy) psi an i =
      coeffs an (radii i)
        (dotN (nx * ny) (genOp nx ny gdx gdy .Dx i) psi) (dotN (nx * ny) (genOp nx ny gdx gdy .Dy i) psi)
        (dotN (nx * ny) (genOp nx ny gdx gdy .Dxx i) psi) (dotN (nx * ny) (genOp nx ny gdx gdy .Dxy i) psi)
        (dotN (nx * ny) (genOp nx ny gdx gdy .Dyy i) psi) 0 0 0 0 := by
  have z : ∀ op (c : α), dotN (nx * ny) (genOp nx ny gdx gdy op i) (fun _ => c) = 0 := fun op c =>
    opTimes_genOp nx ny gdx gdy op _ i 0 (ops_annihilate_constants nx ny i h2x h2y hi op gdx gdy c)
  unfold admtCoeffs
  simp only [z]

/-- **anisotropy one ⇒ Laplacian, entry by entry** (given the isotropic coefficient clause, see
`admt_isotropic_laplacian_verdict`): `calculate_admt(…, anisotropy = 1) = (Dxx + Dyy + diag(1/R) Dx)·√(dx·dy)` for
every flux map whose discrete gradient does not vanish -/
theorem admt_isotropic_is_laplacian (hiso : IsotropicIsLaplacian) [CharZero α]
    (nx ny i j : Nat) (h2x : 2 ≤ nx) (h2y : 2 ≤ ny) (hi : i < nx * ny)
    (sqrt : α → α) (radii psi : Nat → α) (gdx gdy dx dy : α)
    (hR : radii i ≠ 0) (hN : normalisationAt nx ny gdx gdy psi i ≠ 0) :
    admtEntry sqrt (nx * ny) radii (genOp nx ny gdx gdy) psi dx dy 1 i j =
      (genOp nx ny gdx gdy .Dxx i j + genOp nx ny gdx gdy .Dyy i j + genOp nx ny gdx gdy .Dx i j / radii i)
        * sqrt (dx * dy) := by
  unfold admtEntry admtEntryOf
  rw [admtCoeffs_full nx ny i h2x h2y hi]
  obtain ⟨h1, h2, h3, h4, h5⟩ := hiso α (radii i) _ _ (dotN (nx * ny) (genOp nx ny gdx gdy .Dxx i) psi)
    (dotN (nx * ny) (genOp nx ny gdx gdy .Dxy i) psi) (dotN (nx * ny) (genOp nx ny gdx gdy .Dyy i) psi) hR hN
  rw [h1, h2, h3, h4, h5]
  simp only [entry, finalScale]
  push_cast
  ring

/-- **consistency** (given the coefficient identity, see `admt_coefficients_jet_verdict`): in an interior cell the
ADMT row applied to the samples of any quadratic `f` is `√(dx·dy) · div(D ∇f)` evaluated — through the jet expansion
— with the discrete derivatives of ψ at that cell and the *exact* derivatives of `f` at the cell centre.  Together
with the exactness of the five stencils on quadratics this is second-order consistency of the discretisation; the
limit statement itself is not formalised. -/
theorem admt_consistent_interior (hjet : CoefficientsMatchJet) [CharZero α]
    (nx ny i : Nat) (h2x : 2 ≤ nx) (h2y : 2 ≤ ny) (hi : i < nx * ny) (hint : interiorCell nx ny i)
    (sqrt : α → α) (radii psi : Nat → α) (gdx gdy dx dy an x0 y0 a0 a1 a2 a3 a4 a5 : α)
    (hgx : gdx ≠ 0) (hgy : gdy ≠ 0) (ha : an ≠ 0)
    (hR : radii i ≠ 0) (hN : normalisationAt nx ny gdx gdy psi i ≠ 0) :
    dotN (nx * ny) (admtEntry sqrt (nx * ny) radii (genOp nx ny gdx gdy) psi dx dy an i)
        (sample ny x0 y0 gdx gdy (quad a0 a1 a2 a3 a4 a5)) =
      specDiv (dotN (nx * ny) (genOp nx ny gdx gdy .Dx i) psi) (dotN (nx * ny) (genOp nx ny gdx gdy .Dy i) psi)
          (dotN (nx * ny) (genOp nx ny gdx gdy .Dxx i) psi) (dotN (nx * ny) (genOp nx ny gdx gdy .Dxy i) psi)
          (dotN (nx * ny) (genOp nx ny gdx gdy .Dyy i) psi) ⟨1 / an, 0, 0⟩ ⟨1, 0, 0⟩ (radii i)
          (a1 + 2 * a3 * cx0 ny x0 gdx i + a4 * cy0 ny y0 gdy i)
          (a2 + a4 * cx0 ny x0 gdx i + 2 * a5 * cy0 ny y0 gdy i) (2 * a3) a4 (2 * a5)
        * sqrt (dx * dy) := by
  obtain ⟨e1, e2, e3, e4, e5⟩ := ops_exact_quadratic_interior nx ny i h2x h2y hi hint gdx gdy x0 y0
    a0 a1 a2 a3 a4 a5 hgx hgy
  unfold admtEntry admtEntryOf
  rw [dotN_entry, admtCoeffs_full nx ny i h2x h2y hi,
    opTimes_genOp _ _ _ _ _ _ _ _ e1, opTimes_genOp _ _ _ _ _ _ _ _ e2, opTimes_genOp _ _ _ _ _ _ _ _ e3,
    opTimes_genOp _ _ _ _ _ _ _ _ e4, opTimes_genOp _ _ _ _ _ _ _ _ e5]
  rw [← hjet α an (radii i) _ _ _ _ _ 0 0 0 0 _ _ _ _ _ ha hR hN]
  simp only [entry, finalScale]
  push_cast
  ring

/-! ## Proof-deepening pass -/

/-- master formula, with the row table identified as the one of the cell's boundary class -/
theorem opTimes_quadratic_stencil (nx ny k : Nat) (h2x : 2 ≤ nx) (h2y : 2 ≤ ny) (hk : k < nx * ny) :
    ∃ t, stencil (clsOf nx ny (k / ny) (k % ny)) = some t ∧ StencilFacts (clsOf nx ny (k / ny) (k % ny)) t ∧
      ∀ (op : Op5) (dx dy x0 y0 a0 a1 a2 a3 a4 a5 : α),
        opTimes nx ny dx dy op (sample ny x0 y0 dx dy (quad a0 a1 a2 a3 a4 a5)) k =
          some ((quad a0 a1 a2 a3 a4 a5 (cx0 ny x0 dx k) (cy0 ny y0 dy k) * (mom t op 0 0 : α)
            + (a1 + 2 * a3 * cx0 ny x0 dx k + a4 * cy0 ny y0 dy k) * dx * (mom t op 1 0 : α)
            - (a2 + a4 * cx0 ny x0 dx k + 2 * a5 * cy0 ny y0 dy k) * dy * (mom t op 0 1 : α)
            + a3 * dx ^ 2 * (mom t op 2 0 : α) - a4 * (dx * dy) * (mom t op 1 1 : α)
            + a5 * dy ^ 2 * (mom t op 0 2 : α)) / (4 * scaleDen op dx dy)) := by
  obtain ⟨hx, hy⟩ := cell_bounds hk
  obtain ⟨t, ht, hf, hd⟩ := dense_dot_eq_stencil (α := α) nx ny (k / ny) (k % ny) hx hy h2x h2y
  have hst : stencil (clsOf nx ny (k / ny) (k % ny)) = some t := by
    unfold rowTable at ht; rw [hasOf_full nx ny _ _ hx hy] at ht; exact ht
  refine ⟨t, hst, hf, ?_⟩
  intro op dx dy x0 y0 a0 a1 a2 a3 a4 a5
  have h1 : opTimes nx ny dx dy op (sample ny x0 y0 dx dy (quad a0 a1 a2 a3 a4 a5)) k =
      some (applyStencil t op dx dy (fun di dj => sample ny x0 y0 dx dy (quad a0 a1 a2 a3 a4 a5)
        ((((k / ny : Nat) : Int) + di).toNat * ny + (((k % ny : Nat) : Int) + dj).toNat))) := by
    unfold opTimes cellOf; rw [ht, Option.map_some, hd]
  rw [h1, sample_offsets nx ny k hk t hf,
    applyStencil_quadratic t op (fun p => hf.den op (Op5.mem_all op) p (Pos.mem_all p))]

/-- **What every operator returns on a quadratic field in *every* cell — interior, edge and corner — of a grid of any
size `n_x, n_y ≥ 2`.**  With `σx = +1 / −1 / 0` in the first / last / other columns and `σy = −1 / +1 / 0` in the top /
bottom / other rows (`Cls.sx`, `Cls.sy`):
* `Dx = ∂f/∂x + σx·a₃·dx`, `Dy = ∂f/∂y + σy·a₅·dy` (exact in the interior, first-order one-sided error at the edges,
  hence exact for linear fields everywhere);
* `Dxy = a₄` everywhere;
* `Dxx = 2a₃` where `σx = 0`, but in the first and last column `Dxx = (∂f/∂x + σx·a₃·dx)/dx` — the one-sided *first*
  difference divided by `dx` ("second version" of the boundary formulae): it annihilates constants but is **not** a
  discretisation of `∂²/∂x²` there; likewise `Dyy` in the top and bottom rows.  (The property claims second-derivative
  exactness for interior cells only; this theorem makes precise what happens elsewhere.) -/
theorem ops_quadratic_every_cell (nx ny k : Nat) (h2x : 2 ≤ nx) (h2y : 2 ≤ ny) (hk : k < nx * ny)
    (dx dy x0 y0 a0 a1 a2 a3 a4 a5 : α) (hdx : dx ≠ 0) (hdy : dy ≠ 0) :
    let c := clsOf nx ny (k / ny) (k % ny)
    let v := sample ny x0 y0 dx dy (quad a0 a1 a2 a3 a4 a5)
    let fx := a1 + 2 * a3 * cx0 ny x0 dx k + a4 * cy0 ny y0 dy k
    let fy := a2 + a4 * cx0 ny x0 dx k + 2 * a5 * cy0 ny y0 dy k
    opTimes nx ny dx dy .Dx v k = some (fx + (c.sx : α) * a3 * dx) ∧
    opTimes nx ny dx dy .Dy v k = some (fy + (c.sy : α) * a5 * dy) ∧
    opTimes nx ny dx dy .Dxy v k = some a4 ∧
    opTimes nx ny dx dy .Dxx v k = some (if c.sx = 0 then 2 * a3 else (fx + (c.sx : α) * a3 * dx) / dx) ∧
    opTimes nx ny dx dy .Dyy v k = some (if c.sy = 0 then 2 * a5 else (fy + (c.sy : α) * a5 * dy) / dy) := by
  intro c v fx fy
  obtain ⟨t, hst, hf, h⟩ := opTimes_quadratic_stencil (α := α) nx ny k h2x h2y hk
  have hb := boundary_facts c (clsOf_valid nx ny _ _ h2x h2y) t hst
  have hDx := hb.dx
  have hDy := hb.dy
  have hDxy := hf.dxy
  simp only [moms, List.cons.injEq, and_true] at hDx hDy hDxy
  refine ⟨?_, ?_, ?_, ?_, ?_⟩
  · obtain ⟨m1, m2, m3, m4, m5, m6⟩ := hDx
    simp only [v]; rw [h, m1, m2, m3, m4, m5, m6]
    simp only [scaleDen, fx]; push_cast; congr 1; field_simp; ring
  · obtain ⟨m1, m2, m3, m4, m5, m6⟩ := hDy
    simp only [v]; rw [h, m1, m2, m3, m4, m5, m6]
    simp only [scaleDen, fy]; push_cast; congr 1; field_simp; ring
  · obtain ⟨m1, m2, m3, m4, m5, m6⟩ := hDxy
    simp only [v]; rw [h, m1, m2, m3, m4, m5, m6]
    simp only [scaleDen]; push_cast; congr 1; field_simp; ring
  · have hD := hb.dxx
    by_cases hs : c.sx = 0
    · rw [if_pos hs] at hD ⊢
      simp only [moms, List.cons.injEq, and_true] at hD
      obtain ⟨m1, m2, m3, m4, m5, m6⟩ := hD
      simp only [v]; rw [h, m1, m2, m3, m4, m5, m6]
      simp only [scaleDen, Cherab.Admt.sq]; push_cast; congr 1; field_simp; ring
    · rw [if_neg hs] at hD ⊢
      simp only [moms, List.cons.injEq, and_true] at hD
      obtain ⟨m1, m2, m3, m4, m5, m6⟩ := hD
      simp only [v]; rw [h, m1, m2, m3, m4, m5, m6]
      simp only [scaleDen, Cherab.Admt.sq, fx]; push_cast; congr 1; field_simp; ring
  · have hD := hb.dyy
    by_cases hs : c.sy = 0
    · rw [if_pos hs] at hD ⊢
      simp only [moms, List.cons.injEq, and_true] at hD
      obtain ⟨m1, m2, m3, m4, m5, m6⟩ := hD
      simp only [v]; rw [h, m1, m2, m3, m4, m5, m6]
      simp only [scaleDen, Cherab.Admt.sq]; push_cast; congr 1; field_simp; ring
    · rw [if_neg hs] at hD ⊢
      simp only [moms, List.cons.injEq, and_true] at hD
      obtain ⟨m1, m2, m3, m4, m5, m6⟩ := hD
      simp only [v]; rw [h, m1, m2, m3, m4, m5, m6]
      simp only [scaleDen, Cherab.Admt.sq, fy]; push_cast; congr 1; field_simp; ring

/-- non-vacuity: corner voxel 0 of a 2 × 3 grid has `σx = 1, σy = −1`; its `Dxx` on `f = x²` is the first difference
`(0 + dx)/dx = 1`, not `2` -/
example : (clsOf 2 3 0 0).sx = 1 ∧ (clsOf 2 3 0 0).sy = -1 := by decide
example : opTimes 2 3 (1 : ℚ) 1 .Dxx (sample 3 0 0 1 1 (quad 0 0 0 1 0 0)) 0 = some 1 := by
  have h := (ops_quadratic_every_cell 2 3 0 (by decide) (by decide) (by decide) (1 : ℚ) 1 0 0 0 0 0 1 0 0
    one_ne_zero one_ne_zero).2.2.2.1
  have hs : (clsOf 2 3 (0 / 3) (0 % 3)).sx = 1 := by decide
  simp only [hs, cx0, cy0] at h
  rw [h]; norm_num

/-! ### the isotropic and the consistency clause, unconditionally, for the current source

`admt_isotropic_laplacian_verdict` / `admt_coefficients_jet_verdict` have the statement
`match dnormCxSlot with | .dpsidxdy => clause | _ => ¬ clause`; on a tree where `dnorm_term_cx` reads `dpsidxdy` they *are*
the clauses (definitional unfolding).  The theorems below stop compiling if that ever regresses. -/

/-- **anisotropy 1 ⇒ Laplacian as an identity of the generated coefficient formulas** (whatever the flux map) -/
theorem admt_isotropic_coefficients : IsotropicIsLaplacian := admt_isotropic_laplacian_verdict

/-- the generated coefficients are the jet expansion of `div(D ∇f)` -/
theorem admt_coefficients_match_jet : CoefficientsMatchJet := admt_coefficients_jet_verdict

/-- **`calculate_admt(…, anisotropy = 1) = (Dxx + Dyy + diag(1/R)·Dx)·√(dx·dy)`, entry by entry**, for every grid
`n_x, n_y ≥ 2`, every cell, every flux map whose discrete gradient does not vanish there, every `R ≠ 0` -/
theorem admt_isotropic_is_laplacian_full [CharZero α]
    (nx ny i j : Nat) (h2x : 2 ≤ nx) (h2y : 2 ≤ ny) (hi : i < nx * ny)
    (sqrt : α → α) (radii psi : Nat → α) (gdx gdy dx dy : α)
    (hR : radii i ≠ 0) (hN : normalisationAt nx ny gdx gdy psi i ≠ 0) :
    admtEntry sqrt (nx * ny) radii (genOp nx ny gdx gdy) psi dx dy 1 i j =
      (genOp nx ny gdx gdy .Dxx i j + genOp nx ny gdx gdy .Dyy i j + genOp nx ny gdx gdy .Dx i j / radii i)
        * sqrt (dx * dy) :=
  admt_isotropic_is_laplacian admt_isotropic_coefficients nx ny i j h2x h2y hi sqrt radii psi gdx gdy dx dy hR hN

/-- **consistency in interior cells** (see `admt_consistent_interior`), without hypothesis on the source -/
theorem admt_consistent_interior_full [CharZero α]
    (nx ny i : Nat) (h2x : 2 ≤ nx) (h2y : 2 ≤ ny) (hi : i < nx * ny) (hint : interiorCell nx ny i)
    (sqrt : α → α) (radii psi : Nat → α) (gdx gdy dx dy an x0 y0 a0 a1 a2 a3 a4 a5 : α)
    (hgx : gdx ≠ 0) (hgy : gdy ≠ 0) (ha : an ≠ 0)
    (hR : radii i ≠ 0) (hN : normalisationAt nx ny gdx gdy psi i ≠ 0) :
    dotN (nx * ny) (admtEntry sqrt (nx * ny) radii (genOp nx ny gdx gdy) psi dx dy an i)
        (sample ny x0 y0 gdx gdy (quad a0 a1 a2 a3 a4 a5)) =
      specDiv (dotN (nx * ny) (genOp nx ny gdx gdy .Dx i) psi) (dotN (nx * ny) (genOp nx ny gdx gdy .Dy i) psi)
          (dotN (nx * ny) (genOp nx ny gdx gdy .Dxx i) psi) (dotN (nx * ny) (genOp nx ny gdx gdy .Dxy i) psi)
          (dotN (nx * ny) (genOp nx ny gdx gdy .Dyy i) psi) ⟨1 / an, 0, 0⟩ ⟨1, 0, 0⟩ (radii i)
          (a1 + 2 * a3 * cx0 ny x0 gdx i + a4 * cy0 ny y0 gdy i)
          (a2 + a4 * cx0 ny x0 gdx i + 2 * a5 * cy0 ny y0 gdy i) (2 * a3) a4 (2 * a5)
        * sqrt (dx * dy) :=
  admt_consistent_interior admt_coefficients_match_jet nx ny i h2x h2y hi hint sqrt radii psi gdx gdy dx dy an
    x0 y0 a0 a1 a2 a3 a4 a5 hgx hgy ha hR hN

/-- non-vacuity of the two theorems above: their hypotheses hold for `ψ = x + y` on every grid (`|∇ψ|² = 2`, see the
example after `admt_consistent_interior`), `R = x ≥ 1`, and voxel 4 of a 3 × 3 grid is interior -/
example : admtEntry (fun x : ℚ => x) (3 * 3) (fun k => 1 + (k / 3 : Nat)) (genOp 3 3 1 1)
      (sample 3 0 0 1 1 (fun X Y => 0 + 1 * X + 1 * Y)) 1 1 1 4 4 =
    (genOp 3 3 (1 : ℚ) 1 .Dxx 4 4 + genOp 3 3 1 1 .Dyy 4 4 + genOp 3 3 1 1 .Dx 4 4 / (1 + (4 / 3 : Nat))) * (1 * 1) := by
  refine admt_isotropic_is_laplacian_full 3 3 4 4 (by decide) (by decide) (by decide) _ _ _ 1 1 1 1 (by norm_num) ?_
  obtain ⟨e1, e2⟩ := dx_dy_exact_linear 3 3 4 (by decide) (by decide) (by decide) (1 : ℚ) 1 0 0 0 1 1 one_ne_zero one_ne_zero
  unfold normalisationAt
  rw [opTimes_genOp _ _ _ _ _ _ _ _ e1, opTimes_genOp _ _ _ _ _ _ _ _ e2]
  norm_num

/-! ### scale invariance of the assembled operator (any dense operators, any size) -/

/-- **`calculate_admt(c·ψ) = calculate_admt(ψ)`, entry by entry**, for *any* five dense operators `M` of any size `n`
(not only generated ones), any `c ≠ 0` of either sign: the operator depends on the flux map only through the direction
of its discrete gradient.  (S oracle `depends-on-scale-of-psi`, now a theorem about the model; K carries it to the code.) -/
theorem admt_scale_invariant {β : Type} [Field β] (sqrt : β → β) (n : Nat) (radii psi : Nat → β)
    (M : Op5 → Nat → Nat → β) (dx dy an c : β) (i j : Nat) (hc : c ≠ 0) (ha : an ≠ 0) (hR : radii i ≠ 0)
    (hN : dotN n (M .Dx i) psi * dotN n (M .Dx i) psi + dotN n (M .Dy i) psi * dotN n (M .Dy i) psi ≠ 0) :
    admtEntry sqrt n radii M (fun k => c * psi k) dx dy an i j = admtEntry sqrt n radii M psi dx dy an i j := by
  unfold admtEntry admtCoeffs
  simp only [dotN_smul]
  rw [admt_coefficients_scale_invariant c an (radii i) _ _ _ _ _ _ _ _ _ hc ha hR hN]

/-- non-vacuity: the hypotheses of `admt_scale_invariant` hold e.g. for a 2-voxel "grid" with `Dx = [[-1, 1], …]` -/
example : admtEntry (fun x : ℚ => x) 2 (fun _ => 1) (fun op i j => if op = .Dx ∧ j = 1 then 1 else if op = .Dx then -1 else 0)
      (fun k => (-7) * (k : ℚ)) 1 1 2 0 1 =
    admtEntry (fun x : ℚ => x) 2 (fun _ => 1) (fun op i j => if op = .Dx ∧ j = 1 then 1 else if op = .Dx then -1 else 0)
      (fun k => (k : ℚ)) 1 1 2 0 1 := by
  refine admt_scale_invariant _ 2 _ (fun k => (k : ℚ)) _ 1 1 2 (-7) 0 1 (by norm_num) (by norm_num) (by norm_num) ?_
  simp [dotN, List.range, List.range.loop]


/-- **offset invariance**: `calculate_admt(ψ + c) = calculate_admt(ψ)` entry by entry on every generated grid — the
flux map enters only through its discrete derivatives and every operator annihilates constants; in particular a map
shifted so that its maximum or minimum is exactly 0 gives the same (finite) operator.  (Round-5 S oracle
`depends-on-offset-of-psi` as a theorem about the model.) -/
theorem admt_offset_invariant (nx ny i j : Nat) (h2x : 2 ≤ nx) (h2y : 2 ≤ ny) (hi : i < nx * ny)
    (sqrt : α → α) (radii psi : Nat → α) (gdx gdy dx dy an c : α) :
    admtEntry sqrt (nx * ny) radii (genOp nx ny gdx gdy) (fun k => psi k + c) dx dy an i j =
      admtEntry sqrt (nx * ny) radii (genOp nx ny gdx gdy) psi dx dy an i j := by
  have z : ∀ op, dotN (nx * ny) (genOp nx ny gdx gdy op i) (fun _ => c) = 0 := fun op =>
    opTimes_genOp nx ny gdx gdy op _ i 0 (ops_annihilate_constants nx ny i h2x h2y hi op gdx gdy c)
  unfold admtEntry admtCoeffs
  simp only [dotN_add_const, z, add_zero]

/-! ### non-vacuity -/

/-- the nine boundary classes all occur already on a 3 × 3 grid, and voxel 4 is interior -/
example : interiorCell 3 3 4 := by unfold interiorCell; decide
example : (List.range 9).map (fun k => clsOf 3 3 (k / 3) (k % 3)) =
    [⟨true, false, true, false⟩, ⟨true, false, false, false⟩, ⟨true, false, false, true⟩,
     ⟨false, false, true, false⟩, ⟨false, false, false, false⟩, ⟨false, false, false, true⟩,
     ⟨false, true, true, false⟩, ⟨false, true, false, false⟩, ⟨false, true, false, true⟩] := by decide

/-- a concrete instance: `∂/∂x` of `f = 1 + 2x − 3y` in the corner voxel of a 2 × 2 grid with `dx = 1/2, dy = 3` -/
example : opTimes 2 2 (1 / 2 : ℚ) 3 .Dx (sample 2 5 7 (1 / 2) 3 (fun X Y => 1 + 2 * X + (-3) * Y)) 3 = some 2 :=
  (dx_dy_exact_linear 2 2 3 (by decide) (by decide) (by decide) (1 / 2) 3 5 7 1 2 (-3) (by norm_num) (by norm_num)).1

/-- the hypotheses of the ADMT theorems are satisfiable: a linear flux map `ψ = x + y` has discrete
`|∇ψ|² = 2 ≠ 0` in every voxel of every grid -/
example (nx ny i : Nat) (h2x : 2 ≤ nx) (h2y : 2 ≤ ny) (hi : i < nx * ny) :
    normalisationAt nx ny (1 : ℚ) 1 (sample ny 0 0 1 1 (fun X Y => 0 + 1 * X + 1 * Y)) i ≠ 0 := by
  obtain ⟨e1, e2⟩ := dx_dy_exact_linear nx ny i h2x h2y hi (1 : ℚ) 1 0 0 0 1 1 one_ne_zero one_ne_zero
  unfold normalisationAt
  rw [opTimes_genOp _ _ _ _ _ _ _ _ e1, opTimes_genOp _ _ _ _ _ _ _ _ e2]
  norm_num

/-- the witness behind the negative verdicts, evaluated: today's code gives `cx = 0` where `1/R = 1` is required -/
example : dnormCxSlot = .dpsidyy → (coeffs (1 : ℚ) 1 1 1 0 0 1 0 0 0 0).cx = 0 := by
  intro h
  first
  | (norm_num [coeffs, Cherab.Admt.sq]; done)
  | (exfalso; revert h; decide)

end Cherab.Props.C20
