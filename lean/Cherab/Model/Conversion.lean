/-
C07 — cherab/core/utility/conversion.py (the unit-conversion helpers the OpenADAS rate classes and the repository use).
Mathlib-free.

Two layers:

* the functions as written by hand from the source (`evAmuTo`, `evAmuInv`, `photonTo`, `photonInv`, `factorTo`,
  `factorInv`, `evAmuFactor`, `hc9`) — what the theorems speak about;
* a tiny expression language `CExpr` + interpreter `CExpr.eval` for the `return` expressions and the
  `conversion_factor` assignments that `harness/translators/conversion.py` reads from the file on every run
  (`Cherab/Gen/Conversion.lean`), with Python's method resolution along the one-level class hierarchy (`methodOf`).
  The driver evaluates the *generated* expressions; `Props/C07Conv.lean` proves that they are the hand-written functions.

`sqrt` (NumPy's) and the scipy.constants values are parameters.
-/
namespace Cherab.Conv

/-- right-hand sides occurring in conversion.py -/
inductive CExpr
  | x                                   -- first argument of `to` / `inv`
  | wavelength                          -- second argument of `PhotonToJ.to` / `.inv`
  | factor                              -- `cls.conversion_factor`
  | const (name : String)               -- a name imported from scipy.constants
  | lit (mant : Nat) (exp10 : Int)      -- numeric literal `mant · 10^exp10`
  | mul (a b : CExpr)
  | div (a b : CExpr)
  | sq (a : CExpr)                      -- `a ** 2`
  | sqrt (a : CExpr)                    -- `np.sqrt(a)`
  | unknown                             -- anything the translator does not understand
  deriving DecidableEq, Repr, Inhabited

/-- one class of conversion.py -/
structure ConvSrc where
  name : String
  base : String                         -- "" when the class has no base
  factor : Option CExpr                 -- `conversion_factor = …` in the class body
  to : Option CExpr                     -- `return …` of the classmethod `to` defined in the class body
  inv : Option CExpr
  deriving DecidableEq, Repr, Inhabited

/-- Python attribute lookup along the base chain (the file has one level; two steps of fuel) -/
def lookup (sel : ConvSrc → Option CExpr) (tbl : List ConvSrc) : Nat → String → Option CExpr
  | 0, _ => none
  | fuel + 1, cls =>
    match tbl.find? (·.name == cls) with
    | none => none
    | some c =>
      match sel c with
      | some e => some e
      | none => if c.base == "" then none else lookup sel tbl fuel c.base

def methodOf (tbl : List ConvSrc) (cls : String) (inverse : Bool) : Option CExpr :=
  lookup (fun c => if inverse then c.inv else c.to) tbl 2 cls

def factorOf (tbl : List ConvSrc) (cls : String) : Option CExpr := lookup (·.factor) tbl 2 cls

section
variable {α : Type} [Add α] [Sub α] [Mul α] [Div α] [Neg α] [Zero α] [One α] [OfScientific α] [NatCast α]
  [LT α] [LE α] [DecidableLT α] [DecidableLE α] [BEq α]

/-- a decimal literal as Python reads it -/
def litVal (mant : Nat) (exp10 : Int) : α :=
  if exp10 < 0 then OfScientific.ofScientific mant true exp10.natAbs
  else OfScientific.ofScientific (mant * 10 ^ exp10.toNat) false 0

def CExpr.eval (sqrt : α → α) (consts : String → α) (cf x wl : α) : CExpr → α
  | .x => x
  | .wavelength => wl
  | .factor => cf
  | .const n => consts n
  | .lit m e => litVal m e
  | .mul a b => a.eval sqrt consts cf x wl * b.eval sqrt consts cf x wl
  | .div a b => a.eval sqrt consts cf x wl / b.eval sqrt consts cf x wl
  | .sq a => a.eval sqrt consts cf x wl * a.eval sqrt consts cf x wl
  | .sqrt a => sqrt (a.eval sqrt consts cf x wl)
  | .unknown => 0

/-- `Cls.to(x[, wavelength])` / `Cls.inv(x[, wavelength])` of the table `tbl`, with `cf = Cls.conversion_factor` -/
def evalMethod (tbl : List ConvSrc) (cls : String) (inverse : Bool) (sqrt : α → α) (consts : String → α)
    (cf x wl : α) : Option α :=
  (methodOf tbl cls inverse).map (CExpr.eval sqrt consts cf x wl)

/-- `Cls.conversion_factor` of the table `tbl` -/
def evalFactor (tbl : List ConvSrc) (cls : String) (consts : String → α) : Option α :=
  (factorOf tbl cls).map (CExpr.eval (fun y => y) consts 0 0 0)

/-! ### the same, written by hand from the source -/

/-- `EvAmuToMS.conversion_factor = 2 * elementary_charge / atomic_mass` -/
def evAmuFactor (e amu : α) : α := litVal 2 0 * e / amu

/-- `PhotonToJ.conversion_factor = Planck * speed_of_light * 1e9` -/
def hc9 (h c : α) : α := h * c * litVal 1 9

/-- `EvAmuToMS.to(x) = np.sqrt(x * cls.conversion_factor)` -/
def evAmuTo (sqrt : α → α) (cf x : α) : α := sqrt (x * cf)

/-- `EvAmuToMS.inv(x) = (x ** 2) / cls.conversion_factor` -/
def evAmuInv (cf x : α) : α := x * x / cf

/-- `PhotonToJ.to(x, wavelength) = x / wavelength * cls.conversion_factor` (= `Rates.photonToJ`) -/
def photonTo (cf x wl : α) : α := x / wl * cf

/-- `PhotonToJ.inv(x, wavelength) = x * wavelength / cls.conversion_factor` -/
def photonInv (cf x wl : α) : α := x * wl / cf

/-- `BaseFactorConversion.to(x) = x * cls.conversion_factor` (AmuToKg, EvToJ, Cm3ToM3, PerCm3ToPerM3, AngstromToNm) -/
def factorTo (cf x : α) : α := x * cf

/-- `BaseFactorConversion.inv(x) = x / cls.conversion_factor` -/
def factorInv (cf x : α) : α := x / cf

end

/-- the classes of conversion.py as the hand-written functions above assume them -/
def modelled : List ConvSrc := [
  { name := "EvAmuToMS", base := "",
    factor := some (.div (.mul (.lit 2 0) (.const "elementary_charge")) (.const "atomic_mass")),
    to := some (.sqrt (.mul .x .factor)), inv := some (.div (.sq .x) .factor) },
  { name := "PhotonToJ", base := "",
    factor := some (.mul (.mul (.const "Planck") (.const "speed_of_light")) (.lit 1 9)),
    to := some (.mul (.div .x .wavelength) .factor), inv := some (.div (.mul .x .wavelength) .factor) },
  { name := "BaseFactorConversion", base := "", factor := none,
    to := some (.mul .x .factor), inv := some (.div .x .factor) },
  { name := "AmuToKg", base := "BaseFactorConversion", factor := some (.const "atomic_mass"), to := none, inv := none },
  { name := "EvToJ", base := "BaseFactorConversion", factor := some (.const "elementary_charge"), to := none, inv := none },
  { name := "Cm3ToM3", base := "BaseFactorConversion", factor := some (.lit 1 (-6)), to := none, inv := none },
  { name := "PerCm3ToPerM3", base := "BaseFactorConversion", factor := some (.lit 1 6), to := none, inv := none },
  { name := "AngstromToNm", base := "BaseFactorConversion", factor := some (.lit 1 (-1)), to := none, inv := none }
]

end Cherab.Conv
