import Cherab.Lemmas.InstrumentMachines
import Cherab.Props.C16

/-!
# C16 — value-level machines of `Spectrometer` and `Polychromator` (round 6)

"For any sequence of parameter changes to a spectrometer or polychromator, its spectral range, bin count, pixel
wavelength arrays and pipeline settings equal those of an instrument constructed directly with the final parameters" —
at the level of *values*, for the two classes that `ct_history_eq_fresh` (`Props/C16.lean`) does not cover.  The machines
(`Model/InstrumentMachines.lean`) transcribe `__init__`, the setters with their validation and the lazy getters.
-/
namespace Cherab.Props.C16Machines
set_option linter.unusedSectionVars false
open Cherab.Instruments Cherab.Lemmas.InstrumentMachines

section machine
variable {α : Type} [Add α] [Sub α] [Mul α] [Div α] [Neg α] [Zero α] [One α] [OfScientific α] [NatCast α]
  [LT α] [LE α] [DecidableLT α] [DecidableLE α]

/-! ## Spectrometer -/

/-- what a call returns is a function of the parameters alone, in every state satisfying the invariant -/
theorem sp_obs_of_inv (ceil : α → Int) (s : SpState α) (o : SpOp α) (h : SpInv ceil s) :
    (spStep ceil s o).2 = (spStep ceil (spFresh s.p) o).2 := by
  have hf := spInv_fill ceil s h
  have hf' := spInv_fill ceil (spFresh s.p) (spInv_fresh ceil s.p)
  have e : (spFill ceil s).2 = (spFill ceil (spFresh s.p)).2 := by rw [hf.2.2, hf'.2.2]; rfl
  have ew : (spFill ceil s).1.p = (spFill ceil (spFresh s.p)).1.p := by rw [hf.2.1, hf'.2.1]; rfl
  cases o with
  | setW2p v =>
    by_cases hv : w2pAccepted v = true
    · rw [spStep_setW2p_acc ceil s v hv, spStep_setW2p_acc ceil _ v hv]
    · rw [spStep_setW2p_rej ceil s v hv, spStep_setW2p_rej ceil _ v hv]
  | setMbpp v =>
    by_cases hv : v ≤ 0
    · rw [spStep_setMbpp_rej ceil s v hv, spStep_setMbpp_rej ceil _ v hv]
    · rw [spStep_setMbpp_acc ceil s v hv, spStep_setMbpp_acc ceil _ v hv]
  | setName v => rfl
  | getMin =>
    simp only [spStep]
    rcases hA : spFill ceil s with ⟨s1, r1⟩
    rcases hB : spFill ceil (spFresh s.p) with ⟨s2, r2⟩
    rw [hA, hB] at e; simp only at e; subst e
    cases r1 <;> rfl
  | getMax =>
    simp only [spStep]
    rcases hA : spFill ceil s with ⟨s1, r1⟩
    rcases hB : spFill ceil (spFresh s.p) with ⟨s2, r2⟩
    rw [hA, hB] at e; simp only at e; subst e
    cases r1 <;> rfl
  | getBins =>
    simp only [spStep]
    rcases hA : spFill ceil s with ⟨s1, r1⟩
    rcases hB : spFill ceil (spFresh s.p) with ⟨s2, r2⟩
    rw [hA, hB] at e; simp only at e; subst e
    cases r1 <;> rfl
  | getW2p => rfl
  | getWavelengths => simp only [spStep]; rw [h.1]; rfl
  | getMbpp => rfl
  | getName => rfl
  | getClasses =>
    simp only [spStep, spFresh]
    cases hk : s.classes with
    | some n => simp only; rw [h.2.2.1 n hk]; rfl
    | none => rfl
  | getKwargs =>
    simp only [spStep, spFresh]
    cases hk : s.kwargs with
    | some k => simp only; rw [h.2.2.2 k hk]
    | none => rfl
  | calibrate I a b =>
    simp only [spStep]
    rcases hA : spFill ceil s with ⟨s1, r1⟩
    rcases hB : spFill ceil (spFresh s.p) with ⟨s2, r2⟩
    rw [hA, hB] at e ew; simp only at e ew; subst e
    cases r1 with
    | none => rfl
    | some st => simp only [ew]; cases calibrate I a b st.minW st.maxW s2.p.w2p <;> rfl

/-- **`Spectrometer.__init__` is the fresh instrument**: the constructor succeeds exactly when `min_bins_per_pixel > 0`
and every array is accepted, and then yields the state with those parameters and every cache empty -/
theorem sp_init_eq_fresh (w2p : List (List α)) (mbpp : Int) (name : String) :
    spInit w2p mbpp name
      = if 0 < mbpp ∧ w2pAccepted w2p = true then some (spFresh ⟨w2p, mbpp.toNat, name⟩) else none := by
  by_cases hm : mbpp ≤ 0
  · have : ¬ 0 < mbpp := by omega
    simp [spInit, spSetMbpp, hm, this]
  · have hm' : 0 < mbpp := by omega
    by_cases hv : w2pAccepted w2p = true
    · simp [spInit, spSetMbpp, spSetW2p, spSetName, spBlank, spFresh, hm, hm', hv]
    · simp [spInit, spSetMbpp, spSetW2p, hm, hv]

/-- **settings, pixel arrays and calibration follow the parameters, value level** (`Spectrometer`): after any history
of accepted or rejected assignments, reads and calibrations, the next call returns what a freshly constructed
instrument with the final parameters returns -/
theorem sp_history_eq_fresh (ceil : α → Int) (p0 : SpParams α) (ops : List (SpOp α)) (o : SpOp α) :
    (spStep ceil (spRun ceil (spFresh p0) ops) o).2
      = (spStep ceil (spFresh (spRun ceil (spFresh p0) ops).p) o).2 :=
  sp_obs_of_inv ceil _ o (spInv_run ceil ops _ (spInv_fresh ceil p0))

/-- a rejected assignment (`ValueError`) leaves the instrument exactly as it was -/
theorem sp_rejected_unchanged (ceil : α → Int) (s : SpState α) (o : SpOp α) (hset : o.isSetter = true)
    (h : (spStep ceil s o).2 = .valueError) : (spStep ceil s o).1 = s := by
  cases o with
  | setW2p v =>
    by_cases hv : w2pAccepted v = true
    · rw [spStep_setW2p_acc ceil s v hv] at h; simp at h
    · rw [spStep_setW2p_rej ceil s v hv]
  | setMbpp v =>
    by_cases hv : v ≤ 0
    · rw [spStep_setMbpp_rej ceil s v hv]
    · rw [spStep_setMbpp_acc ceil s v hv] at h; simp at h
  | setName v => simp [spStep] at h
  | _ => simp [SpOp.isSetter] at hset

/-- interleaved reads and calibrations do not influence what is returned at the end: only the assignments matter -/
theorem sp_observations_do_not_matter (ceil : α → Int) (p0 : SpParams α) (ops : List (SpOp α)) (o : SpOp α) :
    (spStep ceil (spRun ceil (spFresh p0) ops) o).2
      = (spStep ceil (spRun ceil (spFresh p0) (ops.filter SpOp.isSetter)) o).2 := by
  rw [sp_history_eq_fresh ceil p0 ops o, sp_history_eq_fresh ceil p0 (ops.filter SpOp.isSetter) o,
    spRun_p_filter ceil ops (spFresh p0) (spFresh p0) rfl]

/-- **the stored pixel arrays are always accepted layouts**: whatever the history, an instrument that was constructed
holds arrays with at least two strictly increasing edges each (the contract `ValidW2P` that the arithmetic theorems of
`Props/C16.lean` assume is established by the constructor and kept by every call) -/
theorem sp_history_accepted (ceil : α → Int) (w2p : List (List α)) (mbpp : Int) (name : String) (s0 : SpState α)
    (h0 : spInit w2p mbpp name = some s0) (ops : List (SpOp α)) :
    w2pAccepted (spRun ceil s0 ops).p.w2p = true ∧ 0 < (spRun ceil s0 ops).p.mbpp := by
  rw [sp_init_eq_fresh] at h0
  split at h0
  · rename_i hc
    simp only [Option.some.injEq] at h0
    subst h0
    refine ⟨spRun_accepted ceil ops _ hc.2, ?_⟩
    have key : ∀ (ops : List (SpOp α)) (s : SpState α), 0 < s.p.mbpp → 0 < (spRun ceil s ops).p.mbpp := by
      intro ops
      induction ops with
      | nil => intro s hs; exact hs
      | cons o os ih =>
        intro s hs
        refine ih (spStep ceil s o).1 ?_
        cases ho : o.isSetter with
        | false => rw [spStep_p_of_not_setter ceil s o ho]; exact hs
        | true =>
          cases o with
          | setW2p v =>
            by_cases hv : w2pAccepted v = true
            · rw [spStep_setW2p_acc ceil s v hv]; exact hs
            · rw [spStep_setW2p_rej ceil s v hv]; exact hs
          | setMbpp v =>
            by_cases hv : v ≤ 0
            · rw [spStep_setMbpp_rej ceil s v hv]; exact hs
            · rw [spStep_setMbpp_acc ceil s v hv]; simp only; omega
          | setName v => exact hs
          | _ => simp [SpOp.isSetter] at ho
    exact key ops _ (by simp only [spFresh]; omega)
  · simp at h0

/-! ## Polychromator -/

theorem poly_obs_of_inv (x : PolyExt α) (s : PolyState α) (o : PolyOp α) (h : PolyInv x s) :
    (polyStep x s o).2 = (polyStep x (polyFresh s.p) o).2 := by
  have hi := polyInv_fresh x s.p
  have e : (polyFill x s).2 = (polyFill x (polyFresh s.p)).2 := by
    rw [(polyFill_spec x s h).2.2, (polyFill_spec x _ hi).2.2]; rfl
  have ec : (polyFillClasses s).2 = (polyFillClasses (polyFresh s.p)).2 := by
    rw [(polyFillClasses_spec x s h).2.2, (polyFillClasses_spec x _ hi).2.2]; rfl
  have ek : (polyFillKwargs s).2 = (polyFillKwargs (polyFresh s.p)).2 := by
    rw [(polyFillKwargs_spec x s h).2.2, (polyFillKwargs_spec x _ hi).2.2]; rfl
  cases o with
  | setFilters v =>
    by_cases hv : v.all Option.isSome = true
    · rw [polyStep_setFilters_acc x s v hv, polyStep_setFilters_acc x _ v hv]
    · rw [polyStep_setFilters_rej x s v hv, polyStep_setFilters_rej x _ v hv]
  | setMbpw v =>
    by_cases hv : v ≤ 0
    · rw [polyStep_setMbpw_rej x s v hv, polyStep_setMbpw_rej x _ v hv]
    · rw [polyStep_setMbpw_acc x s v hv, polyStep_setMbpw_acc x _ v hv]
  | setName v => rfl
  | getMin => simp only [polyStep, e]
  | getMax => simp only [polyStep, e]
  | getBins => simp only [polyStep, e]
  | getFilters => rfl
  | getMbpw => rfl
  | getName => rfl
  | getClasses => simp only [polyStep, ec]
  | getKwargs => simp only [polyStep, ek]
  | createPipelines =>
    have h1 := polyFillClasses_spec x s h
    have h2 := polyFillClasses_spec x _ hi
    simp only [polyStep]
    rw [(polyFillKwargs_spec x _ h1.1).2.2, (polyFillKwargs_spec x _ h2.1).2.2, h1.2.1, h2.2.1, ec]
    rfl

/-- **`Polychromator.__init__` is the fresh instrument**; the validation order is `min_bins_per_window` (`ValueError`)
before `filters` (`TypeError`) -/
theorem poly_init_eq_fresh (filters : List (Option (String × PFilter α))) (mbpw : Int) (name : String) :
    polyInit filters mbpw name
      = if mbpw ≤ 0 then .inr .valueError
        else if filters.all Option.isSome = true then .inl (polyFresh ⟨filters.filterMap id, mbpw.toNat, name⟩)
        else .inr .typeError := by
  by_cases hm : mbpw ≤ 0
  · simp [polyInit, polySetMbpw, hm]
  · by_cases hv : filters.all Option.isSome = true
    · simp only [polyInit, polySetMbpw, polySetFilters, polySetName, polyBlank, polyFresh, hm, hv, if_true, if_false]
    · simp [polyInit, polySetMbpw, polySetFilters, hm, hv]

/-- **settings and pipelines follow the parameters, value level** (`Polychromator`): after any history of accepted or
rejected assignments and reads (`create_pipelines()` included) the next call returns what a freshly constructed
polychromator with the final filters, `min_bins_per_window` and name returns -/
theorem poly_history_eq_fresh (x : PolyExt α) (p0 : PolyParams α) (ops : List (PolyOp α)) (o : PolyOp α) :
    (polyStep x (polyRun x (polyFresh p0) ops) o).2
      = (polyStep x (polyFresh (polyRun x (polyFresh p0) ops).p) o).2 :=
  poly_obs_of_inv x _ o (polyInv_run x ops _ (polyInv_fresh x p0))

/-- a call that raises (`ValueError` from `min_bins_per_window`, `TypeError` from `filters`) leaves the polychromator
exactly as it was — no hypothesis on the call: getters never raise in the model -/
theorem poly_rejected_unchanged (x : PolyExt α) (s : PolyState α) (o : PolyOp α)
    (h : (polyStep x s o).2 = .valueError ∨ (polyStep x s o).2 = .typeError) : (polyStep x s o).1 = s := by
  cases o with
  | setFilters v =>
    by_cases hv : v.all Option.isSome = true
    · rw [polyStep_setFilters_acc x s v hv] at h; simp at h
    · rw [polyStep_setFilters_rej x s v hv]
  | setMbpw v =>
    by_cases hv : v ≤ 0
    · rw [polyStep_setMbpw_rej x s v hv]
    · rw [polyStep_setMbpw_acc x s v hv] at h; simp at h
  | _ => simp [polyStep] at h

theorem poly_observations_do_not_matter (x : PolyExt α) (p0 : PolyParams α) (ops : List (PolyOp α)) (o : PolyOp α) :
    (polyStep x (polyRun x (polyFresh p0) ops) o).2
      = (polyStep x (polyRun x (polyFresh p0) (ops.filter PolyOp.isSetter)) o).2 := by
  rw [poly_history_eq_fresh x p0 ops o, poly_history_eq_fresh x p0 (ops.filter PolyOp.isSetter) o,
    polyRun_p_filter x ops (polyFresh p0) (polyFresh p0) rfl]

/-- **pipeline settings**: after any history `create_pipelines()` yields exactly one pipeline per current filter, in the
caller's order, named `instrument: filter` (the names are `polyPipelineNames`, the function tied by the `polynames`
stream) and carrying that filter — `zip(classes, kwargs)` never truncates -/
theorem poly_pipelines_follow (x : PolyExt α) (p0 : PolyParams α) (ops : List (PolyOp α)) :
    ∃ l, (polyStep x (polyRun x (polyFresh p0) ops) .createPipelines).2 = .kwargs l ∧
      l.map (·.1) = polyPipelineNames (polyRun x (polyFresh p0) ops).p.name
        ((polyRun x (polyFresh p0) ops).p.filters.map (·.1)) ∧
      l.map (·.2) = (polyRun x (polyFresh p0) ops).p.filters := by
  have hinv := polyInv_run x ops _ (polyInv_fresh x p0)
  generalize polyRun x (polyFresh p0) ops = s at hinv
  have h1 := polyFillClasses_spec x s hinv
  have h2 := polyFillKwargs_spec x _ h1.1
  refine ⟨polyKwargs s.p, ?_, ?_, ?_⟩
  · simp only [polyStep]
    rw [h2.2.2, h1.2.1, h1.2.2]
    congr 1
    exact List.take_of_length_le (by simp [polyKwargs])
  · simp [polyKwargs, polyPipelineNames, List.map_map, Function.comp_def]
  · simp [polyKwargs, List.map_map, Function.comp_def]

end machine

/-! ## consequences over an ordered field: the derived contract feeds the arithmetic theorems -/

section field
variable {α : Type} [Field α] [LinearOrder α] [IsStrictOrderedRing α]

/-- **the range covers every pixel, for all histories**: on a constructed `Spectrometer`, after any history, if the
range getters answer then every stored pixel edge lies in `[min_wavelength, max_wavelength]`, and (with the real
ceiling) the bin width never exceeds any pixel's width divided by `min_bins_per_pixel` — the hypotheses `ValidW2P` and
`0 < mbpp` of `range_covers_pixels` / `bin_width_bound` are derived from the machine, not assumed -/
theorem sp_history_range_and_bins [FloorRing α] (w2p : List (List α)) (mbpp : Int) (name : String) (s0 : SpState α)
    (h0 : spInit w2p mbpp name = some s0) (ops : List (SpOp α)) (st : Settings α)
    (hs : (spFill Int.ceil (spRun Int.ceil s0 ops)).2 = some st) :
    (∀ arr ∈ (spRun Int.ceil s0 ops).p.w2p, ∀ e ∈ arr, st.minW ≤ e ∧ e ≤ st.maxW) ∧
    0 < st.bins ∧
    ∀ arr ∈ (spRun Int.ceil s0 ops).p.w2p, ∀ d ∈ diffs arr,
      (st.maxW - st.minW) / (st.bins : α) ≤ d / ((spRun Int.ceil s0 ops).p.mbpp : α) := by
  obtain ⟨hacc, hm⟩ := sp_history_accepted Int.ceil w2p mbpp name s0 h0 ops
  have hinv : SpInv Int.ceil (spRun Int.ceil s0 ops) := by
    rw [sp_init_eq_fresh] at h0
    split at h0
    · simp only [Option.some.injEq] at h0; subst h0
      exact spInv_run Int.ceil ops _ (spInv_fresh Int.ceil _)
    · simp at h0
  generalize spRun Int.ceil s0 ops = s at hacc hm hinv hs
  have hq : spectralSettings Int.ceil s.p.w2p s.p.mbpp = some st := by
    rw [← (spInv_fill Int.ceil s hinv).2.2]; exact hs
  have hv : Cherab.Props.C16.ValidW2P s.p.w2p := by
    intro arr harr
    simp only [w2pAccepted, List.all_eq_true] at hacc
    exact hacc arr harr
  exact ⟨Cherab.Props.C16.range_covers_pixels hv hq, Cherab.Props.C16.bin_width_bound hv hm hq⟩

end field

/-! ## non-vacuity -/

/-- a constructed spectrometer (the hypothesis `h0` of `sp_history_accepted` / `sp_history_range_and_bins`) -/
example : spInit [[1, 2, 4], [3, (3.5 : ℚ)]] 2 "a" = some (spFresh ⟨[[1, 2, 4], [3, 3.5]], 2, "a"⟩) := by
  rw [sp_init_eq_fresh]; norm_num [w2pAccepted, validEdges]; rfl

/-- both rejections occur and are `ValueError`s (hypotheses of `sp_rejected_unchanged`) -/
example (s : SpState ℚ) : (spStep Int.ceil s (.setMbpp (-1))).2 = .valueError ∧
    (spStep Int.ceil s (.setW2p [[1, 1]])).2 = .valueError ∧ (SpOp.setW2p [[1, (1 : ℚ)]]).isSetter = true := by
  refine ⟨by simp [spStep, spSetMbpp], ?_, rfl⟩
  rw [spStep_setW2p_rej]; norm_num [w2pAccepted, validEdges]

/-- a history on which `sp_history_eq_fresh` says something: the filled settings are dropped by an accepted assignment -/
example (p : SpParams ℚ) :
    (spRun Int.ceil (spFresh p) [.getBins, .setW2p [[2, 3]]]).settings = none ∧
    (spRun Int.ceil (spFresh p) [.getBins, .setW2p [[2, 3]]]).p.w2p = [[2, 3]] := by
  have hv : w2pAccepted [[2, (3 : ℚ)]] = true := by norm_num [w2pAccepted, validEdges]
  constructor <;> simp only [spRun, List.foldl, spStep_setW2p_acc _ _ _ hv]

/-- polychromator: both kinds of rejection occur; a constructed instance exists; a history changes the name -/
example (x : PolyExt ℚ) (s : PolyState ℚ) : (polyStep x s (.setFilters [none])).2 = .typeError ∧
    (polyStep x s (.setMbpw 0)).2 = .valueError ∧
    (∃ s0, polyInit (α := ℚ) [some ("f", filterOf 1 2)] 10 "p" = .inl s0) ∧
    (polyRun x s [.createPipelines, .setName "q"]).kwargs = none ∧
    (polyRun x s [.createPipelines, .setName "q"]).p.name = "q" := by
  refine ⟨by simp [polyStep, polySetFilters], by simp [polyStep, polySetMbpw], ?_, ?_, ?_⟩
  · rw [poly_init_eq_fresh]; simp
  · simp [polyRun, polyStep, polySetName]
  · simp [polyRun, polyStep, polySetName]

end Cherab.Props.C16Machines
