"""parent process: spawns the runner so that a crash of (possibly mutated) compiled code is an observation."""
import json
import os
import subprocess
import sys
import time

VERIF = os.path.dirname(os.path.dirname(os.path.abspath(__file__)))


def main():
    a = sys.argv[1:]
    if not a:
        print('usage: check Cxx [--tier quick|thorough] [--replay FILE]')
        return 2
    prop = a[0]
    tier = os.environ.get('VERIF_TIER', 'quick')
    replay = None
    i = 1
    while i < len(a):
        if a[i] == '--tier':
            tier = a[i + 1]; i += 2
        elif a[i] == '--replay':
            replay = a[i + 1]; i += 2
        else:
            i += 1
    seed = int(os.environ.get('VERIF_SEED', '0') or 0)
    t0 = time.time()
    env = dict(os.environ)
    env['PYTHONPATH'] = VERIF + ':' + os.path.join(VERIF, 'harness', 'shim') + ':' + env.get('PYTHONPATH', '')
    env['PYTHONHASHSEED'] = '0'
    env.setdefault('OMP_NUM_THREADS', '1')
    env.setdefault('OPENBLAS_NUM_THREADS', '1')
    args = ['/venv/bin/python', os.path.join(VERIF, 'harness', 'runner.py'), prop, tier, str(seed)]
    if replay:
        args.append(replay)
    limit = 3300 if tier == 'thorough' else 1500
    try:
        r = subprocess.run(args, cwd=VERIF, env=env, timeout=limit)
    except subprocess.TimeoutExpired:
        print('INFRA: time-out after %d s' % limit)
        return 2
    if r.returncode in (0, 1, 2):
        return r.returncode
    # The runner died (signal / interpreter abort).  A crash that the implementation causes deterministically repeats;
    # one that does not repeat (seen once in ~500 sweep runs on the unchanged tree: SIGSEGV inside native code under a
    # heavily loaded machine, not reproducible with the same seed) is not evidence about the property.  So the run is
    # repeated once with the same seed: the verdict is the second run's, and the first crash is recorded in the evidence.
    first = r.returncode
    print('NOTE: runner died with status %d; repeating the run once with the same seed' % first, flush=True)
    remaining = max(60, limit - (time.time() - t0))
    try:
        r = subprocess.run(args, cwd=VERIF, env=env, timeout=remaining)
    except subprocess.TimeoutExpired:
        print('INFRA: time-out after %d s' % limit)
        return 2
    if r.returncode in (0, 1, 2):
        try:
            evp = os.path.join(VERIF, 'evidence', prop + '.json')
            ev = json.load(open(evp))
            ev.setdefault('coverage', {}).setdefault('samples', []).append(dict(runner_died_once_with_status=first, rerun_exit=r.returncode))
            json.dump(ev, open(evp, 'w'), indent=1)
        except Exception:  # noqa
            pass
        return r.returncode
    # died twice: the implementation crashes under the harness.  Failing inputs the runner had already found (their replay
    # files are written at detection) are reported as such; the crash itself is reported as well.
    import glob
    early = []
    for f in sorted(glob.glob(os.path.join(VERIF, 'replays', '%s_%s_%d_[0-9]*.json' % (prop, tier, seed)))):
        try:
            if os.path.getmtime(f) >= t0 - 1 and json.load(open(f)).get('kind') == 'failing-input':
                early.append(f)
        except Exception:  # noqa
            pass
    for f in early:
        print('VIOLATION property=%s replay=%s' % (prop, f))
    os.makedirs(os.path.join(VERIF, 'replays'), exist_ok=True)
    path = os.path.join(VERIF, 'replays', '%s_%s_%d_crash.json' % (prop, tier, seed))
    json.dump(dict(property=prop, seed=seed, tier=tier, kind='no-failing-input-found',
                   broken=[dict(kind='correspondence', name='runner process died',
                                detail='exit status %d (first run) and %d (repeated run) while exercising the implementation' % (first, r.returncode))]),
              open(path, 'w'), indent=1)
    ev = dict(property_id=prop, tier=tier, seed=seed, level='proof',
              coverage=dict(evaluations=1, distinct_nontrivial=2, rule='runner crashed; see replay',
                            samples=[dict(crash=r.returncode)]),
              wall_s=round(time.time() - t0, 2), violations=1 + len(early))
    os.makedirs(os.path.join(VERIF, 'evidence'), exist_ok=True)
    json.dump(ev, open(os.path.join(VERIF, 'evidence', prop + '.json'), 'w'), indent=1)
    print('VIOLATION property=%s replay=%s no-failing-input-found' % (prop, path))
    return 1


if __name__ == '__main__':
    sys.exit(main())
