/-
C20 — grid derivative and ADMT operators (cherab/tools/inversions/admt_utils.py).  Mathlib-free.

Core vocabulary shared by the generated file `Cherab/Gen/Admt.lean` (what the translator reads out of the source)
and `Cherab/Model/Admt.lean` (the executable model assembled from it).

`generate_derivative_operators` fills, for every cell, one row of each of the five matrices by a sequence of
assignments `D[ith_cell, n] = c` where `n` is the cell itself or one of its eight neighbours in the 2-D mesh, found by
a dictionary lookup that may fail (`KeyError` ⇒ the cell is on a boundary).  Later assignments overwrite earlier ones.
That sequence is data (`Asg`), interpreted by `runProgram`; which assignments fire depends only on which of the eight
lookups succeeded (`has : Pos → Bool`).
-/
namespace Cherab.Admt

/-- the nine stencil positions: the cell and its neighbours in the 2-D mesh (`iy` grows downwards) -/
inductive Pos | self | left | right | above | below | aboveLeft | aboveRight | belowLeft | belowRight
  deriving DecidableEq, Repr

def Pos.all : List Pos :=
  [.self, .left, .right, .above, .below, .aboveLeft, .aboveRight, .belowLeft, .belowRight]

/-- offset `(Δix, Δiy)` used in the lookup `grid_index_2d_to_1d_map[ix + Δix, iy + Δiy]` -/
def Pos.off : Pos → Int × Int
  | .self => (0, 0) | .left => (-1, 0) | .right => (1, 0) | .above => (0, -1) | .below => (0, 1)
  | .aboveLeft => (-1, -1) | .aboveRight => (1, -1) | .belowLeft => (-1, 1) | .belowRight => (1, 1)

inductive Op5 | Dx | Dy | Dxx | Dxy | Dyy
  deriving DecidableEq, Repr

def Op5.all : List Op5 := [.Dx, .Dy, .Dxx, .Dxy, .Dyy]

/-- conditions under which an assignment executes -/
inductive Guard
  | tt
  | found (p : Pos)      -- the `try` lookup of neighbour `p` succeeded (we are in its `else:` branch)
  | missing (p : Pos)    -- the flag set to `True` in the `except KeyError:` branch of neighbour `p`
  | not (g : Guard)
  | and (a b : Guard)
  | or (a b : Guard)
  deriving Repr

def Guard.eval (has : Pos → Bool) : Guard → Bool
  | .tt => true
  | .found p => has p
  | .missing p => !has p
  | .not g => !g.eval has
  | .and a b => a.eval has && b.eval has
  | .or a b => a.eval has || b.eval has

/-- one `D[ith_cell, n] = num / den` with the conjunction of the conditions enclosing it -/
structure Asg where
  guards : List Guard
  op : Op5
  pos : Pos
  num : Int
  den : Nat
  line : Nat
  deriving Repr

/-- a stencil coefficient as written in the source -/
structure Coef where
  num : Int
  den : Nat
  deriving DecidableEq, Repr

/-- the five rows of one cell, position-keyed (`none` = never assigned = the matrix entry keeps its initial 0) -/
abbrev Table := Op5 → Pos → Option Coef

def Table.empty : Table := fun _ _ => none

def Table.set (t : Table) (op : Op5) (p : Pos) (c : Coef) : Table :=
  fun o q => if o = op ∧ q = p then some c else t o q

/-- executes one assignment.  Writing to a neighbour whose lookup failed indexes the matrix with `nan`:
NumPy raises `IndexError` (`none`). -/
def stepAsg (has : Pos → Bool) (t : Table) (a : Asg) : Option Table :=
  if a.guards.all (·.eval has) then
    if a.pos = .self ∨ has a.pos then some (t.set a.op a.pos ⟨a.num, a.den⟩) else none
  else some t

def runProgram (prog : List Asg) (has : Pos → Bool) : Option Table :=
  prog.foldlM (stepAsg has) Table.empty

section
variable {α : Type} [Add α] [Sub α] [Mul α] [Div α] [Neg α] [NatCast α]

/-- `x ** 2` on NumPy doubles is `x * x` -/
def sq (x : α) : α := x * x

/-- value of a coefficient: Python evaluates `-1 / 2` as `(-1) / 2`; integers are stored as doubles -/
def Coef.val (c : Coef) : α :=
  let n : α := if c.num < 0 then -((c.num.natAbs : Nat) : α) else ((c.num.natAbs : Nat) : α)
  n / ((c.den : Nat) : α)

/-- entry of the (unscaled) row: 0 where nothing was assigned -/
def Table.val [Zero α] (t : Table) (op : Op5) (p : Pos) : α :=
  match t op p with
  | some c => c.val
  | none => 0

end

/-- the coefficients `calculate_admt` puts in front of the five operators -/
structure Coeffs (α : Type) where
  cx : α
  cy : α
  cxx : α
  cxy : α
  cyy : α

/-- vectors obtained from `cell_sizes = np.diff(cell_centres, axis=0)` -/
inductive VExpr
  | diffCol (axis : Nat)     -- `cell_sizes[:, axis]`
  | nonzero (v : VExpr)      -- `v[v != 0]`
  | abs (v : VExpr)          -- `abs(v)`
  deriving Repr

/-- the scalar taken as voxel width / height -/
inductive SExpr
  | min (v : VExpr)          -- `np.min(v)`  (`ValueError` on an empty selection)
  | max (v : VExpr)          -- `np.max(v)`
  deriving Repr

inductive Slot | dpsidyy | dpsidxdy | other
  deriving DecidableEq, Repr

end Cherab.Admt
