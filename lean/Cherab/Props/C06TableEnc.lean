import Cherab.Model.Repository
import Cherab.Gen.RepoPaths

namespace Cherab.Props.C06Table
open Cherab.Repository Cherab.Gen.RepoPaths

/-- **`encode_is_str_lower`**: `utility.encode_transition` applies to each level `str()` then `.lower()` and nothing else
(no `strip`, `replace`, …) and joins them with `' -> '` — exactly what `Repository.encodeTransition` transcribes, so that
`transition_key_iff_lower_equal` / `padding_and_spacing_are_significant` speak about the code's keys -/
theorem encode_is_str_lower : tables.encodeOk = true := by decide

end Cherab.Props.C06Table
