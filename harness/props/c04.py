"""C04 — beam density conserves particles, decays monotonically, follows its envelope.

T  lean/Cherab/Props/C04.lean over lean/Cherab/Model/BeamDensity.lean (+ Lemmas/Gaussian.lean for the ℝ² integral)
K  fresh real beams in real plasmas (Python density / temperature / velocity profiles, Python BeamStoppingRate
   subclass with distinct values per species, mock AtomicData).  The harness applies the beam->plasma transform with
   raysect's matrices, samples the same profile functions at the axis points and hands the *sampled values* to the
   Lean driver; compared: sample count, sample points (against the points the profiles were actually called at),
   the arguments every stopping rate received, the line density at all nodes, Beam.density / attenuator.density at
   off-axis / out-of-range / clamp-edge points, Beam.direction.
S  model-free oracles on the implementation: cross-section integral x speed vs P/(E m e) exp(-int S/v) (fine
   Gauss-Legendre rule, tolerance = trapezoid + linear-interpolation error bounds of the code's own step),
   numpy re-statement of the documented discretisation at the nodes, monotonicity scan, zero-outside,
   unit direction and streamline (x/sigma_x constant) by RK4 steps.

Every case builds a *fresh* world/plasma/beam, sets everything, then observes (the stale-cache defect of
`Beam._modified` belongs to C01 and must not leak into this check).
"""
import json
import math

import numpy as np
from scipy.constants import atomic_mass, elementary_charge, electron_mass

from harness.vlib.util import f2b, b2f, fs, close, call

DEG = math.pi / 180.0
SPECIES_POOL = [('deuterium', 1), ('carbon', 6), ('helium', 2), ('neon', 10), ('carbon', 5), ('hydrogen', 1),
                ('tritium', 1), ('beryllium', 4), ('deuterium', 0), ('helium', 1), ('nitrogen', 7), ('argon', 16)]
BEAM_ELEMENTS = ['hydrogen', 'deuterium', 'tritium', 'helium', 'helium3', 'lithium']


# ----------------------------------------------------------------------------------------------------------------
# profile families (described by JSON-able dicts so that a case can be replayed)
# ----------------------------------------------------------------------------------------------------------------
def scalar_profile(d):
    A, b, (kx, ky, kz), phi, w, (cx, cy), cut = d['A'], d['b'], d['k'], d['phi'], d['w'], d['c'], d['cut']

    def f(x, y, z):
        v = A * (1.0 + b * math.sin(kx * x + ky * y + kz * z + phi))
        if w is not None:
            v *= math.exp(-((x - cx) ** 2 + (y - cy) ** 2) / (w * w))
        if cut is not None and cut[0] * x + cut[1] * y + cut[2] * z > cut[3]:
            return 0.0
        return v
    return f


def vector_profile(d):
    (ax, ay, az), (gx, gy, gz) = d['v0'], d['g']

    def f(x, y, z):
        return (ax + gx * x, ay + gy * y, az + gz * z)
    return f


def rate_fn(c, a, b):
    """same expression, same order as `rateF` in lean/Driver/C04.lean"""
    def f(e, n, t):
        return c * (1.0 + a * e / (e + 5e4)) * (2.0 - 1.0 / (1.0 + n / 1e19)) * (1.0 + b * t / (t + 1e3))
    return f


def gen_scalar(rng, A, kind):
    if kind == 'uniform':
        return dict(A=A, b=0.0, k=[0.0, 0.0, 0.0], phi=0.0, w=None, c=[0.0, 0.0], cut=None)
    d = dict(A=A, b=rng.uniform(-0.8, 0.8), k=[rng.uniform(-2, 2) for _ in range(3)], phi=rng.uniform(0, 6.28),
             w=rng.choice([None, rng.uniform(1.0, 6.0)]), c=[rng.uniform(-1, 1), rng.uniform(-1, 1)], cut=None)
    if kind == 'cut':
        t = rng.uniform(0, 6.28)
        d['cut'] = [math.cos(t), math.sin(t), rng.uniform(-0.5, 0.5), rng.uniform(0.2, 2.0)]
    return d


def gen_case(rng, mode=None):
    """one beam/plasma configuration"""
    kind = rng.choice(['uniform', 'smooth', 'smooth', 'smooth', 'cut'])
    nsp = rng.choice([1, 2, 2, 3, 4])
    pool = rng.sample(SPECIES_POOL, nsp)
    if all(z == 0 for _, z in pool):
        pool[0] = ('deuterium', 1)
    species = []
    for el, z in pool:
        species.append(dict(
            element=el, charge=z,
            dens=gen_scalar(rng, 10 ** rng.uniform(17.5, 19.7), kind),
            temp=gen_scalar(rng, 10 ** rng.uniform(1.0, 4.0), 'uniform' if kind == 'uniform' else 'smooth'),
            vel=dict(v0=[rng.uniform(-2e5, 2e5) for _ in range(3)],
                     g=[0.0, 0.0, 0.0] if kind == 'uniform' else [rng.uniform(-5e4, 5e4) for _ in range(3)]),
            rate=[10 ** rng.uniform(-14.0, -12.3), rng.uniform(-0.5, 1.0), rng.uniform(-0.5, 1.0)]))
    if rng.random() < 0.08:
        for s in species:
            s['rate'][0] = 0.0                      # no stopping at all
    divmode = rng.choice(['zero', 'equal', 'unequal', 'unequal', 'one-zero'])
    dx = rng.uniform(0.05, 6.0)
    divx, divy = dict(zero=(0.0, 0.0), equal=(dx, dx), unequal=(dx, rng.uniform(0.05, 6.0)),
                      **{'one-zero': (0.0, dx)})[divmode]
    stepmode = mode or rng.choice(['many', 'many', 'few', 'L<step', 'integer', 'default'])
    if stepmode == 'integer':
        length = rng.choice([0.5, 1.0, 2.0, 4.0, 3.0])
        step = length / rng.choice([2, 3, 4, 8, 16, 5, 10]) if rng.random() < 0.5 else rng.choice([0.25, 0.125, 0.5, 0.0625])
    else:
        length = rng.uniform(0.05, 6.0)
        step = dict(many=length / rng.uniform(8, 80), few=length / rng.uniform(1.0, 6.0),
                    default=0.01 if length < 1.0 else length / rng.uniform(8, 80),
                    **{'L<step': length * rng.uniform(1.0, 5.0)})[stepmode]
    return dict(
        kind=kind, divmode=divmode, stepmode=stepmode,
        energy=10 ** rng.uniform(3.3, 5.2), power=10 ** rng.uniform(3, 7), element=rng.choice(BEAM_ELEMENTS),
        sigma=rng.uniform(0.01, 0.3), divx=divx, divy=divy, length=length, step=step,
        clamp=rng.random() < 0.5, clamp_sigma=rng.choice([5.0, rng.uniform(0.5, 6.0)]),
        beam_tf=[rng.uniform(-1, 1) for _ in range(3)] + [rng.uniform(-180, 180) for _ in range(3)],
        plasma_tf=([0.0] * 6 if rng.random() < 0.3 else
                   [rng.uniform(-1, 1) for _ in range(3)] + [rng.uniform(-180, 180) for _ in range(3)]),
        nested=rng.random() < 0.3, species=species)


# ----------------------------------------------------------------------------------------------------------------
# scene construction (real cherab objects)
# ----------------------------------------------------------------------------------------------------------------
class Scene:
    pass


def build(case):
    """fresh world + plasma + beam for `case`; nothing is observed here"""
    from raysect.core import World, Node, Vector3D, Point3D, translate, rotate
    from raysect.primitive import Sphere
    from cherab.core import Beam, Plasma, Species, Maxwellian
    from cherab.core.atomic import AtomicData, BeamStoppingRate, elements
    from cherab.core.model import SingleRayAttenuator
    from cherab.core.math import ConstantVector3D

    sc = Scene()
    sc.case = case
    sc.points = []          # points at which species 0's density was sampled (plasma space)
    sc.rate_calls = {}      # (element, charge) -> [(E, n, T)]
    sc.bad_beam_ion = []

    class Rate(BeamStoppingRate):
        def __init__(self, key, f):
            self.key = key
            self.f = f

        def evaluate(self, e, n, t):
            sc.rate_calls.setdefault(self.key, []).append((e, n, t))
            return self.f(e, n, t)

    params = {(s['element'], s['charge']): s['rate'] for s in case['species']}

    class Data(AtomicData):
        def beam_stopping_rate(self, beam_ion, plasma_ion, charge):
            key = (plasma_ion.name, charge)
            c, a, b = params.get(key, (1e-9, 0.0, 0.0))
            if beam_ion.name != case['element']:
                sc.bad_beam_ion.append(beam_ion.name)
                c = c * 1e3 + 1e-10
            return Rate(key, rate_fn(c, a, b))

    world = World()
    pt = case['plasma_tf']
    plasma = Plasma(parent=world, transform=translate(*pt[:3]) * rotate(*pt[3:]))
    plasma.geometry = Sphere(50.0)
    plasma.b_field = ConstantVector3D(Vector3D(0, 0, 1))
    comp = []
    first = True
    for s in case['species']:
        dens, temp, vel = scalar_profile(s['dens']), scalar_profile(s['temp']), vector_profile(s['vel'])
        if first:
            def dens(x, y, z, _d=dens):
                sc.points.append((x, y, z))
                return _d(x, y, z)
            first = False
        el = getattr(elements, s['element'])
        comp.append(Species(el, s['charge'],
                            Maxwellian(dens, temp, lambda x, y, z, _v=vel: Vector3D(*_v(x, y, z)),
                                       el.atomic_weight * atomic_mass)))
    plasma.electron_distribution = Maxwellian(lambda x, y, z: 1e19, lambda x, y, z: 1e3,
                                              lambda x, y, z: Vector3D(0, 0, 0), electron_mass)
    plasma.composition = comp
    data = Data()
    plasma.atomic_data = data

    bt = case['beam_tf']
    parent = world
    if case['nested']:
        parent = Node(parent=world, transform=translate(0.3, -0.2, 0.1) * rotate(25, -40, 10))
    beam = Beam(parent=parent, transform=translate(*bt[:3]) * rotate(*bt[3:]))
    beam.atomic_data = data
    beam.plasma = plasma
    att = SingleRayAttenuator(step=case['step'], clamp_to_zero=case['clamp'], clamp_sigma=case['clamp_sigma'])
    beam.attenuator = att
    beam.energy = case['energy']
    beam.power = case['power']
    beam.element = getattr(elements, case['element'])
    beam.sigma = case['sigma']
    beam.divergence_x = case['divx']
    beam.divergence_y = case['divy']
    beam.length = case['length']
    sc.world, sc.plasma, sc.beam, sc.att = world, plasma, beam, att
    sc.mass = beam.element.atomic_weight
    sc.b2p = beam.to(plasma)
    d = Vector3D(0, 0, 1).transform(sc.b2p)
    sc.dir = (d.x, d.y, d.z)
    sc.Point3D = Point3D
    return sc


def axis_point(sc, z):
    p = sc.Point3D(0.0, 0.0, z).transform(sc.b2p)
    return (p.x, p.y, p.z)


def py_count(length, step):
    return max(1 + int(math.ceil(length / step)), 4)


def py_nodes(length, n):
    """numpy.linspace(0, length, n) re-stated"""
    st = length / (n - 1)
    return [length if i == n - 1 else i * st + 0.0 for i in range(n)]


# ----------------------------------------------------------------------------------------------------------------
# K: correspondence with the Lean model
# ----------------------------------------------------------------------------------------------------------------
def sample_targets(sc, pts):
    """profile values at the axis points, species-major per point: n T vx vy vz"""
    out = []
    for p in pts:
        for s in sc.case['species']:
            v = vector_profile(s['vel'])(*p)
            out += [scalar_profile(s['dens'])(*p), scalar_profile(s['temp'])(*p), v[0], v[1], v[2]]
    return out


def heads(case):
    toks = []
    for s in case['species']:
        toks += [str(s['charge'])] + [f2b(v) for v in s['rate']]
    return toks


def probe_points(rng, case, n, nodes):
    """(x, y, z, tag) for Beam.density: off-axis inside, far outside, z out of range, exactly on nodes"""
    L, sg = case['length'], case['sigma']
    tx, ty = math.tan(DEG * case['divx']), math.tan(DEG * case['divy'])
    pts = []
    for i in range(20):
        z = rng.choice([rng.uniform(0, L), rng.choice(nodes), L, 0.0])
        sx, sy = math.sqrt(sg * sg + (z * tx) ** 2), math.sqrt(sg * sg + (z * ty) ** 2)
        r = rng.choice([rng.uniform(0, 1.5), rng.uniform(0, case['clamp_sigma'] * 1.6)])
        t = rng.uniform(0, 6.28)
        x, y = r * sx * math.cos(t), r * sy * math.sin(t)
        # guard band of the clamp decision
        nr2 = (x / sx) ** 2 + (y / sy) ** 2
        if abs(nr2 - case['clamp_sigma'] ** 2) < 1e-6 * case['clamp_sigma'] ** 2:
            continue
        pts.append((x, y, z, 'off-axis'))
    for z in (-0.0, -5e-324, -1e-3, -1.0, np.nextafter(L, 10.0), L + 1e-10, L + 1e-8, L * 1.5 + 1.0):
        pts.append((rng.uniform(-sg, sg), rng.uniform(-sg, sg), float(z), 'z-range'))
    return pts


def sigmas_ref(case, z):
    """documented envelope: sigma_x,y(z) = sqrt(sigma^2 + (z tan(alpha_x,y))^2)"""
    sg = case['sigma']
    return (math.sqrt(sg ** 2 + (z * math.tan(math.radians(case['divx']))) ** 2),
            math.sqrt(sg ** 2 + (z * math.tan(math.radians(case['divy']))) ** 2))


def gauss_ref(case, x, y, z):
    """documented normalised bivariate Gaussian of the cross-section at z"""
    sx, sy = sigmas_ref(case, z)
    return math.exp(-0.5 * ((x / sx) ** 2 + (y / sy) ** 2)) / (2 * math.pi * sx * sy)


def k_case(ctx, rng, case, sc, lines, expect):
    """append driver lines + what the implementation returned for them"""
    beam, att = sc.beam, sc.att
    L, step = case['length'], case['step']

    def add(line, kind, obs, tol=1e-9, floor=0.0, info=None):
        lines.append(line)
        expect.append(dict(kind=kind, obs=obs, tol=tol, floor=floor, info=info, case=case))

    # --- trigger the attenuation calculation exactly once on the fresh beam
    st, v0 = call(beam.density, 0.0, 0.0, 0.0)
    n_impl = len(sc.rate_calls.get((case['species'][0]['element'], case['species'][0]['charge']), []))
    n_py = py_count(L, step)
    add('count %s %s' % (f2b(L), f2b(step)), 'count', n_impl, info=dict(length=L, step=step))
    if st != 'ok' or n_impl != n_py or n_impl < 2:
        return False
    n = n_impl
    nodes = py_nodes(L, n)
    for i in sorted({0, 1, n - 2, n - 1, rng.randrange(n)}):
        add('node %s %d %d' % (f2b(L), n, i), 'node', [nodes[i]], tol=0.0)
    pts = [axis_point(sc, z) for z in nodes]
    # the points the implementation sampled: species 0 density is called twice per node (both loops)
    rec = sc.points
    same = len(rec) == 2 * n and all(rec[2 * k] == pts[k] and rec[2 * k + 1] == pts[k] for k in range(n))
    add('node %s %d 0' % (f2b(L), n), 'sample-points', [0.0] if same else 'sampled at %r..., expected %r...' % (rec[:3], pts[:2]), tol=0.0)

    ec, amu = f2b(elementary_charge), f2b(atomic_mass)
    common = [ec, amu, f2b(case['energy'])]
    dirs = [f2b(v) for v in sc.dir]
    nsp = len(case['species'])
    # --- arguments received by every rate at two nodes
    for k in sorted({0, rng.randrange(n)}):
        obs = []
        for s in case['species']:
            obs += list(sc.rate_calls[(s['element'], s['charge'])][k])
        add(' '.join(['rargs'] + common + dirs + [str(nsp)] + heads(case) + [f2b(v) for v in sample_targets(sc, [pts[k]])]),
            'rate-args', obs, tol=1e-11, info=dict(node=k))
    # --- source density
    add(' '.join(['src', ec, amu, f2b(case['energy']), f2b(case['power']), f2b(sc.mass)]), 'source', [att._source_density], tol=1e-13)
    # --- the `att` command computes the model's attenuation table and loads the knots into the driver state; the
    #     implementation's table is observed through the interpolator at every node (raysect evaluates a knot from
    #     the bin to its right, the last one from the bin to its left: `slope * (x - x0) + f0`; the absolute rounding
    #     error of that expression is ~ulp(f0), which is why the tolerance floor below is relative to the left knot)
    add(' '.join(['att', ec, amu, f2b(case['energy']), f2b(case['power']), f2b(sc.mass), f2b(L), str(n)] + dirs +
                 [str(nsp)] + heads(case) + [f2b(v) for v in sample_targets(sc, pts)]),
        'att-table-size', 2 * n, info=dict(n=n))
    knots = [call(att._density, z) for z in nodes]
    sc.knots = [v if st == 'ok' else float('nan') for st, v in knots]
    sc.nodes = nodes

    def left_knot(z):
        k = min(max(int(np.searchsorted(nodes, z, side='right')) - 1, 0), n - 2)
        v = sc.knots[k]
        return abs(v) if math.isfinite(v) else 0.0
    sc.left_knot = left_knot
    for k, z in enumerate(nodes):
        add('line %s' % f2b(z), 'line-nodes', [sc.knots[k]], floor=1e-300 + 1e-12 * left_knot(z), info=dict(node=k, z=z))
    for z in [rng.uniform(0, L) for _ in range(4)] + [nodes[1], np.nextafter(nodes[1], -1.0), L, L + 5e-10, -5e-10, -1e-8, L + 1e-8]:
        st, v = call(att._density, float(z))
        add('line %s' % f2b(z), 'line', [v] if st == 'ok' else st, floor=1e-300 + 1e-12 * left_knot(z), info=dict(z=float(z)))
    # --- Beam.density / attenuator.density
    geo = [f2b(case['sigma']), f2b(case['divx']), f2b(case['divy']), '1' if case['clamp'] else '0', f2b(case['clamp_sigma'])]
    for (x, y, z, tag) in probe_points(rng, case, n, nodes):
        st, v = call(beam.density, x, y, z)
        fl = 1e-300 + 1e-12 * left_knot(z) * gauss_ref(case, x, y, z)
        add(' '.join(['dens'] + geo + [f2b(L), f2b(x), f2b(y), f2b(z)]), 'beam.density:' + tag, [v] if st == 'ok' else st,
            floor=fl, info=dict(x=x, y=y, z=z))
        if tag == 'z-range' or rng.random() < 0.2:
            st, v = call(att.density, x, y, z)
            add(' '.join(['adens'] + geo + [f2b(x), f2b(y), f2b(z)]), 'attenuator.density:' + tag, [v] if st == 'ok' else st,
                floor=fl, info=dict(x=x, y=y, z=z))
    # --- direction
    for i in range(6):
        z = rng.choice([rng.uniform(0, L), 0.0, -0.5, L, 1e-9])
        x, y = rng.uniform(-1, 1), rng.uniform(-1, 1)
        d = beam.direction(x, y, z)
        add(' '.join(['dir', f2b(case['sigma']), f2b(case['divx']), f2b(case['divy']), f2b(x), f2b(y), f2b(z)]),
            'direction', [d.x, d.y, d.z], tol=1e-12, floor=1e-15, info=dict(x=x, y=y, z=z))
    return True


def compare(ctx, lines, expect, outs):
    for ln, e, o in zip(lines, expect, outs):
        obs = e['obs']
        if e['kind'] == 'count':
            agree = o == str(obs)
        elif e['kind'] == 'att-table-size':
            agree = len(o.split()) == obs
        elif isinstance(obs, list):
            try:
                mod = [b2f(t) for t in o.split()]
            except ValueError:
                mod = None
            agree = mod is not None and len(mod) == len(obs) and all(
                (a == b or (math.isnan(a) and math.isnan(b))) if e['tol'] == 0.0 else close(a, b, e['tol'], e['floor'])
                for a, b in zip(mod, obs))
        else:
            agree = str(obs) == o
        ctx.traces += 1
        ctx.count('K:' + e['kind'])
        if not agree:
            ctx.disagreements += 1
            ctx.count('disagreement:' + e['kind'])
            shown = o if len(o) < 400 else o[:400] + '...'
            try:
                shown = [b2f(t) for t in o.split()][:8]
            except ValueError:
                pass
            ctx.broke('correspondence', 'C04 stream ' + e['kind'],
                      dict(model=shown, implementation=str(obs)[:400], info=e['info'], case=e['case']))
            yield e


def run(ctx):
    ctx.rule = ('random fresh beam/plasma configurations: beam energy, power, element, sigma, divergence (0 / equal / unequal / one zero), '
                'length, attenuator step (many / few samples, L < step, L/step integer), clamp on/off and radius, beam and plasma '
                'placement (rotations, nested parent), 1-4 species incl. neutrals with uniform / smooth / cut-off density, '
                'temperature and velocity profiles and distinct stopping-rate functions; a case is distinct by its full parameter set; '
                'non-trivial = the attenuation table was computed by the real SingleRayAttenuator and compared')
    ctx.trusted += ['libm sqrt/exp/tan, pi, CODATA e and amu are parameters of the model (named hypotheses in Props/C04.lean; Real.sqrt/Real.exp instance proved)',
                    'raysect AffineMatrix3D / Node.to / Point3D.transform / Vector3D and Interpolator1DArray.find_index (bisection) are modelled by their specification',
                    'numpy.linspace, scipy cumulative_trapezoid: re-stated in the model, compared through the outputs only']
    ctx.assumptions += ['rigid beam/plasma transforms (rotation + translation)', 'finite, non-negative stopping rates and densities; positive sigma, length, step, energy']
    ctx.lean_check(['Cherab.Props.C04'], 'Cherab/Audit/C04.lean')

    rng = ctx.rng
    lines, expect = [], []
    ncases = ctx.n(120, 1500)
    for i in range(ncases):
        case = gen_case(rng)
        sc = build(case)
        ok = k_case(ctx, rng, case, sc, lines, expect)
        ctx.count('case:' + case['kind']); ctx.count('div:' + case['divmode']); ctx.count('step:' + case['stepmode'])
        ctx.count('clamp:%s' % case['clamp']); ctx.count('species:%d' % len(case['species']))
        ctx.case(key=json.dumps(case, sort_keys=True) if ok else None,
                 sample=dict(case=case) if i < 2 else None)
    outs = ctx.driver(lines)
    bad = list(compare(ctx, lines, expect, outs))


def replay(ctx, path):
    r = json.load(open(path))
    print(json.dumps(r, indent=1)[:3000])
    run(ctx)
    return ctx.finish()
