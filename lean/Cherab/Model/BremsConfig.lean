/-
C03 (round 6) — *which* Gaunt factor `Bremsstrahlung` evaluates with: the configuration side of
cherab/core/model/plasma/bremsstrahlung.pyx (`__init__`, `gaunt_factor` setter, `_populate_cache` guard ladder,
`_change`) and cherab/core/plasma/model.pyx (`plasma` / `atomic_data` setters call `_change()`).

Objects are identifiers: a user Gaunt factor `g`, an atomic-data provider `a` whose `free_free_gaunt_factor()` is
"the provider-`a` Gaunt factor".  Mathlib-free, executable (`Driver/C03.lean`, op `gsel`).
-/
namespace Cherab.Passive

/-- the object held in `_brems_func.gaunt_factor` -/
inductive GauntSrc where
  | user (g : Nat)
  | provider (a : Nat)
  deriving DecidableEq, Repr

structure BremsCfg where
  /-- `_plasma is not None` -/
  plasma : Bool
  /-- `_atomic_data` -/
  atomic : Option Nat
  /-- `_brems_func.gaunt_factor` -/
  gaunt : Option GauntSrc
  /-- `_user_provided_gaunt_factor` -/
  userProvided : Bool
  /-- `_brems_func.species_charge is not None` -/
  loaded : Bool
  deriving DecidableEq, Repr

inductive BremsOp where
  | setGaunt (v : Option Nat)
  | setAtomic (a : Option Nat)
  | setPlasma
  | change
  | eval
  deriving DecidableEq, Repr

/-- what an operation shows: nothing, a RuntimeError of `_populate_cache`, the Gaunt factor `BremsFunction.evaluate`
calls, or a call through a `None` attribute (`self.gaunt_factor.evaluate` with `gaunt_factor is None`) -/
inductive BremsOut where
  | silent
  | errNoPlasma
  | errNoAtomic
  | used (g : GauntSrc)
  | nullDeref
  deriving DecidableEq, Repr

/-- `_change`: `if not self._user_provided_gaunt_factor: gaunt_factor = None`; `species_charge = None` -/
def cfgChange (s : BremsCfg) : BremsCfg :=
  { s with gaunt := if s.userProvided then s.gaunt else none, loaded := false }

/-- setter: `_brems_func.gaunt_factor = value; _user_provided_gaunt_factor = True if value else False` (no `_change()`) -/
def cfgSetGaunt (s : BremsCfg) (v : Option Nat) : BremsCfg :=
  { s with gaunt := v.map GauntSrc.user, userProvided := v.isSome }

/-- `__init__`: base class stores plasma and provider, `self.gaunt_factor = gaunt_factor`, `self._change()` -/
def cfgInit (plasma : Bool) (atomic : Option Nat) (g : Option Nat) : BremsCfg :=
  cfgChange (cfgSetGaunt ⟨plasma, atomic, none, false, false⟩ g)

/-- `_populate_cache`: plasma check, then (only if no Gaunt factor is held) provider check and fetch, then the arrays -/
def cfgPopulate (s : BremsCfg) : BremsCfg × Option BremsOut :=
  if !s.plasma then (s, some .errNoPlasma)
  else match s.gaunt with
    | some _ => ({ s with loaded := true }, none)
    | none => match s.atomic with
      | none => (s, some .errNoAtomic)
      | some a => ({ s with gaunt := some (.provider a), loaded := true }, none)

/-- `emission` at a point where the Gaunt factor is called (n_e, T_e and one charged density positive):
`if species_charge is None [or gaunt_factor is None]: _populate_cache()`, then the integrand calls
`self.gaunt_factor.evaluate`.  `gg` says whether the `if` also tests `gaunt_factor is None` (read from the source on every
run: `Gen/BremsFlags.lean`; the source had only the first test until commit 7210ef7). -/
def cfgEval (gg : Bool) (s : BremsCfg) : BremsCfg × BremsOut :=
  let r := if s.loaded && !(gg && s.gaunt.isNone) then (s, none) else cfgPopulate s
  match r.2 with
  | some e => (r.1, e)
  | none => match r.1.gaunt with
    | some g => (r.1, .used g)
    | none => (r.1, .nullDeref)

def cfgStep (gg : Bool) (s : BremsCfg) : BremsOp → BremsCfg × BremsOut
  | .setGaunt v => (cfgSetGaunt s v, .silent)
  | .setAtomic a => (cfgChange { s with atomic := a }, .silent)
  | .setPlasma => (cfgChange { s with plasma := true }, .silent)
  | .change => (cfgChange s, .silent)
  | .eval => cfgEval gg s

/-- state after and output of every operation of a history -/
def cfgTrace (gg : Bool) : BremsCfg → List BremsOp → List (BremsCfg × BremsOut)
  | _, [] => []
  | s, o :: os => cfgStep gg s o :: cfgTrace gg (cfgStep gg s o).1 os

def cfgRun (gg : Bool) (s : BremsCfg) (ops : List BremsOp) : List BremsOut := (cfgTrace gg s ops).map (·.2)

end Cherab.Passive
