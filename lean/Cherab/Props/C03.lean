import Cherab.Model.PassiveEmission
import Cherab.Model.PassiveSpec
import Cherab.Model.Codata
import Cherab.Gen.Constants
import Cherab.Gen.PassiveFlags
import Mathlib.Tactic.Ring
import Mathlib.Tactic.Linarith
import Mathlib.Tactic.FieldSimp
import Mathlib.Tactic.Positivity
import Mathlib.Tactic.NormNum.OfScientific
import Mathlib.Algebra.Order.Field.Basic

namespace Cherab.Props.C03
set_option linter.unusedSectionVars false
open Cherab.Passive

variable {α : Type} [Field α] [LinearOrder α] [IsStrictOrderedRing α]

theorem line_zero_guards (pi : α) (rate : α → α → α) (ne te ni : α) (h : ne ≤ 0 ∨ te ≤ 0 ∨ ni ≤ 0) :
    emitted (lineCall pi rate ne te ni) = 0 := by
  unfold lineCall emitted
  rcases h with h | h | h <;> split_ifs <;> first | rfl | exact absurd h ‹_›

end Cherab.Props.C03
