/-
C19 — element / isotope registry (cherab/core/atomic/elements.pyx, line.pyx).  Mathlib-free.

Strings are represented by *codes*: the UTF-8 bytes of the string read as one big-endian base-256 natural
number (`enc`).  The code is injective on NUL-free strings (`Lemmas/Registry.lean`), and `lower`, `cat`, `strNat`
are `str.lower()` (ASCII), `+` and `str(int)` on codes.  Everything the kernel has to evaluate over the generated
table is therefore arithmetic on `Nat` literals (GMP-accelerated) — no `String`, no well-founded recursion.

What is transcribed here by hand: the dictionary semantics of the two search indices (later assignment to the
same key wins), the skeleton of `_build_*_index` (loop over `dir(module)`, exact-type filter), `lookup_element`,
`lookup_isotope`, Python's `==`/`!=` dispatch between `Element` and its subclass `Isotope`
(`__richcmp__` returning `NotImplemented`), `hash(tuple)`, and `Line.__richcmp__/__hash__`.
What is *generated* from the source text (Gen/Elements.lean): the constructors' field assignments, the key
expressions of the two index builders, the field lists of every `__richcmp__`/`__hash__`, the object table.
-/
namespace Cherab.Registry

/-! ## string codes -/

/-- UTF-8 bytes of `s` as a big-endian base-256 number -/
def enc (s : String) : Nat := s.toUTF8.data.toList.foldl (fun a b => a * 256 + b.toNat) 0

/-- number of base-256 digits (= `len` of the encoded byte string) -/
def bytes (n : Nat) : Nat := if n.beq 0 then 0 else n.log2 / 8 + 1

/-- `a + b` on codes (string concatenation) -/
def cat (a b : Nat) : Nat := a * 256 ^ bytes b + b

/-- ASCII `A`–`Z` → `a`–`z`; every other byte unchanged (what `str.lower()` does on ASCII text) -/
def lowerByte (b : Nat) : Nat := if Nat.ble 65 b && Nat.ble b 90 then b + 32 else b

def lowerAux : Nat → Nat → Nat
  | 0, _ => 0
  | f + 1, n => lowerAux f (n / 256) * 256 + lowerByte (n % 256)

/-- `s.lower()` on codes -/
def lower (n : Nat) : Nat := lowerAux (bytes n) n

def strNatAux : Nat → Nat → Nat
  | 0, _ => 0
  | f + 1, n => if n.beq 0 then 0 else strNatAux f (n / 10) * 256 + (48 + n % 10)

/-- `str(n)` for a non-negative `int` -/
def strNat (n : Nat) : Nat := if n.beq 0 then 48 else strNatAux (n.log2 + 1) n

/-- `str(n)` for an `int` -/
def strInt : Int → Nat
  | .ofNat n => strNat n
  | .negSucc n => cat 45 (strNat (n + 1))

/-- code → string (driver output only) -/
def decAux : Nat → Nat → List Char → List Char
  | 0, _, acc => acc
  | f + 1, n, acc => if n == 0 then acc else decAux f (n / 256) (Char.ofNat (n % 256) :: acc)
def dec (n : Nat) : String := String.ofList (decAux (bytes n) n [])

/-! ## objects -/

/-- `cdef class Element`: name, symbol (codes), atomic_number, atomic_weight (the double as the exact
rational `wNum / wDen`, lowest terms, `wDen` a power of two — so equality of doubles is equality of pairs). -/
structure El where
  name : Nat
  sym : Nat
  z : Nat
  wNum : Nat
  wDen : Nat
  deriving DecidableEq, Repr, Inhabited

/-- `cdef class Isotope(Element)`: the inherited `Element` part, mass_number, element -/
structure Iso where
  base : El
  a : Nat
  parent : El
  deriving DecidableEq, Repr, Inhabited

/-- a species object: exact type `Element` or exact type `Isotope` -/
inductive Sp
  | el (e : El)
  | iso (i : Iso)
  deriving DecidableEq, Repr, Inhabited

/-- the `Element` view of a species (`isinstance(x, Element)` holds for both) -/
def Sp.base : Sp → El
  | .el e => e
  | .iso i => i.base

def El.beq (a b : El) : Bool :=
  a.name.beq b.name && a.sym.beq b.sym && a.z.beq b.z && a.wNum.beq b.wNum && a.wDen.beq b.wDen
def Iso.beq (a b : Iso) : Bool := a.base.beq b.base && a.a.beq b.a && a.parent.beq b.parent
def Sp.beq : Sp → Sp → Bool
  | .el a, .el b => a.beq b
  | .iso a, .iso b => a.beq b
  | _, _ => false

/-! ## comparison and hashing: field lists are data (generated), interpretation is here -/

inductive EField | name | symbol | atomicNumber | atomicWeight
  deriving DecidableEq, Repr
inductive IField | inh (f : EField) | massNumber | element
  deriving DecidableEq, Repr
inductive LField | element | charge | transition
  deriving DecidableEq, Repr

/-- `and`-chain of `self.f == e.f` (op 2), `or`-chain of `self.f != e.f` (op 3), tuple in `__hash__` -/
structure CmpCfg where
  elEq : List EField
  elNe : List EField
  elHash : List EField
  isoEq : List IField
  isoNe : List IField
  isoHash : List IField
  lineEq : List LField
  lineNe : List LField
  lineHash : List LField
  /-- `Element.__richcmp__` starts with `if type(self) is not type(other) and (op == 2 or op == 3): return op == 3`
  (not on the current tree; notes/fixes/C19-1.diff) -/
  strictKind : Bool
  deriving Repr

def efEq : EField → El → El → Bool
  | .name, a, b => a.name.beq b.name
  | .symbol, a, b => a.sym.beq b.sym
  | .atomicNumber, a, b => a.z.beq b.z
  | .atomicWeight, a, b => a.wNum.beq b.wNum && a.wDen.beq b.wDen

/-- `Element.__richcmp__(self, other, 2)` for `other` an `Element` instance -/
def elEq (c : CmpCfg) (a b : El) : Bool := c.elEq.all fun f => efEq f a b
/-- `Element.__richcmp__(self, other, 3)` -/
def elNe (c : CmpCfg) (a b : El) : Bool := c.elNe.any fun f => !efEq f a b

/-- one conjunct of `Isotope.__richcmp__` op 2; `self.element == e.element` is Python `==` on two `Element`s -/
def ifEq (c : CmpCfg) : IField → Iso → Iso → Bool
  | .inh f, a, b => efEq f a.base b.base
  | .massNumber, a, b => a.a.beq b.a
  | .element, a, b => elEq c a.parent b.parent
/-- one disjunct of op 3; `self.element != e.element` is Python `!=`, i.e. `Element.__richcmp__(…, 3)` -/
def ifNe (c : CmpCfg) : IField → Iso → Iso → Bool
  | .inh f, a, b => !efEq f a.base b.base
  | .massNumber, a, b => !a.a.beq b.a
  | .element, a, b => elNe c a.parent b.parent

def isoEq (c : CmpCfg) (a b : Iso) : Bool := c.isoEq.all fun f => ifEq c f a b
def isoNe (c : CmpCfg) (a b : Iso) : Bool := c.isoNe.any fun f => ifNe c f a b

/-- Python `a == b` on species.  `Isotope.__richcmp__` returns `NotImplemented` unless *both* are isotopes, so every
mixed comparison (either order; the subclass's reflected method is tried first and declines) is decided by
`Element.__richcmp__` on the inherited fields — or, with the `strictKind` guard, is `False` / `!=` is `True`. -/
def pyEq (c : CmpCfg) : Sp → Sp → Bool
  | .el a, .el b => elEq c a b
  | .iso a, .iso b => isoEq c a b
  | .el a, .iso b => if c.strictKind then false else elEq c a b.base
  | .iso a, .el b => if c.strictKind then false else elEq c b a.base
/-- Python `a != b` on species -/
def pyNe (c : CmpCfg) : Sp → Sp → Bool
  | .el a, .el b => elNe c a b
  | .iso a, .iso b => isoNe c a b
  | .el a, .iso b => if c.strictKind then true else elNe c a b.base
  | .iso a, .el b => if c.strictKind then true else elNe c b a.base

/-- the tuple handed to `hash(...)`; `hash` itself is any function of this value -/
inductive HVal
  | n (v : Nat)
  | w (num den : Nat)
  | tup (vs : List HVal)
  deriving Repr

def efVal : EField → El → HVal
  | .name, e => .n e.name
  | .symbol, e => .n e.sym
  | .atomicNumber, e => .n e.z
  | .atomicWeight, e => .w e.wNum e.wDen

def elHash (c : CmpCfg) (e : El) : List HVal := c.elHash.map fun f => efVal f e

def ifVal (c : CmpCfg) : IField → Iso → HVal
  | .inh f, i => efVal f i.base
  | .massNumber, i => .n i.a
  | .element, i => .tup (elHash c i.parent)

def isoHash (c : CmpCfg) (i : Iso) : List HVal := c.isoHash.map fun f => ifVal c f i

/-- argument of `hash()` in the `__hash__` of the object's exact type -/
def spHash (c : CmpCfg) : Sp → List HVal
  | .el e => elHash c e
  | .iso i => isoHash c i

/-- structural equality test for hash tuples (driver / checks) -/
def HVal.beq : HVal → HVal → Bool
  | .n a, .n b => a.beq b
  | .w a b, .w a' b' => a.beq a' && b.beq b'
  | .tup l, .tup l' => go l l'
  | _, _ => false
where go : List HVal → List HVal → Bool
  | [], [] => true
  | x :: xs, y :: ys => HVal.beq x y && go xs ys
  | _, _ => false

def hashBeq (a b : List HVal) : Bool := HVal.beq.go a b

/-- `cdef class Line`: element (any species), charge, transition (any hashable, abstract) -/
structure Line (τ : Type) where
  element : Sp
  charge : Int
  transition : τ

inductive LHVal (τ : Type)
  | sp (h : List HVal)
  | charge (c : Int)
  | tr (t : τ)

def lfEq {τ : Type} [DecidableEq τ] (c : CmpCfg) : LField → Line τ → Line τ → Bool
  | .element, a, b => pyEq c a.element b.element
  | .charge, a, b => decide (a.charge = b.charge)
  | .transition, a, b => decide (a.transition = b.transition)
def lfNe {τ : Type} [DecidableEq τ] (c : CmpCfg) : LField → Line τ → Line τ → Bool
  | .element, a, b => pyNe c a.element b.element
  | .charge, a, b => !decide (a.charge = b.charge)
  | .transition, a, b => !decide (a.transition = b.transition)
def lineEq {τ : Type} [DecidableEq τ] (c : CmpCfg) (a b : Line τ) : Bool := c.lineEq.all fun f => lfEq c f a b
def lineNe {τ : Type} [DecidableEq τ] (c : CmpCfg) (a b : Line τ) : Bool := c.lineNe.any fun f => lfNe c f a b
def lfVal {τ : Type} (c : CmpCfg) : LField → Line τ → LHVal τ
  | .element, l => .sp (spHash c l.element)
  | .charge, l => .charge l.charge
  | .transition, l => .tr l.transition
def lineHash {τ : Type} (c : CmpCfg) (l : Line τ) : List (LHVal τ) := c.lineHash.map fun f => lfVal c f l

/-- `Line.__init__` guards (line.pyx:51-55) -/
def lineCtorOk (element : Sp) (charge : Int) : Bool :=
  !(decide (charge > (element.base.z : Int) - 1)) && !(decide (charge < 0))

/-! ## search indices -/

/-- a Python `dict` with code keys, newest assignment first; reading returns the newest binding of the key -/
abbrev Index (α : Type) := List (Nat × α)

def Index.get? {α : Type} : Index α → Nat → Option α
  | [], _ => none
  | (k', v) :: t, k => if k'.beq k then some v else Index.get? t k

/-- `d[k] = v` -/
def Index.set {α : Type} (idx : Index α) (k : Nat) (v : α) : Index α := (k, v) :: idx

/-- the body of `_build_*_index` for one object: one assignment per key expression, in source order -/
def addKeys {α : Type} (keys : α → List Nat) (idx : Index α) (o : α) : Index α :=
  (keys o).foldl (fun i k => i.set k o) idx

/-- `_build_*_index`: `objs` are the module globals of the exact type, in `dir()` order -/
def buildIndex {α : Type} (keys : α → List Nat) (objs : List α) : Index α :=
  objs.foldl (addKeys keys) []

/-! ## lookups -/

/-- the argument `v` of `lookup_element` / `lookup_isotope` -/
inductive Query
  | elem (e : El)        -- an object of exact type `Element`
  | isot (i : Iso)       -- an object of exact type `Isotope`
  | str (s : Nat)        -- a `str`
  | int (n : Int)        -- an `int`
  deriving Repr

/-- `'<Element: {}>'.format(name)` / `'<Isotope: {}>'.format(name)` -/
def reprEl (e : El) : Nat := cat (cat (enc "<Element: ") e.name) (enc ">")
def reprIso (i : Iso) : Nat := cat (cat (enc "<Isotope: ") i.base.name) (enc ">")

/-- `str(v)` -/
def Query.str' : Query → Nat
  | .elem e => reprEl e
  | .isot i => reprIso i
  | .str s => s
  | .int n => strInt n

/-- `lookup_element(v)`; `none` = `ValueError` -/
def lookupElement (eidx : Index El) : Query → Option El
  | .elem e => some e
  | q => eidx.get? (lower q.str')

/-- `lookup_isotope(v, number)`; `number = none` is Python `None`; `if number:` is false for `None` and `0` -/
def lookupIsotope (eidx : Index El) (iidx : Index Iso) (q : Query) (number : Option Int) : Option Iso :=
  match q with
  | .isot i => some i
  | q =>
    match number with
    | some n =>
      if n = 0 then iidx.get? (lower q.str')
      else
        match lookupElement eidx q with
        | some e => iidx.get? (lower (cat e.sym (strInt n)))
        | none => none
    | none => iidx.get? (lower q.str')

/-! ## the registry as state: species constructed after import (round 6) -/

/-- events of a session after import: a call of the public constructor `Element(...)` / `Isotope(...)` -/
inductive RegEvent
  | newEl (e : El)
  | newIso (i : Iso)

/-- the two module-level dictionaries -/
structure RegState where
  eidx : Index El
  iidx : Index Iso

/-- running a constructor body: it writes the index entries `ek` / `ik` (the key expressions the translator finds in
`__init__`; none in the current source, `elementKeys` / `isotopeKeys` for a self-registering constructor) -/
def RegState.step (ek : El → List Nat) (ik : Iso → List Nat) (s : RegState) : RegEvent → RegState
  | .newEl e => { s with eidx := addKeys ek s.eidx e }
  | .newIso i => { s with iidx := addKeys ik s.iidx i }

/-- a whole history of constructions -/
def RegState.run (ek : El → List Nat) (ik : Iso → List Nat) (s : RegState) (h : List RegEvent) : RegState :=
  h.foldl (RegState.step ek ik) s

/-! ## Boolean checks used by the table theorems (evaluated by the kernel on the generated table) -/

def nodupB : List Nat → Bool
  | [] => true
  | x :: xs => !(xs.any fun y => x.beq y) && nodupB xs

def memEl (e : El) (l : List El) : Bool := l.any fun x => e.beq x

def optElIs (o : Option El) (e : El) : Bool := match o with | some x => x.beq e | none => false
def optIsoIs (o : Option Iso) (i : Iso) : Bool := match o with | some x => x.beq i | none => false

/-- `|wNum/wDen − a| ≤ 1/10` in integer arithmetic -/
def weightNear (wNum wDen a : Nat) : Bool :=
  Nat.ble (10 * (wNum - a * wDen)) wDen && Nat.ble (10 * (a * wDen - wNum)) wDen

/-- all ordered pairs of different positions satisfy `r` -/
def pairwiseB {α : Type} (r : α → α → Bool) : List α → Bool
  | [] => true
  | x :: xs => xs.all (fun y => r x y && r y x) && pairwiseB r xs

/-! ## search-tree certificates

The translator also emits balanced binary search trees over the index keys / the names.  They are *oracles*: a check
"every key computed by the model from the table is found in the tree with its owner" is linear·log for the kernel and
implies collision-freeness whatever the tree looks like (a wrong tree can only make the check fail). -/

inductive KeyTree (α : Type)
  | leaf
  | node (l : KeyTree α) (k : Nat) (v : α) (r : KeyTree α)

def KeyTree.find {α : Type} : KeyTree α → Nat → Option α
  | .leaf, _ => none
  | .node l k v r, q => if q.beq k then some v else if Nat.blt q k then l.find q else r.find q

/-- `F (l[i]) = some (p + i)` for every position `i` -/
def idxOk (F : Nat → Option Nat) : Nat → List Nat → Bool
  | _, [] => true
  | p, k :: ks => (match F k with | some v => v.beq p | none => false) && idxOk F (p + 1) ks

/-- `a` is a subsequence of `b` (linear two-pointer walk) -/
def subseqB {α : Type} (eq : α → α → Bool) : List α → List α → Bool
  | [], _ => true
  | _ :: _, [] => false
  | x :: xs, y :: ys => if eq x y then subseqB eq xs ys else subseqB eq (x :: xs) ys

def Iso.memB (i : Iso) (l : List Iso) : Bool := l.any fun x => i.beq x

end Cherab.Registry
