import Cherab.Props.C18
import Cherab.Gen.LaserEdges
namespace Cherab.Props.C18Table
open Cherab.Laser Cherab.Props.C18 Cherab.Gen.LaserEdges

/-- every profile setter that writes a field read by `_function_changed` (or feeds `set_energy_density_function`)
rebuilds the energy-density function -/
theorem covered_profiles : profiles.all coveredB = true := by decide

end Cherab.Props.C18Table
