"""C03 translators (syntactic, regex/indent scanner for .pyx):

* cherab/core/utility/constants.pyx  -> lean/Cherab/Gen/Constants.lean
    every `double NAME = <decimal literal>` becomes a notation-polymorphic Lean scientific literal with exactly the
    digits of the source (so `(NAME : ℚ)` is the exact rational of the decimal literal and `(NAME : Float)` the double
    the C compiler produces); `double NAME = <expression>` is kept as a string.
* cherab/core/model/plasma/thermal_cx.pyx, total_radiated_power.pyx -> lean/Cherab/Gen/PassiveFlags.lean
    - does the donor loop of ThermalCXLine.emission skip donors with non-positive density / temperature?
    - the tuple of elements whose neutrals TotalRadiatedPower sums as CX donors.
"""
import os
import re

from harness.vlib import lean
from harness.vlib.util import LEAN, REPO

CONSTANTS = os.path.join(REPO, 'cherab/core/utility/constants.pyx')
THERMAL_CX = os.path.join(REPO, 'cherab/core/model/plasma/thermal_cx.pyx')
TRP = os.path.join(REPO, 'cherab/core/model/plasma/total_radiated_power.pyx')
GAUNT = os.path.join(REPO, 'cherab/core/atomic/gaunt.pyx')
ELEMENTS = os.path.join(REPO, 'cherab/core/atomic/elements.pyx')
BREMS = os.path.join(REPO, 'cherab/core/model/plasma/bremsstrahlung.pyx')

# identifiers of Element objects shared by the harness, the generated table and the Lean driver
ELEMENT_IDS = ['hydrogen', 'protium', 'deuterium', 'tritium', 'helium', 'helium3', 'lithium', 'beryllium', 'boron',
               'carbon', 'nitrogen', 'oxygen', 'neon', 'argon']

_LIT = re.compile(r'^[0-9]+(\.[0-9]*)?([eE][-+]?[0-9]+)?$')
_DECL = re.compile(r'^\s*double\s+([A-Z0-9_]+)\s*=\s*([^#]+?)\s*(#.*)?$')


def parse_constants(path=CONSTANTS):
    """returns ([(name, literal)], [(name, expression)]) in source order"""
    lits, exprs = [], []
    for line in open(path):
        m = _DECL.match(line)
        if not m:
            continue
        name, rhs = m.group(1), m.group(2).strip()
        if _LIT.match(rhs):
            lits.append((name, rhs))
        else:
            exprs.append((name, rhs))
    return lits, exprs


def lean_literal(text):
    """a Lean scientific literal with exactly the decimal digits of `text` (Lean needs digits after the point)"""
    t = text.replace('E', 'e')
    mant, _, ex = t.partition('e')
    if '.' not in mant:
        mant += '.0'
    elif mant.endswith('.'):
        mant += '0'
    return mant + ('e' + ex.lstrip('+') if ex else '')


def decimal_parts(text):
    """(mantissa digits as int, decimal exponent) with value = mantissa * 10^exponent, exact"""
    t = text.replace('E', 'e')
    mant, _, ex = t.partition('e')
    ip, _, fp = mant.partition('.')
    return int(ip + fp), int(ex or 0) - len(fp)


def parse_euler(path=GAUNT):
    """`DEF EULER_GAMMA = <literal>` of gaunt.pyx"""
    for l in open(path):
        m = re.match(r'^DEF\s+EULER_GAMMA\s*=\s*([0-9.eE+-]+)\s*(#.*)?$', l)
        if m and _LIT.match(m.group(1)):
            return m.group(1)
    raise ValueError('DEF EULER_GAMMA not found in gaunt.pyx')


def _block(lines, start, indent):
    """lines following `start` that are indented deeper than `indent` (blank lines skipped)"""
    out = []
    for l in lines[start + 1:]:
        if not l.strip():
            continue
        if len(l) - len(l.lstrip()) <= indent:
            break
        out.append(l)
    return out


def parse_cx_guards(path=THERMAL_CX):
    """(density_guard, temperature_guard): does the body of `for species, rate in self._rates:` test the donor
    density / temperature against zero before accumulating?"""
    lines = [l.rstrip('\n') for l in open(path)]
    for i, l in enumerate(lines):
        if re.match(r'\s*for\s+species\s*,\s*rate\s+in\s+self\._rates\s*:', l):
            body = _block(lines, i, len(l) - len(l.lstrip()))
            ifs = ' '.join(b.split('#')[0] for b in body if re.match(r'\s*(if|elif)\b', b))
            dens = bool(re.search(r'donor_density\s*(<=|>)\s*0', ifs))
            temp = bool(re.search(r'donor_temperature\s*(<=|>)\s*0', ifs))
            return dens, temp
    raise ValueError('donor loop of ThermalCXLine.emission not found')


def parse_registry(path=ELEMENTS):
    """[(variable name, atomic number)] of every module-level `x = Element(...)` / `x = Isotope(..., parent, ...)` of
    elements.pyx; the harness's ELEMENT_IDS come first (their ids are the list positions), the rest in source order"""
    z = {}
    order = []
    for l in open(path):
        m = re.match(r"^(\w+)\s*=\s*Element\(\s*'[^']*'\s*,\s*'[^']*'\s*,\s*(\d+)\s*,", l)
        if m:
            z[m.group(1)] = int(m.group(2)); order.append(m.group(1)); continue
        m = re.match(r"^(\w+)\s*=\s*Isotope\(\s*'[^']*'\s*,\s*'[^']*'\s*,\s*(\w+)\s*,\s*\d+\s*,", l)
        if m:
            if m.group(2) not in z:
                raise ValueError('isotope %s of unknown element %s' % (m.group(1), m.group(2)))
            z[m.group(1)] = z[m.group(2)]; order.append(m.group(1))
    missing = [n for n in ELEMENT_IDS if n not in z]
    if missing:
        raise ValueError('elements %r not found in elements.pyx' % missing)
    names = ELEMENT_IDS + [n for n in order if n not in ELEMENT_IDS]
    return [(n, z[n]) for n in names]


def parse_trp_hydrogen(path=TRP):
    for l in open(path):
        m = re.match(r'\s*for\s+hyd_isotope\s+in\s*\(([^)]*)\)\s*:', l)
        if m:
            return [t.strip() for t in m.group(1).split(',') if t.strip()]
    raise ValueError('hydrogen isotope tuple of TotalRadiatedPower._populate_cache not found')


def parse_brems_guard(path=BREMS):
    """the condition of the `if …: self._populate_cache()` at the top of Bremsstrahlung.emission:
    (tests `species_charge is None`, also tests `gaunt_factor is None`)"""
    lines = open(path).read().split('\n')
    inside = False
    for i, l in enumerate(lines):
        if re.match(r'\s*cpdef\s+Spectrum\s+emission\s*\(', l):
            inside = True
            continue
        if inside and re.match(r'\s*(cdef|cpdef|def)\s+\w.*\(.*', l) and '_populate_cache' in l:
            break
        if inside and re.match(r'\s*self\._populate_cache\(\)', l):
            j = i - 1
            while j >= 0 and not lines[j].strip():
                j -= 1
            m = re.match(r'\s*if\s+(.*):\s*$', lines[j])
            if not m:
                raise ValueError('Bremsstrahlung.emission: `if` before self._populate_cache() not found')
            cond = m.group(1)
            terms = [t.strip() for t in re.split(r'\bor\b', cond)]
            charge = any(re.fullmatch(r'self\._brems_func\.species_charge\s+is\s+None', t) for t in terms)
            gaunt = any(re.fullmatch(r'self\._brems_func\.gaunt_factor\s+is\s+None', t) for t in terms)
            if not charge or len(terms) != 1 + int(gaunt):
                raise ValueError('Bremsstrahlung.emission: unrecognised populate condition %r' % cond)
            return charge, gaunt
    raise ValueError('populate guard of Bremsstrahlung.emission not found')


def generate():
    """writes Gen/Constants.lean, Gen/PassiveFlags.lean and Gen/BremsFlags.lean; returns a dict describing what was read"""
    _, gg = parse_brems_guard()
    bf = ['/- GENERATED by harness/translators/constants.py from cherab/core/model/plasma/bremsstrahlung.pyx — do not edit -/',
          'namespace Cherab.Gen.BremsFlags', '',
          '/-- the `if` in front of `self._populate_cache()` in `Bremsstrahlung.emission` tests `gaunt_factor is None` too -/',
          'def emissionGuardTestsGaunt : Bool := %s' % ('true' if gg else 'false'),
          '', 'end Cherab.Gen.BremsFlags', '']
    lean.write_if_changed(os.path.join(LEAN, 'Cherab', 'Gen', 'BremsFlags.lean'), '\n'.join(bf))
    lits, exprs = parse_constants()
    lits = lits + [('EULER_GAMMA', parse_euler())]
    out = ['/- GENERATED by harness/translators/constants.py from cherab/core/utility/constants.pyx\n   (and `DEF EULER_GAMMA` of cherab/core/atomic/gaunt.pyx) — do not edit -/',
           'namespace Cherab.Gen.Constants', '']
    for name, text in lits:
        m, e = decimal_parts(text)
        out.append('/-- `double %s = %s` -/' % (name, text))
        out.append('def %s {α : Type} [OfScientific α] : α := %s' % (name, lean_literal(text)))
        out.append('def %s_mant : Nat := %d' % (name, m))
        out.append('def %s_exp10 : Int := %d' % (name, e))
        out.append('')
    out.append('/-- names of the literal constants, in source order -/')
    out.append('def literalNames : List String := [%s]' % ', '.join('"%s"' % n for n, _ in lits))
    out.append('/-- derived constants: (name, right-hand side as written) -/')
    out.append('def derived : List (String × String) := [%s]' % ', '.join('("%s", "%s")' % (n, x) for n, x in exprs))
    out += ['', 'end Cherab.Gen.Constants', '']
    lean.write_if_changed(os.path.join(LEAN, 'Cherab', 'Gen', 'Constants.lean'), '\n'.join(out))

    dens, temp = parse_cx_guards()
    hyd = parse_trp_hydrogen()
    reg = parse_registry()
    regnames = [n for n, _ in reg]
    unknown = [h for h in hyd if h not in regnames]
    if unknown:
        raise ValueError('TotalRadiatedPower sums elements %r that are not in the registry' % unknown)
    fl = ['/- GENERATED by harness/translators/constants.py from thermal_cx.pyx and total_radiated_power.pyx and\n   the element registry cherab/core/atomic/elements.pyx — do not edit -/',
          'namespace Cherab.Gen.PassiveFlags', '',
          '/-- ThermalCXLine.emission donor loop skips donors with non-positive density -/',
          'def thermalCXDonorDensityGuard : Bool := %s' % ('true' if dens else 'false'),
          '/-- ThermalCXLine.emission donor loop skips donors with non-positive temperature -/',
          'def thermalCXDonorTemperatureGuard : Bool := %s' % ('true' if temp else 'false'),
          '/-- TotalRadiatedPower._populate_cache: `for hyd_isotope in (…)` -/',
          'def trpHydrogenDonors : List String := [%s]' % ', '.join('"%s"' % h for h in hyd),
          '/-- the same as element identifiers (index into `elementNames`) -/',
          'def trpHydrogenIds : List Nat := [%s]' % ', '.join(str(regnames.index(h)) for h in hyd),
          '/-- every element / isotope defined in cherab/core/atomic/elements.pyx; the list position is the element id -/',
          'def elementNames : List String := [%s]' % ', '.join('"%s"' % n for n in regnames),
          '/-- atomic number by element id (isotopes: that of their parent element) -/',
          'def registryZ : List Nat := [%s]' % ', '.join(str(z_) for _, z_ in reg),
          '', 'end Cherab.Gen.PassiveFlags', '']
    lean.write_if_changed(os.path.join(LEAN, 'Cherab', 'Gen', 'PassiveFlags.lean'), '\n'.join(fl))
    return dict(literals=dict(lits), derived=dict(exprs), cx_density_guard=dens, cx_temperature_guard=temp, trp_hydrogen=hyd,
                brems_guard_tests_gaunt=gg)


if __name__ == '__main__':
    print(generate())
