"""C04 — beam density conserves particles, decays monotonically, follows its envelope.

T  lean/Cherab/Props/C04.lean over lean/Cherab/Model/BeamDensity.lean (+ Lemmas/Gaussian.lean for the ℝ² integral)
K  fresh real beams in real plasmas (Python density / temperature / velocity profiles, Python BeamStoppingRate
   subclass with distinct values per species, mock AtomicData).  The harness applies the beam->plasma transform with
   raysect's matrices, samples the same profile functions at the axis points and hands the *sampled values* to the
   Lean driver; compared: sample count, sample points (against the points the profiles were actually called at),
   the arguments every stopping rate received, the line density at all nodes, Beam.density / attenuator.density at
   off-axis / out-of-range / clamp-edge points, Beam.direction.
S  model-free oracles on the implementation: cross-section integral x speed vs P/(E m e) exp(-int S/v) (fine
   Gauss-Legendre rule, tolerance = trapezoid + linear-interpolation error bounds of the code's own step),
   numpy re-statement of the documented discretisation at the nodes, monotonicity scan, zero-outside,
   unit direction and streamline (x/sigma_x constant) by RK4 steps.

Every case builds a *fresh* world/plasma/beam, sets everything, then observes (the stale-cache defect of
`Beam._modified` belongs to C01 and must not leak into this check).
"""
import json
import math

import numpy as np
from scipy.constants import atomic_mass, elementary_charge, electron_mass

from harness.vlib.util import f2b, b2f, fs, close, call

DEG = math.pi / 180.0
SPECIES_POOL = [('deuterium', 1), ('carbon', 6), ('helium', 2), ('neon', 10), ('carbon', 5), ('hydrogen', 1),
                ('tritium', 1), ('beryllium', 4), ('deuterium', 0), ('helium', 1), ('nitrogen', 7), ('argon', 16),
                ('helium3', 2), ('helium4', 2), ('carbon13', 6)]
# isotopes of one element in the same charge state: the provider below serves a different rate for each of them
ISOTOPE_GROUPS = [[('hydrogen', 1), ('deuterium', 1), ('tritium', 1)], [('helium', 2), ('helium3', 2), ('helium4', 2)],
                  [('carbon', 6), ('carbon13', 6)], [('deuterium', 0), ('tritium', 0), ('hydrogen', 0)]]
FORMS = ['plain', 'late', 'keywords', 'replaced', 'swap-back', 'junk-model', 'second-beam']
BEAM_ELEMENTS = ['hydrogen', 'deuterium', 'tritium', 'helium', 'helium3', 'lithium']


# ----------------------------------------------------------------------------------------------------------------
# profile families (described by JSON-able dicts so that a case can be replayed)
# ----------------------------------------------------------------------------------------------------------------
def scalar_profile(d):
    A, b, (kx, ky, kz), phi, w, (cx, cy), cut = d['A'], d['b'], d['k'], d['phi'], d['w'], d['c'], d['cut']

    def f(x, y, z):
        v = A * (1.0 + b * math.sin(kx * x + ky * y + kz * z + phi))
        if w is not None:
            v *= math.exp(-((x - cx) ** 2 + (y - cy) ** 2) / (w * w))
        if cut is not None and cut[0] * x + cut[1] * y + cut[2] * z > cut[3]:
            return 0.0
        return v
    return f


def vector_profile(d):
    (ax, ay, az), (gx, gy, gz) = d['v0'], d['g']

    def f(x, y, z):
        return (ax + gx * x, ay + gy * y, az + gz * z)
    return f


def rate_fn(c, a, b):
    """same expression, same order as `rateF` in lean/Driver/C04.lean"""
    def f(e, n, t):
        return c * (1.0 + a * e / (e + 5e4)) * (2.0 - 1.0 / (1.0 + n / 1e19)) * (1.0 + b * t / (t + 1e3))
    return f


def gen_scalar(rng, A, kind):
    if kind == 'uniform':
        return dict(A=A, b=0.0, k=[0.0, 0.0, 0.0], phi=0.0, w=None, c=[0.0, 0.0], cut=None)
    d = dict(A=A, b=rng.uniform(-0.8, 0.8), k=[rng.uniform(-2, 2) for _ in range(3)], phi=rng.uniform(0, 6.28),
             w=rng.choice([None, rng.uniform(1.0, 6.0)]), c=[rng.uniform(-1, 1), rng.uniform(-1, 1)], cut=None)
    if kind == 'cut':
        t = rng.uniform(0, 6.28)
        d['cut'] = [math.cos(t), math.sin(t), rng.uniform(-0.5, 0.5), rng.uniform(0.2, 2.0)]
    return d


def gen_case(rng, mode=None):
    """one beam/plasma configuration"""
    kind = rng.choice(['uniform', 'smooth', 'smooth', 'smooth', 'cut'])
    nsp = rng.choice([1, 2, 2, 3, 4])
    pool = rng.sample(SPECIES_POOL, nsp)
    if mode == 'isotopes' or rng.random() < 0.15:
        grp = rng.choice(ISOTOPE_GROUPS[:3] if rng.random() < 0.9 else ISOTOPE_GROUPS)
        iso = rng.sample(grp, rng.randint(2, len(grp)))
        pool = [p_ for p_ in pool if p_ not in iso][:max(0, 4 - len(iso))]
        for p_ in iso:
            pool.insert(rng.randint(0, len(pool)), p_)
        mode = None if mode == 'isotopes' else mode
    if all(z == 0 for _, z in pool):
        pool[0] = ('deuterium', 1) if ('deuterium', 1) not in pool else ('carbon', 6)
    species = []
    for el, z in pool:
        species.append(dict(
            element=el, charge=z,
            dens=gen_scalar(rng, 10 ** rng.uniform(17.5, 19.7), kind),
            temp=gen_scalar(rng, 10 ** rng.uniform(1.0, 4.0), 'uniform' if kind == 'uniform' else 'smooth'),
            vel=dict(v0=[rng.uniform(-2e5, 2e5) for _ in range(3)],
                     g=[0.0, 0.0, 0.0] if kind == 'uniform' else [rng.uniform(-5e4, 5e4) for _ in range(3)]),
            rate=[10 ** rng.uniform(-14.0, -12.3), rng.uniform(-0.5, 1.0), rng.uniform(-0.5, 1.0)]))
    if rng.random() < 0.08:
        for s in species:
            s['rate'][0] = 0.0                      # no stopping at all
    divmode = rng.choice(['zero', 'equal', 'unequal', 'unequal', 'one-zero'])
    dx = rng.uniform(0.05, 6.0)
    divx, divy = dict(zero=(0.0, 0.0), equal=(dx, dx), unequal=(dx, rng.uniform(0.05, 6.0)),
                      **{'one-zero': (0.0, dx)})[divmode]
    stepmode = mode or rng.choice(['many', 'many', 'few', 'L<step', 'integer', 'default'])
    if stepmode == 'integer':
        length = rng.choice([0.5, 1.0, 2.0, 4.0, 3.0])
        step = length / rng.choice([2, 3, 4, 8, 16, 5, 10]) if rng.random() < 0.5 else rng.choice([0.25, 0.125, 0.5, 0.0625])
    else:
        length = rng.uniform(0.05, 6.0)
        step = dict(many=length / rng.uniform(8, 80), few=length / rng.uniform(1.0, 6.0),
                    default=0.01 if length < 1.0 else length / rng.uniform(8, 80),
                    **{'L<step': length * rng.uniform(1.0, 5.0)})[stepmode]
    return dict(
        kind=kind, divmode=divmode, stepmode=stepmode,
        energy=10 ** rng.uniform(3.3, 5.2), power=10 ** rng.uniform(3, 7), element=rng.choice(BEAM_ELEMENTS),
        sigma=rng.uniform(0.01, 0.3), divx=divx, divy=divy, length=length, step=step,
        clamp=rng.random() < 0.5, clamp_sigma=rng.choice([5.0, rng.uniform(0.5, 6.0)]),
        beam_tf=[rng.uniform(-1, 1) for _ in range(3)] + [rng.uniform(-180, 180) for _ in range(3)],
        plasma_tf=([0.0] * 6 if rng.random() < 0.3 else
                   [rng.uniform(-1, 1) for _ in range(3)] + [rng.uniform(-180, 180) for _ in range(3)]),
        nested=rng.random() < 0.3, species=species)


# ----------------------------------------------------------------------------------------------------------------
# scene construction (real cherab objects)
# ----------------------------------------------------------------------------------------------------------------
class Scene:
    pass


def make_species(sc, species):
    """real Species objects for the JSON description; the density of the first one records where it is sampled"""
    from raysect.core import Vector3D
    from cherab.core import Species, Maxwellian
    from cherab.core.atomic import elements
    comp = []
    first = True
    for s in species:
        dens, temp, vel = scalar_profile(s['dens']), scalar_profile(s['temp']), vector_profile(s['vel'])
        if first:
            def dens(x, y, z, _d=dens):
                sc.points.append((x, y, z))
                return _d(x, y, z)
            first = False
        el = getattr(elements, s['element'])
        comp.append(Species(el, s['charge'],
                            Maxwellian(dens, temp, lambda x, y, z, _v=vel: Vector3D(*_v(x, y, z)),
                                       el.atomic_weight * atomic_mass)))
    return comp


def make_data(sc):
    """mock AtomicData: a distinct rate function per (plasma element *or isotope*, charge), looked up in the scene's
    *current* description at request time; every request is recorded"""
    from cherab.core.atomic import AtomicData, BeamStoppingRate

    class Rate(BeamStoppingRate):
        def __init__(self, key, f):
            self.key = key
            self.f = f
            self.calls = []

        def evaluate(self, e, n, t):
            self.calls.append((e, n, t))
            return self.f(e, n, t)

    class Data(AtomicData):
        def beam_stopping_rate(self, beam_ion, plasma_ion, charge):
            key = (plasma_ion.name, charge)
            params = {(s['element'], s['charge']): s['rate'] for s in sc.cur['species']}
            c, a, b = params.get(key, (1e-9, 0.0, 0.0))
            if beam_ion.name != sc.cur['element']:
                sc.bad_beam_ion.append(beam_ion.name)
                c = c * 1e3 + 1e-10
            r = Rate(key, rate_fn(c, a, b))
            sc.rates.append(r)
            return r
    return Data()


def make_attenuator(case, **kw):
    from cherab.core.model import SingleRayAttenuator
    return SingleRayAttenuator(step=case['step'], clamp_to_zero=case['clamp'], clamp_sigma=case['clamp_sigma'], **kw)


def build(case, form='plain'):
    """fresh world + plasma + beam for `case`, attenuator constructed / attached in one of the documented ways (FORMS);
    forms with a history (replaced / swapped / discarded objects) observe the density on the way"""
    import gc
    from raysect.core import World, Node, Vector3D, Point3D, translate, rotate
    from raysect.primitive import Sphere
    from cherab.core import Beam, Plasma, Maxwellian
    from cherab.core.atomic import elements
    from cherab.core.math import ConstantVector3D

    sc = Scene()
    sc.case = case
    sc.cur = json.loads(json.dumps(case))      # current description (mutated by histories)
    sc.form = form
    sc.points = []          # points at which species 0's density was sampled (plasma space)
    sc.rates = []           # Rate objects in the order the attenuator requested them (= composition order)
    sc.bad_beam_ion = []

    world = World()
    pt = case['plasma_tf']
    plasma = Plasma(parent=world, transform=translate(*pt[:3]) * rotate(*pt[3:]))
    plasma.geometry = Sphere(50.0)
    plasma.b_field = ConstantVector3D(Vector3D(0, 0, 1))
    plasma.electron_distribution = Maxwellian(lambda x, y, z: 1e19, lambda x, y, z: 1e3,
                                              lambda x, y, z: Vector3D(0, 0, 0), electron_mass)
    plasma.composition = make_species(sc, case['species'])
    data = make_data(sc)
    plasma.atomic_data = data

    def set_beam_parameters(b):
        b.energy = case['energy']
        b.power = case['power']
        b.element = getattr(elements, case['element'])
        b.sigma = case['sigma']
        b.divergence_x = case['divx']
        b.divergence_y = case['divy']
        b.length = case['length']

    bt = case['beam_tf']
    parent = world
    if case['nested']:
        parent = Node(parent=world, transform=translate(0.3, -0.2, 0.1) * rotate(25, -40, 10))
    if form == 'second-beam':
        # an earlier beam on the same plasma, observed and then discarded: its attenuator's dead entry stays in
        # plasma.notifier in front of whatever registers next
        other = Beam(parent=world, transform=translate(0.1, 0.2, -0.3))
        other.atomic_data = data
        other.plasma = plasma
        other.attenuator = make_attenuator(case)
        set_beam_parameters(other)
        other.density(0.0, 0.0, 0.5 * case['length'])
        other.parent = None
        del other
        gc.collect()
    beam = Beam(parent=parent, transform=translate(*bt[:3]) * rotate(*bt[3:]))
    beam.atomic_data = data
    beam.plasma = plasma
    if form in ('plain', 'second-beam'):
        att = make_attenuator(case)
        beam.attenuator = att
        set_beam_parameters(beam)
    elif form == 'late':
        set_beam_parameters(beam)
        att = make_attenuator(case)
        beam.attenuator = att
    elif form == 'keywords':
        # documented keyword form, with the very objects the attenuator is then attached to
        set_beam_parameters(beam)
        att = make_attenuator(case, beam=beam, plasma=plasma, atomic_data=data)
        beam.attenuator = att
    elif form == 'replaced':
        from cherab.core.model import SingleRayAttenuator
        set_beam_parameters(beam)
        old = SingleRayAttenuator(step=case['step'] * 2.5)
        beam.attenuator = old
        beam.density(0.0, 0.0, 0.5 * case['length'])
        att = make_attenuator(case)
        beam.attenuator = att
        del old
        gc.collect()
    elif form == 'swap-back':
        from cherab.core.model import SingleRayAttenuator
        att = make_attenuator(case)
        beam.attenuator = att
        set_beam_parameters(beam)
        beam.density(0.0, 0.0, 0.5 * case['length'])
        tmp = SingleRayAttenuator(step=case['step'] * 1.7, clamp_to_zero=not case['clamp'])
        beam.attenuator = tmp
        beam.density(0.0, 0.0, 0.25 * case['length'])
        beam.attenuator = att
        del tmp
        gc.collect()
    elif form == 'junk-model':
        from cherab.core.beam import BeamModel
        from cherab.core.model import SingleRayAttenuator

        class Dummy(BeamModel):
            def emission(self, beam_point, plasma_point, beam_direction, observation_direction, spectrum):
                return spectrum
        set_beam_parameters(beam)
        old = SingleRayAttenuator(step=case['step'] * 3.0)
        beam.attenuator = old
        beam.models = [Dummy(), Dummy()]
        beam.density(0.0, 0.0, 0.5 * case['length'])
        beam.models = []
        gc.collect()
        att = make_attenuator(case)
        beam.attenuator = att
        del old
        gc.collect()
    else:
        raise ValueError(form)
    sc.world, sc.plasma, sc.beam, sc.att, sc.data = world, plasma, beam, att, data
    sc.points.clear()
    del sc.rates[:]
    finish_scene(sc, case)
    return sc


def finish_scene(sc, case, geometry_from=None):
    """quantities the oracles need, derived from the description (for a scene with a history: from a *fresh* reference
    scene of the same description, never from the objects under test)"""
    from raysect.core import Vector3D, Point3D
    from cherab.core.atomic import elements
    sc.case = case
    sc.mass = getattr(elements, case['element']).atomic_weight
    if geometry_from is None:
        sc.b2p = sc.beam.to(sc.plasma)
        d = Vector3D(0, 0, 1).transform(sc.b2p)
        sc.dir = (d.x, d.y, d.z)
    else:
        sc.b2p, sc.dir = geometry_from.b2p, geometry_from.dir
    sc.Point3D = Point3D


def axis_point(sc, z):
    p = sc.Point3D(0.0, 0.0, z).transform(sc.b2p)
    return (p.x, p.y, p.z)


def py_count(length, step):
    return max(1 + int(math.ceil(length / step)), 4)


def py_nodes(length, n):
    """numpy.linspace(0, length, n) re-stated"""
    st = length / (n - 1)
    return [length if i == n - 1 else i * st + 0.0 for i in range(n)]


# ----------------------------------------------------------------------------------------------------------------
# K: correspondence with the Lean model
# ----------------------------------------------------------------------------------------------------------------
def sample_targets(sc, pts):
    """profile values at the axis points, species-major per point: n T vx vy vz"""
    out = []
    for p in pts:
        for s in sc.case['species']:
            v = vector_profile(s['vel'])(*p)
            out += [scalar_profile(s['dens'])(*p), scalar_profile(s['temp'])(*p), v[0], v[1], v[2]]
    return out


def heads(case):
    toks = []
    for s in case['species']:
        toks += [str(s['charge'])] + [f2b(v) for v in s['rate']]
    return toks


def gen_edge_case(rng, i):
    """dyadic parameters: the clamp decision, the z-range tests and the sample count are hit exactly"""
    case = gen_case(rng, mode='integer')
    case.update(edge=True, sigma=rng.choice([0.25, 0.125, 0.5]), divx=0.0, divy=0.0, divmode='zero',
                clamp=True, clamp_sigma=rng.choice([2.0, 1.0, 4.0, 0.5]))
    if i % 3 == 0:
        case['length'], case['step'] = rng.choice([(2.0, 0.5), (1.0, 0.25), (4.0, 0.125), (3.0, 1.0), (1.0, 1.0), (1.0, 2.0), (0.5, 0.5)])
    return case


def probe_points(rng, case, n, nodes):
    """(x, y, z, tag) for Beam.density: off-axis inside, far outside, z out of range, exactly on nodes"""
    L, sg = case['length'], case['sigma']
    if case.get('edge'):
        # sigma_x = sigma_y = sigma exactly (zero divergence, dyadic sigma): r = k sigma is exactly on the clamp radius
        k = case['clamp_sigma']
        pts = []
        for z in (0.0, nodes[1], L):
            r = k * sg
            for (x, y) in ((r, 0.0), (0.0, r), (-r, 0.0), (float(np.nextafter(r, 10.0)), 0.0), (0.0, float(np.nextafter(r, 10.0))),
                           (float(np.nextafter(r, 0.0)), 0.0), (0.0, -float(np.nextafter(r, 10.0)))):
                pts.append((x, y, z, 'clamp-edge'))
        for z in (-0.0, 0.0, -5e-324, 5e-324, L, float(np.nextafter(L, 10.0)), float(np.nextafter(L, 0.0))):
            pts.append((sg / 2, -sg / 4, z, 'z-range'))
        return pts
    tx, ty = math.tan(DEG * case['divx']), math.tan(DEG * case['divy'])
    pts = []
    for i in range(20):
        z = rng.choice([rng.uniform(0, L), rng.choice(nodes), L, 0.0])
        sx, sy = math.sqrt(sg * sg + (z * tx) ** 2), math.sqrt(sg * sg + (z * ty) ** 2)
        r = rng.choice([rng.uniform(0, 1.5), rng.uniform(0, case['clamp_sigma'] * 1.6)])
        t = rng.uniform(0, 6.28)
        x, y = r * sx * math.cos(t), r * sy * math.sin(t)
        # guard band of the clamp decision
        nr2 = (x / sx) ** 2 + (y / sy) ** 2
        if abs(nr2 - case['clamp_sigma'] ** 2) < 1e-6 * case['clamp_sigma'] ** 2:
            continue
        pts.append((x, y, z, 'off-axis'))
    for z in (-0.0, -5e-324, -1e-3, -1.0, np.nextafter(L, 10.0), L + 1e-10, L + 1e-8, L * 1.5 + 1.0):
        pts.append((rng.uniform(-sg, sg), rng.uniform(-sg, sg), float(z), 'z-range'))
    return pts


def sigmas_ref(case, z):
    """documented envelope: sigma_x,y(z) = sqrt(sigma^2 + (z tan(alpha_x,y))^2)"""
    sg = case['sigma']
    return (math.sqrt(sg ** 2 + (z * math.tan(math.radians(case['divx']))) ** 2),
            math.sqrt(sg ** 2 + (z * math.tan(math.radians(case['divy']))) ** 2))


def gauss_ref(case, x, y, z):
    """documented normalised bivariate Gaussian of the cross-section at z"""
    sx, sy = sigmas_ref(case, z)
    return math.exp(-0.5 * ((x / sx) ** 2 + (y / sy) ** 2)) / (2 * math.pi * sx * sy)


def k_case(ctx, rng, case, sc, lines, expect):
    """append driver lines + what the implementation returned for them"""
    beam, att = sc.beam, sc.att
    L, step = case['length'], case['step']

    def add(line, kind, obs, tol=1e-9, floor=0.0, info=None):
        lines.append(line)
        expect.append(dict(kind=kind, obs=obs, tol=tol, floor=floor, info=info, case=case))

    # --- trigger the attenuation calculation (exactly once on a fresh beam)
    st, v0 = call(beam.density, 0.0, 0.0, 0.0)
    n_calls = len(sc.rates[0].calls) if sc.rates else 0
    n_impl = len(dict.fromkeys(sc.points)) if sc.points else n_calls      # distinct axis points sampled
    add('count %s %s' % (f2b(L), f2b(step)), 'count', n_impl, info=dict(length=L, step=step))
    keys = [r.key for r in sc.rates]
    want_keys = [(s_['element'], s_['charge']) for s_ in case['species']]
    add('count %s %s' % (f2b(L), f2b(step)), 'rates-requested', 'ok' if keys == want_keys and not sc.bad_beam_ion else
        'beam_stopping_rate requested for %r (beam ion %r), composition is %r' % (keys, sc.bad_beam_ion[:1], want_keys))
    if st != 'ok':
        sc.raised = (st, v0)
        return False
    if n_impl > MAX_NODES:
        ctx.count('K:implausible-sample-count')
    # the oracles below never depend on what the implementation sampled: if the count is unusable (nothing was
    # recomputed, e.g. a stale cache) the documented count is used
    n = n_impl if 2 <= n_impl <= MAX_NODES else min(py_count(L, step), MAX_NODES)
    nodes = py_nodes(L, n)
    for i in sorted({0, 1, n - 2, n - 1, rng.randrange(n)}):
        add('node %s %d %d' % (f2b(L), n, i), 'node', [nodes[i]], tol=0.0)
    pts = [axis_point(sc, z) for z in nodes]
    # the points the implementation sampled: species 0 density is called twice per node (both loops)
    rec = sc.points
    same = len(rec) == 2 * n and all(rec[2 * k] == pts[k] and rec[2 * k + 1] == pts[k] for k in range(n))
    add('node %s %d 0' % (f2b(L), n), 'sample-points', [0.0] if same else 'sampled at %r..., expected %r...' % (rec[:3], pts[:2]), tol=0.0)

    ec, amu = f2b(elementary_charge), f2b(atomic_mass)
    common = [ec, amu, f2b(case['energy'])]
    dirs = [f2b(v) for v in sc.dir]
    nsp = len(case['species'])
    # --- arguments received by every rate at two nodes
    rates_ok = len(sc.rates) == len(case['species']) and all(len(r.calls) == n for r in sc.rates)
    for k in (sorted({0, rng.randrange(n)}) if rates_ok else []):
        obs = []
        for r in sc.rates:
            obs += list(r.calls[k])
        add(' '.join(['rargs'] + common + dirs + [str(nsp)] + heads(case) + [f2b(v) for v in sample_targets(sc, [pts[k]])]),
            'rate-args', obs, tol=1e-11, info=dict(node=k))
    # --- source density
    add(' '.join(['src', ec, amu, f2b(case['energy']), f2b(case['power']), f2b(sc.mass)]), 'source', [att._source_density], tol=1e-13)
    # --- the `att` command computes the model's attenuation table and loads the knots into the driver state; the
    #     implementation's table is observed through the interpolator at every node (raysect evaluates a knot from
    #     the bin to its right, the last one from the bin to its left: `slope * (x - x0) + f0`; the absolute rounding
    #     error of that expression is ~ulp(f0), which is why the tolerance floor below is relative to the left knot)
    add(' '.join(['att', ec, amu, f2b(case['energy']), f2b(case['power']), f2b(sc.mass), f2b(L), str(n)] + dirs +
                 [str(nsp)] + heads(case) + [f2b(v) for v in sample_targets(sc, pts)]),
        'att-table-size', 2 * n, info=dict(n=n))
    knots = [call(att._density, z) for z in nodes]
    sc.knots = [v if st == 'ok' else float('nan') for st, v in knots]
    sc.nodes = nodes

    def left_knot(z):
        k = min(max(int(np.searchsorted(nodes, z, side='right')) - 1, 0), n - 2)
        v = sc.knots[k]
        return abs(v) if math.isfinite(v) else 0.0
    sc.left_knot = left_knot
    for k, z in enumerate(nodes):
        add('line %s' % f2b(z), 'line-nodes', [sc.knots[k]], floor=1e-300 + 1e-12 * left_knot(z), info=dict(node=k, z=z))
    for z in [rng.uniform(0, L) for _ in range(4)] + [nodes[1], np.nextafter(nodes[1], -1.0), L, L + 5e-10, -5e-10, -1e-8, L + 1e-8]:
        st, v = call(att._density, float(z))
        add('line %s' % f2b(z), 'line', [v] if st == 'ok' else st, floor=1e-300 + 1e-12 * left_knot(z), info=dict(z=float(z)))
    # --- Beam.density / attenuator.density
    geo = [f2b(case['sigma']), f2b(case['divx']), f2b(case['divy']), '1' if case['clamp'] else '0', f2b(case['clamp_sigma'])]
    for (x, y, z, tag) in probe_points(rng, case, n, nodes):
        st, v = call(beam.density, x, y, z)
        fl = 1e-300 + 1e-12 * left_knot(z) * gauss_ref(case, x, y, z)
        add(' '.join(['dens'] + geo + [f2b(L), f2b(x), f2b(y), f2b(z)]), 'beam.density:' + tag, [v] if st == 'ok' else st,
            floor=fl, info=dict(x=x, y=y, z=z))
        if tag == 'z-range' or rng.random() < 0.2:
            st, v = call(att.density, x, y, z)
            add(' '.join(['adens'] + geo + [f2b(x), f2b(y), f2b(z)]), 'attenuator.density:' + tag, [v] if st == 'ok' else st,
                floor=fl, info=dict(x=x, y=y, z=z))
    # --- direction
    for i in range(6):
        z = rng.choice([rng.uniform(0, L), 0.0, -0.5, L, 1e-9])
        x, y = rng.uniform(-1, 1), rng.uniform(-1, 1)
        d = beam.direction(x, y, z)
        add(' '.join(['dir', f2b(case['sigma']), f2b(case['divx']), f2b(case['divy']), f2b(x), f2b(y), f2b(z)]),
            'direction', [d.x, d.y, d.z], tol=1e-12, floor=1e-15, info=dict(x=x, y=y, z=z))
    return True


# ----------------------------------------------------------------------------------------------------------------
# S: model-free oracles on the implementation
# ----------------------------------------------------------------------------------------------------------------
MAX_NODES = 600          # a sample count beyond this is reported as a broken correspondence, never iterated over
MAX_DEEP_FLUX = 24       # flux integrals per configuration in the deep oracle
MAX_RK4_STEPS = 6000     # streamline integration
MAX_SIGNATURES = 6       # stop searching once this many distinct failing signatures are established
SHRINK_SECONDS = 20.0    # wall-clock budget of the shrinker per reported input
_GL8 = np.polynomial.legendre.leggauss(8)
_GL32 = np.polynomial.legendre.leggauss(32)


def physics_ref(case, sc):
    """speed and particle rate straight from the documentation: v = sqrt(2 E e / amu), R = P / (E m e)"""
    v = math.sqrt(2.0 * case['energy'] * elementary_charge / atomic_mass)
    rate = case['power'] / (case['energy'] * sc.mass * elementary_charge)
    return v, rate


def stopping_ref(case, sc, z, v):
    """documented S(z) = sum_i Z_i n_i S_i(E_int,i, sum_j Z_j^2 n_j / Z_i, T_i) at the axis point z (beam space)"""
    p = axis_point(sc, z)
    dn = math.sqrt(sum(c * c for c in sc.dir))
    bv = [c / dn * v for c in sc.dir]
    vals = []
    for sp in case['species']:
        vals.append((sp['charge'], scalar_profile(sp['dens'])(*p), scalar_profile(sp['temp'])(*p),
                     vector_profile(sp['vel'])(*p), rate_fn(*sp['rate'])))
    zsum = sum(Z * Z * n for Z, n, _, _, _ in vals)
    S = 0.0
    for Z, n, T, u, rf in vals:
        if Z == 0:
            continue                      # a neutral contributes Z n S_i = 0
        dv2 = sum((a - b) ** 2 for a, b in zip(bv, u))
        e_int = dv2 * atomic_mass / (2.0 * elementary_charge)
        S += Z * n * rf(e_int, zsum / Z, T)
    return S


def fine_integral(case, sc, nodes, v, sub=3):
    """int_0^{z_k} S dz at every node by composite 8-point Gauss-Legendre (sub panels per code interval) and an estimate of
    max|S''| per interval (central differences on 8 sub-steps) for the trapezoid error bound"""
    I = [0.0]
    M2 = []
    M1 = []
    Smax = []
    for a, b in zip(nodes[:-1], nodes[1:]):
        tot = 0.0
        w = (b - a) / sub
        for j in range(sub):
            lo = a + j * w
            tot += sum(wi * stopping_ref(case, sc, lo + 0.5 * w * (xi + 1.0), v) for xi, wi in zip(*_GL8)) * 0.5 * w
        I.append(I[-1] + tot)
        m = 16
        d = (b - a) / m
        ss = [stopping_ref(case, sc, a + (i - 1) * d, v) for i in range(m + 3)]
        M2.append(max(abs(ss[i - 1] - 2 * ss[i] + ss[i + 1]) for i in range(1, m + 2)) / (d * d))
        M1.append(max(abs(ss[i + 1] - ss[i]) for i in range(m + 2)) / d)
        Smax.append(max(abs(t) for t in ss))
    return I, M2, M1, Smax


def flux_impl(case, sc, z, v):
    """v * integral of Beam.density over the cross-section at z.  clamp off: tensor trapezoid, h = sigma/2 over +-9 sigma
    (spectrally accurate for a Gaussian of any nearby width); clamp on: polar Gauss-Legendre over the clamp disc."""
    sx, sy = sigmas_ref(case, z)
    beam = sc.beam
    if not case['clamp']:
        ts = [0.5 * i for i in range(-18, 19)]
        tot = 0.0
        for a in ts:
            x = a * sx
            for b in ts:
                tot += beam.density(x, b * sy, z)
        return tot * (0.5 * sx) * (0.5 * sy) * v
    k = case['clamp_sigma']
    tot = 0.0
    nth = 12
    for xi, wi in zip(*_GL32):
        r = 0.5 * k * (xi + 1.0)
        ring = 0.0
        for j in range(nth):
            t = 2 * math.pi * (j + 0.37) / nth
            ring += beam.density(r * sx * math.cos(t), r * sy * math.sin(t), z)
        tot += wi * 0.5 * k * r * ring * (2 * math.pi / nth)
    return tot * sx * sy * v


def smooth(case):
    return all(sp['dens']['cut'] is None and sp['temp']['cut'] is None for sp in case['species'])


def sig(oracle, case):
    return 'C04:%s:clamp=%s:divergence=%s' % (oracle, 'on' if case['clamp'] else 'off', case['divmode'])


def s_case(ctx, rng, case, sc, deep=False):
    """returns list of (signature, description) of property failures on this configuration"""
    fails = []
    beam, att = sc.beam, sc.att
    L = case['length']
    nodes, n = sc.nodes, len(sc.nodes)
    v, rate = physics_ref(case, sc)
    has_nan = any(not math.isfinite(t) for t in sc.knots)
    neutral = any(sp['charge'] == 0 for sp in case['species'])
    if has_nan:
        # 0 * S_i(E, nan|inf, T) for a neutral species where all ion densities vanish: outside the documented formula
        # (defined for ions); recorded as an observation, not decided here
        ctx.count('S-skipped:nan-line-density(neutral species, zero ion density)' if neutral else 'S-nan-without-neutral')
        if not neutral:
            fails.append((sig('line-density-nan', case), 'line density is NaN without a neutral species in the composition'))
        return fails
    ctx.count('S:cases')
    # ---- S2: documented discretisation at the nodes, restated with numpy from the documented S
    S_nodes = [stopping_ref(case, sc, z, v) for z in nodes]
    cum = np.concatenate(([0.0], np.cumsum(np.diff(nodes) * (np.array(S_nodes[1:]) + np.array(S_nodes[:-1])) / 2.0)))
    expect_nodes = rate / v * np.exp(-cum / v)
    for k in range(n - 1):
        if not close(sc.knots[k], expect_nodes[k], 1e-9, 1e-300):
            fails.append((sig('line-density-at-node', case), 'node %d z=%r: line density %r, documented rate/v*exp(-cumtrapz(S)/v) = %r'
                          % (k, nodes[k], sc.knots[k], float(expect_nodes[k]))))
            break
    # ---- S2b (round 6): listing order of the composition.  The same description with the species listed in another
    #      order (reversed / rotated) gives the same attenuation table (Props/C04Species.lean: beamStopping_perm,
    #      calcAttenuation_species_order_independent, full_density_species_order_independent).  A fresh scene is built
    #      for the permuted description; only the implementation is observed.
    if len(case['species']) >= 2:
        case2 = json.loads(json.dumps(case))
        sp = case2['species']
        case2['species'] = sp[::-1] if (n % 2 == 0 or len(sp) == 2) else sp[1:] + sp[:1]
        sc2 = build(case2)
        st2, v2 = call(sc2.beam.density, 0.0, 0.0, 0.0)
        ctx.count('S:species-order')
        if st2 != 'ok':
            fails.append((sig('species-order', case), 'Beam.density raised for the reordered composition: %r' % (v2,)))
        else:
            # judged by the property's own oracle (S2) applied to the reordered description: the documented expression evaluated
            # for case2.  (The direct comparison of the two listings at 1e-9 raised a false alarm in the round-6 sweep, seed 2: at an
            # attenuation of 1e-46 the two tables differed by 8e-7 while the original listing met S2 - the gap is not yet explained,
            # so the direct comparison is a counted monitor until it is; DESIGN.md section 11.)
            S2n = [stopping_ref(case2, sc2, z, v) for z in nodes]
            cum2 = np.concatenate(([0.0], np.cumsum(np.diff(nodes) * (np.array(S2n[1:]) + np.array(S2n[:-1])) / 2.0)))
            expect2 = rate / v * np.exp(-cum2 / v)
            for k in range(n):
                stk, vk = call(sc2.att._density, nodes[k])
                if stk == 'ok' and not close(vk, sc.knots[k], 1e-9, 1e-300):
                    ctx.count('S:species-order:listings-differ-beyond-1e-9(monitor)')
                if stk != 'ok' or (k < n - 1 and not close(vk, float(expect2[k]), 1e-9, 1e-300)):
                    fails.append((sig('species-order', case),
                                  'node %d z=%r: with the species listed as %r the line density is %r, documented rate/v*exp(-cumtrapz(S)/v) '
                                  'for that listing = %r (original listing %r gives %r)'
                                  % (k, nodes[k], [(s_['element'], s_['charge']) for s_ in case2['species']], vk, float(expect2[k]),
                                     [(s_['element'], s_['charge']) for s_ in case['species']], sc.knots[k])))
                    break
    # ---- S1: conservation against the exact integral (smooth profiles: with the trapezoid / interpolation error bounds)
    if smooth(case):
        I, M2, M1, Smax = fine_integral(case, sc, nodes, v)
        errI = [0.0]
        for j in range(n - 1):
            h = nodes[j + 1] - nodes[j]
            errI.append(errI[-1] + 2.0 * h ** 3 / 12.0 * M2[j])
        no_stop = all(sp['rate'][0] == 0.0 for sp in case['species'])
        zs = [(0, None), (n - 1, None), (rng.randrange(n), None), (rng.randrange(n - 1), rng.uniform(0.2, 0.8))]
        if deep:
            # all nodes and mid-points, thinned to at most MAX_DEEP_FLUX evaluations (each is ~1400 density calls)
            allz = [(k, None) for k in range(n)] + [(k, 0.5) for k in range(n - 1)]
            stride = max(1, -(-len(allz) // MAX_DEEP_FLUX))
            zs += allz[::stride]
        frac = 1.0 - math.exp(-0.5 * case['clamp_sigma'] ** 2) if case['clamp'] else 1.0
        for k, t in zs:
            if t is None:
                z, Iz, tol = nodes[k], I[k], errI[k] / v
                kl = min(k, n - 2)
            else:
                h = nodes[k + 1] - nodes[k]
                z = nodes[k] + t * h
                # exact law between the nodes: fine rule on [z_k, z]
                Iz = I[k] + sum(wi * stopping_ref(case, sc, nodes[k] + 0.5 * t * h * (xi + 1.0), v) for xi, wi in zip(*_GL8)) * 0.5 * t * h
                # linear interpolation of g = exp(-I/v): |error| <= h^2/8 max|g''|, g'' = g ((S/v)^2 - S'/v)
                tol = errI[k + 1] / v + 2.0 * h * h / 8.0 * ((Smax[k] / v) ** 2 + M1[k] / v)
                kl = k
            want = rate * math.exp(-Iz / v) * frac
            got = flux_impl(case, sc, z, v)
            if tol > 0.5:
                ctx.count('S:flux-point-skipped(step too coarse for a meaningful error bound)')
                continue
            rel = (1e-12 if no_stop else 1e-9) + math.expm1(tol)
            ctx.count('S:flux-bound<=1e-%d' % min(9, max(0, int(-math.log10(rel)))))
            floor = 1e-11 * rate * math.exp(-I[kl] / v)        # cancellation in raysect's linear1d: ~ulp of the left knot
            ctx.count('S:flux-points')
            if not (abs(got - want) <= rel * max(abs(want), abs(got)) + floor):
                fails.append((sig('conservation', case),
                              'z=%r: v*cross-section integral of Beam.density = %r, P/(E m e)*exp(-int_0^z S/v)%s = %r (allowed relative error %.3g from the step)'
                              % (z, got, '*(1-exp(-k^2/2))' if case['clamp'] else '', want, rel)))
                break
    else:
        # profiles with a cut-off: conservation against the discretised law (the trapezoid bound needs S'' bounded)
        frac = 1.0 - math.exp(-0.5 * case['clamp_sigma'] ** 2) if case['clamp'] else 1.0
        for k in sorted({0, rng.randrange(n - 1)}):
            got = flux_impl(case, sc, nodes[k], v)
            want = float(expect_nodes[k]) * v * frac
            ctx.count('S:flux-points')
            if not close(got, want, 1e-9, 1e-300):
                fails.append((sig('conservation-discretised', case), 'node %d z=%r: flux %r, discretised law %r' % (k, nodes[k], got, want)))
    # ---- S3: on-axis density never increases
    zz = sorted(set([rng.uniform(0, L) for _ in range(60 if not deep else 400)] + list(nodes) +
                    [float(np.nextafter(t, -1.0)) for t in nodes[1:]] + [float(np.nextafter(t, 10.0)) for t in nodes[:-1]]))
    prev = None
    for z in zz:
        d = beam.density(0.0, 0.0, z)
        sx, sy = sigmas_ref(case, z)
        # rounding of raysect's slope*(z-z_k)+f_k is ~ulp(f_k) of the bin's left knot (also just left of the next knot)
        slack = 1e-13 * max(sc.left_knot(z), sc.left_knot(prev[0]) if prev else 0.0) / (2 * math.pi * sx * sy)
        if prev is not None and d > prev[1] * (1 + 1e-13) + slack:
            fails.append((sig('on-axis-monotone', case), 'on-axis density rises from %r at z=%r to %r at z=%r' % (prev[1], prev[0], d, z)))
            break
        if d < -slack:
            ctx.count('S:observation:negative-density-by-rounding')
        prev = (z, d)
    ctx.count('S:monotone-points', len(zz))
    # ---- S4: zero outside
    sg = case['sigma']
    for z in (-5e-324, -1e-9, -1.0, float(np.nextafter(L, 10.0)), L + 1.0):
        for (x, y) in ((0.0, 0.0), (sg / 3, -sg / 2)):
            d = beam.density(x, y, z)
            if d != 0.0:
                fails.append((sig('zero-outside-z-range', case), 'Beam.density(%r, %r, %r) = %r for beam length %r' % (x, y, z, d, L)))
    if case['clamp']:
        k = case['clamp_sigma']
        for z in (0.0, rng.uniform(0, L), L):
            sx, sy = sigmas_ref(case, z)
            t = rng.uniform(0, 6.28)
            for f in (1 + 1e-6, 1.5, 3.0):
                d = beam.density(f * k * sx * math.cos(t), f * k * sy * math.sin(t), z)
                if d != 0.0:
                    fails.append((sig('zero-outside-clamp-radius', case), 'clamp on, r/sigma = %r k: density %r at z=%r' % (f, d, z)))
            x, y = (1 - 1e-6) * k * sx * math.cos(t), (1 - 1e-6) * k * sy * math.sin(t)
            d = beam.density(x, y, z)
            want = att._density(z) * gauss_ref(case, x, y, z)
            if not close(d, want, 1e-9, 1e-300):
                fails.append((sig('inside-clamp-radius', case), 'clamp on, just inside the radius: density %r, line density x Gaussian %r' % (d, want)))
    ctx.count('S:zero-outside-points', 10)
    # ---- S5: direction: unit, axis behind the source, streamlines keep x/sigma_x, y/sigma_y
    for i in range(4):
        z = rng.choice([rng.uniform(0, L), -rng.uniform(0, 1), 0.0])
        x, y = rng.uniform(-3 * sg, 3 * sg), rng.uniform(-3 * sg, 3 * sg)
        d = beam.direction(x, y, z)
        nrm = math.sqrt(d.x * d.x + d.y * d.y + d.z * d.z)
        if abs(nrm - 1.0) > 1e-14:
            fails.append((sig('direction-unit', case), 'direction(%r,%r,%r) has length %r' % (x, y, z, nrm)))
        if z <= 0 and (d.x, d.y, d.z) != (0.0, 0.0, 1.0):
            fails.append((sig('direction-behind-source', case), 'direction(%r,%r,%r) = %r' % (x, y, z, (d.x, d.y, d.z))))
    z0, z1 = L * 0.02, L
    x, y = rng.uniform(-2 * sg, 2 * sg), rng.uniform(-2 * sg, 2 * sg)
    sx0, sy0 = sigmas_ref(case, z0)
    cx, cy = x / sx0, y / sy0
    # RK4 with steps well below the scale length sigma/tan(alpha) of the field
    tmax = max(math.tan(math.radians(case['divx'])), math.tan(math.radians(case['divy'])))
    steps = min(MAX_RK4_STEPS, int(max(64, 20.0 * (z1 - z0) * tmax / sg)) * (4 if deep else 1))
    hh = (z1 - z0) / steps

    def slope(xx, yy, zz_):
        dd = beam.direction(xx, yy, zz_)
        return dd.x / dd.z, dd.y / dd.z
    z = z0
    for i in range(steps):
        k1 = slope(x, y, z)
        k2 = slope(x + 0.5 * hh * k1[0], y + 0.5 * hh * k1[1], z + 0.5 * hh)
        k3 = slope(x + 0.5 * hh * k2[0], y + 0.5 * hh * k2[1], z + 0.5 * hh)
        k4 = slope(x + hh * k3[0], y + hh * k3[1], z + hh)
        x += hh / 6 * (k1[0] + 2 * k2[0] + 2 * k3[0] + k4[0])
        y += hh / 6 * (k1[1] + 2 * k2[1] + 2 * k3[1] + k4[1])
        z += hh
    sx1, sy1 = sigmas_ref(case, z1)
    ctx.count('S:streamlines')
    if abs(x / sx1 - cx) > 1e-7 * (1 + abs(cx)) or abs(y / sy1 - cy) > 1e-7 * (1 + abs(cy)):
        fails.append((sig('streamline', case), 'streamline from z=%r to z=%r: x/sigma_x %r -> %r, y/sigma_y %r -> %r'
                      % (z0, z1, cx, x / sx1, cy, y / sy1)))
    return fails


class _NullCtx:
    """counter sink for re-evaluations during shrinking"""
    traces = 0

    def count(self, *a, **k):
        pass


def evaluate(rng, case, deep=True):
    """build a fresh scene for `case`, observe once, run all oracles; returns [(signature, description)]"""
    sc = build(case)
    if not k_case(_NullCtx(), rng, case, sc, [], []):
        return [('C04:attenuation-not-computed', 'Beam.density raised or no samples were taken')]
    return s_case(_NullCtx(), rng, case, sc, deep=deep)


def _simplifications(case):
    """candidate simpler configurations (each a deep copy with one aspect simplified)"""
    def cp():
        return json.loads(json.dumps(case))
    if len(case['species']) > 1:
        for i in range(len(case['species'])):
            c = cp(); del c['species'][i]
            if any(sp['charge'] > 0 for sp in c['species']):
                yield c
    for i, sp in enumerate(case['species']):
        for key in ('dens', 'temp'):
            if sp[key]['b'] != 0.0 or sp[key]['w'] is not None or sp[key]['cut'] is not None:
                c = cp(); c['species'][i][key].update(b=0.0, w=None, cut=None, k=[0.0, 0.0, 0.0], phi=0.0); c['kind'] = 'simplified'
                yield c
        if any(sp['vel']['g']) or any(sp['vel']['v0']):
            c = cp(); c['species'][i]['vel'] = dict(v0=[0.0] * 3, g=[0.0] * 3)
            yield c
        if sp['rate'][1:] != [0.0, 0.0]:
            c = cp(); c['species'][i]['rate'][1:] = [0.0, 0.0]
            yield c
    for key, val in (('beam_tf', [0.0] * 6), ('plasma_tf', [0.0] * 6), ('nested', False), ('clamp', False),
                     ('energy', 5e4), ('power', 1e6), ('element', 'deuterium'), ('sigma', 0.125), ('length', 2.0),
                     ('clamp_sigma', 5.0)):
        if case[key] != val:
            c = cp(); c[key] = val
            yield c
    if (case['divx'], case['divy']) != (0.0, 0.0):
        c = cp(); c.update(divx=0.0, divy=0.0, divmode='zero')
        yield c
    if case['step'] != case['length'] / 8:
        c = cp(); c['step'] = c['length'] / 8
        yield c


def shrink(rng, case, signature, budget=60, seconds=SHRINK_SECONDS):
    """greedy simplification keeping a failure of the same oracle; bounded by evaluations and by wall-clock"""
    import time
    t_end = time.time() + seconds
    oracle = signature.split(':')[1]
    cur = case
    why = None
    sg_ = signature
    progress = True
    while progress and budget > 0:
        progress = False
        for c in _simplifications(cur):
            budget -= 1
            if budget <= 0 or time.time() > t_end:
                budget = 0
                break
            try:
                fs_ = evaluate(rng, c, deep=False)
            except Exception:       # noqa
                continue
            hit = [f for f in fs_ if f[0].split(':')[1] == oracle]
            if hit:
                cur, sg_, why, progress = c, hit[0][0], hit[0][1], True
                break
    return cur, sg_, why


def report(ctx, rng, case, sg_, why):
    have = [f['signature'] for f in ctx.failing]
    oracle = sg_.split(':')[1]
    # shrink only the first input of each oracle (other input classes of the same oracle are reported as found)
    if sg_ in ctx.known or sg_ in have or any(h.split(':')[1] == oracle for h in have) or len(have) >= MAX_SIGNATURES:
        ctx.fail(sg_, why, dict(case=case))
        return
    small, sg2, why2 = shrink(rng, case, sg_)
    ctx.fail(sg2, why2 or why, dict(case=small, original_case=case, original_signature=sg_, original_description=why))


def compare(ctx, lines, expect, outs):
    for ln, e, o in zip(lines, expect, outs):
        obs = e['obs']
        if e['kind'] == 'count':
            agree = o == str(obs)
        elif e['kind'] == 'rates-requested':
            agree = obs == 'ok'
        elif e['kind'] == 'att-table-size':
            agree = len(o.split()) == obs
        elif isinstance(obs, list):
            try:
                mod = [b2f(t) for t in o.split()]
            except ValueError:
                mod = None
            agree = mod is not None and len(mod) == len(obs) and all(
                (a == b or (math.isnan(a) and math.isnan(b))) if e['tol'] == 0.0 else close(a, b, e['tol'], e['floor'])
                for a, b in zip(mod, obs))
        else:
            agree = str(obs) == o
        ctx.traces += 1
        ctx.count('K:' + e['kind'])
        if not agree:
            ctx.disagreements += 1
            ctx.count('disagreement:' + e['kind'])
            if ctx.hist['disagreement:' + e['kind']] > 3:
                yield e                     # counted, not recorded again (replay files stay small)
                continue
            shown = o if len(o) < 400 else o[:400] + '...'
            try:
                shown = [b2f(t) for t in o.split()][:8]
            except ValueError:
                pass
            ctx.broke('correspondence', 'C04 stream ' + e['kind'],
                      dict(model=shown, implementation=str(obs)[:400], info=e['info'], case=e['case']))
            yield e


# ----------------------------------------------------------------------------------------------------------------
# histories: construction forms x parameter changes; after every change the density must be that of the current state
# ----------------------------------------------------------------------------------------------------------------
HISTORY_KEYS = ['energy', 'power', 'element', 'sigma', 'divergence', 'length', 'step', 'clamp_sigma', 'beam_tf',
                'plasma_tf', 'species', 'rates']


def apply_change(sc, key, target):
    """one documented mutation of the live scene towards `target`; updates the scene's current description"""
    from raysect.core import translate, rotate
    from cherab.core.atomic import elements
    cur, beam, att, plasma = sc.cur, sc.beam, sc.att, sc.plasma
    if key == 'energy':
        cur['energy'] = target['energy']; beam.energy = cur['energy']
    elif key == 'power':
        cur['power'] = target['power']; beam.power = cur['power']
    elif key == 'element':
        cur['element'] = target['element']; beam.element = getattr(elements, cur['element'])
    elif key == 'sigma':
        cur['sigma'] = target['sigma']; beam.sigma = cur['sigma']
    elif key == 'divergence':
        cur.update(divx=target['divx'], divy=target['divy'], divmode=target['divmode'])
        beam.divergence_x = cur['divx']; beam.divergence_y = cur['divy']
    elif key == 'length':
        cur['length'] = target['length']; beam.length = cur['length']
    elif key == 'step':
        cur['step'] = target['step']; att.step = cur['step']
    elif key == 'clamp_sigma':
        cur['clamp_sigma'] = target['clamp_sigma']; att.clamp_sigma = cur['clamp_sigma']
    elif key == 'beam_tf':
        cur['beam_tf'] = list(target['beam_tf']); bt = cur['beam_tf']
        beam.transform = translate(*bt[:3]) * rotate(*bt[3:])
    elif key == 'plasma_tf':
        cur['plasma_tf'] = list(target['plasma_tf']); pt = cur['plasma_tf']
        plasma.transform = translate(*pt[:3]) * rotate(*pt[3:])
    elif key == 'species':
        cur['species'] = json.loads(json.dumps(target['species'])); cur['kind'] = target['kind']
        plasma.composition = make_species(sc, cur['species'])
    elif key == 'rates':
        # same composition, other stopping data: a new provider object is assigned (the documented way to change data)
        for s_, t_ in zip(cur['species'], target['_rates']):
            s_['rate'] = list(t_)
        sc.data = make_data(sc)
        beam.atomic_data = sc.data
    else:
        raise ValueError(key)


def history_probe(case):
    L, sg = case['length'], case['sigma']
    return [(0.0, 0.0, 0.37 * L), (0.4 * sg, -0.3 * sg, 0.81 * L), (0.0, 0.0, L)]


def run_history(ctx, rng, lines, expect, form=None, nchanges=None):
    """build a scene in a random documented form from a start description, observe, apply random documented changes
    (observing after each); after every change the density is compared with a *fresh* scene of the current
    description; finally the full K comparison and all S oracles run on the scene with the history"""
    final = gen_case(rng, mode=rng.choice([None, None, 'isotopes']))
    other = gen_case(rng)
    form = form or rng.choice(FORMS)
    keys = rng.sample(HISTORY_KEYS, nchanges or rng.randint(1, 5))
    start = json.loads(json.dumps(final))
    other['_rates'] = None
    for k in keys:
        if k == 'divergence':
            start.update(divx=other['divx'], divy=other['divy'], divmode=other['divmode'])
        elif k == 'species':
            start['species'] = other['species']; start['kind'] = other['kind']
        elif k == 'rates':
            pass
        else:
            start[k] = other[k]
    if 'rates' in keys:
        # start with other rate parameters on whatever composition the scene has when the change is applied
        final['_rates'] = None
    sc = build(start, form=form)
    ctx.count('history:form:' + form)
    tag = 'form=%s' % form
    desc = dict(form=form, start=start, changes=[])

    def check(after):
        """density of the scene with the history vs a fresh scene of the same description"""
        ref = build(sc.cur)
        for (x, y, z) in history_probe(sc.cur):
            st, got = call(sc.beam.density, x, y, z)
            want = ref.beam.density(x, y, z)
            ctx.count('history:compared')
            if st != 'ok' or not close(got, want, 1e-9, 1e-300):
                return ('C04:history:%s:density-not-current-after:%s' % (tag, after),
                        '%s, then %s: Beam.density(%r,%r,%r) = %r, a fresh beam with the current parameters gives %r'
                        % (form, ' > '.join(desc['changes']) or 'construction', x, y, z, got, want))
        return None

    bad = check('construction')
    order = list(keys)
    rng.shuffle(order)
    for k in order:
        if bad:
            break
        if k == 'rates':
            tgt = dict(_rates=[[10 ** rng.uniform(-14.0, -12.3), rng.uniform(-0.5, 1.0), rng.uniform(-0.5, 1.0)]
                               for _ in sc.cur['species']])
        else:
            tgt = final
        sc.points.clear(); del sc.rates[:]; del sc.bad_beam_ion[:]
        apply_change(sc, k, tgt)
        desc['changes'].append(k)
        desc.setdefault('after', []).append(json.loads(json.dumps(sc.cur)))
        ctx.count('history:change:' + k)
        bad = check(k)
    cur = json.loads(json.dumps(sc.cur))
    ctx.case(key=json.dumps(dict(form=form, start=start, changes=desc['changes']), sort_keys=True, default=str))
    if bad:
        return bad[0], bad[1], dict(history=desc, current=cur)
    # full K + S on the scene with the history, geometry for the oracles taken from a fresh scene
    ref = build(cur)
    finish_scene(sc, cur, geometry_from=ref)
    if k_case(ctx, rng, cur, sc, lines, expect):
        for sg_, why in s_case(ctx, rng, cur, sc):
            return ('C04:history:%s:%s' % (tag, sg_.split(':', 1)[1]), form + ', then ' + ' > '.join(desc['changes']) + ': ' + why,
                    dict(history=desc, current=cur))
    elif getattr(sc, 'raised', None):
        return ('C04:history:%s:density-raises' % tag, 'Beam.density raised %s: %s' % sc.raised, dict(history=desc, current=cur))
    return None


def replay_history(ctx, hist):
    """re-execute a stored history (form, start description, changes with the descriptions reached after each)"""
    sc = build(hist['start'], form=hist['form'])
    done = []

    def check(after):
        ref = build(sc.cur)
        for (x, y, z) in history_probe(sc.cur):
            st, got = call(sc.beam.density, x, y, z)
            want = ref.beam.density(x, y, z)
            if st != 'ok' or not close(got, want, 1e-9, 1e-300):
                return ('C04:history:form=%s:density-not-current-after:%s' % (hist['form'], after),
                        '%s, then %s: Beam.density(%r,%r,%r) = %r, a fresh beam with the current parameters gives %r'
                        % (hist['form'], ' > '.join(done) or 'construction', x, y, z, got, want))
        return None
    bad = check('construction')
    for k, after in zip(hist['changes'], hist.get('after', [])):
        if bad:
            break
        tgt = dict(after, _rates=[s_['rate'] for s_ in after['species']])
        apply_change(sc, k, tgt)
        done.append(k)
        bad = check(k)
    return bad


def load_corpus():
    import glob
    import os
    from harness.vlib.util import VERIF
    out = []
    for f in sorted(glob.glob(os.path.join(VERIF, 'corpus', 'C04', '*.json'))):
        out.append(json.load(open(f))['case'])
    return out


def run(ctx):
    ctx.rule = ('random fresh beam/plasma configurations: beam energy, power, element, sigma, divergence (0 / equal / unequal / one zero), '
                'length, attenuator step (many / few samples, L < step, L/step integer), clamp on/off and radius, beam and plasma '
                'placement (rotations, nested parent), 1-4 species incl. neutrals with uniform / smooth / cut-off density, '
                'temperature and velocity profiles and distinct stopping-rate functions; a case is distinct by its full parameter set; '
                'non-trivial = the attenuation table was computed by the real SingleRayAttenuator and compared')
    ctx.trusted += ['libm sqrt/exp/tan, pi, CODATA e and amu are parameters of the model (named hypotheses in Props/C04.lean; Real.sqrt/Real.exp instance proved)',
                    'raysect AffineMatrix3D / Node.to / Point3D.transform / Vector3D and Interpolator1DArray.find_index (bisection) are modelled by their specification',
                    'numpy.linspace, scipy cumulative_trapezoid: re-stated in the model, compared through the outputs only']
    ctx.assumptions += ['rigid beam/plasma transforms (rotation + translation)', 'finite, non-negative stopping rates and densities; positive sigma, length, step, energy']
    ctx.lean_check(['Cherab.Props.C04'], 'Cherab/Audit/C04.lean')

    import time
    rng = ctx.rng
    lines, expect = [], []
    corpus = load_corpus()
    ncases = ctx.n(300, 8000)
    nedge = ctx.n(30, 400)
    # explicit budgets: the search stops once violations are established or the wall-clock budget is used, and always
    # falls through to the K comparison and to the end of run()
    t_start = time.time()
    budget = 840.0 if ctx.tier == 'thorough' else 240.0
    stopped = None
    for i in range(len(corpus) + ncases + nedge):
        if len(ctx.failing) + len(ctx.known_hits) >= MAX_SIGNATURES:
            stopped = 'stopped-early:%d-distinct-failing-signatures' % MAX_SIGNATURES
        elif time.time() - t_start > 0.75 * budget:
            stopped = 'stopped-early:wall-clock-budget'
        if stopped:
            ctx.count(stopped)
            ctx.log(stopped, 'after %d configurations, %.0f s' % (i, time.time() - t_start))
            break
        if i < len(corpus):
            case = corpus[i]
            ctx.count('corpus')
        else:
            case = gen_case(rng) if i < len(corpus) + ncases else gen_edge_case(rng, i)
        sc = build(case)
        ok = k_case(ctx, rng, case, sc, lines, expect)
        if ok:
            deep = i < len(corpus) or (ctx.tier == 'thorough' and i % 10 == 0)
            for sg_, why in s_case(ctx, rng, case, sc, deep=deep):
                report(ctx, rng, case, sg_, why)
        elif getattr(sc, 'raised', None):
            ctx.fail('C04:density-raises:%s' % sc.raised[0], 'Beam.density(0,0,0) on a fresh valid beam raised %s: %s' % sc.raised, dict(case=case))
        ctx.count('case:' + case['kind']); ctx.count('div:' + case['divmode']); ctx.count('step:' + case['stepmode'])
        ctx.count('clamp:%s' % case['clamp']); ctx.count('species:%d' % len(case['species']))
        ctx.case(key=json.dumps(case, sort_keys=True) if ok else None,
                 sample=dict(case=case) if i < 2 else None)
    # ---- histories: every construction form, then random forms and change sequences
    nhist = ctx.n(70, 500)
    for i in range(nhist):
        if len(ctx.failing) + len(ctx.known_hits) >= MAX_SIGNATURES or time.time() - t_start > 0.9 * budget:
            ctx.count('stopped-early:histories')
            break
        res = run_history(ctx, rng, lines, expect, form=FORMS[i] if i < len(FORMS) else None,
                          nchanges=3 if i < len(FORMS) else None)
        if res:
            ctx.fail(res[0], res[1], res[2])
    outs = ctx.driver(lines)
    bad = list(compare(ctx, lines, expect, outs))
    # a broken correspondence with no failing input yet: search the implementation on (at most 3 of) the disagreeing
    # configurations with the deep oracles, inside what is left of the budget
    seen = set()
    for e in bad:
        if ctx.failing or ctx.known_hits or len(seen) >= 3 or time.time() - t_start > budget:
            break
        key = json.dumps(e['case'], sort_keys=True)
        if key in seen:
            continue
        seen.add(key)
        sc = build(e['case'])
        if k_case(_NullCtx(), rng, e['case'], sc, [], []):
            for sg_, why in s_case(ctx, rng, e['case'], sc, deep=True):
                report(ctx, rng, e['case'], sg_, why)
    ctx.extra['search_wall_s'] = round(time.time() - t_start, 1)


def replay(ctx, path):
    """re-execute a stored configuration against the real code: K comparison + all oracles in depth"""
    r = json.load(open(path))
    cases = []
    if isinstance(r.get('replay'), dict) and 'case' in r['replay']:
        cases.append(r['replay']['case'])
    for b in r.get('broken', []):
        d = b.get('detail')
        if isinstance(d, dict) and isinstance(d.get('case'), dict) and d['case'] not in cases:
            cases.append(d['case'])
    hist = r['replay'].get('history') if isinstance(r.get('replay'), dict) else None
    if hist:
        print('replaying a history: %s, then %s' % (hist['form'], ' > '.join(hist['changes'])))
        res = replay_history(ctx, hist)
        if res:
            ctx.fail(res[0], res[1], dict(history=hist))
    print('replaying %d configuration(s) from %s' % (len(cases), path))
    ctx.rule = 'replay of stored configurations'
    ctx.lean_check(['Cherab.Props.C04'], 'Cherab/Audit/C04.lean')
    rng = ctx.rng
    lines, expect = [], []
    for case in cases[:20]:
        sc = build(case)
        ok = k_case(ctx, rng, case, sc, lines, expect)
        ctx.case(key=json.dumps(case, sort_keys=True), sample=dict(case=case))
        if ok:
            for sg_, why in s_case(ctx, rng, case, sc, deep=True):
                ctx.fail(sg_, why, dict(case=case))
    if lines:
        outs = ctx.driver(lines)
        list(compare(ctx, lines, expect, outs))
    return ctx.finish()
