import Cherab.Model.IonBalance
import Mathlib.Tactic.Ring
import Mathlib.Tactic.Linarith
import Mathlib.Tactic.FieldSimp
import Mathlib.Tactic.Positivity
import Mathlib.Algebra.Order.Field.Basic

/-!
Helper lemmas for C09: finite sums `sumTo`, sparse rows of the balance matrix, positivity of the closed form.
-/
namespace Cherab.Lemmas.IonBalance
set_option linter.unusedSectionVars false
open Cherab.IonBalance

variable {α : Type} [Field α] [LinearOrder α] [IsStrictOrderedRing α]

theorem sumTo_congr (f g : ℕ → α) (n : ℕ) (h : ∀ j, j < n → f j = g j) : sumTo f n = sumTo g n := by
  induction n with
  | zero => rfl
  | succ n ih =>
    simp only [sumTo]
    rw [ih (fun j hj => h j (Nat.lt_succ_of_lt hj)), h n (Nat.lt_succ_self n)]

theorem sumTo_zero (n : ℕ) : sumTo (fun _ => (0 : α)) n = 0 := by
  induction n with
  | zero => rfl
  | succ n ih => simp [sumTo, ih]

theorem sumTo_add (f g : ℕ → α) (n : ℕ) : sumTo (fun j => f j + g j) n = sumTo f n + sumTo g n := by
  induction n with
  | zero => simp [sumTo]
  | succ n ih => simp only [sumTo, ih]; ring

theorem sumTo_mul_left (c : α) (f : ℕ → α) (n : ℕ) : sumTo (fun j => c * f j) n = c * sumTo f n := by
  induction n with
  | zero => simp [sumTo]
  | succ n ih => simp only [sumTo, ih]; ring

theorem sumTo_mul_right (c : α) (f : ℕ → α) (n : ℕ) : sumTo (fun j => f j * c) n = sumTo f n * c := by
  induction n with
  | zero => simp [sumTo]
  | succ n ih => simp only [sumTo, ih]; ring

theorem sumTo_div (c : α) (f : ℕ → α) (n : ℕ) : sumTo (fun j => f j / c) n = sumTo f n / c := by
  induction n with
  | zero => simp [sumTo]
  | succ n ih => simp only [sumTo, ih]; ring

theorem sumTo_nonneg (f : ℕ → α) (n : ℕ) (h : ∀ j, j < n → 0 ≤ f j) : 0 ≤ sumTo f n := by
  induction n with
  | zero => simp [sumTo]
  | succ n ih =>
    simp only [sumTo]
    have := ih (fun j hj => h j (Nat.lt_succ_of_lt hj))
    have := h n (Nat.lt_succ_self n)
    linarith

theorem le_sumTo (f : ℕ → α) (n k : ℕ) (hk : k < n) (h : ∀ j, j < n → 0 ≤ f j) : f k ≤ sumTo f n := by
  induction n with
  | zero => omega
  | succ n ih =>
    simp only [sumTo]
    have hn := sumTo_nonneg f n (fun j hj => h j (Nat.lt_succ_of_lt hj))
    have hfn := h n (Nat.lt_succ_self n)
    by_cases hkn : k = n
    · subst hkn; linarith
    · have := ih (by omega) (fun j hj => h j (Nat.lt_succ_of_lt hj)); linarith

theorem sumTo_delta (a : α) (n k : ℕ) (hk : k < n) : sumTo (fun j => if j = k then a else 0) n = a := by
  induction n with
  | zero => omega
  | succ n ih =>
    simp only [sumTo]
    by_cases hkn : k = n
    · subst hkn
      have : sumTo (fun j => if j = k then a else 0) k = 0 := by
        rw [sumTo_congr _ (fun _ => (0 : α)) k (fun j hj => by simp [Nat.ne_of_lt hj])]
        exact sumTo_zero k
      simp [this]
    · rw [ih (by omega)]
      have : n ≠ k := fun h => hkn h.symm
      simp [this]

theorem sumTo_support2 (f : ℕ → α) (n p q : ℕ) (hpq : p ≠ q) (hp : p < n) (hq : q < n)
    (h0 : ∀ j, j ≠ p → j ≠ q → f j = 0) : sumTo f n = f p + f q := by
  have key : ∀ j, j < n → f j = (if j = p then f p else 0) + (if j = q then f q else 0) := by
    intro j _
    by_cases h1 : j = p
    · subst h1; simp [hpq]
    · by_cases h2 : j = q
      · subst h2; simp [h1]
      · simp [h1, h2, h0 j h1 h2]
  rw [sumTo_congr _ _ n key, sumTo_add, sumTo_delta _ n p hp, sumTo_delta _ n q hq]

theorem sumTo_support3 (f : ℕ → α) (n p q r : ℕ) (hpq : p ≠ q) (hpr : p ≠ r) (hqr : q ≠ r)
    (hp : p < n) (hq : q < n) (hr : r < n)
    (h0 : ∀ j, j ≠ p → j ≠ q → j ≠ r → f j = 0) : sumTo f n = f p + f q + f r := by
  have key : ∀ j, j < n → f j = ((if j = p then f p else 0) + (if j = q then f q else 0)) + (if j = r then f r else 0) := by
    intro j _
    by_cases h1 : j = p
    · subst h1; simp [hpq, hpr]
    · by_cases h2 : j = q
      · subst h2; simp [h1, hqr]
      · by_cases h3 : j = r
        · subst h3; simp [h1, h2]
        · simp [h1, h2, h3, h0 j h1 h2 h3]
  rw [sumTo_congr _ _ n key, sumTo_add, sumTo_add, sumTo_delta _ n p hp, sumTo_delta _ n q hq, sumTo_delta _ n r hr]


theorem sumTo_eq_zero_of_nonneg (f : ℕ → α) (n : ℕ) (h : ∀ j, j < n → 0 ≤ f j) (h0 : sumTo f n = 0) :
    ∀ j, j < n → f j = 0 := by
  induction n with
  | zero => intro j hj; omega
  | succ n ih =>
    intro j hj
    simp only [sumTo] at h0
    have hn := sumTo_nonneg f n (fun j hj => h j (Nat.lt_succ_of_lt hj))
    have hfn := h n (Nat.lt_succ_self n)
    have e1 : sumTo f n = 0 := by linarith
    have e2 : f n = 0 := by linarith
    by_cases hjn : j = n
    · subst hjn; exact e2
    · exact ih (fun j hj => h j (Nat.lt_succ_of_lt hj)) e1 j (by omega)

/-! ### rows of the balance matrix (Z = m+1) -/

theorem rowDot_norm (Z : ℕ) (S A : ℕ → α) (tcx : Option (ℕ → α)) (ne nD : α) (x : ℕ → α) :
    rowDot (Z + 1) (matEntry Z S A tcx ne nD) x (Z + 1) = sumTo x (Z + 1) := by
  unfold rowDot
  apply sumTo_congr
  intro j _
  simp [matEntry]

theorem rowDot_first (m : ℕ) (S A : ℕ → α) (tcx : Option (ℕ → α)) (ne nD : α) (x : ℕ → α) :
    rowDot (m + 1 + 1) (matEntry (m + 1) S A tcx ne nD) x 0
      = ne * (-(S 0 * x 0) + recTot A tcx ne nD 1 * x 1) := by
  unfold rowDot
  rw [sumTo_support2 _ (m + 1 + 1) 0 1 (by omega) (by omega) (by omega)]
  · simp [matEntry, balEntry, recTot]; ring
  · intro j h0 h1
    simp [matEntry, balEntry, h0, h1]

theorem rowDot_last (m : ℕ) (S A : ℕ → α) (tcx : Option (ℕ → α)) (ne nD : α) (x : ℕ → α) :
    rowDot (m + 1 + 1) (matEntry (m + 1) S A tcx ne nD) x (m + 1)
      = ne * (S m * x m - recTot A tcx ne nD (m + 1) * x (m + 1)) := by
  unfold rowDot
  rw [sumTo_support2 _ (m + 1 + 1) m (m + 1) (by omega) (by omega) (by omega)]
  · simp [matEntry, balEntry, recTot]; ring
  · intro j h0 h1
    simp [matEntry, balEntry, h0, h1]

theorem rowDot_interior (Z k : ℕ) (hk : k + 1 < Z) (S A : ℕ → α) (tcx : Option (ℕ → α)) (ne nD : α) (x : ℕ → α) :
    rowDot (Z + 1) (matEntry Z S A tcx ne nD) x (k + 1)
      = ne * (S k * x k - (S (k + 1) + recTot A tcx ne nD (k + 1)) * x (k + 1)
              + recTot A tcx ne nD (k + 2) * x (k + 2)) := by
  unfold rowDot
  rw [sumTo_support3 _ (Z + 1) k (k + 1) (k + 2) (by omega) (by omega) (by omega) (by omega) (by omega) (by omega)]
  · have h1 : ¬ (k + 1 = Z) := by omega
    have h2 : ¬ (k = Z) := by omega
    simp [matEntry, balEntry, recTot, h1, h2]; ring
  · intro j h0 h1 h2
    have a1 : ¬ (k + 1 = Z) := by omega
    have a2 : ¬ (k = Z) := by omega
    have a4 : ¬ (j = k + 1 + 1) := by omega
    simp [matEntry, balEntry, a1, a2, a4, h0, h1]

end Cherab.Lemmas.IonBalance
