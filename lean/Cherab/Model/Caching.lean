/-
C14 — caching functions (cherab/core/math/caching/caching{1,2,3}d.pyx, interpolators/utility.pyx).
Mathlib-free; polymorphic over notation so that the same definitions run at `Float` in the driver and are
reasoned about over an ordered field.

Layout
  §1  `findIndex`            utility.pyx:30  (end-point cases, padding, bisection with fuel)
  §2  node grid `mkAxis`     caching*.pyx `__init__` (outer nodes min−δ / max+δ, linspace over [min−ε, max+ε],
                             number of nodes max(int((max−min)/δ)+1, 2), normalisation (x − x₀)·Δ⁻¹)
  §3  generic memo machine   `_evaluate`'s lazy protocol: data : node ↦ value (absent = NaN), coeffs : cell ↦ poly
  §4–6  the 1-D / 2-D / 3-D instances: stencil order, constraint rows, `solve` (a parameter), denormalisation,
        polynomial evaluation — transcribed with the code's association order.

External mathematics is a parameter: `solve` (numpy.linalg.solve), `powi` (C `pow`), `trunc` (Python `int()`),
`isnan`/`nan`.
-/
namespace Cherab.Caching

/-! ## §0 small helpers -/

/-- association-list lookup (first match) -/
def lookup {ν β : Type} [DecidableEq ν] (u : ν) : List (ν × β) → Option β
  | [] => none
  | (k, v) :: t => if k = u then some v else lookup u t

/-- utility.pyx:149 `factorial` -/
def fact : Nat → Nat
  | 0 => 1
  | n + 1 => (n + 1) * fact n

section
variable {α : Type} [Add α] [Sub α] [Mul α] [Div α] [Neg α] [Zero α] [One α] [OfScientific α] [NatCast α]
  [LT α] [LE α] [DecidableLT α] [DecidableLE α] [BEq α]

/-- `g 0 + g 1 + g 2 + g 3` (left associated, as the code writes its four-term sums) -/
def sum4 (g : Nat → α) : α := g 0 + g 1 + g 2 + g 3

/-- `Σ_k row[k] * c (k0 + k)` — the product of one constraint row with a coefficient vector -/
def dotFrom (k0 : Nat) : List α → (Nat → α) → α
  | [], _ => 0
  | r :: rs, c => r * c k0 + dotFrom (k0 + 1) rs c

def dot (row : List α) (c : Nat → α) : α := dotFrom 0 row c

/-! ## §1 find_index (utility.pyx:30) -/

/-- the `while (top - bottom) != 1` loop; `bisection_index` is always `(top + bottom) / 2` at the loop head
(it is initialised to `top / 2` with `bottom = 0`), so it is recomputed instead of carried.  `fuel` bounds the
number of iterations; `bisect_terminates` (Props) shows `top - bottom` iterations suffice. -/
def bisect (x : Nat → α) (v : α) : Nat → Nat → Nat → Nat
  | 0, b, _ => b
  | fuel + 1, b, t =>
    if t - b = 1 then b
    else
      let m := (t + b) / 2
      if v ≥ x m then bisect x v fuel m t else bisect x v fuel b m

/-- `find_index(x, v, padding)`; `top = len(x) - 1`.  Returns a C int. -/
def findIndex (x : Nat → α) (top : Nat) (v : α) (padding : α) : Int :=
  if v == x 0 then 0
  else if v == x top then (top : Int) - 1
  else if v < x 0 - padding then -2
  else if v > x top + padding then (top : Int) + 1
  else if v < x 0 then -1
  else if v > x top then (top : Int)
  else (bisect x v top 0 top : Nat)

/-! ## §2 node grid and normalisation (`__init__`) -/

/-- numpy.linspace(mn, mx, n)[i] for n ≥ 2: `arange(n) * ((mx − mn)/(n − 1)) + mn`, last element forced to `mx` -/
def linspace (mn mx : α) (n i : Nat) : α :=
  if i = n - 1 then mx else (i : α) * ((mx - mn) / ((n - 1 : Nat) : α)) + mn

/-- `max(int((maxx - minx) / deltax) + 1, 2)` -/
def nNodes (trunc : α → Nat) (mn mx dx : α) : Nat := max (trunc ((mx - mn) / dx) + 1) 2

/-- EPSILON = 1.e-7 -/
def EPS : α := 1.e-7

/-- `concatenate(([min − δ], linspace(min − ε, max + ε, n), [max + δ]))[i]`, `top = n + 1` -/
def nodeAt (mn mx dx : α) (n : Nat) (i : Nat) : α :=
  if i = 0 then mn - dx
  else if i = n + 1 then mx + dx
  else linspace (mn - EPS) (mx + EPS) n (i - 1)

/-- one coordinate axis of a caching object -/
structure Axis (α : Type) where
  top : Nat            -- top_index_x
  dom : Nat → α        -- x_domain_view (un-normalised nodes; `find_index` and the wrapped function see these)
  xmin : α             -- x_min
  dinv : α             -- x_delta_inv
  xn : Nat → α         -- x_view (normalised nodes)

/-- constructor checks: `minx >= maxx` and `deltax <= EPSILON` raise ValueError -/
def axisOk (mn mx dx : α) : Bool := !(decide (mn ≥ mx)) && !(decide (dx ≤ EPS))

def mkAxis (trunc : α → Nat) (mn mx dx : α) : Axis α :=
  let n := nNodes trunc mn mx dx
  let dom := nodeAt mn mx dx n
  let top := n + 1
  -- x_np.min() / x_np.max() of the increasing array
  let xmin := dom 0
  let dinv := 1 / (dom top - dom 0)
  { top := top, dom := dom, xmin := xmin, dinv := dinv, xn := fun i => (dom i - xmin) * dinv }

/-- value normalisation: data_min, data_delta, data_delta_inv -/
structure Norm (α : Type) where
  dmin : α
  delta : α
  deltaInv : α

def mkNorm (bounds : Option (α × α)) : Norm α :=
  match bounds with
  | some (lo, hi) =>
    let d := hi - lo
    let d := if d == 0 then 1 else d
    { dmin := lo, delta := d, deltaInv := 1 / d }
  | none => { dmin := 0, delta := 1, deltaInv := 1 / 1 }

/-- `(value - self.data_min) * self.data_delta_inv` -/
def Norm.apply (nm : Norm α) (v : α) : α := (v - nm.dmin) * nm.deltaInv

/-- the cell test of `evaluate`: `1 <= i_x <= top_index_x - 2` -/
def cellOf (ax : Axis α) (p : α) : Option Nat :=
  let i := findIndex ax.dom ax.top p 0
  if 1 ≤ i ∧ i ≤ (ax.top : Int) - 2 then some i.toNat else none

/-- utility.pyx:109 `derivatives_array(v, deriv)` as an index function -/
def derivArr (v : α) (deriv : Nat) (k : Nat) : α :=
  if deriv = 0 then (if k = 0 then 1 else if k = 1 then v else if k = 2 then v * v else v * v * v)
  else if deriv = 1 then (if k = 0 then 0 else if k = 1 then 1 else if k = 2 then ((2 : Nat) : α) * v else ((3 : Nat) : α) * v * v)
  else if deriv = 2 then (if k = 0 then 0 else if k = 1 then 0 else if k = 2 then ((2 : Nat) : α) else ((6 : Nat) : α) * v)
  else if deriv = 3 then (if k = 0 then 0 else if k = 1 then 0 else if k = 2 then 0 else ((6 : Nat) : α))
  else 0

/-- components used by the constraint rows: `[1, x, x2, x3]` or `[0, 1, 2 x, 3 x2]` with the *cached* squares and
cubes `x2_view = x*x`, `x3_view = x*x*x` -/
def comps (x : α) (der : Bool) (k : Nat) : α :=
  if der then (if k = 0 then 0 else if k = 1 then 1 else if k = 2 then ((2 : Nat) : α) * x else ((3 : Nat) : α) * (x * x))
  else (if k = 0 then 1 else if k = 1 then x else if k = 2 then x * x else x * x * x)

end

/-! ## §3 generic lazily filled interpolation cache -/

/-- what distinguishes the three classes: how a point is located, which nodes a cell needs (in sampling order),
the coordinates handed to the wrapped function, how coefficients are built from the normalised stencil values, how
the stored polynomial is evaluated -/
structure Spec (α P ν κ C : Type) where
  locate : P → Option κ
  stencil : κ → List ν
  coord : ν → P
  build : κ → List α → Option C      -- `none`: numpy.linalg.solve raised LinAlgError
  poly : C → P → α

/-- `data_view` (absent = NaN = not sampled) and `coeffs_view`/`calculated_view` (absent = not calculated) -/
structure St (α ν κ C : Type) where
  data : List (ν × α)
  coeffs : List (κ × C)

def St.init {α ν κ C : Type} : St α ν κ C := { data := [], coeffs := [] }

inductive Out (α : Type) where
  | val (v : α)
  | raise            -- ValueError
  | error            -- numpy.linalg.LinAlgError escaping from `solve`
  | fraise           -- the wrapped function raised; its exception propagates out of `evaluate`
  deriving Repr

/-- behaviour of the wrapped function and of the float environment -/
structure Env (α P : Type) where
  f : P → Option α    -- `none`: the wrapped function raises at that point
  isnan : α → Bool
  nan : α
  norm : α → α        -- value normalisation applied when a sample is stored

section
variable {α P ν κ C : Type} [DecidableEq ν] [DecidableEq κ]

/-- the `for u in range(i-1, i+3): if isnan(data[u]): value = f(node u); if not isnan(value): data[u] = norm value`
loop; returns the new data, the calls made (in order) and whether the loop ran to its end.  When the wrapped function
raises the exception leaves the loop at once: the samples stored so far stay, the remaining nodes are not visited. -/
def sample (S : Spec α P ν κ C) (E : Env α P) : List ν → List (ν × α) → List (ν × α) × List P × Bool
  | [], d => (d, [], true)
  | u :: us, d =>
    match lookup u d with
    | some _ => sample S E us d
    | none =>
      match E.f (S.coord u) with
      | none => (d, [S.coord u], false)
      | some v =>
        let d' := if E.isnan v then d else (u, E.norm v) :: d
        let r := sample S E us d'
        (r.1, S.coord u :: r.2.1, r.2.2)

/-- what `data_view[u]` reads -/
def readNode (E : Env α P) (d : List (ν × α)) (u : ν) : α := (lookup u d).getD E.nan

/-- one call of `evaluate`: new state, result, and the calls received by the wrapped function -/
def evalStep (S : Spec α P ν κ C) (E : Env α P) (noBoundaryError : Bool) (st : St α ν κ C) (p : P) :
    St α ν κ C × Out α × List P :=
  match S.locate p with
  | none =>
    if noBoundaryError then
      match E.f p with
      | some v => (st, .val v, [p])
      | none => (st, .fraise, [p])
    else (st, .raise, [])
  | some c =>
    match lookup c st.coeffs with
    | some co => (st, .val (S.poly co p), [])
    | none =>
      let r := sample S E (S.stencil c) st.data
      if r.2.2 then
        let vals := (S.stencil c).map (readNode E r.1)
        -- the samples stay in `data_view` even when `solve` raises; `calculated` is only set after a successful solve
        match S.build c vals with
        | some co => ({ data := r.1, coeffs := (c, co) :: st.coeffs }, .val (S.poly co p), r.2.1)
        | none => ({ data := r.1, coeffs := st.coeffs }, .error, r.2.1)
      else
        -- the wrapped function raised while sampling: nothing is calculated or flagged for this cell
        ({ data := r.1, coeffs := st.coeffs }, .fraise, r.2.1)

/-- state after a history of evaluations -/
def run (S : Spec α P ν κ C) (E : Env α P) (nbe : Bool) (st : St α ν κ C) (ps : List P) : St α ν κ C :=
  ps.foldl (fun s p => (evalStep S E nbe s p).1) st

/-- the value a node contributes, independent of any state -/
def nodeVal (S : Spec α P ν κ C) (E : Env α P) (u : ν) : α :=
  match E.f (S.coord u) with
  | some v => if E.isnan v then E.nan else E.norm v
  | none => E.nan

/-- history-free specification of `evaluate` -/
def evalPure (S : Spec α P ν κ C) (E : Env α P) (nbe : Bool) (p : P) : Out α :=
  match S.locate p with
  | none =>
    if nbe then
      match E.f p with
      | some v => .val v
      | none => .fraise
    else .raise
  | some c =>
    if (S.stencil c).all (fun u => (E.f (S.coord u)).isSome) then
      match S.build c ((S.stencil c).map (nodeVal S E)) with
      | some co => .val (S.poly co p)
      | none => .error
    else .fraise

end

section
variable {α : Type} [Add α] [Sub α] [Mul α] [Div α] [Neg α] [Zero α] [One α] [OfScientific α] [NatCast α]
  [LT α] [LE α] [DecidableLT α] [DecidableLE α] [BEq α]

/-- `numpy.linalg.solve` and C `pow(double, int)` -/
structure Ext (α : Type) where
  solve : List (List α) → List α → Option (Nat → α)
  powi : α → Nat → α

/-! ## §4 Caching1D -/

/-- stencil of cell `i`: `range(i-1, i+3)` -/
def stencil1 (i : Nat) : List Nat := [i - 1, i, i + 1, i + 2]

/-- constraint row `l` (0..3) of cell `i` and its right-hand side.  `d` = normalised values at the stencil nodes in
stencil order.  Row `2e` is the knot value at node `i+e`, row `2e+1` the derivative there with the central
difference `(d[u+1] − d[u−1]) / (x[u+1] − x[u−1])`. -/
def row1 (ax : Axis α) (i : Nat) (d : Nat → α) (l : Nat) : List α × α :=
  let e := l / 2
  let u := i + e
  let x := ax.xn u
  if l % 2 = 0 then
    ([1, x, x * x, x * x * x], d (e + 1))
  else
    ([0, 1, ((2 : Nat) : α) * x, ((3 : Nat) : α) * (x * x)], (d (e + 2) - d e) / (ax.xn (u + 1) - ax.xn (u - 1)))

def system1 (ax : Axis α) (i : Nat) (d : Nat → α) : List (List α) × List α :=
  let rows := (List.range 4).map (row1 ax i d)
  (rows.map (·.1), rows.map (·.2))

/-- `_evaluate_polynomial_derivative` -/
def polyDeriv1 (c : Nat → α) (px : α) (der : Nat) : α :=
  let X := derivArr px der
  X 0 * c 0 + X 1 * c 1 + X 2 * c 2 + X 3 * c 3

/-- the denormalisation loop and the `+ data_min` on coefficient 0 -/
def finish1 (E : Ext α) (ax : Axis α) (nm : Norm α) (c : Nat → α) : Nat → α :=
  fun i =>
    let v := nm.delta * (E.powi ax.dinv i / ((fact i : Nat) : α) * polyDeriv1 c (-ax.dinv * ax.xmin) i)
    if i = 0 then v + nm.dmin else v

def build1 (E : Ext α) (ax : Axis α) (nm : Norm α) (i : Nat) (vals : List α) : Option (Nat → α) :=
  let sys := system1 ax i (fun k => vals.getD k 0)
  (E.solve sys.1 sys.2).map (finish1 E ax nm)

/-- `c0 + c1*px + c2*px*px + c3*px*px*px` -/
def poly1 (c : Nat → α) (px : α) : α := c 0 + c 1 * px + c 2 * px * px + c 3 * px * px * px

def spec1 (E : Ext α) (ax : Axis α) (nm : Norm α) : Spec α α Nat Nat (Nat → α) where
  locate := cellOf ax
  stencil := stencil1
  coord := ax.dom
  build := build1 E ax nm
  poly := poly1

/-! ## §5 Caching2D -/

/-- `for u in range(i_x-1, i_x+3): for v in range(i_y-1, i_y+3)` -/
def stencil2 (c : Nat × Nat) : List (Nat × Nat) :=
  (stencil1 c.1).flatMap fun u => (stencil1 c.2).map fun v => (u, v)

def cellOf2 (ax ay : Axis α) (p : α × α) : Option (Nat × Nat) :=
  -- both indices are computed first; then the nested range test
  match cellOf ax p.1, cellOf ay p.2 with
  | some i, some j => some (i, j)
  | _, _ => none

/-- the four rows written for knot `(u, v)`, literally as in caching2d.pyx:239-304.  `l = 4·(2·e_x + e_y) + kind`;
`D a b` = normalised value at stencil node `(i−1+a, j−1+b)`. -/
def row2 (ax ay : Axis α) (c : Nat × Nat) (D : Nat → Nat → α) (l : Nat) : List α × α :=
  let knot := l / 4
  let kind := l % 4
  let ex := knot / 2
  let ey := knot % 2
  let u := c.1 + ex
  let v := c.2 + ey
  let x := ax.xn u
  let x2 := x * x
  let x3 := x * x * x
  let y := ay.xn v
  let y2 := y * y
  let y3 := y * y * y
  let a := ex + 1
  let b := ey + 1
  let delta_x := ax.xn (u + 1) - ax.xn (u - 1)
  let delta_y := ay.xn (v + 1) - ay.xn (v - 1)
  if kind = 0 then
    ([1, y, y2, y3, x, x * y, x * y2, x * y3, x2, x2 * y, x2 * y2, x2 * y3, x3, x3 * y, x3 * y2, x3 * y3],
     D a b)
  else if kind = 1 then
    ([0, 0, 0, 0, 1, y, y2, y3, ((2 : Nat) : α) * x, ((2 : Nat) : α) * x * y, ((2 : Nat) : α) * x * y2, ((2 : Nat) : α) * x * y3, ((3 : Nat) : α) * x2, ((3 : Nat) : α) * x2 * y, ((3 : Nat) : α) * x2 * y2, ((3 : Nat) : α) * x2 * y3],
     (D (a + 1) b - D (a - 1) b) / delta_x)
  else if kind = 2 then
    ([0, 1, ((2 : Nat) : α) * y, ((3 : Nat) : α) * y2, 0, x, ((2 : Nat) : α) * x * y, ((3 : Nat) : α) * x * y2, 0, x2, ((2 : Nat) : α) * x2 * y, ((3 : Nat) : α) * x2 * y2, 0, x3, ((2 : Nat) : α) * x3 * y, ((3 : Nat) : α) * x3 * y2],
     (D a (b + 1) - D a (b - 1)) / delta_y)
  else
    ([0, 0, 0, 0, 0, 1, ((2 : Nat) : α) * y, ((3 : Nat) : α) * y2, 0, ((2 : Nat) : α) * x, ((4 : Nat) : α) * x * y, ((6 : Nat) : α) * x * y2, 0, ((3 : Nat) : α) * x2, ((6 : Nat) : α) * x2 * y, ((9 : Nat) : α) * x2 * y2],
     (D (a + 1) (b + 1) - D (a + 1) (b - 1) - D (a - 1) (b + 1) + D (a - 1) (b - 1)) / (delta_x * delta_y))

def system2 (ax ay : Axis α) (c : Nat × Nat) (D : Nat → Nat → α) : List (List α) × List α :=
  let rows := (List.range 16).map (row2 ax ay c D)
  (rows.map (·.1), rows.map (·.2))

def polyDeriv2 (c : Nat → α) (px py : α) (dx dy : Nat) : α :=
  let X := derivArr px dx
  let Y := derivArr py dy
  X 0 * (Y 0 * c 0 + Y 1 * c 1 + Y 2 * c 2 + Y 3 * c 3) +
  X 1 * (Y 0 * c 4 + Y 1 * c 5 + Y 2 * c 6 + Y 3 * c 7) +
  X 2 * (Y 0 * c 8 + Y 1 * c 9 + Y 2 * c 10 + Y 3 * c 11) +
  X 3 * (Y 0 * c 12 + Y 1 * c 13 + Y 2 * c 14 + Y 3 * c 15)

def finish2 (E : Ext α) (ax ay : Axis α) (nm : Norm α) (c : Nat → α) : Nat → α :=
  fun n =>
    let i := n / 4
    let j := n % 4
    let v := nm.delta * (E.powi ax.dinv i * E.powi ay.dinv j / (((fact j * fact i : Nat)) : α)
               * polyDeriv2 c (-ax.dinv * ax.xmin) (-ay.dinv * ay.xmin) i j)
    if n = 0 then v + nm.dmin else v

def build2 (E : Ext α) (ax ay : Axis α) (nm : Norm α) (c : Nat × Nat) (vals : List α) : Option (Nat → α) :=
  let sys := system2 ax ay c (fun a b => vals.getD (4 * a + b) 0)
  (E.solve sys.1 sys.2).map (finish2 E ax ay nm)

def poly2 (c : Nat → α) (p : α × α) : α :=
  let px := p.1
  let py := p.2
  let px2 := px * px
  let px3 := px2 * px
  let py2 := py * py
  let py3 := py2 * py
  (c 0 + c 1 * py + c 2 * py2 + c 3 * py3) +
  px * (c 4 + c 5 * py + c 6 * py2 + c 7 * py3) +
  px2 * (c 8 + c 9 * py + c 10 * py2 + c 11 * py3) +
  px3 * (c 12 + c 13 * py + c 14 * py2 + c 15 * py3)

def spec2 (E : Ext α) (ax ay : Axis α) (nm : Norm α) : Spec α (α × α) (Nat × Nat) (Nat × Nat) (Nat → α) where
  locate := cellOf2 ax ay
  stencil := stencil2
  coord := fun u => (ax.dom u.1, ay.dom u.2)
  build := build2 E ax ay nm
  poly := poly2

/-! ## §6 Caching3D -/

def stencil3 (c : Nat × Nat × Nat) : List (Nat × Nat × Nat) :=
  (stencil1 c.1).flatMap fun u => (stencil1 c.2.1).flatMap fun v => (stencil1 c.2.2).map fun w => (u, v, w)

def cellOf3 (ax ay az : Axis α) (p : α × α × α) : Option (Nat × Nat × Nat) :=
  match cellOf ax p.1, cellOf ay p.2.1, cellOf az p.2.2 with
  | some i, some j, some k => some (i, j, k)
  | _, _, _ => none

/-- `_constraints3d(u, v, w, x_der, y_der, z_der)` -/
def constraints3d (x y z : α) (xd yd zd : Bool) : List α :=
  (List.range 4).flatMap fun a => (List.range 4).flatMap fun b => (List.range 4).map fun c =>
    comps x xd a * comps y yd b * comps z zd c

/-- row `l = 8·(4 e_x + 2 e_y + e_z) + kind` of caching3d.pyx:262-307; kinds in the order value, ∂x, ∂y, ∂z, ∂xy, ∂xz,
∂yz, ∂xyz.  `D a b c` = normalised value at stencil node `(i−1+a, j−1+b, k−1+c)`. -/
def row3 (ax ay az : Axis α) (cell : Nat × Nat × Nat) (D : Nat → Nat → Nat → α) (l : Nat) : List α × α :=
  let knot := l / 8
  let kind := l % 8
  let ex := knot / 4
  let ey := (knot / 2) % 2
  let ez := knot % 2
  let u := cell.1 + ex
  let v := cell.2.1 + ey
  let w := cell.2.2 + ez
  let x := ax.xn u
  let y := ay.xn v
  let z := az.xn w
  let a := ex + 1
  let b := ey + 1
  let c := ez + 1
  let delta_x := ax.xn (u + 1) - ax.xn (u - 1)
  let delta_y := ay.xn (v + 1) - ay.xn (v - 1)
  let delta_z := az.xn (w + 1) - az.xn (w - 1)
  if kind = 0 then (constraints3d x y z false false false, D a b c)
  else if kind = 1 then (constraints3d x y z true false false, (D (a + 1) b c - D (a - 1) b c) / delta_x)
  else if kind = 2 then (constraints3d x y z false true false, (D a (b + 1) c - D a (b - 1) c) / delta_y)
  else if kind = 3 then (constraints3d x y z false false true, (D a b (c + 1) - D a b (c - 1)) / delta_z)
  else if kind = 4 then
    (constraints3d x y z true true false,
     (D (a + 1) (b + 1) c - D (a + 1) (b - 1) c - D (a - 1) (b + 1) c + D (a - 1) (b - 1) c) / (delta_x * delta_y))
  else if kind = 5 then
    (constraints3d x y z true false true,
     (D (a + 1) b (c + 1) - D (a + 1) b (c - 1) - D (a - 1) b (c + 1) + D (a - 1) b (c - 1)) / (delta_x * delta_z))
  else if kind = 6 then
    (constraints3d x y z false true true,
     (D a (b + 1) (c + 1) - D a (b - 1) (c + 1) - D a (b + 1) (c - 1) + D a (b - 1) (c - 1)) / (delta_y * delta_z))
  else
    (constraints3d x y z true true true,
     (D (a + 1) (b + 1) (c + 1) - D (a + 1) (b + 1) (c - 1) - D (a + 1) (b - 1) (c + 1) + D (a + 1) (b - 1) (c - 1)
        - D (a - 1) (b + 1) (c + 1) + D (a - 1) (b + 1) (c - 1) + D (a - 1) (b - 1) (c + 1) - D (a - 1) (b - 1) (c - 1))
       / (delta_x * delta_y * delta_z))

def system3 (ax ay az : Axis α) (cell : Nat × Nat × Nat) (D : Nat → Nat → Nat → α) : List (List α) × List α :=
  let rows := (List.range 64).map (row3 ax ay az cell D)
  (rows.map (·.1), rows.map (·.2))

/-- `z0*c[b] + z1*c[b+1] + z2*c[b+2] + z3*c[b+3]` -/
def lin4 (Z : Nat → α) (c : Nat → α) (b : Nat) : α := Z 0 * c b + Z 1 * c (b + 1) + Z 2 * c (b + 2) + Z 3 * c (b + 3)

def polyDeriv3 (c : Nat → α) (px py pz : α) (dx dy dz : Nat) : α :=
  let X := derivArr px dx
  let Y := derivArr py dy
  let Z := derivArr pz dz
  let blk := fun (b : Nat) =>
    Y 0 * lin4 Z c b + Y 1 * lin4 Z c (b + 4) + Y 2 * lin4 Z c (b + 8) + Y 3 * lin4 Z c (b + 12)
  X 0 * blk 0 + X 1 * blk 16 + X 2 * blk 32 + X 3 * blk 48

def finish3 (E : Ext α) (ax ay az : Axis α) (nm : Norm α) (c : Nat → α) : Nat → α :=
  fun n =>
    let i := n / 16
    let j := (n / 4) % 4
    let k := n % 4
    let v := nm.delta * E.powi ax.dinv i * E.powi ay.dinv j * E.powi az.dinv k
               / ((fact i * fact j * fact k : Nat) : α)
               * polyDeriv3 c (-ax.dinv * ax.xmin) (-ay.dinv * ay.xmin) (-az.dinv * az.xmin) i j k
    if n = 0 then v + nm.dmin else v

def build3 (E : Ext α) (ax ay az : Axis α) (nm : Norm α) (cell : Nat × Nat × Nat) (vals : List α) :
    Option (Nat → α) :=
  let sys := system3 ax ay az cell (fun a b c => vals.getD (16 * a + 4 * b + c) 0)
  (E.solve sys.1 sys.2).map (finish3 E ax ay az nm)

/-- `c[b] + c[b+1]*pz + c[b+2]*pz2 + c[b+3]*pz3` -/
def cub (c : Nat → α) (b : Nat) (pz pz2 pz3 : α) : α := c b + c (b + 1) * pz + c (b + 2) * pz2 + c (b + 3) * pz3

def poly3 (c : Nat → α) (p : α × α × α) : α :=
  let px := p.1
  let py := p.2.1
  let pz := p.2.2
  let px2 := px * px
  let px3 := px2 * px
  let py2 := py * py
  let py3 := py2 * py
  let pz2 := pz * pz
  let pz3 := pz2 * pz
  let blk := fun (b : Nat) =>
    cub c b pz pz2 pz3 + py * cub c (b + 4) pz pz2 pz3 + py2 * cub c (b + 8) pz pz2 pz3 + py3 * cub c (b + 12) pz pz2 pz3
  blk 0 + px * blk 16 + px2 * blk 32 + px3 * blk 48

def spec3 (E : Ext α) (ax ay az : Axis α) (nm : Norm α) :
    Spec α (α × α × α) (Nat × Nat × Nat) (Nat × Nat × Nat) (Nat → α) where
  locate := cellOf3 ax ay az
  stencil := stencil3
  coord := fun u => (ax.dom u.1, ay.dom u.2.1, az.dom u.2.2)
  build := build3 E ax ay az nm
  poly := poly3

end
end Cherab.Caching
