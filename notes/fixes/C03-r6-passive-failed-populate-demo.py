import subprocess, sys, textwrap
code = textwrap.dedent('''
import sys
from raysect.core import Point3D, Vector3D
from raysect.optical import Spectrum
from cherab.core.model import ExcitationLine, RecombinationLine, ThermalCXLine
from cherab.core.atomic import AtomicData, deuterium, Line
from cherab.core.atomic.rates import ImpactExcitationPEC, RecombinationPEC, ThermalCXPEC
from cherab.tools.plasmas.slab import build_constant_slab_plasma
class R1(ImpactExcitationPEC):
    def evaluate(self, ne, te): return 1e-14
class R2(RecombinationPEC):
    def evaluate(self, ne, te): return 1e-14
class R3(ThermalCXPEC):
    def evaluate(self, ne, te, td): return 1e-14
class AD(AtomicData):
    def __init__(self): self.fail = True
    def _maybe(self):
        if self.fail:
            self.fail = False
            raise OSError("rate file temporarily unreadable")
    def wavelength(self, *a): return 656.1
    def impact_excitation_pec(self, *a): self._maybe(); return R1()
    def recombination_pec(self, *a): self._maybe(); return R2()
    def thermal_cx_pec(self, *a): self._maybe(); return R3()
which = sys.argv[1]
plasma = build_constant_slab_plasma(length=1, width=1, height=1, electron_density=1e19, electron_temperature=100.,
    plasma_species=[(deuterium, 0, 1e17, 100., Vector3D(0,0,0)), (deuterium, 1, 1e19, 100., Vector3D(0,0,0))])
line = Line(deuterium, 0, (3, 2))
cls = dict(exc=ExcitationLine, rec=RecombinationLine, tcx=ThermalCXLine)[which]
def total(m):
    return m.emission(Point3D(0.5,0,0), Vector3D(1,0,0), Spectrum(650., 660., 64)).samples.sum()
ad = AD(); m = cls(line, plasma=plasma, atomic_data=ad)
try:
    total(m); print("first call did not raise"); sys.exit(3)
except OSError:
    pass
second = total(m)
fad = AD(); fad.fail = False
fresh = total(cls(line, plasma=plasma, atomic_data=fad))
print(which, second, fresh)
sys.exit(0 if second == fresh and fresh > 0 else 4)
''')
bad = 0
for w in ('exc', 'rec', 'tcx'):
    r = subprocess.run(['/venv/bin/python', '-c', code, w], capture_output=True, text=True)
    print(w, 'exit', r.returncode, r.stdout.strip()[-120:], r.stderr.strip()[-200:])
    bad |= r.returncode != 0
sys.exit(1 if bad else 0)
