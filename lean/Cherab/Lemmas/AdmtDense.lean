import Cherab.Lemmas.Admt
import Cherab.Model.AdmtDense

/-!
Helpers for `Props/C20Dense.lean`: the dictionary lookup is injective (two different keys never give the same 1-D
index), hence so is the column map of the nine stencil positions; the simulation invariant between the dense
(column-keyed, last write wins) and the position-keyed execution of an assignment program.
-/
namespace Cherab.Admt
open Cherab.Gen.Admt

theorem lookup_inj (cells : List (Int × Int)) (a b a' b' : Int) (n : Nat)
    (h : lookup cells a b = some n) (h' : lookup cells a' b' = some n) : a = a' ∧ b = b' := by
  unfold lookup at h h'
  rw [List.findIdx?_eq_some_iff_getElem] at h h'
  obtain ⟨hn, e, _⟩ := h
  obtain ⟨_, e', _⟩ := h'
  simp only [Bool.and_eq_true, beq_iff_eq] at e e'
  exact ⟨e.1.symm.trans e'.1, e.2.symm.trans e'.2⟩

theorem Pos.off_inj (p q : Pos) (h1 : p.off.1 = q.off.1) (h2 : p.off.2 = q.off.2) : p = q := by
  cases p <;> cases q <;> simp [Pos.off] at h1 h2 <;> rfl

/-- two stencil positions never share a column -/
theorem neighbour_inj (cells : List (Int × Int)) (c : Int × Int) (p q : Pos) (n : Nat)
    (h : neighbour cells c p = some n) (h' : neighbour cells c q = some n) : p = q := by
  unfold neighbour at h h'
  obtain ⟨e1, e2⟩ := lookup_inj cells _ _ _ _ n h h'
  exact Pos.off_inj p q (by omega) (by omega)

section
variable {α : Type} [Field α]

theorem sum_pos_single (f : Pos → α) (p0 : Pos) :
    (Pos.all.map fun p => if p = p0 then f p else 0).sum = f p0 := by
  cases p0 <;> simp [Pos.all]

/-- `rawEntry` picks the coefficient of the unique position whose column is `j` (0 if there is none) -/
theorem rawEntry_of_col (cells : List (Int × Int)) (c : Int × Int) (t : Table) (op : Op5) (j : Nat) (p0 : Pos)
    (h : neighbour cells c p0 = some j) : (rawEntry cells c t op j : α) = t.val op p0 := by
  unfold rawEntry
  rw [foldl_ite_add_eq, zero_add, ← sum_pos_single (fun p => (t.val op p : α)) p0]
  congr 1
  apply List.map_congr_left
  intro p _
  by_cases e : p = p0
  · subst e; simp [h]
  · have : neighbour cells c p ≠ some j := fun h2 => e (neighbour_inj cells c p p0 j h2 h)
    simp [e, this]

theorem rawEntry_of_no_col (cells : List (Int × Int)) (c : Int × Int) (t : Table) (op : Op5) (j : Nat)
    (h : ∀ p, neighbour cells c p ≠ some j) : (rawEntry cells c t op j : α) = 0 := by
  unfold rawEntry
  rw [foldl_ite_add_eq, zero_add]
  apply List.sum_eq_zero
  intro x hx
  rw [List.mem_map] at hx
  obtain ⟨p, _, rfl⟩ := hx
  simp [h p]

end

/-- simulation invariant: column `n` of the dense rows holds what the table holds at the position with column `n` -/
def DenseInv (cells : List (Int × Int)) (c : Int × Int) (d : DenseRows) (t : Table) : Prop :=
  (∀ op p n, neighbour cells c p = some n → d op n = t op p) ∧
  (∀ op n, (∀ p, neighbour cells c p ≠ some n) → d op n = none)

def DenseRel (cells : List (Int × Int)) (c : Int × Int) : Option DenseRows → Option Table → Prop
  | some d, some t => DenseInv cells c d t
  | none, none => True
  | _, _ => False

theorem colOf_eq (cells : List (Int × Int)) (c : Int × Int) (i : Nat) (hi : lookup cells c.1 c.2 = some i)
    (p : Pos) : colOf cells c i p = neighbour cells c p := by
  unfold colOf
  split_ifs with h
  · subst h; simp [neighbour, Pos.off, hi]
  · rfl

theorem stepDense_rel (cells : List (Int × Int)) (c : Int × Int) (i : Nat) (hi : lookup cells c.1 c.2 = some i)
    (d : DenseRows) (t : Table) (a : Asg) (hinv : DenseInv cells c d t) :
    DenseRel cells c (stepDense cells c i d a) (stepAsg (hasOf cells c) t a) := by
  unfold stepDense stepAsg
  rw [colOf_eq cells c i hi]
  by_cases hg : (a.guards.all (·.eval (hasOf cells c))) = true
  · simp only [hg, if_true]
    cases hcol : neighbour cells c a.pos with
    | none =>
      have hs : a.pos ≠ .self := by
        intro e
        rw [e] at hcol
        simp [neighbour, Pos.off, hi] at hcol
      simp [hasOf, hcol, hs, DenseRel]
    | some n =>
      have hh : hasOf cells c a.pos = true := by simp [hasOf, hcol]
      simp only [hh, or_true, if_true, DenseRel]
      refine ⟨?_, ?_⟩
      · intro op p m hm
        unfold DenseRows.store Table.set
        have key : m = n ↔ p = a.pos := by
          constructor
          · intro e; subst e; exact neighbour_inj cells c p a.pos m hm hcol
          · intro e; subst e; rw [hm] at hcol; exact Option.some.inj hcol
        by_cases e : op = a.op ∧ m = n
        · have e' : op = a.op ∧ p = a.pos := ⟨e.1, key.1 e.2⟩
          simp [e, e']
        · have e' : ¬ (op = a.op ∧ p = a.pos) := fun x => e ⟨x.1, key.2 x.2⟩
          rw [if_neg e, if_neg e']
          exact hinv.1 op p m hm
      · intro op m hm
        unfold DenseRows.store
        have : m ≠ n := fun e => hm a.pos (e ▸ hcol)
        have e : ¬ (op = a.op ∧ m = n) := fun x => this x.2
        rw [if_neg e]
        exact hinv.2 op m hm
  · simp only [hg, DenseRel]
    simpa using hinv

theorem foldlM_rel (cells : List (Int × Int)) (c : Int × Int) (i : Nat) (hi : lookup cells c.1 c.2 = some i)
    (prog : List Asg) (d : DenseRows) (t : Table) (hinv : DenseInv cells c d t) :
    DenseRel cells c (prog.foldlM (stepDense cells c i) d) (prog.foldlM (stepAsg (hasOf cells c)) t) := by
  induction prog generalizing d t with
  | nil => simpa [DenseRel] using hinv
  | cons a r ih =>
    rw [List.foldlM_cons, List.foldlM_cons]
    have h := stepDense_rel cells c i hi d t a hinv
    cases h1 : stepDense cells c i d a with
    | none =>
      cases h2 : stepAsg (hasOf cells c) t a with
      | none => simp [DenseRel]
      | some t' => rw [h1, h2] at h; exact h.elim
    | some d' =>
      cases h2 : stepAsg (hasOf cells c) t a with
      | none => rw [h1, h2] at h; exact h.elim
      | some t' =>
        rw [h1, h2] at h
        simpa using ih d' t' h

end Cherab.Admt
