# cython: language_level=3
from cherab.core.math.interpolators.utility cimport find_index as _find_index
from cherab.core.math.transform.periodic cimport remainder as _remainder
import numpy as np
cimport numpy as np

def find_index(np.ndarray[double, ndim=1, mode='c'] x, double v, double padding=0.):
    cdef double[::1] xv = x
    return _find_index(xv, v, padding)

def remainder(double a, double b):
    return _remainder(a, b)

# --- C17: raysect's find_index (the one voxels.pyx cimports) ---
from raysect.core.math.cython.utility cimport find_index as _rs_find_index

def rs_find_index(np.ndarray[double, ndim=1, mode='c'] x, double v):
    cdef double[::1] xv = x
    return _rs_find_index(xv, v)
