"""C10 — ray-transfer matrices account for the whole chord and respect voxel maps.

T  lean/Cherab/Props/C10.lean over lean/Cherab/Model/RayTransfer.lean
K  (a) `integrate` (cpdef) of both integrators is called directly with chosen start/end points, identity matrices,
       a real emitter and a real Spectrum; the native driver runs the model on exactly the same numbers
       (entries compared, IndexError compared);
   (b) end-to-end: RayTransferBox / RayTransferCylinder (+ transform) and Ray.trace with a *recording* subclass of
       the integrator: every recorded segment is replayed through the model, the sum must equal the traced
       spectrum; bounding primitive dimensions, `bins`, `voxel_map` from mask are compared with the model;
   (c) RayTransferPipeline0D/1D/2D: matrix == traced spectrum (radiance) / x sensitivity (power).
S  oracle without the model: exact piecewise chords by slab / cylinder-line / half-plane intersection;
   per source |entry - chord| <= dt * (#maximal intervals), total == chord in active cells, untouched and
   inactive cells receive nothing, merged map == sum over cells of the identity map, rotation by the period
   leaves the spectrum unchanged.
"""
import math

import numpy as np

from harness.vlib.util import f2b, b2f, fs, close, call

TOL = 1e-9


# ----------------------------------------------------------------------------------------------- configurations
def dyadic(rng, lo=-3, hi=1):
    return rng.choice([1.0, 0.5, 0.25, 2.0, 0.75, 1.5, 0.125])


def rnd_vmap(rng, shape, kind):
    """kind: id | mask | merge | holes"""
    n = shape[0] * shape[1] * shape[2]
    if kind == 'id':
        return None, None
    if kind == 'mask':
        p = rng.choice([0.3, 0.6, 0.9])
        m = np.array([rng.random() < p for _ in range(n)], dtype=bool).reshape(shape)
        if not m.any():
            m.flat[rng.randrange(n)] = True
        return None, m
    nsrc = rng.randint(1, max(1, min(6, n)))
    hole = 0.3 if kind == 'holes' else 0.0
    v = np.array([(-1 if rng.random() < hole else rng.randrange(nsrc)) for _ in range(n)], dtype=np.int32).reshape(shape)
    if v.max() < 0:
        v.flat[rng.randrange(n)] = 0
    return v, None


def make_cart(rng, edge=False):
    shape = tuple(rng.randint(1, 6) for _ in range(3))
    if rng.random() < 0.25:
        shape = tuple(rng.choice([1, 2, 3]) for _ in range(3))
    steps = tuple((dyadic(rng) if edge or rng.random() < 0.3 else rng.uniform(0.05, 2.0)) for _ in range(3))
    kind = rng.choice(['id', 'id', 'mask', 'merge', 'holes'])
    vmap, mask = rnd_vmap(rng, shape, kind)
    return dict(geo='cart', shape=shape, steps=steps, vmap=vmap, mask=mask, kind=kind)


PERIODS = [360.0, 180.0, 90.0, 45.0, 120.0, 60.0]


def make_cyl(rng, edge=False):
    nr, nz = rng.randint(1, 6), rng.randint(1, 6)
    nphi = rng.choice([1, 1, 2, 3, 4, 5, 6])
    period = 360.0 if nphi == 1 and rng.random() < 0.7 else rng.choice(PERIODS)
    dr = dyadic(rng) if edge or rng.random() < 0.3 else rng.uniform(0.05, 1.5)
    dz = dyadic(rng) if edge or rng.random() < 0.3 else rng.uniform(0.05, 1.5)
    rmin = rng.choice([0.0, 0.0, dr, 2 * dr, rng.uniform(0.1, 3.0) if not edge else 0.5])
    shape = (nr, nphi, nz)
    kind = rng.choice(['id', 'id', 'mask', 'merge', 'holes'])
    vmap, mask = rnd_vmap(rng, shape, kind)
    return dict(geo='cyl', shape=shape, steps=(dr, period / nphi, dz), rmin=rmin, period=period, vmap=vmap, mask=mask, kind=kind)


_MAT = {}


def material(cfg, ident=False):
    """real emitter for a configuration (cached on the cfg dict)"""
    from cherab.tools.raytransfer import CartesianRayTransferEmitter, CylindricalRayTransferEmitter
    key = 'mat_id' if ident else 'mat'
    if key in cfg:
        return cfg[key]
    kw = {} if ident else dict(voxel_map=cfg['vmap'], mask=cfg['mask'])
    if cfg['geo'] == 'cart':
        m = CartesianRayTransferEmitter(cfg['shape'], cfg['steps'], **kw)
    else:
        m = CylindricalRayTransferEmitter(cfg['shape'], cfg['steps'], rmin=cfg['rmin'], **kw)
    cfg[key] = m
    return m


def integrator(cfg, step, ms):
    from cherab.tools.raytransfer.emitters import CartesianRayTransferIntegrator, CylindricalRayTransferIntegrator
    cls = CartesianRayTransferIntegrator if cfg['geo'] == 'cart' else CylindricalRayTransferIntegrator
    return cls(step, ms)


_CTX = {}


def _scene():
    if not _CTX:
        from raysect.optical import World, Ray, AffineMatrix3D
        _CTX['world'] = World()
        _CTX['ray'] = Ray()
        _CTX['I'] = AffineMatrix3D()
    return _CTX['world'], _CTX['ray'], _CTX['I']


def impl_integrate(cfg, step, ms, seg, spec0, ident=False, nbins=None):
    """call the real cpdef integrate; returns ('ok', entries list) or (exception kind, message)"""
    from raysect.optical import Spectrum, Point3D
    mat = material(cfg, ident)
    world, ray, eye = _scene()
    nb = mat.bins if nbins is None else nbins
    sp = Spectrum(500.0, 501.0, nb)
    if spec0 is not None:
        sp.samples[:] = spec0
    st, r = call(integrator(cfg, step, ms).integrate, sp, world, ray, None, mat, Point3D(*seg[:3]), Point3D(*seg[3:]), eye, eye)
    if st != 'ok':
        return st, r
    return 'ok', [float(v) for v in sp.samples]


def model_line(cfg, step, ms, seg, spec0, vm, nb):
    sh = cfg['shape']
    head = '%s %d %d %d %d %d ' % (cfg['geo'], sh[0], sh[1], sh[2], nb, ms)
    if cfg['geo'] == 'cart':
        nums = list(cfg['steps']) + [step] + list(seg)
    else:
        nums = [cfg['steps'][0], cfg['steps'][1], cfg['steps'][2], cfg['rmin'], cfg['period'], step] + list(seg)
    return head + fs(nums) + ' ' + ' '.join(str(int(v)) for v in vm.ravel()) + ' ' + fs(spec0)


def parse_model(o):
    if o.startswith('ok'):
        return 'ok', [b2f(t) for t in o.split()[1:]]
    return o, None


# ----------------------------------------------------------------------------------------------- oracle (S)
EXTRA = {'cart': 0, 'cyl': 0}      # set by run() from the translator (0 = tree as it is, 1 = with notes/fixes/C10-1.diff)


RULE_KNOWN = [True]                # False when the translator does not recognise the rule: the oracle then only uses `step`


def doc_plan(length, step, ms, geo='cart'):
    """sampling rule as written in the source (read by the translator): n = max(min_samples, int(length/step) + extra).
    If the rule is not recognised the oracle falls back to the coarsest step the property tolerates (2*step)."""
    n = max(ms, int(length / step) + EXTRA[geo])
    if not RULE_KNOWN[0]:
        return n, max(2.0 * step, length / n)
    return n, length / n


def _unit(seg):
    v = [seg[3] - seg[0], seg[4] - seg[1], seg[5] - seg[2]]
    L = math.sqrt(v[0] * v[0] + v[1] * v[1] + v[2] * v[2])
    if L == 0.0:
        return 0.0, [0.0, 0.0, 0.0]
    return L, [c / L for c in v]


def cart_cell(cfg, p):
    return tuple(int(math.floor(p[a] / cfg['steps'][a])) for a in range(3))


def cyl_cell(cfg, p):
    dr, dphi, dz = cfg['steps']
    r = math.hypot(p[0], p[1])
    ir = int(math.floor((r - cfg['rmin']) / dr))
    iz = int(math.floor(p[2] / dz))
    if cfg['shape'][1] == 1:
        ip = 0
    else:
        phi = math.degrees(math.atan2(p[1], p[0])) % cfg['period']
        ip = min(int(math.floor(phi / dphi)), cfg['shape'][1] - 1)
    return (ir, ip, iz)


def breakpoints(cfg, seg):
    L, u = _unit(seg)
    s = seg[:3]
    ts = [0.0, L]
    sh, st = cfg['shape'], cfg['steps']

    def planes(a, d, n):
        if u[a] != 0.0:
            for k in range(n + 1):
                ts.append((k * d - s[a]) / u[a])
    if cfg['geo'] == 'cart':
        for a in range(3):
            planes(a, st[a], sh[a])
    else:
        planes(2, st[2], sh[2])
        a2 = u[0] * u[0] + u[1] * u[1]
        b = s[0] * u[0] + s[1] * u[1]
        if a2 > 0:
            for i in range(sh[0] + 1):
                R = cfg['rmin'] + i * st[0]
                c = s[0] * s[0] + s[1] * s[1] - R * R
                disc = b * b - a2 * c
                if disc >= 0:
                    q = math.sqrt(disc)
                    ts.append((-b - q) / a2)
                    ts.append((-b + q) / a2)
            ts.append(-b / a2)      # closest approach to the axis (a cell boundary when the line meets the axis)
        if sh[1] > 1:
            k = 0
            while k * st[1] < 360.0 - 1e-9:      # every cell face phi = k*dphi (the opposite half-plane is a harmless extra cut)
                th = math.radians(k * st[1])
                den = u[0] * math.sin(th) - u[1] * math.cos(th)
                if den != 0.0:
                    ts.append(-(s[0] * math.sin(th) - s[1] * math.cos(th)) / den)
                k += 1
    ts = sorted(set(t for t in ts if 0.0 <= t <= L))
    return L, u, ts


def pieces(cfg, seg):
    """[(t0, t1, cell)] with adjacent equal cells merged; None if some piece leaves the grid"""
    L, u, ts = breakpoints(cfg, seg)
    cellf = cart_cell if cfg['geo'] == 'cart' else cyl_cell
    out = []
    sh = cfg['shape']
    axis_t = None
    if cfg['geo'] == 'cyl' and cfg['rmin'] == 0.0 and sh[1] > 1:
        # a line through the axis: the point on the axis belongs to no sector in particular (atan2(0,0)); it separates the
        # two halves even when they lie in the same (periodic) sector -> marker piece with cell None
        a2 = u[0] * u[0] + u[1] * u[1]
        if a2 > 0:
            b = seg[0] * u[0] + seg[1] * u[1]
            dist = abs(seg[0] * u[1] - seg[1] * u[0]) / math.sqrt(a2)       # distance of the line from the axis
            if dist <= 1e-9 * max(L, 1.0) and 0.0 < -b / a2 < L:
                axis_t = -b / a2
    for t0, t1 in zip(ts, ts[1:]):
        if axis_t is not None and t0 == axis_t:
            out.append((t0, t0, None))
        tm = 0.5 * (t0 + t1)
        c = cellf(cfg, [seg[a] + u[a] * tm for a in range(3)])
        if not all(0 <= c[a] < sh[a] for a in range(3)):
            if t1 - t0 <= 1e-12 * max(L, 1.0):
                continue
            return L, None
        if out and out[-1][2] == c:
            out[-1] = (out[-1][0], t1, c)
        else:
            out.append((t0, t1, c))
    return L, out


def _axis_iz(cfg, seg, pcs):
    """z-indices of the points where the path meets the axis (marker pieces)"""
    out = []
    for t0, t1, c in pcs:
        if c is None:
            L, u = _unit(seg)
            iz = int(math.floor((seg[2] + u[2] * t0) / cfg['steps'][2]))
            out.append(min(max(iz, 0), cfg['shape'][2] - 1))
    return out


def _contact_cells(cfg, seg, pcs):
    """for every point where the path changes cell: (index of the piece that starts there, cells whose closure contains the
    point).  A sample that sits exactly there (lattice corner / edge, or within rounding of it) belongs to one of these
    cells, which the path may only touch: a degenerate interval [t*, t*] of that cell."""
    L, u = _unit(seg)
    sh, st = cfg['shape'], cfg['steps']
    out = []
    for i in range(1, len(pcs)):
        t0 = pcs[i][0]
        p = [seg[a] + u[a] * t0 for a in range(3)]
        cells = set()
        for sx in (-1, 1):
            for sy in (-1, 1):
                for sz in (-1, 1):
                    if cfg['geo'] == 'cart':
                        q = [p[0] + sx * 1e-7 * st[0], p[1] + sy * 1e-7 * st[1], p[2] + sz * 1e-7 * st[2]]
                        cc = cart_cell(cfg, q)
                    else:
                        r = math.hypot(p[0], p[1]) + sx * 1e-7 * st[0]
                        ph = math.atan2(p[1], p[0]) + sy * 1e-9
                        q = [max(r, 0.0) * math.cos(ph), max(r, 0.0) * math.sin(ph), p[2] + sz * 1e-7 * st[2]]
                        cc = cyl_cell(cfg, q)
                    if all(0 <= cc[a] < sh[a] for a in range(3)):
                        cells.add(cc)
        out.append((i, cells))
    return out


def _contacts_active(cfg, seg, pcs, vm):
    """every cell whose closure contains a point where the path changes cell is mapped to a source"""
    return all(int(vm[c]) >= 0 for _, cells in _contact_cells(cfg, seg, pcs) for c in cells)


def vmap_of(cfg):
    return np.asarray(material(cfg).voxel_map)


def check_oracle(ctx, cfg, step, ms, seg, spec0, entries, desc, L=None, pcs=None, slack=0.0):
    """property oracle on one in-grid segment; returns False if a violation was reported.
    `slack`: absolute allowance (end-to-end: raysect's hit-point offsets)."""
    if pcs is None:
        L, pcs = pieces(cfg, seg)
    if pcs is None:
        return True
    vm = vmap_of(cfg)
    nb = len(entries)
    if L < 0.1 * step:
        # the code skips such paths; integrating them would be just as good: the entries must not exceed the path length
        tot0 = sum(entries[j] - spec0[j] for j in range(nb))
        if any(entries[j] < spec0[j] for j in range(nb)) or tot0 > L * (1 + 1e-9) + 1e-300 + slack:
            ctx.fail('C10:%s:short-path' % cfg['geo'], 'path %.3g < 0.1*step: entries changed by %r in total' % (L, tot0), desc)
            return False
        return True
    n, dt = doc_plan(L, step, ms, cfg['geo'])
    got = [entries[j] - spec0[j] for j in range(nb)]
    tiny = 1e-12 * max(L, 1.0) + slack
    # per source: chord and number of maximal runs along the ray
    chord = [0.0] * nb
    runs = [0] * nb
    active_chord = 0.0
    active_runs = 0
    prev_src = -1
    for t0, t1, c in pcs:
        if c is None:                      # axis marker: breaks every run
            prev_src = -2
            active_runs += 1
            continue
        s = int(vm[c])
        if s >= 0:
            chord[s] += t1 - t0
            active_chord += t1 - t0
            if prev_src < 0:
                active_runs += 1
            if prev_src != s:
                runs[s] += 1
        prev_src = s
    on_axis = any(p[2] is None for p in pcs)     # a sample may sit exactly on the axis, whose sector is arbitrary (atan2(0,0))
    for iz in _axis_iz(cfg, seg, pcs):
        # the isolated point on the axis is a (degenerate) interval of every sector cell of ring 0 at that height
        for s_ in set(int(v) for v in vm[0, :, iz]):
            if s_ >= 0:
                runs[s_] += 1
    pcs = [p for p in pcs if p[2] is not None]
    for i, cells in _contact_cells(cfg, seg, pcs):
        adj = {int(vm[pcs[i - 1][2]]), int(vm[pcs[i][2]])}
        extra = set(int(vm[c]) for c in cells) - adj
        for s_ in extra:
            if s_ >= 0:
                runs[s_] += 1               # touched in a single point: one more (degenerate) interval of that source
        if any(s_ >= 0 for s_ in extra) and all(a < 0 for a in adj):
            active_runs += 1
        # the contact point belongs to a cell of another source: it splits a run that continues across it
        if extra and len(adj) == 1:
            a = next(iter(adj))
            if a >= 0:
                runs[a] += 1
        if any(s_ < 0 for s_ in extra) and all(a >= 0 for a in adj):
            active_runs += 1
    ok = True
    for j in range(nb):
        bound = dt * max(1, runs[j]) * (1 + TOL) + tiny
        if runs[j] == 0:
            # no piece of the ray lies in any cell of this source
            near = _near_sources(cfg, vm, pcs)
            if j not in near:
                if got[j] != 0.0:
                    ctx.fail('C10:%s:untouched-source-received' % cfg['geo'],
                             'source %d has no cell near the ray but received %r' % (j, got[j]), desc)
                    ok = False
                continue
        if abs(got[j] - chord[j]) > bound:
            ctx.fail('C10:%s:entry-vs-chord' % cfg['geo'],
                     'source %d: entry %r, exact chord %r in %d interval(s), dt %r (n=%d): |diff| %.3g > %d*dt'
                     % (j, got[j], chord[j], runs[j], dt, n, abs(got[j] - chord[j]), max(1, runs[j])), desc)
            ok = False
        k = got[j] / dt
        if RULE_KNOWN[0] and abs(k - round(k)) > 1e-6 * max(1.0, abs(k)) and not ctx.extra.get('dt_rule_mismatch'):
            # tie between the sampling rule read from the source and the behaviour (not a clause of the property)
            ctx.extra['dt_rule_mismatch'] = True
            ctx.broke('correspondence', 'C10 sampling rule: entries are not integer multiples of the dt the source text implies',
                      dict(source=j, entry=got[j], dt=dt, n=n, input=desc))
    tot = sum(got)
    if abs(tot - active_chord) > dt * max(1, active_runs) * (1 + TOL) + tiny:
        ctx.fail('C10:%s:total-vs-active-chord' % cfg['geo'],
                 'sum of entries %r, chord in active cells %r (%d active runs), dt %r' % (tot, active_chord, active_runs, dt), desc)
        ok = False
    if all(int(vm[c]) >= 0 for _, _, c in pcs) and not (on_axis and (vm[0, :, :] < 0).any()) \
            and _contacts_active(cfg, seg, pcs, vm):
        if abs(tot - L) > 1e-9 * L + slack:
            ctx.fail('C10:%s:total-vs-length' % cfg['geo'], 'all traversed cells active: sum of entries %r != path length %r' % (tot, L), desc)
            ok = False
        ctx.count('S:all-active')
    else:
        ctx.count('S:some-inactive')
    ctx.count('S:max-intervals-per-source=%d' % min(max(runs + [0]), 4))
    if dt > 2 * step and L >= step:
        ctx.fail('C10:dt-exceeds-two-steps', 'dt %r > 2*step %r for length %r' % (dt, step, L), desc)
        ok = False
    return ok


def _near_sources(cfg, vm, pcs):
    sh = cfg['shape']
    near = set()
    for _, _, c in pcs:
        for di in (-1, 0, 1):
            for dj in (-1, 0, 1):
                for dk in (-1, 0, 1):
                    i, j, k = c[0] + di, c[1] + dj, c[2] + dk
                    if cfg['geo'] == 'cyl':
                        j %= sh[1]
                    if 0 <= i < sh[0] and 0 <= j < sh[1] and 0 <= k < sh[2]:
                        near.add(int(vm[i, j, k]))
    if cfg['geo'] == 'cyl' and cfg['rmin'] == 0.0:
        # near the axis every phi sector is adjacent
        if any(c[0] == 0 for _, _, c in pcs):
            for j in range(sh[1]):
                for c in pcs:
                    near.add(int(vm[0, j, c[2][2]]))
    return near


def cell_entries(ctx, cfg, step, ms, seg, ent, spec0, desc):
    """entries per grid cell under the one-source-per-cell map (C order), or None"""
    if cfg['kind'] == 'id':
        return [a - b for a, b in zip(ent, spec0)]
    st, ent_id = impl_integrate(cfg, step, ms, seg, None, ident=True)
    if st != 'ok':
        ctx.fail('C10:%s:identity-map-raised' % cfg['geo'], 'identity map raised %s where the mapped emitter did not' % st, desc)
        return None
    return ent_id


def check_literal(ctx, cfg, step, ms, seg, L, pcs, cells, desc, slack=0.0):
    """the literal clause: every CELL's entry is within two integration steps (2*step) of its exact chord.
    cells: entries per grid cell under the identity map.  Signatures:
      > (#intervals)*dt                      -> C10:<geo>:cell-entry-vs-chord                       (sampling broken)
      > 2*step, >= 3 intervals               -> C10:cyl:cell-error-exceeds-two-steps:multi-interval  (inherent to sampling)
      > 2*step, <= 2 intervals               -> C10:<geo>:cell-error-exceeds-two-steps:coarse-step   (dt > step; notes/fixes/C10-1.diff)"""
    if L < 0.1 * step or cells is None:
        return
    n, dt = doc_plan(L, step, ms, cfg['geo'])
    sh = cfg['shape']
    chord, runs = {}, {}
    prev = None
    for t0, t1, c in pcs:
        if c is None:
            prev = None
            continue
        chord[c] = chord.get(c, 0.0) + (t1 - t0)
        if prev != c:
            runs[c] = runs.get(c, 0) + 1
        prev = c
    for iz in _axis_iz(cfg, seg, pcs):
        for jp in range(sh[1]):
            chord.setdefault((0, jp, iz), 0.0)
            runs[(0, jp, iz)] = runs.get((0, jp, iz), 0) + 1
    real = [p for p in pcs if p[2] is not None]
    for i, ccells in _contact_cells(cfg, seg, real):
        for c in ccells - {real[i - 1][2], real[i][2]}:
            chord.setdefault(c, 0.0)
            runs[c] = runs.get(c, 0) + 1
    tiny = 1e-12 * max(L, 1.0) + slack
    for c, ch in chord.items():
        e = cells[(c[0] * sh[1] + c[1]) * sh[2] + c[2]]
        err = abs(e - ch)
        k = runs[c]
        info = 'cell %r: entry %r, exact chord %r in %d interval(s); |diff| = %.6g = %.3f*step = %.3f*dt (step %r, dt %r, n %d)' % (
            c, e, ch, k, err, err / step, err / dt, step, dt, n)
        if err > k * dt * (1 + TOL) + tiny:
            ctx.fail('C10:%s:cell-entry-vs-chord' % cfg['geo'], info + ' exceeds the sampling bound (#intervals)*dt', desc)
        elif err > 2 * step * (1 + TOL) + tiny:
            if k >= 3:
                ctx.count('literal:>2*step:%d-intervals' % min(k, 6))
                ctx.fail('C10:%s:cell-error-exceeds-two-steps:multi-interval' % cfg['geo'], info, desc)
            else:
                ctx.count('literal:>2*step:coarse-step')
                ctx.fail('C10:%s:cell-error-exceeds-two-steps:coarse-step' % cfg['geo'], info, desc)
        else:
            ctx.count('literal:within-2*step')


# ----------------------------------------------------------------------------------------------- segments
def pick(rng, lo, hi, edge, q=0.125):
    if edge:
        k0, k1 = math.ceil(lo / q), math.floor(hi / q)
        return q * rng.randint(k0, max(k0, k1))
    return rng.uniform(lo, hi)


def seg_cart(rng, cfg, edge):
    sh, st = cfg['shape'], cfg['steps']
    ext = [sh[a] * st[a] for a in range(3)]
    cls = rng.choice(['random', 'random', 'axis', 'face-to-face', 'corner', 'inside-short', 'out-of-range'])
    hi = [e * (1 - 1e-9) if not edge else e - 0.125 * min(st) for e in ext]
    q = 0.125 * min(st) if edge else None

    def pt():
        return [pick(rng, 0.0, hi[a], edge, q or 1) for a in range(3)]
    if cls == 'axis':
        a = rng.randrange(3)
        s = pt()
        e = list(s)
        s[a], e[a] = (0.0 if rng.random() < 0.5 else pick(rng, 0, hi[a], edge, q or 1)), hi[a]
        if rng.random() < 0.5:
            s, e = e, s
    elif cls == 'face-to-face':
        a = rng.randrange(3)
        s, e = pt(), pt()
        s[a], e[a] = 0.0, hi[a]
    elif cls == 'corner':
        # through grid vertices: from one lattice vertex to another
        s = [st[a] * rng.randint(0, sh[a]) for a in range(3)]
        e = [st[a] * rng.randint(0, sh[a]) for a in range(3)]
        s = [min(s[a], hi[a]) for a in range(3)]
        e = [min(e[a], hi[a]) for a in range(3)]
    elif cls == 'inside-short':
        s = pt()
        d = rng.choice([1e-3, 0.05, 0.3]) * min(st)
        e = [min(max(s[a] + rng.uniform(-d, d), 0.0), hi[a]) for a in range(3)]
    elif cls == 'out-of-range':
        s, e = pt(), pt()
        a = rng.randrange(3)
        e[a] = ext[a] + rng.choice([0.0, 0.5, 2.0]) * st[a] if rng.random() < 0.6 else -rng.choice([1.0, 1.5, 3.0]) * st[a]
    else:
        s, e = pt(), pt()
    return cls, s + e


def seg_cyl(rng, cfg, edge):
    sh = cfg['shape']
    dr, dphi, dz = cfg['steps']
    rmin = cfg['rmin']
    rmax = rmin + sh[0] * dr
    zmax = sh[2] * dz
    cls = rng.choice(['random', 'random', 'chord', 'tangent-rmin', 'radial', 'vertical', 'inside-short', 'out-of-range', 'through-axis'])
    hi_r = rmax * (1 - 1e-9) if not edge else rmax - 0.125 * dr
    hi_z = zmax * (1 - 1e-9) if not edge else zmax - 0.125 * dz

    def z():
        return pick(rng, 0.0, hi_z, edge, 0.125 * dz)

    def polar(r, ph):
        return [r * math.cos(ph), r * math.sin(ph)]

    def pt():
        r = rng.uniform(rmin * (1 + 1e-9), hi_r)
        return polar(r, rng.uniform(-math.pi, math.pi)) + [z()]
    if cls == 'chord':
        # both ends on the outer radius region; may cross the hole when rmin > 0 (then S skips it, K still compares)
        s = polar(hi_r, rng.uniform(-math.pi, math.pi)) + [z()]
        e = polar(hi_r, rng.uniform(-math.pi, math.pi)) + [z()]
    elif cls == 'tangent-rmin':
        ph = rng.uniform(-math.pi, math.pi)
        r0 = max(rmin, 0.0) * (1 + rng.choice([1e-9, 1e-6, 1e-3])) if rmin > 0 else rng.choice([0.0, 1e-6, 0.01]) * dr
        h = math.sqrt(max(hi_r * hi_r - r0 * r0, 0.0)) * rng.uniform(0.3, 1.0)
        c, sn = math.cos(ph), math.sin(ph)
        s = [r0 * c + h * sn, r0 * sn - h * c, z()]
        e = [r0 * c - h * sn, r0 * sn + h * c, z()]
    elif cls == 'radial':
        ph = rng.choice([0.0, math.pi / 2, math.pi, -math.pi / 2, rng.uniform(-math.pi, math.pi)])
        s = polar(rmin * (1 + 1e-9) if rmin > 0 else 0.0, ph) + [z()]
        e = polar(hi_r, ph) + [z()]
        if rng.random() < 0.5:
            s, e = e, s
    elif cls == 'vertical':
        p = polar(rng.uniform(rmin * (1 + 1e-9), hi_r), rng.uniform(-math.pi, math.pi))
        s, e = p + [0.0], p + [hi_z]
    elif cls == 'through-axis':
        ph = rng.uniform(-math.pi, math.pi)
        s = polar(hi_r, ph) + [z()]
        e = polar(hi_r * rng.uniform(0.2, 1.0), ph + math.pi) + [z()]
        if edge:
            s, e = [hi_r, 0.0, z()], [-hi_r, 0.0, z()]
    elif cls == 'inside-short':
        s = pt()
        d = rng.choice([1e-3, 0.05, 0.3]) * min(dr, dz)
        e = [s[0] + rng.uniform(-d, d), s[1] + rng.uniform(-d, d), min(max(s[2] + rng.uniform(-d, d), 0.0), hi_z)]
    elif cls == 'out-of-range':
        s, e = pt(), pt()
        k = rng.random()
        if k < 0.4:
            e = polar(rmax + rng.choice([0.0, 0.5, 2.0]) * dr, rng.uniform(-math.pi, math.pi)) + [e[2]]
        elif k < 0.7:
            e[2] = zmax + rng.choice([0.0, 0.5, 2.0]) * dz
        else:
            e[2] = -rng.choice([1.0, 1.5, 3.0]) * dz
    else:
        s, e = pt(), pt()
    if edge:
        s = [round(v * 64) / 64 for v in s]
        e = [round(v * 64) / 64 for v in e]
    return cls, s + e


def rnd_step(rng, cfg, L, edge, cap):
    st = cfg['steps']
    cell = min(st) if cfg['geo'] == 'cart' else min(st[0], st[2])
    k = rng.random()
    if edge:
        step = rng.choice([0.125, 0.25, 0.5, 1.0, 0.0625]) * cell
    elif k < 0.4:
        step = 0.1 * cell
    elif k < 0.6:
        step = rng.uniform(0.005, 0.05) * cell
    elif k < 0.8:
        step = rng.uniform(0.5, 3.0) * cell
    else:
        step = rng.uniform(1.0, 30.0) * max(L, cell)          # step >> path: n = min_samples
    if L / step > cap:
        step = L / (cap * rng.uniform(0.5, 1.0))
    return step


# ----------------------------------------------------------------------------------------------- streams
def direct_stream(ctx, n_cases, cap):
    """K(a) + S on direct integrate calls"""
    rng = ctx.rng
    lines, metas = [], []
    cfg = None
    for it in range(n_cases):
        edge = (it % 4 == 3)
        if cfg is None or it % 3 == 0:
            geo = 'cart' if rng.random() < 0.45 else 'cyl'
            cfg = make_cart(rng, edge) if geo == 'cart' else make_cyl(rng, edge)
        cls, seg = (seg_cart if cfg['geo'] == 'cart' else seg_cyl)(rng, cfg, edge)
        L = math.dist(seg[:3], seg[3:])
        step = rnd_step(rng, cfg, max(L, 1e-6), edge, cap)
        ms = rng.choice([2, 2, 2, 3, 5, 17])
        mat = material(cfg)
        nb = mat.bins
        spec0 = [0.0] * nb if rng.random() < 0.7 else [rng.choice([0.0, 1.5, -2.25, 1e3]) for _ in range(nb)]
        short_bins = nb > 1 and rng.random() < 0.03      # Spectrum with too few bins: write is bounds-checked
        nbu = nb - 1 if short_bins else nb
        st, ent = impl_integrate(cfg, step, ms, seg, spec0[:nbu], nbins=nbu)
        vm = np.asarray(mat.voxel_map)
        lines.append(model_line(cfg, step, ms, seg, spec0[:nbu], vm, nbu))
        desc = dict(geo=cfg['geo'], shape=cfg['shape'], steps=cfg['steps'], rmin=cfg.get('rmin'), period=cfg.get('period'),
                    voxel_map=vm.ravel().tolist(), step=step, min_samples=ms, segment=seg, spec0=spec0[:nbu], cls=cls, edge=edge)
        metas.append(dict(cfg=cfg, step=step, ms=ms, seg=seg, spec0=spec0[:nbu], st=st, ent=ent, desc=desc, cls=cls, short=short_bins, L=L))
        ctx.count('K:%s:%s%s' % (cfg['geo'], cls, ':edge' if edge else ''))
        ctx.count('map:' + cfg['kind'])
    outs = ctx.driver(lines)
    for m, o in zip(metas, outs):
        mst, ment = parse_model(o)
        ctx.traces += 1
        cfg, desc = m['cfg'], m['desc']
        nontrivial = m['st'] == 'ok' and any(a != b for a, b in zip(m['ent'], m['spec0']))
        ctx.case(key=(cfg['geo'], cfg['shape'], f2b(m['step']), tuple(f2b(v) for v in m['seg'])) if nontrivial else None,
                 sample=dict(kind='direct', input={k: desc[k] for k in ('geo', 'shape', 'steps', 'step', 'segment', 'cls')},
                             entries=m['ent']) if nontrivial and ctx.rng.random() < 0.01 else None)
        agree = (mst == m['st']) and (mst != 'ok' or close(ment, m['ent'], TOL, 1e-300))
        if mst != 'ok' or m['st'] != 'ok':
            ctx.count('K:status:%s' % m['st'])
        if not agree:
            ctx.disagreements += 1
            ctx.broke('correspondence', 'C10 direct integrate (%s, %s)' % (cfg['geo'], m['cls']),
                      dict(model=(mst, ment), implementation=(m['st'], m['ent']), input=desc))
        # S: only for segments inside the grid and a spectrum of the right size
        if m['st'] == 'ok' and not m['short']:
            L, pcs = pieces(cfg, m['seg'])
            if pcs is None:
                ctx.count('S:skipped-leaves-grid')
            else:
                check_oracle(ctx, cfg, m['step'], m['ms'], m['seg'], m['spec0'], m['ent'], desc, L, pcs)
                cells = cell_entries(ctx, cfg, m['step'], m['ms'], m['seg'], m['ent'], m['spec0'], desc)
                check_merge(ctx, m, cells)
                check_literal(ctx, cfg, m['step'], m['ms'], m['seg'], L, pcs, cells, desc)
        elif m['st'] != 'ok' and not m['short']:
            # an exception is only legitimate when the path leaves the grid
            L, pcs = pieces(cfg, m['seg'])
            if pcs is not None and _well_inside(cfg, m['seg']):
                ctx.fail('C10:%s:in-grid-segment-raised' % cfg['geo'], 'integrate raised %s for a segment inside the grid' % m['st'], desc)


def _well_inside(cfg, seg):
    """both end points at least 1e-6 cell away from the outer faces (no rounding ambiguity)"""
    sh, st = cfg['shape'], cfg['steps']
    for p in (seg[:3], seg[3:]):
        if cfg['geo'] == 'cart':
            for a in range(3):
                if not (0.0 <= p[a] <= sh[a] * st[a] * (1 - 1e-6)):
                    return False
        else:
            r = math.hypot(p[0], p[1])
            if not (cfg['rmin'] <= r <= (cfg['rmin'] + sh[0] * st[0]) * (1 - 1e-6) and 0.0 <= p[2] <= sh[2] * st[2] * (1 - 1e-6)):
                return False
    return True


def check_merge(ctx, m, ent_id):
    """entry under the map == sum over cells of the entries under the one-source-per-cell map"""
    cfg = m['cfg']
    if cfg['kind'] == 'id' or ent_id is None:
        return
    vm = vmap_of(cfg).ravel()
    nb = len(m['ent'])
    want = [0.0] * nb
    lost = 0.0
    for c, v in enumerate(ent_id):
        s = int(vm[c])
        if s >= 0:
            want[s] += v
        else:
            lost += v
    got = [m['ent'][j] - m['spec0'][j] for j in range(nb)]
    scale = max([abs(v) for v in ent_id] + [1e-300])
    bad = [j for j in range(nb) if abs(got[j] - want[j]) > 1e-9 * scale]
    ctx.count('S:merge-checked:' + cfg['kind'])
    if bad:
        j = bad[0]
        ctx.fail('C10:%s:merged-entry-not-sum-of-cells' % cfg['geo'],
                 'source %d: entry %r but the cells mapped to it receive %r in total under the identity map' % (j, got[j], want[j]), m['desc'])


def maps_stream(ctx, n_cases):
    """K: voxel_map from mask, bins, mask getter"""
    from cherab.tools.raytransfer import CartesianRayTransferEmitter
    rng = ctx.rng
    lines, exp = [], []
    for it in range(n_cases):
        shape = tuple(rng.randint(1, 5) for _ in range(3))
        n = shape[0] * shape[1] * shape[2]
        if it % 2 == 0:
            p = rng.choice([0.0, 0.2, 0.5, 0.9, 1.0])
            mask = np.array([rng.random() < p for _ in range(n)], dtype=bool).reshape(shape)
            mat = CartesianRayTransferEmitter(shape, (1.0, 1.0, 1.0), mask=mask)
            lines.append('mask ' + ' '.join('1' if b else '0' for b in mask.ravel()))
            exp.append('%d ' % mat.bins + ' '.join(str(int(v)) for v in np.asarray(mat.voxel_map).ravel()))
            # direct property: True cells numbered 0..k-1 in C order, False cells -1, bins = k
            vm = np.asarray(mat.voxel_map).ravel()
            k = int(mask.sum())
            ok = mat.bins == k and list(vm[mask.ravel()]) == list(range(k)) and all(v == -1 for v in vm[~mask.ravel()])
            if not ok:
                ctx.fail('C10:map-from-mask', 'mask %r gives voxel_map %r bins %r' % (mask.ravel().tolist(), vm.tolist(), mat.bins),
                         dict(shape=shape, mask=mask.ravel().tolist()))
            ctx.case(key=('mask', shape, tuple(mask.ravel().tolist())) if 0 < k else None)
        else:
            v = np.array([rng.randint(-1, 7) for _ in range(n)], dtype=np.int64).reshape(shape)
            mat = CartesianRayTransferEmitter(shape, (1.0, 1.0, 1.0), voxel_map=v)
            lines.append('vbins ' + ' '.join(str(int(t)) for t in v.ravel()))
            exp.append('%d ' % mat.bins + ' '.join('1' if b else '0' for b in np.asarray(mat.mask).ravel()))
            if mat.bins != int(v.max()) + 1:
                ctx.fail('C10:bins', 'bins %r for voxel_map max %r' % (mat.bins, v.max()), dict(shape=shape, voxel_map=v.ravel().tolist()))
            ctx.case(key=('vbins', shape, tuple(v.ravel().tolist())))
        ctx.count('K:maps')
    outs = ctx.driver(lines)
    for l, e, o in zip(lines, exp, outs):
        ctx.traces += 1
        if e != o:
            ctx.disagreements += 1
            ctx.broke('correspondence', 'C10 voxel map / bins', dict(line=l[:200], model=o[:200], implementation=e[:200]))


# ----------------------------------------------------------------------------------------------- end to end
def _recording(cls):
    class Rec(cls):
        def integrate(self, spectrum, world, ray, primitive, material, start_point, end_point, world_to_primitive, primitive_to_world):
            s = start_point.transform(world_to_primitive)
            e = end_point.transform(world_to_primitive)
            self.log.append([s.x, s.y, s.z, e.x, e.y, e.z])
            return cls.integrate(self, spectrum, world, ray, primitive, material, start_point, end_point, world_to_primitive, primitive_to_world)
    return Rec


def rnd_transform(rng):
    from raysect.optical import translate, rotate_x, rotate_y, rotate_z, AffineMatrix3D
    k = rng.random()
    if k < 0.25:
        return None
    t = translate(rng.uniform(-3, 3), rng.uniform(-3, 3), rng.uniform(-3, 3))
    if k < 0.5:
        return t
    return t * rotate_z(rng.uniform(-180, 180)) * rotate_x(rng.uniform(-90, 90)) * rotate_y(rng.uniform(-90, 90))


def clip_box(o, d, upper):
    t0, t1 = 0.0, math.inf
    for a in range(3):
        if d[a] == 0.0:
            if not (0.0 <= o[a] <= upper[a]):
                return None
        else:
            ta, tb = (0.0 - o[a]) / d[a], (upper[a] - o[a]) / d[a]
            if ta > tb:
                ta, tb = tb, ta
            t0, t1 = max(t0, ta), min(t1, tb)
    return (t0, t1) if t1 > t0 else None


def clip_cyl(o, d, r_in, r_out, h):
    """t-intervals of the ray (t>=0) inside r_in <= r <= r_out, 0 <= z <= h"""
    zi = clip_box(o, d, [math.inf, math.inf, h])
    # clip_box with infinite x/y: handle z only
    t0, t1 = 0.0, math.inf
    if d[2] == 0.0:
        if not (0.0 <= o[2] <= h):
            return []
    else:
        ta, tb = (0.0 - o[2]) / d[2], (h - o[2]) / d[2]
        if ta > tb:
            ta, tb = tb, ta
        t0, t1 = max(t0, ta), min(t1, tb)
    a2 = d[0] * d[0] + d[1] * d[1]
    b = o[0] * d[0] + o[1] * d[1]

    def circle(R):
        c = o[0] * o[0] + o[1] * o[1] - R * R
        if a2 == 0.0:
            return (-math.inf, math.inf) if c <= 0 else None
        disc = b * b - a2 * c
        if disc <= 0:
            return None
        q = math.sqrt(disc)
        return ((-b - q) / a2, (-b + q) / a2)
    outer = circle(r_out)
    if outer is None:
        return []
    t0, t1 = max(t0, outer[0]), min(t1, outer[1])
    if t1 <= t0:
        return []
    inner = circle(r_in) if r_in > 0 else None
    if inner is None:
        return [(t0, t1)]
    res = []
    if inner[0] > t0:
        res.append((t0, min(t1, inner[0])))
    if inner[1] < t1:
        res.append((max(t0, inner[1]), t1))
    return [(a, b_) for a, b_ in res if b_ > a]


def build_rt(ctx, cfg, step_arg, tr, world):
    """real RayTransferBox / RayTransferCylinder for a configuration, with a recording integrator; also returns the
    documented bounding primitive (re-derived here, not read from the object), and the model line for the geometry"""
    from cherab.tools.raytransfer import RayTransferBox, RayTransferCylinder
    from cherab.tools.raytransfer.emitters import CartesianRayTransferIntegrator, CylindricalRayTransferIntegrator
    sh = cfg['shape']
    if cfg['geo'] == 'cart':
        ext = [sh[a] * cfg['steps'][a] for a in range(3)]
        rt = RayTransferBox(ext[0], ext[1], ext[2], sh[0], sh[1], sh[2], step=step_arg, voxel_map=cfg['vmap'], mask=cfg['mask'],
                            parent=world, transform=tr)
        gline = 'boxgeom %s %d %d %d' % (fs(ext), sh[0], sh[1], sh[2])
        up, lo = rt._primitive.upper, rt._primitive.lower
        gexp = [rt.material.dx, rt.material.dy, rt.material.dz, rt.step if step_arg is None else None, up.x, up.y, up.z]
        if (lo.x, lo.y, lo.z) != (0.0, 0.0, 0.0) and not ctx.extra.get('box_lower_moved'):
            ctx.extra['box_lower_moved'] = True
            ctx.broke('correspondence', 'C10 bounding primitive: Box lower corner is not the grid origin', dict(lower=(lo.x, lo.y, lo.z), ext=ext))
        cfg['steps'] = (rt.material.dx, rt.material.dy, rt.material.dz)
        bound = dict(kind='box', upper=[ext[a] - 1e-5 * ext[a] / sh[a] for a in range(3)], centre=[0.5 * e for e in ext], size=max(ext))
        rec = _recording(CartesianRayTransferIntegrator)(rt.step)
    else:
        rin = cfg['rmin']
        rout, h = rin + sh[0] * cfg['steps'][0], sh[2] * cfg['steps'][2]
        rt = RayTransferCylinder(rout, h, sh[0], sh[2], radius_inner=rin, n_polar=sh[1], period=cfg['period'], step=step_arg,
                                 voxel_map=cfg['vmap'], mask=cfg['mask'], parent=world, transform=tr)
        gline = 'cylgeom %s %d %d %s %d %s' % (fs([rout, h]), sh[0], sh[2], f2b(rin), sh[1], f2b(cfg['period']))
        pa, pb = rt._primitive.primitive_a, rt._primitive.primitive_b
        gexp = [rt.material.dr, rt.material.dphi, rt.material.dz, rt.step if step_arg is None else None, pa.radius, pb.radius, pa.height]
        if pb.height != pa.height:
            gexp[-1] = float('nan')
        cfg['steps'] = (rt.material.dr, rt.material.dphi, rt.material.dz)
        dr_, dz_ = (rout - rin) / sh[0], h / sh[2]
        bound = dict(kind='cyl', r_in=rin + 1e-5 * dr_, r_out=rout - 1e-5 * dr_, h=h - 1e-5 * dz_, centre=[0.0, 0.0, 0.5 * h],
                     size=max(2 * rout, h))
        rec = _recording(CylindricalRayTransferIntegrator)(rt.step)
    cfg['mat'] = rt.material
    rec.log = []
    rt.material.integrator = rec
    vm = np.asarray(rt.voxel_map)
    if rt.bins != int(vm.max()) + 1:
        ctx.fail('C10:bins', 'RayTransferObject.bins %r but voxel_map.max()+1 = %r' % (rt.bins, int(vm.max()) + 1), dict(voxel_map=vm.ravel().tolist()))
    return rt, rec, bound, gline, gexp


def gen_ray(rng, cfg, bound, edge):
    """ray in the object's local frame: (origin, unit direction, class)"""
    centre, size = bound['centre'], bound['size']
    k = rng.random()
    if k < 0.08 and not edge:
        # origin exactly ON the surface of the bounding primitive, looking inwards (a detector flush with a grid face):
        # raysect then hands the integrator a zero-length segment in addition to the real chord
        if bound['kind'] == 'box':
            a = rng.randrange(3)
            o = [rng.uniform(0.1, 0.9) * bound['upper'][b] for b in range(3)]
            lowface = rng.random() < 0.5
            o[a] = 0.0 if lowface else bound['upper'][a]
            d = [rng.uniform(-0.5, 0.5) for _ in range(3)]
            d[a] = 1.0 if lowface else -1.0
        else:
            r0 = rng.uniform(bound['r_in'] + 0.1 * cfg['steps'][0], bound['r_out'] - 0.1 * cfg['steps'][0])
            ph = rng.uniform(-math.pi, math.pi)
            top = rng.random() < 0.5
            o = [r0 * math.cos(ph), r0 * math.sin(ph), bound['h'] if top else 0.0]
            d = [rng.uniform(-0.3, 0.3), rng.uniform(-0.3, 0.3), -1.0 if top else 1.0]
        nd = math.sqrt(sum(c * c for c in d))
        return o, [c / nd for c in d], 'on-surface'
    if k < 0.2:
        if bound['kind'] == 'box':
            o = [rng.uniform(0.05, 0.95) * bound['upper'][a] for a in range(3)]
        else:
            r0 = rng.uniform(bound['r_in'] + 0.05 * cfg['steps'][0], bound['r_out'] - 0.05 * cfg['steps'][0])
            ph = rng.uniform(-math.pi, math.pi)
            o = [r0 * math.cos(ph), r0 * math.sin(ph), rng.uniform(0.05, 0.95) * bound['h']]
        d = [rng.gauss(0, 1) for _ in range(3)]
        rcls = 'inside'
    elif k < 0.4 or edge:
        a = rng.randrange(3)
        if bound['kind'] == 'box':
            o = [pick(rng, 0.0, bound['upper'][b] * 0.999, edge, 0.125 * cfg['steps'][b]) for b in range(3)]
        else:
            r0 = rng.uniform(0.0, bound['r_out'] * 0.999)
            ph = rng.uniform(-math.pi, math.pi)
            o = [r0 * math.cos(ph), r0 * math.sin(ph), rng.uniform(0.001, 0.999) * bound['h']]
            if edge:
                o = [round(v * 16) / 16 for v in o]
        sgn = rng.choice([-1.0, 1.0])
        o[a] = centre[a] - sgn * 2.0 * size
        d = [0.0, 0.0, 0.0]
        d[a] = sgn
        rcls = 'axis'
    else:
        tgt = [centre[a] + rng.uniform(-0.45, 0.45) * size for a in range(3)]
        d = [rng.gauss(0, 1) for _ in range(3)]
        nd = math.sqrt(sum(c * c for c in d))
        d = [c / nd for c in d]
        o = [tgt[a] - 2.0 * size * d[a] for a in range(3)]
        rcls = 'random'
    nd = math.sqrt(sum(c * c for c in d))
    return o, [c / nd for c in d], rcls


def trace_ray(ctx, cfg, rt, rec, tr, bound, o, d, rcls, step_arg, world, lines):
    """trace one ray through the real scene; returns the meta record (model lines appended to `lines`) or None"""
    from raysect.optical import Ray, Point3D, Vector3D
    if bound['kind'] == 'box':
        iv = clip_box(o, d, bound['upper'])
        ivs = [iv] if iv else []
    else:
        ivs = clip_cyl(o, d, bound['r_in'], bound['r_out'], bound['h'])
    po, vd = Point3D(*o), Vector3D(*d)
    if tr is not None:
        po, vd = po.transform(tr), vd.transform(tr)
    rec.log = []
    vm = np.asarray(rt.voxel_map)
    ray = Ray(origin=po, direction=vd, min_wavelength=500.0, max_wavelength=501.0, bins=rt.bins)
    st, sp = call(ray.trace, world)
    desc = dict(kind='e2e', geo=cfg['geo'], shape=cfg['shape'], steps=cfg['steps'], rmin=cfg.get('rmin'), period=cfg.get('period'),
                voxel_map=vm.ravel().tolist(), step=rt.step, step_arg=step_arg, origin=o, direction=d,
                transform=[[tr[i, j] for j in range(4)] for i in range(4)] if tr is not None else None, cls=rcls)
    ctx.count('E:%s:%s' % (cfg['geo'], rcls))
    if st != 'ok':
        ctx.fail('C10:%s:trace-raised' % cfg['geo'], 'Ray.trace raised %s: %s' % (st, sp), desc)
        return None
    ent = [float(v) for v in sp.samples]
    segs = [list(s) for s in rec.log]
    m = dict(cfg=cfg, step=rt.step, ent=ent, segs=segs, desc=desc, first=len(lines), ivs=ivs, o=o, d=d, vm=vm)
    for s in segs:
        lines.append(model_line(cfg, rt.step, 2, s, [0.0] * rt.bins, vm, rt.bins))
    return m


def judge_e2e(ctx, metas, outs, glines, gexp, gout):
    for gl, ge, go in zip(glines, gexp, gout):
        ctx.traces += 1
        mod = [b2f(t) for t in go.split()]
        ge = list(ge)
        if ge[3] is None:                       # explicit step given: the default-step rule is not exercised
            mod[3] = ge[3] = 0.0
        if not close(mod, ge, 1e-15, 0.0):
            ctx.disagreements += 1
            ctx.broke('correspondence', 'C10 bounding primitive / grid steps', dict(line=gl, model=mod, implementation=ge))
            # S: is the primitive still inside the grid?  (the property needs every sample index in range)
    for m in metas:
        cfg, desc = m['cfg'], m['desc']
        nb = len(m['ent'])
        tot = [0.0] * nb
        okm = True
        for i, s in enumerate(m['segs']):
            mst, ment = parse_model(outs[m['first'] + i])
            if mst != 'ok':
                okm = False
                break
            tot = [a + b for a, b in zip(tot, ment)]
        ctx.traces += 1
        nontrivial = any(v != 0.0 for v in m['ent'])
        ctx.case(key=('e2e', cfg['geo'], cfg['shape'], tuple(f2b(v) for v in m['o'] + m['d'])) if nontrivial else None,
                 sample=dict(kind='e2e', input={k: desc[k] for k in ('geo', 'shape', 'steps', 'step', 'origin', 'direction')}, entries=m['ent'])
                 if nontrivial and ctx.rng.random() < 0.02 else None)
        if not okm or not close(tot, m['ent'], TOL, 1e-300):
            ctx.disagreements += 1
            ctx.broke('correspondence', 'C10 end-to-end (%s): model over recorded segments vs traced spectrum' % cfg['geo'],
                      dict(model=tot if okm else 'IndexError', implementation=m['ent'], segments=m['segs'], input=desc))
        # S: segments expected from exact clipping vs what raysect handed to the integrator
        ivs = m['ivs']
        o, d = m['o'], m['d']
        exp_segs = [[o[a] + d[a] * t0 for a in range(3)] + [o[a] + d[a] * t1 for a in range(3)] for t0, t1 in ivs]
        scale = max(1.0, max(abs(c) for c in o))
        grazing = any((t1 - t0) < 1e-4 * scale for t0, t1 in ivs) or _grazes(cfg, o, d)
        if grazing:
            ctx.count('E:grazing-skipped')
            continue
        # raysect integrates from the far end towards the ray origin: orient the recorded segments along the ray
        rsegs = sorted([(sg if _along(sg[:3], o, d) <= _along(sg[3:], o, d) else sg[3:] + sg[:3]) for sg in m['segs']
                        if math.dist(sg[:3], sg[3:]) > 1e-9 * scale],          # zero-length segments (origin on the surface) carry nothing
                       key=lambda sg: _along(sg, o, d))
        # tolerance: well above the 1e-5-cell shrink (its exact size is compared with the model, K), well below a sample step
        cellmin = min(cfg['steps']) if cfg['geo'] == 'cart' else min(cfg['steps'][0], cfg['steps'][2])
        tolseg = 1e-4 * cellmin + 1e-6 * scale
        if len(exp_segs) != len(rsegs) or any(max(abs(a - b) for a, b in zip(es, gs)) > tolseg for es, gs in zip(exp_segs, rsegs)):
            ctx.fail('C10:%s:bounding-primitive' % cfg['geo'],
                     'integrated segments %r differ from the exact intersection with the documented bounding primitive %r' % (m['segs'], exp_segs), desc)
            continue
        ctx.count('E:segments=%d' % len(rsegs))
        ok = True
        acc = [0.0] * nb
        for s in m['segs']:
            # entries of a single segment are not observable separately in the traced spectrum: re-integrate it with the real integrator
            st, e1 = impl_integrate(cfg, m['step'], 2, s, None)
            if st != 'ok':
                ctx.fail('C10:%s:segment-raised' % cfg['geo'], 'integrate raised %s on a segment inside the bounding primitive' % st, desc)
                ok = False
                break
            acc = [a + b for a, b in zip(acc, e1)]
            ok = check_oracle(ctx, cfg, m['step'], 2, s, [0.0] * nb, e1, desc, slack=1e-7 * scale) and ok
            Ls, ps = pieces(cfg, s)
            if ps is not None:
                check_literal(ctx, cfg, m['step'], 2, s, Ls, ps, cell_entries(ctx, cfg, m['step'], 2, s, e1, [0.0] * nb, desc), desc,
                              slack=1e-7 * scale)
        if ok and not close(acc, m['ent'], TOL, 1e-300):
            ctx.fail('C10:%s:trace-not-sum-of-segments' % cfg['geo'], 'traced spectrum %r is not the sum over the path segments %r' % (m['ent'], acc), desc)


def e2e_stream(ctx, n_cases, cap):
    """K(b) + S end to end through RayTransferBox / RayTransferCylinder and Ray.trace"""
    from raysect.optical import World
    rng = ctx.rng
    lines, metas, glines, gexp = [], [], [], []
    for it in range(n_cases):
        edge = it % 5 == 4
        world = World()
        tr = None if edge else rnd_transform(rng)
        cfg = make_cart(rng, edge) if rng.random() < 0.45 else make_cyl(rng, edge)
        sh = cfg['shape']
        if cfg['geo'] == 'cart':
            span = max(sh[a] * cfg['steps'][a] for a in range(3))
        else:
            span = max(2 * (cfg['rmin'] + sh[0] * cfg['steps'][0]), sh[2] * cfg['steps'][2])
        step_arg = None if rng.random() < 0.5 else rnd_step(rng, cfg, span, edge, cap)
        rt, rec, bound, gl, ge = build_rt(ctx, cfg, step_arg, tr, world)
        glines.append(gl)
        gexp.append(ge)
        for _ in range(3):
            o, d, rcls = gen_ray(rng, cfg, bound, edge)
            m = trace_ray(ctx, cfg, rt, rec, tr, bound, o, d, rcls, step_arg, world, lines)
            if m is not None:
                metas.append(m)
    outs = ctx.driver(lines) if lines else []
    gout = ctx.driver(glines)
    judge_e2e(ctx, metas, outs, glines, gexp, gout)


def replay_e2e(ctx, r):
    from raysect.optical import World, AffineMatrix3D
    cfg = cfg_from_desc(r)
    world = World()
    tr = AffineMatrix3D(r['transform']) if r.get('transform') else None
    rt, rec, bound, gl, ge = build_rt(ctx, cfg, r.get('step_arg'), tr, world)
    lines = []
    m = trace_ray(ctx, cfg, rt, rec, tr, bound, r['origin'], r['direction'], r.get('cls', 'replay'), r.get('step_arg'), world, lines)
    outs = ctx.driver(lines) if lines else []
    gout = ctx.driver([gl])
    if m is not None:
        ctx.log('replay: traced spectrum %r' % (m['ent'],))
        ctx.log('replay: segments %r' % (m['segs'],))
    judge_e2e(ctx, [m] if m is not None else [], outs, [gl], [ge], gout)


def _along(s, o, d):
    return sum((s[a] - o[a]) * d[a] for a in range(3))


def _grazes(cfg, o, d):
    """ray passes within 1e-4 of an outer face/edge of the bounding primitive without a clear crossing"""
    sh, st = cfg['shape'], cfg['steps']
    if cfg['geo'] == 'cart':
        for a in range(3):
            if d[a] == 0.0:
                ext = sh[a] * st[a]
                if abs(o[a]) < 1e-4 * st[a] or abs(o[a] - ext) < 1e-4 * st[a]:
                    return True
        return False
    a2 = d[0] * d[0] + d[1] * d[1]
    if a2 == 0.0:
        r = math.hypot(o[0], o[1])
        return abs(r - cfg['rmin']) < 1e-4 * st[0] or abs(r - cfg['rmin'] - sh[0] * st[0]) < 1e-4 * st[0]
    b = o[0] * d[0] + o[1] * d[1]
    p2 = max(o[0] * o[0] + o[1] * o[1] - b * b / a2, 0.0)
    p = math.sqrt(p2)
    for R in (cfg['rmin'], cfg['rmin'] + sh[0] * st[0]):
        if R > 0 and abs(p - R) < 1e-3 * st[0]:
            return True
    if d[2] == 0.0 and (abs(o[2]) < 1e-4 * st[2] or abs(o[2] - sh[2] * st[2]) < 1e-4 * st[2]):
        return True
    return False


def _in_phi_face(cfg, seg):
    dphi = cfg['steps'][1]
    hit = 0
    for p in (seg[:3], seg[3:]):
        if math.hypot(p[0], p[1]) < 1e-9:
            hit += 1
            continue
        f = math.degrees(math.atan2(p[1], p[0])) % dphi
        if min(f, dphi - f) < 1e-7:
            hit += 1
    return hit == 2


def period_stream(ctx, n_cases, cap):
    """S: rotating a segment by the period about the axis leaves the spectrum unchanged (up to samples that sit on a cell face)"""
    rng = ctx.rng
    for it in range(n_cases):
        cfg = make_cyl(rng)
        if cfg['shape'][1] == 1:
            cfg['shape'] = (cfg['shape'][0], rng.randint(2, 6), cfg['shape'][2])
            cfg['steps'] = (cfg['steps'][0], cfg['period'] / cfg['shape'][1], cfg['steps'][2])
            cfg['kind'] = 'id'
            cfg['vmap'] = cfg['mask'] = None
        cls, seg = seg_cyl(rng, cfg, False)
        L, pcs = pieces(cfg, seg)
        if pcs is None:
            continue
        if _in_phi_face(cfg, seg):
            # the whole path lies in a cell face phi = k*dphi: which side every sample falls on is decided by rounding
            ctx.count('P:path-in-a-phi-face-skipped')
            continue
        step = rnd_step(rng, cfg, max(L, 1e-6), False, cap)
        k = rng.randint(1, int(round(360.0 / cfg['period'])))
        a = math.radians(k * cfg['period'])
        c, s = math.cos(a), math.sin(a)
        rot = [c * seg[0] - s * seg[1], s * seg[0] + c * seg[1], seg[2], c * seg[3] - s * seg[4], s * seg[3] + c * seg[4], seg[5]]
        st1, e1 = impl_integrate(cfg, step, 2, seg, None)
        st2, e2 = impl_integrate(cfg, step, 2, rot, None)
        desc = dict(geo='cyl', shape=cfg['shape'], steps=cfg['steps'], rmin=cfg['rmin'], period=cfg['period'], step=step,
                    segment=seg, rotated=rot, k=k, voxel_map=vmap_of(cfg).ravel().tolist())
        ctx.count('P:period=%g' % cfg['period'])
        if st1 != 'ok' or st2 != 'ok':
            if _well_inside(cfg, seg):
                ctx.fail('C10:cyl:in-grid-segment-raised', 'integrate raised %s/%s' % (st1, st2), desc)
            continue
        Lr = math.dist(rot[:3], rot[3:])
        n, dt = doc_plan(L, step, 2, 'cyl')
        n2, _ = doc_plan(Lr, step, 2, 'cyl')
        if n != n2:
            ctx.count('P:n-differs-by-rounding')
            continue
        diff = max(abs(a_ - b_) for a_, b_ in zip(e1, e2))
        ctx.case(key=('period', cfg['shape'], f2b(cfg['period']), tuple(f2b(v) for v in seg)))
        if diff <= 1e-9 * max(L, 1.0):
            ctx.count('P:identical')
        elif diff <= dt * (1 + 1e-6):
            ctx.count('P:one-sample-on-a-face')
        else:
            ctx.fail('C10:cyl:not-periodic', 'rotation by %d x period %g changes an entry by %r (dt %r)' % (k, cfg['period'], diff, dt), desc)


# ----------------------------------------------------------------------------------------------- emission_function
def emission_stream(ctx, n_cases):
    """`emission_function` (cpdef; used when the emitter is combined with another volume integrator) at points inside the
    grid.  K: model `emit`; S: exactly one unit in the bin of the point's cell, nothing for an inactive cell."""
    from raysect.optical import Spectrum, Point3D, Vector3D
    rng = ctx.rng
    lines, metas = [], []
    cfg = None
    for it in range(n_cases):
        edge = it % 4 == 3
        if cfg is None or it % 3 == 0:
            cfg = make_cart(rng, edge) if rng.random() < 0.45 else make_cyl(rng, edge)
        geo, sh, st = cfg['geo'], cfg['shape'], cfg['steps']
        if geo == 'cart':
            p = [pick(rng, 0.0, sh[a] * st[a] * (1 - 1e-9) if not edge else sh[a] * st[a] - 0.125 * st[a], edge, 0.125 * st[a]) for a in range(3)]
        else:
            rmax = cfg['rmin'] + sh[0] * st[0]
            r = rng.uniform(cfg['rmin'] * (1 + 1e-9), rmax * (1 - 1e-9))
            ph = rng.choice([0.0, math.pi / 2, math.pi, -math.pi / 2, rng.uniform(-math.pi, math.pi), rng.uniform(-math.pi, math.pi)])
            p = [r * math.cos(ph), r * math.sin(ph), pick(rng, 0.0, sh[2] * st[2] * (1 - 1e-9) if not edge else sh[2] * st[2] - 0.125 * st[2], edge, 0.125 * st[2])]
        if rng.random() < 0.05:
            p[2] = sh[2] * st[2] * rng.choice([1.0, 1.5])          # outside: IndexError on both sides
        mat = material(cfg)
        world, ray, eye = _scene()
        sp = Spectrum(500.0, 501.0, mat.bins)
        stt, _ = call(mat.emission_function, Point3D(*p), Vector3D(0, 0, 1), sp, world, ray, None, eye, eye)
        ent = [float(v) for v in sp.samples] if stt == 'ok' else None
        vm = np.asarray(mat.voxel_map)
        head = '%s %d %d %d %d ' % ('ecart' if geo == 'cart' else 'ecyl', sh[0], sh[1], sh[2], mat.bins)
        nums = list(st) + ([] if geo == 'cart' else [cfg['rmin'], cfg['period']]) + p
        lines.append(head + fs(nums) + ' ' + ' '.join(str(int(v)) for v in vm.ravel()))
        desc = dict(kind='emission', geo=geo, shape=sh, steps=st, rmin=cfg.get('rmin'), period=cfg.get('period'), voxel_map=vm.ravel().tolist(), point=p)
        metas.append((stt, ent, desc))
        ctx.count('K:emission:%s' % geo)
        # S
        c = (cart_cell if geo == 'cart' else cyl_cell)(cfg, p)
        inside = all(0 <= c[a] < sh[a] for a in range(3))
        if not inside:
            continue
        # guard band: point within 1e-9 cell of a face -> which side is a matter of rounding, unless the coordinates are exact
        if not edge and _near_face(cfg, p):
            ctx.count('S:emission-guard-band-skipped')
            continue
        if stt != 'ok':
            ctx.fail('C10:%s:emission-raised' % geo, 'emission_function raised %s at a point inside the grid' % stt, desc)
            continue
        want = [0.0] * mat.bins
        if int(vm[c]) >= 0:
            want[int(vm[c])] = 1.0
        ctx.case(key=('emission', geo, sh, tuple(f2b(v) for v in p)) if any(want) else None)
        if edge and geo == 'cyl':
            continue               # dyadic cylindrical points can sit on r / phi faces, where sqrt/atan2 rounding decides: K only
        if ent != want:
            ctx.fail('C10:%s:emission-function' % geo, 'point %r lies in cell %r (source %d) but emission_function changed the spectrum by %r'
                     % (p, c, int(vm[c]), ent), desc)
    outs = ctx.driver(lines)
    for (stt, ent, desc), o in zip(metas, outs):
        mst, ment = parse_model(o)
        ctx.traces += 1
        if mst != stt or (mst == 'ok' and ment != ent):
            ctx.disagreements += 1
            ctx.broke('correspondence', 'C10 emission_function (%s)' % desc['geo'], dict(model=(mst, ment), implementation=(stt, ent), input=desc))


def _near_face(cfg, p):
    st = cfg['steps']
    if cfg['geo'] == 'cart':
        coords = [p[a] / st[a] for a in range(3)]
    else:
        r = math.hypot(p[0], p[1])
        coords = [(r - cfg['rmin']) / st[0], p[2] / st[2]]
        if cfg['shape'][1] > 1:
            coords.append((math.degrees(math.atan2(p[1], p[0])) % cfg['period']) / st[1])
    return any(abs(v - round(v)) < 1e-9 for v in coords)


# ----------------------------------------------------------------------------------------------- setter histories
def expected_map_from_mask(mask):
    """True cells numbered 0..k-1 in C order, False cells -1 (written with cumsum, not with the code's masked assignment)"""
    flat = mask.ravel().astype(bool)
    return np.where(flat, np.cumsum(flat) - 1, -1).astype(np.int32).reshape(mask.shape)


def rnd_map_op(rng, shape):
    """('mask', array, expected map) or ('voxel_map', array, expected map)"""
    n = shape[0] * shape[1] * shape[2]
    if rng.random() < 0.5:
        p = rng.choice([0.3, 0.6, 0.9])
        m = np.array([rng.random() < p for _ in range(n)], dtype=bool).reshape(shape)
        if not m.any():
            m.flat[rng.randrange(n)] = True
        return 'mask', m, expected_map_from_mask(m)
    nsrc = rng.randint(1, max(1, min(6, n)))
    v = np.array([(-1 if rng.random() < 0.25 else rng.randrange(nsrc)) for _ in range(n)], dtype=np.int32).reshape(shape)
    if v.max() < 0:
        v.flat[rng.randrange(n)] = 0
    return 'voxel_map', v, v.copy()


def check_attributes(ctx, obj, want, what, desc):
    vm = np.asarray(obj.voxel_map)
    ok = vm.shape == want.shape and (vm == want).all() and obj.bins == int(want.max()) + 1 and (np.asarray(obj.mask) == (want > -1)).all()
    if not ok:
        ctx.fail('C10:%s:attributes-after-setter' % what, 'voxel_map %r / bins %r / mask do not reflect the assigned value (expected map %r)'
                 % (vm.ravel().tolist(), obj.bins, want.ravel().tolist()), desc)
    return ok


def _mat_list(tr):
    return [[tr[i, j] for j in range(4)] for i in range(4)] if tr is not None else None


def traced_equal(cfg, step, m1, m2):
    """compare two spectra traced through two separately built scenes: 'equal' (to rounding), 'face-tie' (a sample sits within
    rounding of a cell face and falls on different sides in the two scenes: whole dt's move between neighbouring bins) or
    'differ'.  raysect's hit points of two scenes agree to a few ulps only, so bit equality is not to be expected."""
    e1, e2 = m1['ent'], m2['ent']
    if len(e1) != len(e2) or len(m1['segs']) != len(m2['segs']):
        return 'differ'
    Ls = [math.dist(sg[:3], sg[3:]) for sg in m1['segs']] or [0.0]
    scale = max(max(Ls), 1e-300)
    tol = [1e-9 * max(abs(a), abs(b)) + 1e-12 * scale for a, b in zip(e1, e2)]
    off = [j for j in range(len(e1)) if abs(e1[j] - e2[j]) > tol[j]]
    if not off:
        return 'equal'
    dts = [doc_plan(L, step, 2, cfg['geo'])[1] for L in Ls if L >= 0.1 * step] or [0.0]
    dtmax = max(dts)
    if len(off) <= 4 and all(abs(e1[j] - e2[j]) <= 2 * dtmax * (1 + 1e-6) + tol[j] for j in off):
        return 'face-tie'
    return 'differ'


def replay_setter(ctx, r):
    """re-run a recorded setter history (emitter or object) against a freshly constructed object in the final configuration"""
    from raysect.optical import World, Ray, Point3D, Vector3D, Spectrum, AffineMatrix3D
    sh = tuple(r['shape'])
    cfg = cfg_from_desc(dict(r, voxel_map=r['initial_map']))
    want = np.array(r['voxel_map'], dtype=np.int32).reshape(sh)
    cfgf = cfg_from_desc(r)
    if r['kind'] == 'setter-emitter':
        mat = material(cfg)
        for op, val in zip(r['ops'], r['op_values']):
            setattr(mat, op, np.array(val).reshape(sh).astype(bool if op == 'mask' else np.int32))
        check_attributes(ctx, mat, want, '%s:emitter' % r['geo'], r)
        world, ray, eye = _scene()
        sp = Spectrum(500.0, 501.0, mat.bins)
        seg = r['segment']
        st, _ = call(integrator(cfg, r['step'], 2).integrate, sp, world, ray, None, mat, Point3D(*seg[:3]), Point3D(*seg[3:]), eye, eye)
        got = (st, [float(v) for v in sp.samples] if st == 'ok' else None)
        ref = impl_integrate(cfgf, r['step'], 2, seg, None)
    else:
        w1, w2 = World(), World()
        tr0 = AffineMatrix3D(r['initial_transform']) if r.get('initial_transform') else None
        trf = AffineMatrix3D(r['transform']) if r.get('transform') else None
        rt, rec, bound, _, _ = build_rt(ctx, cfg, r['initial_step'], tr0, w1)
        for op, val in zip(r['ops'], r['op_values']):
            if op in ('mask', 'voxel_map'):
                setattr(rt, op, np.array(val).reshape(sh).astype(bool if op == 'mask' else np.int32))
            elif op == 'step':
                rt.step = val
            else:
                rt.transform = AffineMatrix3D(val) if val else AffineMatrix3D()
        check_attributes(ctx, rt, want, '%s:object' % r['geo'], r)
        rt2, rec2, bound2, _, _ = build_rt(ctx, cfgf, r['step'], trf, w2)
        scratch = []
        m1 = trace_ray(ctx, dict(cfgf), rt, rec, trf, bound, r['origin'], r['direction'], 'history', r['step'], w1, scratch)
        m2 = trace_ray(ctx, cfgf, rt2, rec2, trf, bound2, r['origin'], r['direction'], 'fresh', r['step'], w2, scratch)
        got, ref = (m1 and m1['ent']), (m2 and m2['ent'])
        if m1 is not None and m2 is not None:
            verdict = traced_equal(cfgf, r['step'], m1, m2)
            ctx.log('replay: comparison of the two traced spectra: %s' % verdict)
            if verdict != 'differ':
                ref = got
    ctx.case(key=('replay-setter', str(r['ops'])))
    ctx.log('replay: after the history %r: %r' % (r['ops'], got))
    ctx.log('replay: fresh object            : %r' % (ref,))
    if got != ref:
        lastmap = [x for x in r['ops'] if x in ('mask', 'voxel_map')]
        ctx.fail('C10:%s:%s:stale-after-set-%s' % (r['geo'], 'emitter' if r['kind'] == 'setter-emitter' else 'object', (lastmap or r['ops'])[-1]),
                 'history %r gives %r, a fresh object in the final configuration %r' % (r['ops'], got, ref), r)


def setter_stream(ctx, n_cases, cap):
    """histories: construct -> (integrate/trace) -> set mask / voxel_map / step / transform in random order -> integrate/trace.
    S: identical to a freshly constructed object in the final configuration; K: the model fed the final map."""
    from raysect.optical import World, Ray, Point3D, Vector3D, Spectrum
    from cherab.tools.raytransfer import CartesianRayTransferEmitter, CylindricalRayTransferEmitter
    rng = ctx.rng
    lines, metas = [], []
    e_lines, e_metas = [], []
    for it in range(n_cases):
        cfg = make_cart(rng) if rng.random() < 0.5 else make_cyl(rng)
        geo, sh = cfg['geo'], cfg['shape']
        # ---------------- A: the emitter material itself -------------------------------------------------------
        kw = dict(voxel_map=cfg['vmap'], mask=cfg['mask'])
        if geo == 'cart':
            mat = CartesianRayTransferEmitter(sh, cfg['steps'], **kw)
        else:
            mat = CylindricalRayTransferEmitter(sh, cfg['steps'], rmin=cfg['rmin'], **kw)
        cls, seg = (seg_cart if geo == 'cart' else seg_cyl)(rng, cfg, False)
        L = math.dist(seg[:3], seg[3:])
        step = rnd_step(rng, cfg, max(L, 1e-6), False, cap)
        world, ray, eye = _scene()
        if rng.random() < 0.6:           # use the object before changing it
            call(integrator(cfg, step, 2).integrate, Spectrum(500.0, 501.0, mat.bins), world, ray, None, mat, Point3D(*seg[:3]), Point3D(*seg[3:]), eye, eye)
        ops, opvals = [], []
        init_map = np.asarray(mat.voxel_map).ravel().tolist()
        want = np.asarray(mat.voxel_map).copy()
        for _ in range(rng.randint(1, 3)):
            op, val, want = rnd_map_op(rng, sh)
            setattr(mat, op, val)
            ops.append(op)
            opvals.append(val.ravel().astype(int).tolist())
        desc = dict(kind='setter-emitter', geo=geo, shape=sh, steps=cfg['steps'], rmin=cfg.get('rmin'), period=cfg.get('period'),
                    initial=cfg['kind'], initial_map=init_map, ops=ops, op_values=opvals, voxel_map=want.ravel().tolist(), step=step,
                    min_samples=2, segment=seg)
        ctx.count('H:emitter:%s:last=%s' % (geo, ops[-1]))
        if check_attributes(ctx, mat, want, '%s:emitter' % geo, desc):
            cfgf = dict(cfg, vmap=want, mask=None, kind='merge')
            cfgf.pop('mat', None)
            cfgf.pop('mat_id', None)
            fresh = material(cfgf)
            sp = Spectrum(500.0, 501.0, mat.bins)
            st, r = call(integrator(cfg, step, 2).integrate, sp, world, ray, None, mat, Point3D(*seg[:3]), Point3D(*seg[3:]), eye, eye)
            got = (st, [float(v) for v in sp.samples] if st == 'ok' else None)
            stf, entf = impl_integrate(cfgf, step, 2, seg, None)
            ctx.case(key=('setter-emitter', geo, sh, tuple(ops), tuple(f2b(v) for v in seg)) if entf and any(entf) else None)
            if got[0] != stf or (stf == 'ok' and got[1] != entf):
                ctx.fail('C10:%s:emitter:stale-after-set-%s' % (geo, ops[-1]),
                         'after %s the emitter integrates %r, a fresh emitter with the same voxel_map %r' % (ops, got, (stf, entf)), desc)
            lines.append(model_line(cfgf, step, 2, seg, [0.0] * mat.bins, want, mat.bins))
            metas.append((got, desc, geo))
        # ---------------- B: RayTransferBox / RayTransferCylinder -----------------------------------------------
        cfg2 = make_cart(rng) if geo == 'cart' else make_cyl(rng)
        world1 = World()
        tr0 = rnd_transform(rng)
        span = max(cfg2['shape'][a] * cfg2['steps'][a] for a in (0, 2)) if cfg2['geo'] == 'cart' else \
            max(2 * (cfg2['rmin'] + cfg2['shape'][0] * cfg2['steps'][0]), cfg2['shape'][2] * cfg2['steps'][2])
        step0 = None if rng.random() < 0.5 else rnd_step(rng, cfg2, span, False, cap)
        rt, rec, bound, gl, ge = build_rt(ctx, cfg2, step0, tr0, world1)
        o, d, rcls = gen_ray(rng, cfg2, bound, False)
        if rng.random() < 0.5:
            po, vd = Point3D(*o), Vector3D(*d)
            if tr0 is not None:
                po, vd = po.transform(tr0), vd.transform(tr0)
            call(Ray(origin=po, direction=vd, min_wavelength=500.0, max_wavelength=501.0, bins=rt.bins).trace, world1)
        want = np.asarray(rt.voxel_map).copy()
        init_map2 = want.ravel().tolist()
        step_f, tr_f = rt.step, tr0
        step_init = rt.step
        ops, opvals = [], []
        kinds = ['map', 'map', 'step', 'transform']
        rng.shuffle(kinds)
        for k in kinds[:rng.randint(1, 4)]:
            if k == 'map':
                op, val, want = rnd_map_op(rng, cfg2['shape'])
                setattr(rt, op, val)
                ops.append(op)
                opvals.append(val.ravel().astype(int).tolist())
            elif k == 'step':
                step_f = rnd_step(rng, cfg2, span, False, cap)
                rt.step = step_f
                ops.append('step')
                opvals.append(step_f)
            else:
                tr_f = rnd_transform(rng)
                from raysect.optical import AffineMatrix3D
                rt.transform = tr_f if tr_f is not None else AffineMatrix3D()
                ops.append('transform')
                opvals.append(_mat_list(tr_f))
        desc2 = dict(kind='setter-object', geo=cfg2['geo'], shape=cfg2['shape'], steps=cfg2['steps'], rmin=cfg2.get('rmin'), period=cfg2.get('period'),
                     initial=cfg2['kind'], initial_map=init_map2, initial_step=step_init, initial_transform=_mat_list(tr0), ops=ops,
                     op_values=opvals, voxel_map=want.ravel().tolist(), step=step_f, origin=o, direction=d, transform=_mat_list(tr_f))
        ctx.count('H:object:%s:%s' % (cfg2['geo'], '+'.join(sorted(set(ops)))))
        if not check_attributes(ctx, rt, want, '%s:object' % cfg2['geo'], desc2):
            continue
        if rt.step != step_f:
            ctx.fail('C10:%s:object:step-setter' % cfg2['geo'], 'step reads %r after assigning %r' % (rt.step, step_f), desc2)
        cfg2f = dict(cfg2, vmap=want, mask=None, kind='merge')
        cfg2f.pop('mat', None)
        cfg2f.pop('mat_id', None)
        world2 = World()
        rt2, rec2, bound2, _, _ = build_rt(ctx, cfg2f, step_f, tr_f, world2)
        m1 = trace_ray(ctx, dict(cfg2f), rt, rec, tr_f, bound, o, d, 'history', step_f, world1, e_lines)
        scratch = []
        m2 = trace_ray(ctx, cfg2f, rt2, rec2, tr_f, bound2, o, d, 'fresh', step_f, world2, scratch)
        if m1 is None or m2 is None:
            continue
        ctx.case(key=('setter-object', cfg2['geo'], cfg2['shape'], tuple(ops), tuple(f2b(v) for v in o + d)) if any(m2['ent']) else None)
        verdict = traced_equal(cfg2f, step_f, m1, m2)
        ctx.count('H:object:vs-fresh:' + verdict)
        if verdict == 'differ':
            lastmap = [x for x in ops if x in ('mask', 'voxel_map')]
            ctx.fail('C10:%s:object:stale-after-set-%s' % (cfg2['geo'], lastmap[-1] if lastmap else ops[-1]),
                     'after %s the object traces %r, a freshly constructed object in the same configuration %r' % (ops, m1['ent'], m2['ent']), desc2)
        m1['desc'] = desc2
        m1['vm'] = want
        e_metas.append(m1)
    outs = ctx.driver(lines) if lines else []
    for (got, desc, geo), o_ in zip(metas, outs):
        mst, ment = parse_model(o_)
        ctx.traces += 1
        if mst != got[0] or (mst == 'ok' and not close(ment, got[1], TOL, 1e-300)):
            ctx.disagreements += 1
            ctx.broke('correspondence', 'C10 setter history (%s emitter): model with the final map vs implementation' % geo,
                      dict(model=(mst, ment), implementation=got, input=desc))
    outs = ctx.driver(e_lines) if e_lines else []
    for m in e_metas:
        nb = len(m['ent'])
        tot = [0.0] * nb
        okm = True
        for i in range(len(m['segs'])):
            mst, ment = parse_model(outs[m['first'] + i])
            if mst != 'ok' or len(ment) != nb:
                okm = False
                break
            tot = [a + b for a, b in zip(tot, ment)]
        ctx.traces += 1
        if not okm or not close(tot, m['ent'], TOL, 1e-300):
            ctx.disagreements += 1
            ctx.broke('correspondence', 'C10 setter history (%s object): model with the final map over recorded segments vs traced spectrum' % m['desc']['geo'],
                      dict(model=tot if okm else 'IndexError', implementation=m['ent'], input=m['desc']))


# ----------------------------------------------------------------------------------------------- aliasing / rejected writes
VM_LAYOUTS = ['int32C', 'int32F', 'int64C', 'int64F', 'int16C', 'strided-view', 'contiguous-view', 'transposed-view']
MASK_LAYOUTS = ['boolC', 'boolF', 'uint8C', 'int64C', 'strided-view', 'contiguous-view']


def in_layout(rng, arr, layout):
    """(caller's array holding the values of `arr` in the given dtype/layout, the base array that owns the memory)"""
    kind = arr.dtype == bool
    if layout.startswith('strided'):
        base = np.zeros((2 * arr.shape[0],) + arr.shape[1:], dtype=bool if kind else np.int32)
        view = base[::2]
        view[...] = arr
        return view, base
    if layout.startswith('contiguous'):
        base = np.zeros((arr.shape[0] + 2,) + arr.shape[1:], dtype=bool if kind else np.int32)
        view = base[1:1 + arr.shape[0]]
        view[...] = arr
        return view, base
    if layout.startswith('transposed'):
        base = np.ascontiguousarray(arr.transpose(2, 1, 0)).astype(np.int32)
        return base.transpose(2, 1, 0), base
    dt = dict(int32=np.int32, int64=np.int64, int16=np.int16, bool=bool, uint8=np.uint8)[layout[:-1]]
    a = np.array(arr, dtype=dt, order=layout[-1])
    return a, a


def _snap_emitter(cfg, mat, integ, seg):
    from raysect.optical import Spectrum, Point3D
    world, ray, eye = _scene()
    sp = Spectrum(500.0, 501.0, max(int(mat.bins), 1))
    st, r = call(integ.integrate, sp, world, ray, None, mat, Point3D(*seg[:3]), Point3D(*seg[3:]), eye, eye)
    d = dict(voxel_map=np.asarray(mat.voxel_map).ravel().tolist(), shape=tuple(np.asarray(mat.voxel_map).shape),
             memoryview=np.asarray(mat.voxel_map_mv).ravel().tolist(), mask=np.asarray(mat.mask).ravel().tolist(), bins=int(mat.bins),
             grid_shape=tuple(mat.grid_shape), grid_steps=tuple(mat.grid_steps), step=integ.step, min_samples=integ.min_samples,
             result=(st, [float(v) for v in sp.samples] if st == 'ok' else None))
    if cfg['geo'] == 'cyl':
        d.update(rmin=mat.rmin, period=mat.period, dr=mat.dr, dphi=mat.dphi, dz=mat.dz)
    else:
        d.update(dx=mat.dx, dy=mat.dy, dz=mat.dz)
    return d


def _snap_object(rt, world, po, vd):
    from raysect.optical import Ray
    ray = Ray(origin=po, direction=vd, min_wavelength=500.0, max_wavelength=501.0, bins=max(int(rt.bins), 1))
    st, sp = call(ray.trace, world)
    tr = rt.transform
    return dict(voxel_map=np.asarray(rt.voxel_map).ravel().tolist(), memoryview=np.asarray(rt.material.voxel_map_mv).ravel().tolist(),
                mask=np.asarray(rt.mask).ravel().tolist(), bins=int(rt.bins), step=rt.step, min_samples=rt.material.integrator.min_samples,
                transform=[[tr[i, j] for j in range(4)] for i in range(4)],
                result=(st, [float(v) for v in sp.samples] if st == 'ok' else None))


def _diff_keys(a, b):
    return [k for k in a if a[k] != b[k] and not (isinstance(a[k], float) and a[k] != a[k] and b[k] != b[k])]


def _mk_emitter(cfg, **kw):
    from cherab.tools.raytransfer import CartesianRayTransferEmitter, CylindricalRayTransferEmitter
    if cfg['geo'] == 'cart':
        return CartesianRayTransferEmitter(cfg['shape'], cfg['steps'], **kw)
    return CylindricalRayTransferEmitter(cfg['shape'], cfg['steps'], rmin=cfg['rmin'], **kw)


def _mk_object(cfg, world, step, **kw):
    from cherab.tools.raytransfer import RayTransferBox, RayTransferCylinder
    sh, st = cfg['shape'], cfg['steps']
    if cfg['geo'] == 'cart':
        return RayTransferBox(sh[0] * st[0], sh[1] * st[1], sh[2] * st[2], sh[0], sh[1], sh[2], step=step, parent=world, **kw)
    return RayTransferCylinder(cfg['rmin'] + sh[0] * st[0], sh[2] * st[2], sh[0], sh[2], radius_inner=cfg['rmin'], n_polar=sh[1],
                               period=cfg['period'], step=step, parent=world, **kw)


def _object_ray(rng, cfg):
    """a ray through the middle region of the grid (local frame = world frame: no transform in these streams)"""
    from raysect.optical import Point3D, Vector3D
    sh, st = cfg['shape'], cfg['steps']
    if cfg['geo'] == 'cart':
        ext = [sh[a] * st[a] for a in range(3)]
        tgt = [rng.uniform(0.2, 0.8) * e for e in ext]
    else:
        rout = cfg['rmin'] + sh[0] * st[0]
        r, ph = rng.uniform(cfg['rmin'] + 0.2 * st[0], rout - 0.2 * st[0]), rng.uniform(-math.pi, math.pi)
        ext = [2 * rout, 2 * rout, sh[2] * st[2]]
        tgt = [r * math.cos(ph), r * math.sin(ph), rng.uniform(0.2, 0.8) * ext[2]]
    d = [rng.gauss(0, 1) for _ in range(3)]
    nd = math.sqrt(sum(c * c for c in d))
    d = [c / nd for c in d]
    o = [tgt[a] - 3 * max(ext) * d[a] for a in range(3)]
    return o, d, Point3D(*o), Vector3D(*d)


def aliasing_stream(ctx, n_cases, cap):
    """caller-data aliasing: every array argument (voxel_map, mask) in every legal dtype / layout, through the constructor or
    the setter of the emitters and of RayTransferBox / RayTransferCylinder.  The call must accept it, must not modify the
    caller's array, and later in-place edits of the caller's array (or of the array it is a view of) must not reach the object:
    getters and the matrix stay bit-identical, and equal to an object built from a private copy."""
    from raysect.optical import World
    rng = ctx.rng
    lines, metas = [], []
    for it in range(n_cases):
        cfg = make_cart(rng) if rng.random() < 0.5 else make_cyl(rng)
        cfg['vmap'] = cfg['mask'] = None
        geo, sh = cfg['geo'], cfg['shape']
        arg = 'voxel_map' if rng.random() < 0.6 else 'mask'
        op, val, want = rnd_map_op(rng, sh)
        while op != arg:
            op, val, want = rnd_map_op(rng, sh)
        layout = rng.choice(VM_LAYOUTS if arg == 'voxel_map' else MASK_LAYOUTS)
        caller, base = in_layout(rng, val, layout)
        before, base_before = np.array(caller), np.array(base)
        target = 'emitter' if rng.random() < 0.5 else 'object'
        path = rng.choice(['ctor', 'setter'])
        desc = dict(kind='aliasing', geo=geo, shape=sh, steps=cfg['steps'], rmin=cfg.get('rmin'), period=cfg.get('period'), argument=arg,
                    layout=layout, target=target, path=path, value=before.astype(int).ravel().tolist(), voxel_map=want.ravel().tolist())
        ctx.count('A:%s:%s:%s:%s' % (target, path, arg, layout))
        cls, seg = (seg_cart if geo == 'cart' else seg_cyl)(rng, cfg, False)
        L = math.dist(seg[:3], seg[3:])
        step = rnd_step(rng, cfg, max(L, 1e-6), False, cap)
        world = World()
        pre = None
        if target == 'emitter':
            integ = integrator(cfg, step, 2)
            if path == 'ctor':
                st, obj = call(_mk_emitter, cfg, **{arg: caller})
            else:
                obj = _mk_emitter(cfg)
                pre = _snap_emitter(cfg, obj, integ, seg)
                st, _ = call(setattr, obj, arg, caller)
            snap = (lambda: _snap_emitter(cfg, obj, integ, seg))
        else:
            o, d, po, vd = _object_ray(rng, cfg)
            desc.update(origin=o, direction=d)
            if path == 'ctor':
                st, obj = call(_mk_object, cfg, world, step, **{arg: caller})
            else:
                obj = _mk_object(cfg, world, step)
                pre = _snap_object(obj, world, po, vd)
                st, _ = call(setattr, obj, arg, caller)
            snap = (lambda: _snap_object(obj, world, po, vd))
        desc['step'] = step
        if not (np.array_equal(caller, before) and np.array_equal(base, base_before)):
            ctx.fail('C10:%s:modified-caller-array' % arg, '%s via %s of the %s changed the caller\'s %s array' % (arg, path, target, layout), desc)
            continue
        if st != 'ok':
            ctx.fail('C10:%s:legal-layout-rejected' % arg, '%s (%s, right shape) via %s of the %s raised %s: %s' % (arg, layout, path, target, st, _ if path == 'setter' else obj), desc)
            if pre is not None:
                now = snap()
                bad = _diff_keys(pre, now)
                if bad:
                    ctx.fail('C10:%s:rejected-write-left-a-trace' % arg, 'the rejected %s assignment (%s) changed %s of the %s: %r -> %r'
                             % (arg, layout, bad, target, {k: pre[k] for k in bad if k != 'result'}, {k: now[k] for k in bad if k != 'result'}), desc)
            continue
        s0 = snap()
        if s0['voxel_map'] != want.ravel().tolist() or s0['bins'] != int(want.max()) + 1 or s0['memoryview'] != s0['voxel_map']:
            ctx.fail('C10:%s:attributes-after-assignment' % arg, '%s (%s) via %s: voxel_map %r, memoryview %r, bins %r; expected map %r'
                     % (arg, layout, path, s0['voxel_map'], s0['memoryview'], s0['bins'], want.ravel().tolist()), desc)
            continue
        # the caller recycles its array (and the array it is a view of)
        if arg == 'voxel_map':
            caller[...] = np.roll(before, 1).reshape(before.shape) if rng.random() < 0.5 else (int(before.max()) + 3)
            base[...] = int(before.max()) + 2 if base is not caller and rng.random() < 0.5 else base
            if base is not caller:
                caller[...] = -1
        else:
            caller[...] = np.logical_not(before).astype(caller.dtype)
            if base is not caller:
                base[...] = np.logical_not(base_before).astype(base.dtype)
        s1 = snap()
        bad = _diff_keys(s0, s1)
        ctx.case(key=('alias', geo, sh, arg, layout, target, path) if s0['result'][1] and any(s0['result'][1]) else None)
        if bad:
            ctx.fail('C10:%s:aliases-caller-array' % arg,
                     'after the caller edited its own %s array (%s, passed through the %s of the %s) the object changed: %s; matrix %r -> %r'
                     % (arg, layout, path, target, bad, s0['result'], s1['result']), desc)
            continue
        # object built from a private copy
        cfgf = dict(cfg, vmap=want, mask=None, kind='merge')
        if target == 'emitter':
            ref = impl_integrate(cfgf, step, 2, seg, None)
            if ref[0] != s1['result'][0] or (ref[0] == 'ok' and ref[1] != s1['result'][1]):
                ctx.fail('C10:%s:differs-from-private-copy' % arg, 'matrix %r, object built from a private copy %r' % (s1['result'], ref), desc)
            lines.append(model_line(cfgf, step, 2, seg, [0.0] * s1['bins'], want, s1['bins']))
            metas.append((s1['result'], desc))
        else:
            w2 = World()
            rt2 = _mk_object(cfgf, w2, step, voxel_map=want)
            ref = _snap_object(rt2, w2, po, vd)['result']
            e1, e2 = s1['result'][1], ref[1]
            same = s1['result'][0] == ref[0] and (e1 is None or (len(e1) == len(e2) and all(
                abs(a - b) <= 1e-9 * max(abs(a), abs(b)) + 2.5 * step for a, b in zip(e1, e2))))
            if not same:
                ctx.fail('C10:%s:differs-from-private-copy' % arg, 'matrix %r, object built from a private copy %r' % (s1['result'], ref), desc)
    outs = ctx.driver(lines) if lines else []
    for (got, desc), o_ in zip(metas, outs):
        mst, ment = parse_model(o_)
        ctx.traces += 1
        if mst != got[0] or (mst == 'ok' and not close(ment, got[1], TOL, 1e-300)):
            ctx.disagreements += 1
            ctx.broke('correspondence', 'C10 aliasing stream: model with the assigned map vs implementation', dict(model=(mst, ment), implementation=got, input=desc))


def rejected_stream(ctx, n_cases, cap):
    """rejected writes leave everything untouched: every validating setter of the integrators, emitters and ray-transfer objects
    is attempted with an invalid value inside try/except on a live object; the write must raise and all getters and the matrix
    must equal those before the attempt (and those of a fresh object)."""
    from raysect.optical import World
    rng = ctx.rng
    for it in range(n_cases):
        cfg = make_cart(rng) if rng.random() < 0.5 else make_cyl(rng)
        geo, sh = cfg['geo'], cfg['shape']
        wrong = [np.zeros((sh[0] + 1, sh[1], sh[2]), dtype=np.int32), np.zeros((sh[0], sh[2] + 2, sh[1]), dtype=np.int32),
                 np.zeros((sh[0], sh[1] * sh[2]), dtype=np.int32), np.zeros((sh[0], sh[1], sh[2], 1), dtype=np.int32)]
        wrongm = [w.astype(bool) for w in wrong]
        world = World()
        if it % 2 == 0:
            target = 'emitter'
            mat = material(cfg)
            cls, seg = (seg_cart if geo == 'cart' else seg_cyl)(rng, cfg, False)
            step = rnd_step(rng, cfg, max(math.dist(seg[:3], seg[3:]), 1e-6), False, cap)
            integ = integrator(cfg, step, rng.choice([2, 3, 5]))
            snap = (lambda: _snap_emitter(cfg, mat, integ, seg))
            writes = [('step', integ, 'step', v) for v in (0.0, -0.5, -1e300, 0)] + \
                     [('min_samples', integ, 'min_samples', v) for v in (1, 0, -3)] + \
                     [('voxel_map', mat, 'voxel_map', w) for w in wrong] + [('mask', mat, 'mask', w) for w in wrongm]
            if geo == 'cyl':
                writes += [('rmin', mat, 'rmin', -1.0), ('rmin', mat, 'rmin', -1e-300)]
            extra = dict(segment=seg, step=step)
        else:
            target = 'object'
            span = max(sh[a] * cfg['steps'][a] for a in (0, 2))
            step = rnd_step(rng, cfg, span, False, cap)
            rt = _mk_object(cfg, world, step, voxel_map=cfg['vmap'], mask=cfg['mask'])
            o, d, po, vd = _object_ray(rng, cfg)
            snap = (lambda: _snap_object(rt, world, po, vd))
            writes = [('step', rt, 'step', v) for v in (0.0, -0.5, 0)] + [('voxel_map', rt, 'voxel_map', w) for w in wrong] + \
                     [('mask', rt, 'mask', w) for w in wrongm] + \
                     [('step', rt.material.integrator, 'step', -2.0), ('min_samples', rt.material.integrator, 'min_samples', 1)]
            extra = dict(origin=o, direction=d, step=step)
        rng.shuffle(writes)
        s0 = snap()
        desc = dict(kind='rejected-write', geo=geo, shape=sh, steps=cfg['steps'], rmin=cfg.get('rmin'), period=cfg.get('period'),
                    voxel_map=s0['voxel_map'], target=target, **extra)
        ok = True
        for site, obj, attr, val in writes[:rng.randint(3, len(writes))]:
            st, msg = call(setattr, obj, attr, val)
            what = '%s.%s = %s' % (type(obj).__name__, attr, ('array of shape %r' % (val.shape,)) if hasattr(val, 'shape') else repr(val))
            ctx.count('R:%s:%s' % (target, site))
            d2 = dict(desc, write=what)
            if st == 'ok':
                ctx.fail('C10:%s:invalid-value-accepted' % site, '%s was accepted' % what, d2)
                ok = False
                break
            s1 = snap()
            bad = _diff_keys(s0, s1)
            if bad:
                ctx.fail('C10:%s:rejected-write-left-a-trace' % site,
                         '%s raised %s but changed %s: %r -> %r; matrix %r -> %r' % (what, st, bad, {k: s0[k] for k in bad if k != 'result'},
                                                                                  {k: s1[k] for k in bad if k != 'result'}, s0['result'], s1['result']), d2)
                ok = False
                break
        ctx.case(key=('rejected', geo, sh, target, it) if s0['result'][1] and any(s0['result'][1]) else None)
        if ok and target == 'emitter':
            ref = impl_integrate(dict(cfg), step, integ.min_samples, seg, None)
            if ref[0] != s0['result'][0] or (ref[0] == 'ok' and ref[1] != s0['result'][1]):
                ctx.fail('C10:rejected-write:differs-from-fresh-object', 'matrix %r, fresh emitter %r' % (s0['result'], ref), desc)
    # constructors must reject the same values (no live object is involved; only "raises" is checked)
    from cherab.tools.raytransfer import RayTransferBox, RayTransferCylinder, CartesianRayTransferEmitter, CylindricalRayTransferEmitter, RayTransferPipeline0D
    from cherab.tools.raytransfer.emitters import CartesianRayTransferIntegrator, CylindricalRayTransferIntegrator
    ctors = [('step', lambda: CartesianRayTransferIntegrator(-0.1)), ('step', lambda: CylindricalRayTransferIntegrator(0.0)),
             ('min_samples', lambda: CartesianRayTransferIntegrator(0.1, 1)), ('step', lambda: RayTransferBox(1., 1., 1., 2, 2, 2, step=-1.0)),
             ('period', lambda: RayTransferCylinder(2., 1., 2, 2, n_polar=3, period=77.0)),
             ('period', lambda: CylindricalRayTransferEmitter((2, 3, 2), (1., 25.0, 1.))),
             ('grid_shape', lambda: CartesianRayTransferEmitter((2, 0, 2), (1., 1., 1.))), ('grid_shape', lambda: CartesianRayTransferEmitter((2, 2), (1., 1., 1.))),
             ('grid_steps', lambda: CartesianRayTransferEmitter((2, 2, 2), (1., -1., 1.))), ('grid_steps', lambda: CartesianRayTransferEmitter((2, 2, 2), (1., 1.))),
             ('rmin', lambda: CylindricalRayTransferEmitter((2, 1, 2), (1., 360., 1.), rmin=-0.5)),
             ('voxel_map', lambda: CartesianRayTransferEmitter((2, 2, 2), (1., 1., 1.), voxel_map=np.zeros((2, 2, 3), dtype=np.int32))),
             ('mask', lambda: CartesianRayTransferEmitter((2, 2, 2), (1., 1., 1.), mask=np.ones((3, 2, 2), dtype=bool))),
             ('kind', lambda: RayTransferPipeline0D(kind='blah'))]
    for site, f in ctors:
        st, _ = call(f)
        ctx.count('R:ctor:' + site)
        if st == 'ok':
            ctx.fail('C10:%s:invalid-value-accepted' % site, 'constructor accepted an invalid %s' % site, dict(kind='ctor', site=site))


# ----------------------------------------------------------------------------------------------- shared instances (round 5)
def shared_integrator_stream(ctx, n_cases, cap):
    """state shared between instances: ONE integrator object serves 2-3 emitters with DIFFERENT grids (same geometry class),
    called in interleaved order, both orders; likewise `rt2.material.integrator = rt1.material.integrator` for objects.
    Every call must give exactly what the same emitter gives with a private, fresh integrator (S) and what the stateless
    model gives (K).  Interleaved calls on emitters with private integrators are checked too (class-level state)."""
    from raysect.optical import World, Spectrum, Point3D
    rng = ctx.rng
    lines, metas = [], []
    for it in range(n_cases):
        geo = 'cart' if rng.random() < 0.5 else 'cyl'
        cfgs = [(make_cart(rng) if geo == 'cart' else make_cyl(rng)) for _ in range(rng.randint(2, 3))]
        step, ms = None, rng.choice([2, 3])
        segs, solo = [], []
        for cfg in cfgs:
            cls, seg = (seg_cart if geo == 'cart' else seg_cyl)(rng, cfg, False)
            segs.append(seg)
        L = max(math.dist(sg[:3], sg[3:]) for sg in segs)
        step = rnd_step(rng, cfgs[0], max(L, 1e-6), False, cap)
        for cfg, seg in zip(cfgs, segs):
            solo.append(impl_integrate(cfg, step, ms, seg, None))          # fresh private integrator per call
        shared = integrator(cfgs[0], step, ms) if rng.random() < 0.8 else None
        world, ray, eye = _scene()
        order = [rng.randrange(len(cfgs)) for _ in range(rng.randint(3, 6))]
        if shared is not None and len(set(order)) < 2:
            order = list(range(len(cfgs))) + order
        privates = [integrator(c, step, ms) for c in cfgs]
        for pos, k in enumerate(order):
            cfg, seg = cfgs[k], segs[k]
            mat = material(cfg)
            integ = shared if shared is not None else privates[k]
            sp = Spectrum(500.0, 501.0, mat.bins)
            st, r = call(integ.integrate, sp, world, ray, None, mat, Point3D(*seg[:3]), Point3D(*seg[3:]), eye, eye)
            got = (st, [float(v) for v in sp.samples] if st == 'ok' else None)
            ref = solo[k]
            desc = dict(kind='shared-integrator', geo=geo, shared=shared is not None, order=order, position=pos,
                        grids=[dict(shape=c['shape'], steps=c['steps'], rmin=c.get('rmin'), period=c.get('period')) for c in cfgs],
                        shape=cfg['shape'], steps=cfg['steps'], rmin=cfg.get('rmin'), period=cfg.get('period'),
                        voxel_map=np.asarray(mat.voxel_map).ravel().tolist(), step=step, min_samples=ms, segment=seg)
            ctx.count('X:%s:%s' % ('shared-integrator' if shared is not None else 'interleaved-private', geo))
            ctx.case(key=('shared', geo, it, pos) if ref[1] and any(ref[1]) else None)
            if got[0] != ref[0] or (ref[0] == 'ok' and got[1] != ref[1]):
                ctx.fail('C10:integrator:%s' % ('state-shared-between-emitters' if shared is not None else 'state-shared-between-instances'),
                         'call %d of the order %r (%d emitters with different grids%s): %r, the same emitter with a fresh private integrator %r'
                         % (pos, order, len(cfgs), ', ONE integrator object' if shared is not None else '', got, ref), desc)
                break
            if pos == len(order) - 1:
                lines.append(model_line(cfg, step, ms, seg, [0.0] * mat.bins, np.asarray(mat.voxel_map), mat.bins))
                metas.append((got, desc))
        # objects: rt2.material.integrator = rt1.material.integrator, traced in both orders
        if it % 3 == 0:
            w = World()
            ca, cb = cfgs[0], cfgs[1]
            objs, rays = [], []
            for c in (ca, cb):
                c = dict(c)
                c.pop('mat', None)
                c.pop('mat_id', None)
                rt = _mk_object(c, w, step, voxel_map=c['vmap'], mask=c['mask'])
                o, d, po, vd = _object_ray(rng, c)
                objs.append(rt)
                rays.append((po, vd))
            from raysect.optical import translate
            span = 4.0 * max(max(c['shape'][a] * c['steps'][a] for a in (0, 2)) + c.get('rmin', 0.0) for c in (ca, cb)) + 10.0
            objs[1].transform = translate(0, 0, 10.0 * span)               # far apart: each ray meets one object only
            rays[1] = (rays[1][0].transform(objs[1].transform), rays[1][1])
            alone = [_snap_object(objs[i], w, *rays[i])['result'] for i in (0, 1)]
            objs[1].material.integrator = objs[0].material.integrator
            for first in ((0, 1), (1, 0), (0, 1)):
                for i in first:
                    now = _snap_object(objs[i], w, *rays[i])['result']
                    ctx.count('X:shared-integrator:objects')
                    if now != alone[i]:
                        ctx.fail('C10:integrator:state-shared-between-emitters',
                                 'two %s objects sharing one integrator (rt2.material.integrator = rt1.material.integrator), order %r: object %d traces %r, '
                                 'with its own integrator %r' % (geo, first, i, now, alone[i]),
                                 dict(kind='shared-integrator-objects', geo=geo, grids=[dict(shape=c['shape'], steps=c['steps']) for c in (ca, cb)], step=step))
                        break
    outs = ctx.driver(lines) if lines else []
    for (got, desc), o_ in zip(metas, outs):
        mst, ment = parse_model(o_)
        ctx.traces += 1
        if mst != got[0] or (mst == 'ok' and not close(ment, got[1], TOL, 1e-300)):
            ctx.disagreements += 1
            ctx.broke('correspondence', 'C10 shared integrator: stateless model vs implementation', dict(model=(mst, ment), implementation=got, input=desc))


def _fan_observers():
    """deterministic observers whose k-th SAMPLE of a pixel is its own ray; every generated ray is logged (oracle input)"""
    if 'Fan0D' in _CTX:
        return _CTX['Fan0D'], _CTX['Fan1D'], _CTX['Fan2D']
    from raysect.optical import Point3D, Vector3D
    from raysect.optical.observer.base import Observer0D, Observer1D, Observer2D
    from raysect.optical.observer import FullFrameSampler1D, FullFrameSampler2D

    def gen(self, key, template, ray_count):
        fan = self.fans_[key]
        out = []
        for _ in range(ray_count):
            k = self.count_.get(key, 0)
            self.count_[key] = k + 1
            o, d = fan[k % len(fan)]
            self.log_.setdefault(key, []).append((o, d))
            out.append((template.copy(Point3D(*o), Vector3D(*d)), 1.0))
        return out

    class Fan0D(Observer0D):
        def __init__(self, fans, sens, pipelines, **kw):
            self.fans_, self.sens_, self.count_, self.log_ = fans, sens, {}, {}
            super().__init__(pipelines, **kw)

        def _generate_rays(self, template, ray_count):
            return gen(self, 0, template, ray_count)

        def _pixel_sensitivity(self):
            return self.sens_

    class Fan1D(Observer1D):
        def __init__(self, fans, sens, pipelines, **kw):
            self.fans_, self.sens_, self.count_, self.log_ = fans, sens, {}, {}
            super().__init__(len(fans), FullFrameSampler1D(), pipelines, **kw)

        def _generate_rays(self, pixel, template, ray_count):
            return gen(self, pixel, template, ray_count)

        def _pixel_sensitivity(self, pixel):
            return self.sens_

    class Fan2D(Observer2D):
        def __init__(self, fans, shape, sens, pipelines, **kw):
            self.fans_, self.sens_, self.count_, self.log_ = fans, sens, {}, {}        # fans[(x, y)]
            super().__init__(shape, FullFrameSampler2D(), pipelines, **kw)

        def _generate_rays(self, x, y, template, ray_count):
            return gen(self, (x, y), template, ray_count)

        def _pixel_sensitivity(self, x, y):
            return self.sens_

    _CTX['Fan0D'], _CTX['Fan1D'], _CTX['Fan2D'] = Fan0D, Fan1D, Fan2D
    return Fan0D, Fan1D, Fan2D


def multitask_stream(ctx, n_cases):
    """pipelines under multi-task renders: every pixel sample is a DIFFERENT ray; for the 0D observer the samples are split into
    render tasks of unequal size (pixel_samples not a multiple of samples_per_task).  Oracle: matrix[pixel] = mean over the
    generated rays of the traced spectrum (x sensitivity for 'power'): every sample has weight 1/pixel_samples."""
    from raysect.optical import World, Ray, Point3D, Vector3D
    from raysect.core.workflow import SerialEngine
    from cherab.tools.raytransfer import RayTransferBox, RayTransferPipeline0D, RayTransferPipeline1D, RayTransferPipeline2D
    Fan0D, Fan1D, Fan2D = _fan_observers()
    rng = ctx.rng
    for it in range(n_cases):
        world = World()
        cfg = make_cart(rng)
        sh = cfg['shape']
        ext = [sh[a] * cfg['steps'][a] for a in range(3)]
        rt = RayTransferBox(ext[0], ext[1], ext[2], sh[0], sh[1], sh[2], voxel_map=cfg['vmap'], mask=cfg['mask'], parent=world)

        def a_ray():
            tgt = [rng.uniform(0.1, 0.9) * e for e in ext]
            d = [rng.gauss(0, 1) for _ in range(3)]
            nd = math.sqrt(sum(c * c for c in d))
            d = [c / nd for c in d]
            return [tgt[a] - 3 * max(ext) * d[a] for a in range(3)], d
        dim = ('0D', '0D', '1D', '2D')[it % 4]
        kind = rng.choice(['radiance', 'power'])
        sens = rng.choice([1.0, 2.5, 0.125])
        ps = rng.choice([3, 5, 7, 4])
        common = dict(parent=world, min_wavelength=500.0, max_wavelength=501.0, spectral_bins=rt.bins, pixel_samples=ps)
        if dim == '0D':
            spt = rng.choice([1, 2, 3])
            pipe = RayTransferPipeline0D(kind=kind)
            obs = Fan0D({0: [a_ray() for _ in range(ps)]}, sens, [pipe], samples_per_task=spt, **common)
            keys = [0]
        elif dim == '1D':
            npx = rng.randint(1, 3)
            spt = None
            pipe = RayTransferPipeline1D(kind=kind)
            obs = Fan1D({i: [a_ray() for _ in range(ps)] for i in range(npx)}, sens, [pipe], **common)
            keys = list(range(npx))
        else:
            nx, ny = rng.randint(1, 2), rng.randint(1, 2)
            spt = None
            pipe = RayTransferPipeline2D(kind=kind)
            obs = Fan2D({(x, y): [a_ray() for _ in range(ps)] for x in range(nx) for y in range(ny)}, (nx, ny), sens, [pipe], **common)
            keys = [(x, y) for x in range(nx) for y in range(ny)]
        obs.render_engine = SerialEngine()
        obs.quiet = True
        obs.spectral_rays = 1
        for k in range(rng.randint(1, 2)):
            obs.log_ = {}
            st, r = call(obs.observe)
            desc = dict(kind='pipeline-multitask', dim=dim, pipeline_kind=kind, sensitivity=sens, pixel_samples=ps, samples_per_task=spt,
                        observe=k + 1, shape=sh, steps=cfg['steps'], voxel_map=np.asarray(rt.voxel_map).ravel().tolist(),
                        rays={str(key): obs.log_.get(key) for key in keys})
            ctx.count('pipeline%s:multitask:ps=%d:spt=%s' % (dim, ps, spt))
            if st != 'ok':
                ctx.fail('C10:pipeline%s:multitask:raised' % dim, 'observe raised %s: %s' % (st, r), desc)
                break
            want = []
            for key in keys:
                acc = np.zeros(rt.bins)
                rays = obs.log_.get(key, [])
                for o, d in rays:
                    ray = Ray(origin=Point3D(*o), direction=Vector3D(*d), min_wavelength=500.0, max_wavelength=501.0, bins=rt.bins)
                    acc += np.array(ray.trace(world).samples) * (sens if kind == 'power' else 1.0)
                want.append(acc / max(len(rays), 1))
                if len(rays) != ps:
                    ctx.fail('C10:pipeline%s:multitask:sample-count' % dim, 'pixel %r received %d samples, pixel_samples = %d' % (key, len(rays), ps), desc)
            want = np.array(want)
            got = np.array(pipe.matrix, dtype=float).reshape(len(keys), -1)
            ctx.case(key=('multitask', dim, kind, ps, spt, it, k) if want.any() else None)
            if got.shape != want.shape or not np.allclose(got, want, rtol=1e-9, atol=1e-12):
                ctx.fail('C10:pipeline%s:%s:not-per-sample-mean' % (dim, kind),
                         'pixel_samples %d, samples_per_task %r, observe #%d: matrix rows sum to %r, the per-sample mean of the traced rays sums to %r; matrix %r, mean %r'
                         % (ps, spt, k + 1, got.sum(axis=1).tolist(), want.sum(axis=1).tolist(), got.tolist(), want.tolist()), desc)
                break
        obs.parent = None


# ----------------------------------------------------------------------------------------------- state machines vs model (K)
def state_machine_stream(ctx, n_cases):
    """K for the state-machine theorems: (a) histories of step / min_samples writes (valid and invalid, inside try/except) on a
    real integrator vs `IntegState.run`; (b) histories of initialise / update / finalise on ONE real RayTransferPipeline0D vs
    `Pipe0D.observe` folded over the history."""
    from cherab.tools.raytransfer import RayTransferPipeline0D
    from cherab.tools.raytransfer.emitters import CartesianRayTransferIntegrator, CylindricalRayTransferIntegrator
    rng = ctx.rng
    lines, exp = [], []
    for it in range(n_cases):
        st0, ms0 = rng.choice([0.1, 1e-3, 2.5]), rng.choice([2, 3, 7])
        integ = rng.choice([CartesianRayTransferIntegrator, CylindricalRayTransferIntegrator])(st0, ms0)
        toks, stat = [], []
        for _ in range(rng.randint(1, 8)):
            if rng.random() < 0.5:
                v = rng.choice([0.0, -0.0, -0.5, -1e-300, 5e-324, 1e-3, 0.25, 3.0, 1e300])
                toks += ['s', f2b(v)]
                stat.append('1' if call(setattr, integ, 'step', v)[0] == 'ok' else '0')
            else:
                v = rng.choice([-3, 0, 1, 2, 3, 10])
                toks += ['m', str(v)]
                stat.append('1' if call(setattr, integ, 'min_samples', v)[0] == 'ok' else '0')
        lines.append('ihist %s %d %s' % (f2b(st0), ms0, ' '.join(toks)))
        exp.append(' '.join(stat) + ' | %s %d' % (f2b(integ.step), integ.min_samples))
        ctx.count('K:integrator-history')
        # pipeline history
        pipe = RayTransferPipeline0D(kind=rng.choice(['power', 'radiance']))
        toks, mats = [], []
        for _ in range(rng.randint(1, 3)):
            bins, nres = rng.randint(1, 4), rng.randint(1, 3)
            pipe.initialise(500.0, 501.0, bins, 1, True)
            toks += [str(bins), str(nres)]
            tot_arr, tot_ns, ns_list = np.zeros(bins), 0, []
            for _ in range(nres):
                ns = rng.randint(1, 5)
                arr = np.array([rng.choice([0.0, 0.5, 1.25, rng.uniform(0, 3)]) for _ in range(bins)])
                tot_arr, tot_ns = tot_arr + arr, tot_ns + ns
                ns_list.append(ns)
                pipe.update(0, (arr, 0), ns)
                toks += [str(ns)] + [f2b(v) for v in arr]
            pipe.finalise()
            mats.append(fs([float(v) for v in pipe.matrix]))
            if not np.allclose(pipe.matrix, tot_arr / tot_ns, rtol=1e-12, atol=0.0):
                ctx.fail('C10:pipeline0D:update-finalise:not-per-sample-mean',
                         'tasks with samples %r: matrix %r, sum of the packed results / total samples %r' % (ns_list, pipe.matrix.tolist(), (tot_arr / tot_ns).tolist()),
                         dict(kind='pipeline-methods', bins=bins, samples=ns_list))
        lines.append('pipe0d ' + ' '.join(toks))
        exp.append(' | '.join(mats))
        ctx.count('K:pipeline0D-history')
    outs = ctx.driver(lines)
    for l, e, o in zip(lines, exp, outs):
        ctx.traces += 1
        ctx.case(key=('state-machine', l[:60]))
        if e != o:
            ctx.disagreements += 1
            ctx.broke('correspondence', 'C10 state machine (%s)' % l.split()[0], dict(line=l[:300], model=o[:300], implementation=e[:300]))


# ----------------------------------------------------------------------------------------------- round 6: machines tied to the code
def round6_stream(ctx, n_cases):
    """K for model definitions that had theorems but no correspondence: (a) `EmitterState.new/apply/run` — histories of
    `voxel_map` / `mask` writes (right shape, permuted shape with the same number of cells, other shapes; dtypes int32/int64/bool/
    uint8) on ONE real emitter, inside try/except: status of every write, then `voxel_map`, `voxel_map_mv`, `bins`, `mask`;
    (b) `Pipe1D.observe` — initialise + update per task (a pixel may get two tasks, some none) on a real RayTransferPipeline1D and,
    through the flattened pixel index, RayTransferPipeline2D; (c) `pixelProcess` — add_sample histories on the real Power / Radiance
    pixel processors.  S oracles next to them: per-pixel mean of the LAST task (`pipe1D_observe_is_mean`), running sum."""
    from raysect.optical import Spectrum
    from cherab.tools.raytransfer import RayTransferPipeline1D, RayTransferPipeline2D
    from cherab.tools.raytransfer import CartesianRayTransferEmitter, CylindricalRayTransferEmitter
    from cherab.tools.raytransfer.pipelines import PowerRayTransferPixelProcessor, RadianceRayTransferPixelProcessor
    rng = ctx.rng
    lines, exp = [], []
    for it in range(n_cases):
        # (a) emitter map-setter history
        shape = (rng.randint(1, 3), rng.randint(1, 3), rng.randint(1, 3))
        n = shape[0] * shape[1] * shape[2]
        if rng.random() < 0.5:
            em = CartesianRayTransferEmitter(shape, (1.0, 0.5, 0.25))
        else:
            em = CylindricalRayTransferEmitter(shape, (0.5, 360.0 / shape[1], 1.0), rmin=rng.choice([0.0, 0.5]))
        toks, stat = [], []
        for _ in range(rng.randint(1, 6)):
            u = rng.random()
            if u < 0.6:
                sh = shape
            elif u < 0.8:
                sh = rng.choice([(shape[1], shape[2], shape[0]), (shape[2], shape[1], shape[0]), (n, 1, 1), (1, 1, n)])
            else:
                sh = (rng.randint(1, 3), rng.randint(1, 3), rng.randint(1, 3))
            m = sh[0] * sh[1] * sh[2]
            if rng.random() < 0.5:
                vals = [rng.choice([-1, -1, 0, 0, 1, 2, 5, -3]) for _ in range(m)]
                arr = np.array(vals, dtype=rng.choice([np.int32, np.int64, np.int16])).reshape(sh)
                toks += ['v', str(sh[0]), str(sh[1]), str(sh[2]), str(m)] + [str(v) for v in vals]
                st = call(setattr, em, 'voxel_map', arr)[0]
            else:
                p = rng.choice([0.0, 0.3, 0.7, 1.0])
                vals = [1 if rng.random() < p else 0 for _ in range(m)]
                arr = np.array(vals, dtype=rng.choice([bool, np.uint8])).reshape(sh)
                toks += ['m', str(sh[0]), str(sh[1]), str(sh[2]), str(m)] + [str(v) for v in vals]
                st = call(setattr, em, 'mask', arr)[0]
            stat.append('1' if st == 'ok' else '0')
            if (st == 'ok') != (tuple(sh) == shape):
                ctx.fail('C10:%s:%s' % ('voxel_map' if toks[-m - 5] == 'v' else 'mask',
                                        'invalid-value-accepted' if st == 'ok' else 'legal-layout-rejected'),
                         'grid %r: write of shape %r -> %s' % (shape, sh, st), dict(kind='emitter-history', shape=shape, tokens=toks))
        ints = lambda a: ' '.join(str(int(v)) for v in np.asarray(a).ravel())
        lines.append('ehist %d %d %d %s' % (shape + (' '.join(toks),)))
        exp.append('%s | %s | %s | %d | %s' % (' '.join(stat), ints(em.voxel_map), ints(em.voxel_map_mv), em.bins,
                                                ' '.join('1' if b else '0' for b in np.asarray(em.mask).ravel())))
        ctx.count('K:emitter-history')
        # (b) 1D / 2D pipeline, one observe on a pipeline that was used before
        two_d = rng.random() < 0.5
        kind = rng.choice(['power', 'radiance'])
        pipe = (RayTransferPipeline2D if two_d else RayTransferPipeline1D)(kind=kind)
        for rep in range(rng.randint(1, 2)):
            pix = (rng.randint(1, 3), rng.randint(1, 2)) if two_d else rng.randint(1, 5)
            npix = pix[0] * pix[1] if two_d else pix
            ps, bins = rng.randint(1, 7), rng.randint(1, 4)
            pipe.initialise(pix, ps, 500.0, 501.0, bins, 1, True)
            toks, last = [], {}
            for _ in range(rng.randint(0, npix + 2)):
                k = rng.randrange(npix)
                arr = np.array([rng.choice([0.0, 0.5, 1.25, rng.uniform(0, 3)]) for _ in range(bins)])
                if two_d:
                    pipe.update(k // pix[1], k % pix[1], 0, (arr, 0))
                else:
                    pipe.update(k, 0, (arr, 0))
                last[k] = arr
                toks += [str(k)] + [f2b(v) for v in arr]
            pipe.finalise()
        mat = np.asarray(pipe.matrix).reshape(npix, bins)
        for k in range(npix):
            want = last[k] / ps if k in last else np.zeros(bins)
            if not np.allclose(mat[k], want, rtol=1e-12, atol=0.0):
                ctx.fail('C10:pipeline%s:update:not-per-sample-mean' % ('2D' if two_d else '1D'),
                         'pixel %d of %r, pixel_samples %d: row %r, packed result / pixel_samples %r' % (k, pix, ps, mat[k].tolist(), want.tolist()),
                         dict(kind='pipeline-methods-1d2d', pixels=pix, samples=ps, bins=bins))
        lines.append('pipe1d %d %d %d %d %s' % (npix, ps, bins, len(toks) // (bins + 1), ' '.join(toks)))
        exp.append(' | '.join(fs([float(v) for v in row]) for row in mat))
        ctx.count('K:pipeline%s-observe' % ('2D' if two_d else '1D'))
        # (c) pixel processor
        bins = rng.randint(1, 4)
        proc = (PowerRayTransferPixelProcessor if kind == 'power' else RadianceRayTransferPixelProcessor)(bins)
        toks, tot = [], np.zeros(bins)
        ns = rng.randint(0, 5)
        for _ in range(ns):
            sp = Spectrum(500.0, 501.0, bins)
            arr = np.array([rng.choice([0.0, 0.5, 1.25, rng.uniform(0, 3)]) for _ in range(bins)])
            sp.samples[:] = arr
            sens = rng.choice([1.0, 0.5, 2.0, rng.uniform(0.1, 4)])
            proc.add_sample(sp, sens)
            tot = tot + (arr * sens if kind == 'power' else arr)
            toks += [f2b(sens)] + [f2b(v) for v in arr]
        packed = proc.pack_results()
        if not np.allclose(packed[0], tot, rtol=1e-12, atol=0.0):
            ctx.fail('C10:pixel-processor:%s:not-the-sum-of-samples' % kind,
                     '%d samples: packed %r, expected %r' % (ns, list(packed[0]), tot.tolist()), dict(kind='pixel-processor', pkind=kind, bins=bins))
        lines.append('pixproc %s %d %d %s' % (kind, bins, ns, ' '.join(toks)))
        exp.append(fs([float(v) for v in packed[0]]))
        ctx.count('K:pixel-processor')
    outs = ctx.driver(lines)
    for l, e, o in zip(lines, exp, outs):
        ctx.traces += 1
        ctx.case(key=('round6', l[:60]))
        if e != o:
            ctx.disagreements += 1
            ctx.broke('correspondence', 'C10 round-6 machine (%s)' % l.split()[0], dict(line=l[:300], model=o[:300], implementation=e[:300]))


# ----------------------------------------------------------------------------------------------- pipelines
def _observers():
    """deterministic 1D / 2D observers (python subclasses of raysect's abstract observers): pixel -> one fixed ray"""
    if 'Line1D' in _CTX:
        return _CTX['Line1D'], _CTX['Grid2D']
    from raysect.optical import Point3D, Vector3D
    from raysect.optical.observer.base import Observer1D, Observer2D
    from raysect.optical.observer import FullFrameSampler1D, FullFrameSampler2D

    class Line1D(Observer1D):
        def __init__(self, rays, sens, pipelines, **kw):
            self.rays_, self.sens_ = rays, sens
            super().__init__(len(rays), FullFrameSampler1D(), pipelines, **kw)

        def _generate_rays(self, pixel, template, ray_count):
            o, d = self.rays_[pixel]
            return [(template.copy(Point3D(*o), Vector3D(*d)), 1.0) for _ in range(ray_count)]

        def _pixel_sensitivity(self, pixel):
            return self.sens_

    class Grid2D(Observer2D):
        def __init__(self, rays, sens, pipelines, **kw):
            self.rays_, self.sens_ = rays, sens            # rays[x][y]
            super().__init__((len(rays), len(rays[0])), FullFrameSampler2D(), pipelines, **kw)

        def _generate_rays(self, x, y, template, ray_count):
            o, d = self.rays_[x][y]
            return [(template.copy(Point3D(*o), Vector3D(*d)), 1.0) for _ in range(ray_count)]

        def _pixel_sensitivity(self, x, y):
            return self.sens_

    _CTX['Line1D'], _CTX['Grid2D'] = Line1D, Grid2D
    return Line1D, Grid2D


def pipeline_stream(ctx, n_cases):
    """K(c)/S: histories of 2-3 consecutive observe() calls of the SAME observer and pipeline (0D SightLine, 1D, 2D with fixed
    rays per pixel), interleaved with scene changes (mask, step, transform of the ray-transfer object, pixel_samples).
    Oracle for every observe: matrix[pixel] = spectrum traced along the pixel's ray (x sensitivity for 'power'), which is
    also what a fresh pipeline returns."""
    from raysect.optical import World, Ray, Point3D, Vector3D, translate, rotate_basis
    from raysect.optical.observer import SightLine
    from raysect.core.workflow import SerialEngine
    from cherab.tools.raytransfer import RayTransferBox, RayTransferCylinder, RayTransferPipeline0D, RayTransferPipeline1D, RayTransferPipeline2D
    Line1D, Grid2D = _observers()
    rng = ctx.rng
    for it in range(n_cases):
        world = World()
        cfg = make_cart(rng) if rng.random() < 0.6 else make_cyl(rng)
        sh = cfg['shape']
        if cfg['geo'] == 'cart':
            ext = [sh[a] * cfg['steps'][a] for a in range(3)]
            rt = RayTransferBox(ext[0], ext[1], ext[2], sh[0], sh[1], sh[2], voxel_map=cfg['vmap'], mask=cfg['mask'], parent=world)
            centre = [0.5 * e for e in ext]
        else:
            rout, h = cfg['rmin'] + sh[0] * cfg['steps'][0], sh[2] * cfg['steps'][2]
            rt = RayTransferCylinder(rout, h, sh[0], sh[2], radius_inner=cfg['rmin'], n_polar=sh[1], period=cfg['period'],
                                     voxel_map=cfg['vmap'], mask=cfg['mask'], parent=world)
            ext = [2 * rout, 2 * rout, h]
            centre = [0.0, 0.0, 0.5 * h]
        size = max(ext)

        def a_ray():
            tgt = [centre[a] + rng.uniform(-0.3, 0.3) * ext[a] for a in range(3)]
            d = [rng.gauss(0, 1) for _ in range(3)]
            nd = math.sqrt(sum(c * c for c in d))
            d = [c / nd for c in d]
            return [tgt[a] - 3 * size * d[a] for a in range(3)], d
        dim = ('0D', '1D', '2D')[it % 3]
        kind = rng.choice(['radiance', 'power'])
        sens = rng.choice([1.0, 2.5, 0.125])
        common = dict(parent=world, min_wavelength=500.0, max_wavelength=501.0, spectral_bins=rt.bins, pixel_samples=rng.choice([1, 3]))
        if dim == '0D':
            o, d = a_ray()
            rays = [(o, d)]
            pipe = RayTransferPipeline0D(kind=kind)
            up = Vector3D(0, 0, 1) if abs(d[2]) < 0.9 else Vector3D(1, 0, 0)
            obs = SightLine(pipelines=[pipe], transform=translate(*o) * rotate_basis(Vector3D(*d), up), sensitivity=sens, **common)
            fresh = lambda: RayTransferPipeline0D(kind=kind)
        elif dim == '1D':
            rays = [a_ray() for _ in range(rng.randint(1, 4))]
            pipe = RayTransferPipeline1D(kind=kind)
            obs = Line1D(rays, sens, [pipe], **common)
            fresh = lambda: RayTransferPipeline1D(kind=kind)
        else:
            nx, ny = rng.randint(1, 3), rng.randint(1, 2)
            grid = [[a_ray() for _ in range(ny)] for _ in range(nx)]
            rays = [grid[x][y] for x in range(nx) for y in range(ny)]
            pipe = RayTransferPipeline2D(kind=kind)
            obs = Grid2D(grid, sens, [pipe], **common)
            fresh = lambda: RayTransferPipeline2D(kind=kind)
        obs.render_engine = SerialEngine()
        obs.quiet = True
        obs.spectral_rays = 1
        history = []
        for k in range(rng.randint(2, 3)):
            if k > 0:
                # change of the scene / of the observer between observes
                ch = rng.choice(['none', 'mask', 'step', 'move', 'pixel_samples', 'bad-kind', 'bad-step'])
                if ch == 'bad-kind':
                    st_, _ = call(setattr, pipe, 'kind', rng.choice(['blah', '', 'Power ']))
                    if st_ == 'ok' or pipe.kind != kind:
                        ctx.fail('C10:kind:rejected-write-left-a-trace' if st_ != 'ok' else 'C10:kind:invalid-value-accepted',
                                 'pipeline.kind after an invalid assignment: %r (was %r), status %s' % (pipe.kind, kind, st_), dict(kind='pipeline', dim=dim))
                elif ch == 'bad-step':
                    call(setattr, rt, 'step', rng.choice([0.0, -1.0]))          # must be a no-op: the next observe is compared with the traced rays
                if ch == 'mask':
                    op, val, _ = rnd_map_op(rng, sh)
                    setattr(rt, op, val)
                    obs.spectral_bins = rt.bins
                elif ch == 'step':
                    rt.step = rt.step * rng.choice([0.5, 2.0, 3.0])
                elif ch == 'move':
                    rt.transform = translate(*[rng.uniform(-0.2, 0.2) * e for e in ext])
                elif ch == 'pixel_samples':
                    obs.pixel_samples = rng.choice([1, 2, 5])
                history.append(ch)
            history.append('observe')
            st, r = call(obs.observe)
            desc = dict(kind='pipeline', dim=dim, pipeline_kind=kind, sensitivity=sens, geo=cfg['geo'], shape=sh, steps=cfg['steps'],
                        history=list(history), rays=rays, voxel_map=np.asarray(rt.voxel_map).ravel().tolist())
            ctx.count('pipeline%s:%s:observe#%d' % (dim, kind, k + 1))
            tag = 'first-observe' if k == 0 else 'repeated-observe'
            if st != 'ok':
                ctx.fail('C10:pipeline%s:%s:raised' % (dim, tag), 'observe raised %s: %s' % (st, r), desc)
                break
            got = np.array(pipe.matrix, dtype=float).reshape(len(rays), -1)
            want = []
            for o, d in rays:
                ray = Ray(origin=Point3D(*o), direction=Vector3D(*d), min_wavelength=500.0, max_wavelength=501.0, bins=rt.bins)
                want.append(np.array(ray.trace(world).samples) * (sens if kind == 'power' else 1.0))
            want = np.array(want)
            ctx.case(key=('pipe', dim, kind, k, tuple(f2b(v) for v in rays[0][0])) if want.any() else None)
            if got.shape != want.shape or not np.allclose(got, want, rtol=1e-9, atol=1e-12):
                ctx.fail('C10:pipeline%s:%s:%s' % (dim, kind, tag),
                         'observe #%d: matrix %r != spectra traced along the pixel rays %r (x sensitivity %r for power)'
                         % (k + 1, got.tolist(), want.tolist(), sens), desc)
                break
            # a fresh pipeline on the same observer gives the same matrix
            if k > 0 and rng.random() < 0.5:
                p2 = fresh()
                obs.pipelines = [p2]
                st2, r2 = call(obs.observe)
                obs.pipelines = [pipe]
                g2 = np.array(p2.matrix, dtype=float).reshape(len(rays), -1) if st2 == 'ok' else None
                if g2 is None or g2.shape != got.shape or not np.allclose(g2, got, rtol=1e-12, atol=0.0):
                    ctx.fail('C10:pipeline%s:%s:differs-from-fresh-pipeline' % (dim, kind), 'reused pipeline %r, fresh pipeline %r' % (got.tolist(), None if g2 is None else g2.tolist()), desc)
                    break
        obs.parent = None


# ----------------------------------------------------------------------------------------------- corpus / entry points
def run_corpus(ctx):
    import glob
    import json
    import os
    from harness.vlib.util import VERIF
    for p in sorted(glob.glob(os.path.join(VERIF, 'corpus', 'C10', '*.json'))):
        r = json.load(open(p))
        replay_one(ctx, r)
        ctx.count('corpus')


def cfg_from_desc(r):
    sh = tuple(r['shape'])
    vm = np.array(r['voxel_map'], dtype=np.int32).reshape(sh)
    ident = vm.ravel().tolist() == list(range(vm.size))
    cfg = dict(geo=r['geo'], shape=sh, steps=tuple(r['steps']), vmap=None if ident else vm, mask=None, kind='id' if ident else 'merge')
    if r['geo'] == 'cyl':
        cfg['rmin'] = r['rmin']
        cfg['period'] = r['period']
    return cfg


def replay_one(ctx, r, verbose=False):
    """re-run one recorded direct-call input on the implementation (oracle) and the model"""
    if r.get('kind') == 'e2e':
        return replay_e2e(ctx, r)
    if r.get('kind') in ('setter-emitter', 'setter-object'):
        return replay_setter(ctx, r)
    if 'segment' not in r:
        ctx.log('replay: this input class is re-generated from the seed by the streams')
        return
    cfg = cfg_from_desc(r)
    ms = r.get('min_samples', 2)
    mat = material(cfg)
    spec0 = r.get('spec0') or [0.0] * mat.bins
    st, ent = impl_integrate(cfg, r['step'], ms, r['segment'], spec0, nbins=len(spec0))
    o = ctx.driver([model_line(cfg, r['step'], ms, r['segment'], spec0, np.asarray(mat.voxel_map), len(spec0))])[0]
    mst, ment = parse_model(o)
    ctx.traces += 1
    ctx.case(key=('replay', str(r['segment'])))
    if verbose:
        ctx.log('replay: implementation %s %r' % (st, ent))
        ctx.log('replay: model          %s %r' % (mst, ment))
    if mst != st or (st == 'ok' and not close(ment, ent, TOL, 1e-300)):
        ctx.disagreements += 1
        ctx.broke('correspondence', 'C10 replay', dict(model=(mst, ment), implementation=(st, ent), input=r))
    if st == 'ok' and len(spec0) == mat.bins:
        check_oracle(ctx, cfg, r['step'], ms, r['segment'], spec0, ent, r)
        cells = cell_entries(ctx, cfg, r['step'], ms, r['segment'], ent, spec0, r)
        check_merge(ctx, dict(cfg=cfg, step=r['step'], ms=ms, seg=r['segment'], ent=ent, spec0=spec0, desc=r), cells)
        L, pcs = pieces(cfg, r['segment'])
        if pcs is not None:
            check_literal(ctx, cfg, r['step'], ms, r['segment'], L, pcs, cells, r)


def setup_translator(ctx):
    from harness.translators import raytransfer as tr
    vals, problems = tr.run()
    EXTRA.update(vals)
    RULE_KNOWN[0] = not problems
    ctx.extra['sample_count_rule'] = dict(extra=vals, meaning='n = max(min_samples, int(length/step) + extra)')
    for p in problems:
        ctx.broke('correspondence', 'C10 translator', p)


def run(ctx):
    ctx.rule = ('one case = one ray segment (direct integrate call) or one traced ray (end to end) on a random grid '
                '(1..6 cells per axis, dyadic or random cell sizes, periods 360/180/120/90/60/45, identity / mask / merged / holed maps, '
                'steps from 0.005 cell to 30 path lengths); distinct by (geometry, shape, step bits, end-point bits); '
                'non-trivial = at least one matrix entry changed')
    ctx.trusted += ['sqrt, atan2, fmod, pi and the C cast <int> are parameters of the model (TruncSpec / FmodSpec stated in Props/C10.lean); '
                    'the driver uses libm sqrt/atan2, an exact integer fmod and Float.toInt64',
                    'raysect 0.8.1: Point3D.transform, Vector3D.normalise, Ray.trace / World.hit / CSG Subtract / Box / Cylinder intersection, '
                    'Spectrum, observers and render engine (end-to-end stream compares against them, they are not modelled)',
                    'numpy boolean-mask assignment order (compared with mapFromMask on every run)']
    ctx.assumptions += ['coordinates within int range after division by the cell size (C cast of out-of-range doubles is undefined)',
                        'end-to-end: rays within 1e-4 cell of grazing an outer face of the bounding primitive are skipped (counted)',
                        'sampling bound |entry - chord| <= dt per maximal interval of ray∩cell is enforced for every source; the literal '
                        '2*step-per-cell clause is enforced per cell under the identity map (signatures *:cell-error-exceeds-two-steps:*)']
    setup_translator(ctx)
    ctx.lean_check(['Cherab.Props.C10', 'Cherab.Props.C10Geom'], 'Cherab/Audit/C10.lean')
    run_corpus(ctx)
    cap = ctx.n(3000, 20000)
    maps_stream(ctx, ctx.n(100, 1000))
    direct_stream(ctx, ctx.n(5000, 60000), cap)
    e2e_stream(ctx, ctx.n(250, 3000), cap)
    period_stream(ctx, ctx.n(400, 5000), cap)
    emission_stream(ctx, ctx.n(1500, 15000))
    setter_stream(ctx, ctx.n(150, 1500), cap)
    aliasing_stream(ctx, ctx.n(300, 3000), cap)
    rejected_stream(ctx, ctx.n(120, 1200), cap)
    state_machine_stream(ctx, ctx.n(200, 2000))
    round6_stream(ctx, ctx.n(200, 2000))
    shared_integrator_stream(ctx, ctx.n(150, 1500), cap)
    multitask_stream(ctx, ctx.n(40, 400))
    pipeline_stream(ctx, ctx.n(18, 150))


def replay(ctx, path):
    import json
    r = json.load(open(path))
    print(json.dumps(r, indent=1, default=str)[:3000])
    rp = r.get('replay') or {}
    inp = rp.get('input', rp)
    if isinstance(inp, dict) and ('segment' in inp or inp.get('kind') in ('e2e', 'setter-object')) and 'voxel_map' in inp:
        ctx.rule = 'replay of one recorded input'
        setup_translator(ctx)
        replay_one(ctx, inp, verbose=True)
        return ctx.finish()
    run(ctx)
    return ctx.finish()
