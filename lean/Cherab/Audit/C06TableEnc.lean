import Cherab.Props.C06TableEnc
open Cherab.Props.C06Table
#print axioms encode_is_str_lower
