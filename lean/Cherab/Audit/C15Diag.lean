import Cherab.Model.Groups
import Cherab.Gen.GroupTable
open Cherab.Groups Cherab.Gen.GroupTable
/-! Diagnostic only (not a proof obligation): which generated descriptors are not admissible.  Read by the harness when
`table_wf` does not hold, to seed the failing-input search and to demand one failing input per descriptor. -/
#eval (table.filter fun d => !d.admissible table).map fun d => d.cls ++ "." ++ d.name
#eval (classes.filter fun c => !c.sliceKeys).map fun c => c.name ++ ".__getitem__"
