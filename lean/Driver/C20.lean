import Cherab.Drv.Proto
import Cherab.Model.Admt
import Cherab.Model.AdmtDense
import Cherab.Gen.Admt
open Cherab.Drv Cherab.Admt Cherab.Gen.Admt

instance : Zero Float := ⟨0.0⟩

def pairs : List Float → List (Float × Float)
  | a :: b :: t => (a, b) :: pairs t
  | _ => []

def chunks (k : Nat) : Nat → List Float → List (List Float)
  | 0, _ => []
  | n + 1, l => l.take k :: chunks k n (l.drop k)

def cellsOf : Nat → List String → List (Int × Int) × List String
  | 0, ts => ([], ts)
  | n + 1, a :: b :: ts => let (r, rest) := cellsOf n ts; ((pI a, pI b) :: r, rest)
  | _, _ => ([], [])

/-- `ops n (ix iy)*n nv (x y)*(n*nv)` -/
def doOps (ts : List String) : String :=
  match ts with
  | nS :: rest =>
    let n := pN nS
    let (cells, rest) := cellsOf n rest
    match rest with
    | nvS :: fl =>
      let nv := pN nvS
      let verts := (chunks (2 * nv) n (fl.map pF)).map pairs
      let centres := verts.map centre
      match extractSteps centres with
      | none => "ValueError"
      | some (dx, dy) =>
        let tabs := cells.map (rowTable cells)
        if tabs.any (·.isNone) then "IndexError" else
        let rows := (cells.zip tabs).toArray
        let out := Op5.all.map fun op =>
          (List.range n).map fun i =>
            match rows[i]! with
            | (c, some t) => (List.range n).map fun j => opEntry cells dx dy c t op j
            | _ => []
        "ok " ++ fFs ([dx, dy] ++ out.flatten.flatten)
    | _ => "bad-op"
  | _ => "bad-op"

/-- `dense n (ix iy)*n nv (x y)*(n*nv)`: the same operators as `ops`, assembled the way the code does it — every
assignment of the loop body stored into its column of the dense row of cell `i`, last write wins (`denseRun`) -/
def doDense (ts : List String) : String :=
  match ts with
  | nS :: rest =>
    let n := pN nS
    let (cells, rest) := cellsOf n rest
    match rest with
    | nvS :: fl =>
      let nv := pN nvS
      let verts := (chunks (2 * nv) n (fl.map pF)).map pairs
      match extractSteps (verts.map centre) with
      | none => "ValueError"
      | some (dx, dy) =>
        let ds := ((List.range n).zip cells).map fun ic => denseRun program cells ic.2 ic.1
        if ds.any (·.isNone) then "IndexError" else
        let rows := ds.toArray
        let out := Op5.all.map fun op =>
          (List.range n).map fun i =>
            match rows[i]! with
            | some d => (List.range n).map fun j => (denseEntry dx dy d op j : Float)
            | none => []
        "ok " ++ fFs ([dx, dy] ++ out.flatten.flatten)
    | _ => "bad-op"
  | _ => "bad-op"

/-- the row table of cell `c`, with the nine lookups evaluated once (`rowTable cells c` by definition) -/
def rowTableMemo (cells : List (Int × Int)) (c : Int × Int) : Option Table × (Pos → Option Nat) :=
  let nb := Pos.all.map fun p => (p, neighbour cells c p)
  let look : Pos → Option Nat := fun p => match nb.find? (fun q => q.1 == p) with
    | some q => q.2
    | none => none
  (runProgram program (fun p => (look p).isSome), look)

/-- `rows n (ix iy)*n nv (x y)*(n*nv) m i*m`: extracted dx, dy and, for the sampled rows, every operator's nine
stencil entries as `column value` (column -1 = no such neighbour) -/
def doRows (ts : List String) : String :=
  match ts with
  | nS :: rest =>
    let n := pN nS
    let (cells, rest) := cellsOf n rest
    match rest with
    | nvS :: fl =>
      let nv := pN nvS
      let verts := (chunks (2 * nv) n ((fl.take (2 * nv * n)).map pF)).map pairs
      let sample := (fl.drop (2 * nv * n + 1)).map pN
      match extractSteps (verts.map centre) with
      | none => "ValueError"
      | some (dx, dy) =>
        let tabs := (cells.map (rowTableMemo cells)).toArray
        if tabs.any (·.1.isNone) then "IndexError" else
        let out := sample.map fun i =>
          match tabs[i]! with
          | (some t, look) =>
            " ".intercalate (Op5.all.map fun op => " ".intercalate (Pos.all.map fun p =>
              match look p with
              | some j => toString j ++ " " ++ fF ((t.val op p : Float) / scaleDen op dx dy)
              | none => "-1 " ++ fF ((t.val op p : Float) / scaleDen op dx dy)))
          | _ => ""
        "ok " ++ fFs [dx, dy] ++ " " ++ " ".intercalate out
    | _ => "bad-op"
  | _ => "bad-op"

def matOf (n : Nat) (a : Array Float) (off : Nat) : Nat → Nat → Float := fun i j => a[off + i * n + j]!

/-- `admt n aniso dx dy radii*n psi*n Dx*n² Dy*n² Dxx*n² Dxy*n² Dyy*n²` -/
def doAdmt (ts : List String) : String :=
  match ts with
  | nS :: an :: dx :: dy :: fl =>
    let n := pN nS
    let a := (fl.map pF).toArray
    let radii : Nat → Float := fun i => a[i]!
    let psi : Nat → Float := fun i => a[n + i]!
    let M : Op5 → Nat → Nat → Float
      | .Dx => matOf n a (2 * n) | .Dy => matOf n a (2 * n + n * n) | .Dxx => matOf n a (2 * n + 2 * n * n)
      | .Dxy => matOf n a (2 * n + 3 * n * n) | .Dyy => matOf n a (2 * n + 4 * n * n)
    let out := (List.range n).map fun i =>
      let k := admtCoeffs n radii M psi (pF an) i
      (List.range n).map fun j => admtEntryOf Float.sqrt M (pF dx) (pF dy) k i j
    fFs out.flatten
  | _ => "bad-op"

def step (ts : List String) : String :=
  match ts with
  | "ops" :: r => doOps r
  | "dense" :: r => doDense r
  | "admt" :: r => doAdmt r
  | "rows" :: r => doRows r
  | ["coef", an, rr, a1, a2, a3, a4, a5, a6, a7, a8, a9] =>
      let k := coeffs (pF an) (pF rr) (pF a1) (pF a2) (pF a3) (pF a4) (pF a5) (pF a6) (pF a7) (pF a8) (pF a9)
      fFs [k.cx, k.cy, k.cxx, k.cxy, k.cyy]
  | ["slot"] => (repr dnormCxSlot).pretty
  | _ => "bad-op"

def main : IO UInt32 := do
  loop (stateless step) (← IO.getStdin) (← IO.getStdout) ()
  return 0
