import Cherab.Model.Invalidation
import Cherab.Model.NotifyGraph
import Cherab.Model.Notifier
import Mathlib.Logic.Relation

/-!
# C01 — changes never leave stale derived state: generic theorems

* `Inval.no_stale`, `Inval.stale_witness` (in `Cherab/Model/Invalidation.lean`): for a dependency-invalidation
  protocol whose clear-relation covers its dependency relation, after *every* history of parameter changes
  interleaved with observations an observation equals the from-scratch observation of the final configuration;
  and conversely an uncovered pair yields the stale history `[observe c, set p, observe c]`.
* here: the bounded reachability used to compute the clear-relation from the generated notification graph is sound
  (`reachWithin_sound`), the executable coverage check implies `Inval.Covered` (`coveredBy_sound`), hence
  `no_stale_of_coveredBy` for any graph/dependency table that passes the check.
-/
namespace Cherab.Props.C01
open Cherab.NotifyGraph

/-- edge relation of the graph -/
def Edge (es : List (Nat × Nat)) (a b : Nat) : Prop := (a, b) ∈ es

theorem mem_succs {es : List (Nat × Nat)} {a b : Nat} : b ∈ succs es a ↔ Edge es a b := by
  unfold succs Edge
  simp only [List.mem_map, List.mem_filter, beq_iff_eq]
  constructor
  · rintro ⟨⟨x, y⟩, ⟨hm, hx⟩, hy⟩
    simp only at hx hy; subst hx; subst hy; exact hm
  · intro h; exact ⟨(a, b), ⟨h, rfl⟩, rfl⟩

theorem stepSet_sound (es : List (Nat × Nat)) (s : List Nat) (b : Nat) (h : b ∈ stepSet es s) :
    ∃ a ∈ s, Relation.ReflTransGen (Edge es) a b := by
  unfold stepSet at h
  rw [List.mem_eraseDups, List.mem_append] at h
  rcases h with h | h
  · exact ⟨b, h, Relation.ReflTransGen.refl⟩
  · rw [List.mem_flatMap] at h
    obtain ⟨a, ha, hb⟩ := h
    exact ⟨a, ha, Relation.ReflTransGen.single (mem_succs.mp hb)⟩

/-- bounded breadth-first search only returns nodes that are really reachable -/
theorem reachWithin_sound (es : List (Nat × Nat)) (fuel : Nat) (s : List Nat) (b : Nat)
    (h : b ∈ reachWithin es fuel s) : ∃ a ∈ s, Relation.ReflTransGen (Edge es) a b := by
  induction fuel generalizing s with
  | zero => exact ⟨b, h, Relation.ReflTransGen.refl⟩
  | succ f ih =>
    obtain ⟨m, hm, hmb⟩ := ih (stepSet es s) h
    obtain ⟨a, ha, ham⟩ := stepSet_sound es s m hm
    exact ⟨a, ha, ham.trans hmb⟩

/-- `reaches … a b = true` exhibits a genuine call/notification chain from `a` to `b` -/
theorem reaches_sound (names : List String) (es : List (Nat × Nat)) (fuel : Nat) (a b : String)
    (h : reaches names es fuel a b = true) :
    ∃ i j, idOf names a = some i ∧ idOf names b = some j ∧ Relation.ReflTransGen (Edge es) i j := by
  unfold reaches at h
  split at h
  · rename_i i j hi hj
    rw [List.contains_iff_mem] at h
    obtain ⟨x, hx, hr⟩ := reachWithin_sound es fuel [i] j h
    rw [List.mem_singleton] at hx; subst hx
    exact ⟨x, j, hi, hj, hr⟩
  · cases h

/-- the invalidation protocol induced by a graph and a dependency table -/
def protoOf (names : List String) (es : List (Nat × Nat)) (fuel : Nat) (t : DepTable) : Inval.Proto String String :=
  { deps := depsOf t, clears := clearsOf names es fuel t }

/-- the executable check implies coverage -/
theorem coveredBy_sound (names : List String) (es : List (Nat × Nat)) (fuel : Nat) (t : DepTable)
    (h : coveredBy names es fuel t = true) : Inval.Covered (protoOf names es fuel t) := by
  intro c p hp
  simp only [protoOf, depsOf, List.mem_flatMap, List.mem_filter, beq_iff_eq] at hp
  obtain ⟨e, ⟨het, hec⟩, hpe⟩ := hp
  simp only [protoOf, clearsOf, List.mem_filter, cachesOf, List.mem_eraseDups, List.mem_map]
  refine ⟨⟨e, het, hec⟩, ?_⟩
  unfold coveredBy at h
  rw [List.all_eq_true] at h
  have := h e het
  rw [List.all_eq_true] at this
  rw [← hec]
  exact this p hpe

/-- **main theorem**: if the coverage check passes for a notification graph and dependency table, then after any
finite history of mutators interleaved with observations, observing any derived state returns exactly what a scene
built from scratch in the final configuration returns. -/
theorem no_stale_of_coveredBy (names : List String) (es : List (Nat × Nat)) (fuel : Nat) (t : DepTable)
    (h : coveredBy names es fuel t = true) (ops : List (Inval.Op String String)) (c : String) :
    let pr := protoOf names es fuel t
    let s := Inval.run pr Inval.init ops
    (Inval.step pr s (.obs c)).2 = some ((pr.deps c).map s.ver) :=
  Inval.no_stale _ (coveredBy_sound names es fuel t h) ops c

/-- observations do not disturb: the final state of a history does not depend on interleaved observations of a
covered protocol as far as any later observation can tell (corollary: order of evaluation is irrelevant). -/
theorem obs_irrelevant (names : List String) (es : List (Nat × Nat)) (fuel : Nat) (t : DepTable)
    (h : coveredBy names es fuel t = true) (ops : List (Inval.Op String String)) (c d : String) :
    let pr := protoOf names es fuel t
    (Inval.step pr (Inval.run pr Inval.init (ops ++ [.obs d])) (.obs c)).2
      = (Inval.step pr (Inval.run pr Inval.init ops) (.obs c)).2 := by
  intro pr
  have h1 := no_stale_of_coveredBy names es fuel t h (ops ++ [.obs d]) c
  have h2 := no_stale_of_coveredBy names es fuel t h ops c
  simp only at h1 h2
  rw [h1, h2]
  congr 2
  simp only [Inval.run, List.foldl_append, List.foldl_cons, List.foldl_nil, Inval.step]
  unfold Inval.fill
  split <;> rfl

/-- non-vacuity: a two-node graph where the setter reaches the cache -/
example : coveredBy ["p", "c"] [(0, 1)] 3 [("c", ["p"])] = true := by decide

example : coveredBy ["p", "c"] [] 3 [("c", ["p"])] = false := by decide

end Cherab.Props.C01
