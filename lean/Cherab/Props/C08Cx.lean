import Cherab.Lemmas.AdfCx
import Cherab.Props.C08

/-!
C08 — install step of ADF15 thermal-CX PECs (`_thermalcx_adf15_2dto3d_converter`): "installing the file into a repository and
reading it back yields the same tables", "charge-state convention", and "not silently mis-read" for the converter that sits
between `parse_adf15` and the repository.
-/
namespace Cherab.Props.C08
open Cherab.Adf
set_option linter.unusedVariables false
variable {α ν τ ω : Type}

/-- a table whose shape matches its grids is converted without error; grids are handed on unchanged, `td` is the fixed
two-point grid, and the 3-D table is the 2-D one repeated along the last axis — every size, including empty grids -/
theorem cx3d_wellformed (r : Rate15 α) (h : Rect r) : cx3dRate r = .ok (cx3dSpec r) := by
  unfold cx3dRate
  rw [bcastAxis_exact _ _ h.1]
  show (do
    let data ← r.rate.mapM fun row => do
      let c ← bcastAxis r.te.length row
      pure (c.map dupTd)
    pure ({ ne := r.ne, te := r.te, td := tdGrid, rate := data } : Rate15x3 α)) = _
  rw [mapM_ok_of_forall _ (fun row => row.map dupTd)]
  · rfl
  · intro row hrow
    rw [bcastAxis_exact _ _ (h.2 row hrow)]; rfl

example : Rect (⟨["1", "2"], ["a", "b", "c"], [["p", "q", "r"], ["s", "t", "u"]]⟩ : Rate15 String) := by
  refine ⟨rfl, ?_⟩; decide

/-- entry-by-entry: `rate3[i_ne][i_te][k] = rate[i_ne][i_te]` for both donor temperatures (axis order (density, temperature)
is kept, nothing is transposed), for all indices — out of range on one side iff on the other -/
theorem cx3d_entry (r : Rate15 α) (i j k : Nat) (hk : k < 2) :
    (((cx3dSpec r).rate[i]?.bind (·[j]?)).bind (·[k]?)) = r.rate[i]?.bind (·[j]?) := by
  unfold cx3dSpec
  simp only [List.getElem?_map]
  cases r.rate[i]? with
  | none => rfl
  | some row =>
    simp only [Option.map_some, Option.bind_some, List.getElem?_map]
    cases row[j]? with
    | none => rfl
    | some x => simp only [Option.map_some, Option.bind_some]; exact dupTd_get x k hk

/-- shape `(len ne, len te, 2)` -/
theorem cx3d_shape (r : Rate15 α) (h : Rect r) :
    (cx3dSpec r).rate.length = r.ne.length ∧ (∀ row ∈ (cx3dSpec r).rate, row.length = r.te.length ∧ ∀ cell ∈ row, cell.length = 2)
      ∧ (cx3dSpec r).td.length = 2 := by
  refine ⟨by simp [cx3dSpec, h.1], ?_, rfl⟩
  intro row hrow
  simp only [cx3dSpec, List.mem_map] at hrow
  obtain ⟨row0, h0, rfl⟩ := hrow
  refine ⟨by simp [h.2 row0 h0], ?_⟩
  intro cell hcell
  simp only [List.mem_map] at hcell
  obtain ⟨x, _, rfl⟩ := hcell
  rfl

/-- composed with the parser's result for a written block (`adf15_roundtrip` returns `rateOfBlk15 b` for the block of a
CHEXC transition): the installed 3-D entry at `(i_ne, i_te, k)` is the file's number `b.rate i_ne i_te` -/
theorem cx3d_of_block (b : Blk15 α ω) :
    cx3dRate (rateOfBlk15 b) = .ok (cx3dSpec (rateOfBlk15 b)) ∧
    ∀ i j k, i < b.ne.length → j < b.te.length → k < 2 →
      (((cx3dSpec (rateOfBlk15 b)).rate[i]?.bind (·[j]?)).bind (·[k]?)) = some (b.rate i j) := by
  have hR : Rect (rateOfBlk15 b) := by
    refine ⟨by simp [rateOfBlk15, tabulate], ?_⟩
    intro row hrow
    simp only [rateOfBlk15, tabulate, List.mem_map] at hrow
    obtain ⟨i, _, rfl⟩ := hrow
    simp [rateOfBlk15]
  refine ⟨cx3d_wellformed _ hR, ?_⟩
  intro i j k hi hj hk
  rw [cx3d_entry _ i j k hk]
  exact axis_order15 b i j hi hj

example : cx3dRate (rateOfBlk15 (⟨3, "w", .chexc, ["1", "2"], ["a"], fun i j => toString (10 * i + j)⟩ : Blk15 String String))
    = .ok ⟨["1", "2"], ["a"], ["0.01", "10000"], [[["0", "0"]], [["10", "10"]]]⟩ := by decide

/-- a table with the wrong number of density rows is rejected (ValueError), unless it has exactly one row -/
theorem cx3d_rows_rejected (r : Rate15 α) (h : r.rate.length ≠ r.ne.length) (h1 : r.rate.length ≠ 1) :
    cx3dRate r = .error .value := by
  unfold cx3dRate
  rw [bcastAxis_reject _ _ h h1]; rfl

/-- a table with the wrong number of temperature columns is rejected (ValueError), unless it has exactly one column -/
theorem cx3d_cols_rejected (r : Rate15 α) (row : List α) (rest : List (List α)) (hrate : r.rate = row :: rest)
    (hr : r.rate.length = r.ne.length) (h : row.length ≠ r.te.length) (h1 : row.length ≠ 1) :
    cx3dRate r = .error .value := by
  unfold cx3dRate
  rw [bcastAxis_exact _ _ hr, hrate]
  show (do
    let data ← (row :: rest).mapM fun row => do
      let c ← bcastAxis r.te.length row
      pure (c.map dupTd)
    pure { ne := r.ne, te := r.te, td := tdGrid, rate := data : Rate15x3 α }) = _
  rw [mapM_error_head _ row rest .value (by rw [bcastAxis_reject _ _ h h1]; rfl)]
  rfl

example : cx3dRate (⟨["1", "2", "3"], ["a"], [["p"], ["q"]]⟩ : Rate15 String) = .error .value := by decide
example : cx3dRate (⟨["1", "2"], ["a", "b", "c"], [["p", "q"], ["r", "s"]]⟩ : Rate15 String) = .error .value := by decide

/-- the `≠ 1` side conditions above are necessary: numpy broadcasting repeats an axis of length 1, so a one-row table for three
densities is accepted and repeated (the parser never produces one: `cx3d_of_block`) -/
theorem cx3d_len1_axis_repeated :
    cx3dRate (⟨["1", "2", "3"], ["a", "b"], [["p", "q"]]⟩ : Rate15 String)
      = .ok ⟨["1", "2", "3"], ["a", "b"], tdGrid, List.replicate 3 [["p", "p"], ["q", "q"]]⟩ := by decide

/-- the whole converter on a nested dictionary of well-shaped tables: elements and transitions keep their keys and their
order, every charge key is shifted by exactly `+1` (receiver charge = emitting charge + 1), every table is `cx3dSpec` -/
theorem cx2dto3d_wellformed (rates : List (ν × List (Int × List (τ × Rate15 α))))
    (h : ∀ ec ∈ rates, ∀ qt ∈ ec.2, ∀ tr ∈ qt.2, Rect tr.2) :
    cx2dto3d rates = .ok (rates.map fun ec => (ec.1, ec.2.map fun qt => (qt.1 + 1, qt.2.map fun tr => (tr.1, cx3dSpec tr.2)))) := by
  unfold cx2dto3d
  apply mapM_ok_of_forall
  intro ec hec
  rw [mapM_ok_of_forall _ (fun qt => (qt.1 + 1, qt.2.map fun tr => (tr.1, cx3dSpec tr.2)))]
  · rfl
  · intro qt hqt
    rw [mapM_ok_of_forall _ (fun tr => (tr.1, cx3dSpec tr.2))]
    · rfl
    · intro tr htr
      rw [cx3d_wellformed _ (h ec hec qt hqt tr htr)]; rfl

/-- charge-state convention of the thermal-CX family: the keys of the converted dictionary -/
theorem cx_charge_plus_one (rates : List (ν × List (Int × List (τ × Rate15 α)))) (out)
    (h : ∀ ec ∈ rates, ∀ qt ∈ ec.2, ∀ tr ∈ qt.2, Rect tr.2) (ho : cx2dto3d rates = .ok out) :
    out.map (·.1) = rates.map (·.1) ∧
    out.map (fun ec => ec.2.map (·.1)) = rates.map (fun ec => ec.2.map (·.1 + 1)) ∧
    out.map (fun ec => ec.2.map fun qt => qt.2.map (·.1)) = rates.map (fun ec => ec.2.map fun qt => qt.2.map (·.1)) := by
  rw [cx2dto3d_wellformed rates h] at ho
  cases ho
  simp [List.map_map, Function.comp_def]

/-- if any table is rejected the converter raises: nothing is written for the file (no partial dictionary is returned) -/
theorem cx2dto3d_rejects (el : ν) (q : Int) (t : τ) (r : Rate15 α) (rest1 : List (τ × Rate15 α))
    (rest2 : List (Int × List (τ × Rate15 α))) (rest3 : List (ν × List (Int × List (τ × Rate15 α))))
    (hr : cx3dRate r = .error .value) :
    cx2dto3d ((el, (q, (t, r) :: rest1) :: rest2) :: rest3) = .error .value := by
  unfold cx2dto3d
  apply mapM_error_head
  dsimp only
  rw [mapM_error_head _ _ _ .value]
  · rfl
  · dsimp only
    rw [mapM_error_head _ _ _ .value]
    · rfl
    · dsimp only
      rw [hr]; rfl

example : cx2dto3d [("ne", [((9 : Int), [("t1", (⟨["1"], ["a", "b"], [["p", "q"]]⟩ : Rate15 String)),
    ("t2", ⟨["1", "2", "3"], ["a"], [["p"], ["q"]]⟩)])])] = .error .value := rfl

example : cx2dto3d [("ne", [((9 : Int), [("t1", (⟨["1"], ["a", "b"], [["p", "q"]]⟩ : Rate15 String))])])]
    = .ok [("ne", [(10, [("t1", ⟨["1"], ["a", "b"], ["0.01", "10000"], [[["p", "p"], ["q", "q"]]]⟩)])])] := rfl

end Cherab.Props.C08
