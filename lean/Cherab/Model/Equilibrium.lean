/-
C12 — equilibrium mapping and flux-surface basis.

Transcribed from cherab/tools/equilibrium/efit.pyx (EFITEquilibrium, EFITLCFSMask, MagneticField,
PoloidalFieldVector, FluxSurfaceNormal, FluxCoordToCartesian), the cherab.core.math wrappers it composes
(ClampOutput2D, IsoMapper2D, AxisymmetricMapper, VectorAxisymmetricMapper) and the raysect primitives those
call (Blend2D scalar/vector, Vector3D.normalise / set_length / transform, rotate_z).

Mathlib-free, polymorphic over notation: the same definitions run at `Float` in `Driver/C12.lean` and are
reasoned about over an ordered field in `Props/C12.lean`.

External mathematics is a parameter: `sqrt`, `atan2`, `cos`, `sin`, `pi`, raysect's cubic interpolators of
the (normalised) psi grid and of the finite-difference derivative grids, the triangulated polygon mask,
the 1-D profiles, `Vector3D.slerp`.

Raised exceptions are modelled with `Option` (`none` = ZeroDivisionError of normalise / set_length).
-/
namespace Cherab.Equilibrium

structure V3 (α : Type) where
  x : α
  y : α
  z : α
deriving Repr

section
variable {α : Type} [Add α] [Sub α] [Mul α] [Div α] [Neg α] [Zero α] [One α] [NatCast α]
  [LT α] [LE α] [DecidableLT α] [DecidableLE α] [BEq α]

def dot (a b : V3 α) : α := a.x * b.x + a.y * b.y + a.z * b.z

def cross (a b : V3 α) : V3 α :=
  ⟨a.y * b.z - a.z * b.y, a.z * b.x - a.x * b.z, a.x * b.y - a.y * b.x⟩

def smul (k : α) (a : V3 α) : V3 α := ⟨k * a.x, k * a.y, k * a.z⟩

/-! ### normalised flux, LCFS mask, scalar mapping -/

/-- efit.pyx:116 — what is done to every node of the psi grid *before* it is handed to the cubic
interpolator: `(psi - psi_axis) / (psi_lcfs - psi_axis)`. -/
def normGrid (psi axis lcfs : α) : α := (psi - axis) / (lcfs - axis)

/-- `ClampOutput2D(f, min=0)`: raysect `clamp(v, 0, +INFINITY)`; the `v > max` branch cannot fire for
`max = +INFINITY` and is omitted. -/
def clampLo (mn v : α) : α := if v < mn then mn else v

/-- `EFITEquilibrium.psi_normalised(r, z)`; `interpN` = cubic interpolator of the normalised grid. -/
def psiN (interpN : α → α → α) (r z : α) : α := clampLo 0 (interpN r z)

/-- `EFITLCFSMask.evaluate`: `polygon(r,z) > 0.0 and psi_n(r,z) <= 1.0`, the C boolean returned as a double. -/
def insideLcfs (poly psin : α) : α := if poly > 0 ∧ psin ≤ 1 then 1 else 0

/-! ### the polygon mask (cherab/core/math/mask.pyx) and the winding-number test it falls back on -/

/-- one iteration of the loop of raysect `point_inside_polygon` (core/math/cython/utility.pyx): the contribution of the edge
`a → b` to the winding number of `(px, py)`: `+1` for an upward crossing with the point strictly to the left, `-1` for a
downward crossing with the point strictly to the right.  Same guard order and the same `side` expression as the code. -/
def windingEdge (a b : α × α) (px py : α) : Int :=
  if a.2 ≤ py then
    if b.2 > py then
      if (b.1 - a.1) * (py - a.2) - (px - a.1) * (b.2 - a.2) > 0 then 1 else 0
    else 0
  else
    if b.2 ≤ py then
      if (b.1 - a.1) * (py - a.2) - (px - a.1) * (b.2 - a.2) < 0 then -1 else 0
    else 0

/-- `for i in range(vertices.shape[0] - 1): winding_number += …` over the consecutive vertex pairs of the list handed over
(which the caller has closed). -/
def windingNumber : List (α × α) → α → α → Int
  | a :: b :: rest, px, py => windingEdge a b px py + windingNumber (b :: rest) px py
  | _, _, _ => 0

/-- `point_inside_polygon`: `winding_number != 0` -/
def pointInsidePolygon (closed : List (α × α)) (px py : α) : Bool := windingNumber closed px py != 0

/-- mask.pyx `PolygonMask2D.__init__`: `np.vstack((vertices, vertices[:1, :]))` — first vertex repeated at the end. -/
def closePolygon (vs : List (α × α)) : List (α × α) := vs ++ vs.take 1

/-- mask.pyx `PolygonMask2D.evaluate`: `mesh` = value of the triangulated `Discrete2DMesh` at the point (1 in a triangle,
default 0), then the winding-number fallback over the closed vertex list. -/
def polygonMask (mesh : α) (vs : List (α × α)) (x y : α) : α :=
  if mesh > 0 then 1 else if pointInsidePolygon (closePolygon vs) x y then 1 else 0

/-- efit.pyx `_process_polygons`: the 2×N polygon `[[x…], [y…]]` transposed to the N×2 vertex list of the mask. -/
def polygonVertices (xs ys : List α) : List (α × α) := xs.zip ys

/-- raysect `clamp(v, 0, 1)` -/
def clamp01 (v : α) : α := if v < 0 then 0 else if v > 1 then 1 else v

/-- raysect float `Blend2D(f1, f2, mask)`: end points are sampled directly, otherwise lerp. -/
def blend (t f1 f2 : α) : α :=
  let t' := clamp01 t
  if t' == 0 then f1 else if t' == 1 then f2 else (1 - t') * f1 + t' * f2

/-! ### profiles given as arrays -/

/-- efit.pyx map2d:246-247 and map_vector2d:324-339: `profile = np.array(profile, np.float64)` then
`Interpolator1DArray(profile[0, :], profile[1, :], 'cubic', 'none', 0)`.  A 2-D array is given as the list of its
rows: row 0 is the abscissa, row 1 the ordinate, whatever the shape (no transposition, further rows ignored, **no
shape validation**); fewer than two rows raise IndexError (`none`).  What raysect then does with the two rows
(length ≥ 2, equal lengths, strictly increasing abscissa, else ValueError) is external. -/
def profileRows {β : Type} (rows : List (List β)) : Option (List β × List β) :=
  match rows with
  | x :: f :: _ => some (x, f)
  | _ => none

/-- the same for an array of any dimension: `profile[0, :]` on a 0-d / 1-d array raises IndexError; for a 3-d array the
slices are 2-d and raysect rejects them (ValueError) — both are `none` here. -/
def profileOfArray {β : Type} (ndim : Nat) (rows : List (List β)) : Option (List β × List β) :=
  if ndim = 2 then profileRows rows else none

/-- `EFITEquilibrium.map2d(profile, value_outside_lcfs)(r, z)` =
`Blend2D(outside, IsoMapper2D(psi_normalised, profile), inside_lcfs)`. -/
def map2d (outside : α) (profile : α → α) (poly interpN : α → α → α) (r z : α) : α :=
  blend (insideLcfs (poly r z) (psiN interpN r z)) outside (profile (psiN interpN r z))

/-- `map3d` = `AxisymmetricMapper(map2d(...))`: `f(sqrt(x*x + y*y), z)`. -/
def map3d (sqrt : α → α) (outside : α) (profile : α → α) (poly interpN : α → α → α) (x y z : α) : α :=
  map2d outside profile poly interpN (sqrt (x * x + y * y)) z

/-! ### magnetic field and flux-surface basis -/

/-- `MagneticField.evaluate`: `Vector3D(br, bt, bz)` — x = radial, y = toroidal, z = vertical.
`inside` is the value of `inside_lcfs(r,z)` (C truthiness: non-zero), `fprof` the current-flux profile. -/
def bField (dpsidr dpsidz inside psin : α) (fprof : α → α) (rvac bvac : α) (r : α) : V3 α :=
  let br := -dpsidz / r
  let bz := dpsidr / r
  let bt := if inside == 0 then bvac * rvac / r else fprof psin / r
  ⟨br, bt, bz⟩

/-- `Vector3D.normalise`: raises ZeroDivisionError when `x²+y²+z² == 0.0`. -/
def normalise (sqrt : α → α) (v : V3 α) : Option (V3 α) :=
  let t := v.x * v.x + v.y * v.y + v.z * v.z
  if t == 0 then none else
    let t' := 1 / sqrt t
    some ⟨v.x * t', v.y * t', v.z * t'⟩

/-- `_Vec3.set_length(len)` -/
def setLength (sqrt : α → α) (v : V3 α) (len : α) : Option (V3 α) :=
  let t := v.x * v.x + v.y * v.y + v.z * v.z
  if t == 0 then none else
    let t' := len / sqrt t
    some ⟨v.x * t', v.y * t', v.z * t'⟩

/-- `toroidal_vector = ConstantVector2D(Vector3D(0, 1, 0))` -/
def toroidalVector : V3 α := ⟨0, 1, 0⟩

/-- `PoloidalFieldVector.evaluate` -/
def poloidalVector (sqrt : α → α) (b : V3 α) : Option (V3 α) :=
  if b.x == 0 && b.z == 0 then some ⟨0, 0, 0⟩ else normalise sqrt ⟨b.x, 0, b.z⟩

/-- `FluxSurfaceNormal.evaluate` -/
def surfaceNormal (sqrt : α → α) (b : V3 α) : Option (V3 α) :=
  if b.x == 0 && b.z == 0 then some ⟨0, 0, 0⟩ else normalise sqrt ⟨-b.z, 0, b.x⟩

/-- `FluxCoordToCartesian.evaluate`; `f` = field at the point, `psi` = psi_normalised at the point. -/
def fluxCoordToCartesian (sqrt : α → α) (f : V3 α) (psi : α) (tor pol nrm : α → α) : Option (V3 α) :=
  if f.x == 0 && f.z == 0 then
    some ⟨0 + 0, tor psi, 0 + 0⟩
  else
    match setLength sqrt ⟨f.x, 0, f.z⟩ (pol psi), setLength sqrt ⟨-f.z, 0, f.x⟩ (nrm psi) with
    | some p, some n => some ⟨p.x + n.x, tor psi, p.z + n.z⟩
    | _, _ => none

/-- raysect vector `Blend2D(f1, f2, mask)`; `slerp` is only reached for a mask strictly between 0 and 1. -/
def blendV (slerp : V3 α → V3 α → α → V3 α) (t : α) (f1 : V3 α) (f2 : Option (V3 α)) : Option (V3 α) :=
  let t' := clamp01 t
  if t' == 0 then some f1 else
    match f2 with
    | none => none
    | some v => if t' == 1 then some v else some (slerp f1 v t')

/-! ### the whole equilibrium at one point

The raysect objects the constructor builds are the fields of `Eq`. -/

structure Eq (α : Type) where
  /-- cubic Interpolator2DArray of `normGrid psi axis lcfs` -/
  interpN : α → α → α
  /-- PolygonMask2D of the LCFS polygon -/
  poly : α → α → α
  /-- cubic interpolators of the finite-difference derivative grids -/
  dpsidr : α → α → α
  dpsidz : α → α → α
  /-- cubic Interpolator1DArray of the f profile -/
  fprof : α → α
  rvac : α
  bvac : α

def Eq.psiN (e : Eq α) (r z : α) : α := Cherab.Equilibrium.psiN e.interpN r z

def Eq.inside (e : Eq α) (r z : α) : α := insideLcfs (e.poly r z) (e.psiN r z)

def Eq.bField (e : Eq α) (r z : α) : V3 α :=
  Cherab.Equilibrium.bField (e.dpsidr r z) (e.dpsidz r z) (e.inside r z) (e.psiN r z) e.fprof e.rvac e.bvac r

def Eq.poloidal (sqrt : α → α) (e : Eq α) (r z : α) : Option (V3 α) := poloidalVector sqrt (e.bField r z)

def Eq.normal (sqrt : α → α) (e : Eq α) (r z : α) : Option (V3 α) := surfaceNormal sqrt (e.bField r z)

def Eq.map2d (e : Eq α) (outside : α) (profile : α → α) (r z : α) : α :=
  Cherab.Equilibrium.map2d outside profile e.poly e.interpN r z

def Eq.map3d (sqrt : α → α) (e : Eq α) (outside : α) (profile : α → α) (x y z : α) : α :=
  Cherab.Equilibrium.map3d sqrt outside profile e.poly e.interpN x y z

/-- `map_vector2d(toroidal, poloidal, normal, value_outside_lcfs)(r, z)` =
`VectorBlend2D(outside, FluxCoordToCartesian(b_field, psi_normalised, …), inside_lcfs)`.
(raysect's Blend2D does not evaluate the second function when the mask is 0.) -/
def Eq.mapVector2d (sqrt : α → α) (slerp : V3 α → V3 α → α → V3 α) (e : Eq α) (outside : V3 α)
    (tor pol nrm : α → α) (r z : α) : Option (V3 α) :=
  blendV slerp (e.inside r z) outside (fluxCoordToCartesian sqrt (e.bField r z) (e.psiN r z) tor pol nrm)

/-- `Vector3D.transform(rotate_z(φ))` with `c = cos φ`, `s = sin φ` (raysect's AffineMatrix3D row by row). -/
def rotateZ (c s : α) (v : V3 α) : V3 α :=
  ⟨c * v.x + (-s) * v.y + 0 * v.z, s * v.x + c * v.y + 0 * v.z, 0 * v.x + 0 * v.y + 1 * v.z⟩

/-- the angle handed to `cos`/`sin`: `VectorAxisymmetricMapper` converts `atan2(y, x)` to degrees,
`rotate_z` converts back: `pi * (atan2(y,x) / pi * 180) / 180`. -/
def rotAngle (atan2 : α → α → α) (pi : α) (x y : α) : α :=
  pi * (atan2 y x / pi * ((180 : Nat) : α)) / ((180 : Nat) : α)

/-- `VectorAxisymmetricMapper(f2d)(x, y, z)` -/
def vectorAxisymmetric (sqrt : α → α) (atan2 : α → α → α) (cos sin : α → α) (pi : α)
    (f2d : α → α → Option (V3 α)) (x y z : α) : Option (V3 α) :=
  let a := rotAngle atan2 pi x y
  match f2d (sqrt (x * x + y * y)) z with
  | none => none
  | some v => some (rotateZ (cos a) (sin a) v)

/-- `map_vector3d(...)(x, y, z)` -/
def Eq.mapVector3d (sqrt : α → α) (atan2 : α → α → α) (cos sin : α → α) (pi : α)
    (slerp : V3 α → V3 α → α → V3 α) (e : Eq α) (outside : V3 α) (tor pol nrm : α → α) (x y z : α) :
    Option (V3 α) :=
  vectorAxisymmetric sqrt atan2 cos sin pi (e.mapVector2d sqrt slerp outside tor pol nrm) x y z

end
section
variable {α : Type} [Add α] [Sub α] [Mul α] [Div α] [Neg α] [Zero α] [One α] [OfScientific α]

/-! ### finite-difference derivative grids (`EFITEquilibrium._calculate_differentials`)

`np.gradient(f, edge_order=2)` in index space (unit spacing), one node at a time, numpy's own coefficients. -/

/-- interior node: `(f[i+1] - f[i-1]) / (2 * 1.0)` -/
def gradInterior (fm fp : α) : α := (fp - fm) / (2.0 * 1.0)

/-- first node, edge_order = 2: `a, b, c = -1.5/dx, 2./dx, -0.5/dx; a*f[0] + b*f[1] + c*f[2]` -/
def gradFirst (f0 f1 f2 : α) : α := -(1.5) / 1.0 * f0 + 2.0 / 1.0 * f1 + -(0.5) / 1.0 * f2

/-- last node, edge_order = 2: `a, b, c = 0.5/dx, -2./dx, 1.5/dx; a*f[-3] + b*f[-2] + c*f[-1]` -/
def gradLast (f0 f1 f2 : α) : α := 0.5 / 1.0 * f0 + -(2.0) / 1.0 * f1 + 1.5 / 1.0 * f2

/-- efit.pyx:188,191: `dpsi_dix * (1.0 / np.gradient(r))` at one node -/
def dpsiNode (gpsi gr : α) : α := gpsi * (1.0 / gr)

end

end Cherab.Equilibrium
