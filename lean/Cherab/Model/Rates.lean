/-
C07 — OpenADAS rates (cherab/openadas/openadas.py, cherab/openadas/rates/{atomic,pec,beam,cx,radiated_power}.pyx,
cherab/core/atomic/rates.pyx, cherab/core/utility/conversion.py).  Mathlib-free.

Part 1 (numerics): one function per *shape* of rate class, transcribed from the `.pyx` sources as they are:

* `grid2`  — IonisationRate, RecombinationRate, ThermalCXRate, ImpactExcitationPEC, RecombinationPEC,
             LineRadiationPower, ContinuumPower, CXRadiationPower   (log-log Interpolator2DArray)
* `grid3`  — ThermalCXPEC                                             (log-log-log Interpolator3DArray)
* `beam`   — BeamStoppingRate, BeamPopulationRate, BeamEmissionPEC    (sen(e,n)·st(t)/sref, in log space, with the
             Constant2D / IsoMapper2D∘Interpolator1DArray fall-backs for single-point e / n axes)
* `beamCX` — BeamCXPEC                                                (qeb log-log, qti qni qz qb linear, clamps)

External mathematics is a parameter (`Ext`): the two `log10` implementations the code really uses (NumPy's vectorised
one in the constructors, libm's in `evaluate`), `10 ** x`, and raysect's array interpolators (`none` = the ValueError
raised by the 'none' extrapolator).

Part 2 (policy): the data types of the accessor table that `harness/translators/openadas_policy.py` generates from
`openadas.py` (`Cherab/Gen/OpenAdasPolicy.lean`) and its interpretation `Policy.run` against an abstract repository.
-/
namespace Cherab.Rates

/-- raysect extrapolation types used by the rate classes -/
inductive Extrap
  | none | nearest | linear | quadratic
  deriving DecidableEq, Repr, Inhabited

/-- what a call `RateClass(data, …)(args…)` does -/
inductive Out (α : Type)
  | val (v : α)        -- returned a number
  | valueError         -- `evaluate` raised ValueError (argument outside the tabulated range, extrapolation 'none')
  | ctorError          -- the constructor raised ValueError (raysect: fewer than two knots on an interpolated axis)
  deriving Repr

/-- external functions -/
structure Ext (α : Type) where
  /-- `np.log10` as applied to the axis / table arrays in `__init__` -/
  logc : α → α
  /-- libm `log10` as applied to the arguments in `evaluate` -/
  loge : α → α
  /-- `10 ** x` -/
  pow10 : α → α
  /-- `Interpolator1DArray(x, f, 'cubic', kind, inf).evaluate(px)` -/
  i1 : Extrap → List α → List α → α → Option α
  /-- `Interpolator2DArray(x, y, f, 'cubic', kind, inf, inf).evaluate(px, py)` -/
  i2 : Extrap → List α → List α → List (List α) → α → α → Option α
  /-- `Interpolator3DArray(…).evaluate(px, py, pz)` -/
  i3 : Extrap → List α → List α → List α → List (List (List α)) → α → α → α → Option α

/-- `'<kind>' if extrapolate else 'none'` -/
def kindOf (onExtrap : Extrap) (extrapolate : Bool) : Extrap := if extrapolate then onExtrap else Extrap.none

section
variable {α : Type} [Add α] [Sub α] [Mul α] [Div α] [Neg α] [Zero α] [One α] [OfScientific α] [NatCast α]
  [LT α] [LE α] [DecidableLT α] [DecidableLE α] [BEq α]

/-- conversion.py `PhotonToJ.to(x, wavelength)` = `x / wavelength * conversion_factor`
(`cf = Planck * speed_of_light * 1e9`) -/
def photonToJ (cf : α) (x wavelength : α) : α := x / wavelength * cf

/-- pre-conversion of the tabulated coefficient: photon classes multiply by hc/λ, the others keep the value -/
def conv (cf : α) (wavelength : Option α) (x : α) : α :=
  match wavelength with
  | some w => photonToJ cf x w
  | none => x

/-! ### 2-D log-log rate classes -/

structure Table2 (α : Type) where
  ne : List α
  te : List α
  rate : List (List α)

/-- `XRate(data, extrapolate)(density, temperature)`; `onExtrap` is 'nearest' or 'linear' depending on the class,
`wl = some λ` for the photon emission coefficients -/
def grid2 (E : Ext α) (cf : α) (wl : Option α) (onExtrap : Extrap) (extrapolate : Bool) (t : Table2 α)
    (density temperature : α) : Out α :=
  -- Interpolator2DArray.__init__: "There must be at least 2 spline knots in all dimensions"
  if t.ne.length < 2 ∨ t.te.length < 2 then Out.ctorError
  -- evaluate: `if density <= 0 or temperature <= 0: return 0`
  else if density ≤ 0 ∨ temperature ≤ 0 then Out.val 0
  else
    match E.i2 (kindOf onExtrap extrapolate) (t.ne.map E.logc) (t.te.map E.logc)
        (t.rate.map fun row => row.map fun y => E.logc (conv cf wl y)) (E.loge density) (E.loge temperature) with
    | some v => Out.val (E.pow10 v)
    | none => Out.valueError

/-! ### ThermalCXPEC -/

structure Table3 (α : Type) where
  ne : List α
  te : List α
  td : List α
  rate : List (List (List α))

def grid3 (E : Ext α) (cf : α) (wl : α) (extrapolate : Bool) (t : Table3 α)
    (density temperature donorTemperature : α) : Out α :=
  if t.ne.length < 2 ∨ t.te.length < 2 ∨ t.td.length < 2 then Out.ctorError
  else if density ≤ 0 ∨ temperature ≤ 0 ∨ donorTemperature ≤ 0 then Out.val 0
  else
    match E.i3 (kindOf Extrap.nearest extrapolate) (t.ne.map E.logc) (t.te.map E.logc) (t.td.map E.logc)
        (t.rate.map fun pl => pl.map fun row => row.map fun y => E.logc (photonToJ cf y wl))
        (E.loge density) (E.loge temperature) (E.loge donorTemperature) with
    | some v => Out.val (E.pow10 v)
    | none => Out.valueError

/-! ### beam stopping / population / emission -/

structure BeamTable (α : Type) where
  e : List α
  n : List α
  t : List α
  sen : List (List α)
  st : List α
  sref : α

/-- `sen = np.log10(conv(data["sen"]))` -/
def BeamTable.logSen (E : Ext α) (cf : α) (wl : Option α) (b : BeamTable α) : List (List α) :=
  b.sen.map fun row => row.map fun y => E.logc (conv cf wl y)

/-- `st = np.log10(data["st"] / data["sref"])` -/
def BeamTable.logSt (E : Ext α) (b : BeamTable α) : List α := b.st.map fun y => E.logc (y / b.sref)

/-- does the constructor succeed?  Every `Interpolator*Array` that gets built needs two knots per axis. -/
def beamCtorOk (b : BeamTable α) : Bool := decide (2 ≤ b.t.length) && !(b.e.length == 0) && !(b.n.length == 0)

/-- `self._npl_eb.evaluate(log10(energy), log10(density))` with the four construction branches of `__init__` -/
def beamNpl (E : Ext α) (cf : α) (wl : Option α) (extrapolate : Bool) (b : BeamTable α) (energy density : α) :
    Option α :=
  let sen := b.logSen E cf wl
  let k2 := kindOf Extrap.linear extrapolate
  let k1 := kindOf Extrap.quadratic extrapolate
  if b.e.length == 1 && b.n.length == 1 then
    -- Constant2D(sen[0, 0])
    some ((sen.headD []).headD 0)
  else if b.e.length == 1 then
    -- IsoMapper2D(Arg2D('y'), Interpolator1DArray(log10 n, sen[0], …))
    E.i1 k1 (b.n.map E.logc) (sen.headD []) (E.loge density)
  else if b.n.length == 1 then
    -- IsoMapper2D(Arg2D('x'), Interpolator1DArray(log10 e, sen[:, 0], …))
    E.i1 k1 (b.e.map E.logc) (sen.map fun row => row.headD 0) (E.loge energy)
  else
    E.i2 k2 (b.e.map E.logc) (b.n.map E.logc) sen (E.loge energy) (E.loge density)

def beam (E : Ext α) (cf : α) (wl : Option α) (extrapolate : Bool) (b : BeamTable α)
    (energy density temperature : α) : Out α :=
  if !beamCtorOk b then Out.ctorError
  else if energy ≤ 0 ∨ density ≤ 0 ∨ temperature ≤ 0 then Out.val 0
  else
    match beamNpl E cf wl extrapolate b energy density with
    | none => Out.valueError
    | some a =>
      match E.i1 (kindOf Extrap.quadratic extrapolate) (b.t.map E.logc) (b.logSt E) (E.loge temperature) with
      | none => Out.valueError
      | some c => Out.val (E.pow10 (a + c))

/-! ### beam CX -/

structure CXTable (α : Type) where
  eb : List α
  ti : List α
  ni : List α
  z : List α
  b : List α
  qeb : List α
  qti : List α
  qni : List α
  qz : List α
  qb : List α
  qref : α

/-- `Interpolator1DArray(x, q, 'cubic', kind, inf) if len(q) > 1 else Constant1D(q[0])` evaluated at `p` -/
def interpOrConst (E : Ext α) (k : Extrap) (x q : List α) (p : α) : Option α :=
  if 1 < q.length then E.i1 k x q p else some (q.headD 0)

/-- one `rate *= f; if rate <= 0: return 0.0` step -/
def clampMul (rate f : α) : Option α :=
  let r := rate * f
  if r ≤ 0 then none else some r

def beamCX (E : Ext α) (cf : α) (wl : α) (extrapolate : Bool) (c : CXTable α)
    (energy temperature density zeff bfield : α) : Out α :=
  let kq := kindOf Extrap.quadratic extrapolate
  let kn := kindOf Extrap.nearest extrapolate
  -- only the energy is guarded
  if energy ≤ 0 then Out.val 0
  else
    match interpOrConst E kq (c.eb.map E.logc) (c.qeb.map fun y => E.logc (photonToJ cf y wl)) (E.loge energy) with
    | none => Out.valueError
    | some l =>
      let rate := E.pow10 l
      match interpOrConst E kn c.ti (c.qti.map fun y => y / c.qref) temperature with
      | none => Out.valueError
      | some fti =>
        match clampMul rate fti with
        | none => Out.val 0
        | some rate =>
          match interpOrConst E kn c.ni (c.qni.map fun y => y / c.qref) density with
          | none => Out.valueError
          | some fni =>
            match clampMul rate fni with
            | none => Out.val 0
            | some rate =>
              match interpOrConst E kn c.z (c.qz.map fun y => y / c.qref) zeff with
              | none => Out.valueError
              | some fz =>
                match clampMul rate fz with
                | none => Out.val 0
                | some rate =>
                  match interpOrConst E kn c.b (c.qb.map fun y => y / c.qref) bfield with
                  | none => Out.valueError
                  | some fb =>
                    match clampMul rate fb with
                    | none => Out.val 0
                    | some rate => Out.val rate

/-- the multiplicative chain of `BeamCXPEC.evaluate` on already evaluated factors: for each factor in turn
`rate *= f` (a factor whose interpolator raised ends the call with ValueError) followed, when `clamp` is set, by
`if rate <= 0: return 0.0`; finally `return rate`.  The clamp flags are what the translator reads from the source
(`RateClassSrc.chain`); the driver runs this function on raysect's own factor values. -/
def cxChainF (rate : α) : List (Option α × Bool) → Out α
  | [] => Out.val rate
  | (none, _) :: _ => Out.valueError
  | (some f, clamp) :: rest =>
    let r := rate * f
    if clamp = true ∧ r ≤ 0 then Out.val 0 else cxChainF r rest

/-- the chain as the code has it: every factor clamped -/
def cxChain (rate : α) (fs : List (Option α)) : Out α := cxChainF rate (fs.map fun f => (f, true))

/-- `BeamCXPEC.evaluate` = the leading guard `if energy <= 0 or temperature <= 0 or density <= 0: return 0`
(`guardTD = true`, the code since 57a68d0) in front of the interpolation chain `beamCX`.  `guardTD = false` is the
energy-only guard of the earlier tree; the driver reads the flag from the generated class table, the theorems about
the class are stated for `true`, and `class_table_as_modelled` / `guards_complete` fail to build on a table without
the complete guard. -/
def beamCXGuarded (guardTD : Bool) (E : Ext α) (cf : α) (wl : α) (extrapolate : Bool) (c : CXTable α)
    (energy temperature density zeff bfield : α) : Out α :=
  if guardTD = true ∧ (energy ≤ 0 ∨ temperature ≤ 0 ∨ density ≤ 0) then Out.val 0
  else beamCX E cf wl extrapolate c energy temperature density zeff bfield

/-- every `Null*` class: `evaluate` returns 0.0 -/
def nullRate : Out α := Out.val 0

end

/-! ## Part 2 — accessor policy -/

/-- how a name used in an accessor body relates to the accessor's parameters -/
inductive Src
  | raw (p : String)     -- the parameter as passed by the caller (an isotope stays an isotope)
  | elem (p : String)    -- the parameter with an isotope replaced by its element
  | other (s : String)   -- anything else (`data`, `wavelength`, `self._data_path`, a literal, an expression)
  deriving DecidableEq, Repr, Inhabited

/-- `wavelength = self.wavelength(species, charge, transition)` -/
structure WlCall where
  species : Src
  charge : String
  transition : Src
  deriving DecidableEq, Repr

/-- one rate accessor of `OpenADAS`, as read from the source by the translator -/
structure Accessor where
  name : String
  params : List String
  /-- parameters typed `Element` in `AtomicData`'s declaration of the same method -/
  species : List String
  getFn : String
  getArgs : List Src
  /-- exception class names of the `except` clause around the repository read -/
  caught : List String
  /-- the handler is `if self._missing_rates_return_null: return <null>` followed by a bare `raise` -/
  handlerStd : Bool
  nullClass : String
  nullArgs : List Src
  nullInList : Bool
  wl : Option WlCall
  rateClass : String
  rateArgs : List Src
  rateInList : Bool
  /-- `extrapolate=self._permit_extrapolation` is passed to the rate class -/
  extrapolateFlag : Bool
  /-- every statement of the body matched one of the shapes the translator knows -/
  recognised : Bool
  deriving Repr

/-- accepted positional-argument counts of a Null class (from its `__init__`, inherited from cherab.core) -/
structure NullSig where
  name : String
  minArgs : Nat
  maxArgs : Nat
  deriving DecidableEq, Repr

/-- `OpenADAS.wavelength` -/
structure WavelengthPolicy where
  /-- the fall-back branch is guarded by `isinstance(ion, Isotope) and self._wavelength_element_fallback` -/
  guardStd : Bool
  /-- exception names caught around the isotope lookup -/
  caught : List String
  /-- the handler looks up `ion.element` -/
  fallbackToElement : Bool
  /-- the final statement looks up the species as passed -/
  plainUsesRaw : Bool
  recognised : Bool
  deriving DecidableEq, Repr

/-- a rate class as read from the `.pyx` sources -/
structure RateClassSrc where
  name : String
  base : String
  initParams : List String
  evalParams : List String
  /-- parameters compared `<= 0` in the leading guard(s) of `evaluate` -/
  guarded : List String
  /-- data keys passed through `PhotonToJ.to(·, wavelength)` -/
  photon : List String
  /-- (variable, kind when `extrapolate`) of each `'<kind>' if extrapolate else 'none'` -/
  extrap : List (String × String)
  /-- the axis arrays handed to the interpolators in log space are computed with `np.log10` -/
  axisLogNumpy : Bool
  /-- `evaluate` of a Null class is `return 0.0` -/
  isNull : Bool
  /-- multiplicative chain of `evaluate` (BeamCXPEC): (interpolator attribute, argument, followed by
  `if rate <= 0: return 0.0`) for every `rate *= self._x.evaluate(arg)` / factor in the final `return` -/
  chain : List (String × String × Bool)
  /-- every statement of `evaluate` that touches `rate` was understood -/
  chainOk : Bool
  deriving DecidableEq, Repr

namespace Policy

/-- exception classes whose `except` clause also catches a `RuntimeError` -/
def catchesRuntimeError (caught : List String) : Bool :=
  caught.any fun c => c == "RuntimeError" || c == "Exception" || c == "BaseException"

def nullArity (sigs : List NullSig) (cls : String) (argc : Nat) : Bool :=
  match sigs.find? (·.name == cls) with
  | some s => decide (s.minArgs ≤ argc) && decide (argc ≤ s.maxArgs)
  | none => false

/-- a species argument of a call: parameter name, symbol of the species passed, symbol of its element
(equal for a plain element), and whether it is an `Isotope` instance -/
structure Sp where
  param : String
  sym : String
  elemSym : String
  isIsotope : Bool
  deriving DecidableEq, Repr

/-- one accessor call against an abstract repository: the species arguments, the symbol vectors (in the order of the
repository read's species arguments) under which a rate datum is stored for the charge / transition of the call, the
symbols for which a wavelength is stored, and the two provider flags that matter here -/
structure Call where
  species : List Sp
  stored : List (List String)
  wlStored : List String
  nullRequested : Bool
  wlFallback : Bool
  deriving Repr

/-- observable result of an accessor call: which stored datum (symbol vector) the returned rate was built from and
the symbol whose wavelength converted it -/
inductive Result
  | raises (exc : String)
  | null (inList : Bool)
  | rate (key : List String) (wl : Option String) (inList : Bool)
  | unknown
  deriving DecidableEq, Repr

def findSp (c : Call) (p : String) : Option Sp := c.species.find? (·.param == p)

/-- the symbol a source expression denotes, when it denotes a species argument -/
def symOf (c : Call) : Src → Option String
  | Src.raw p => (findSp c p).map (·.sym)
  | Src.elem p => (findSp c p).map (·.elemSym)
  | Src.other _ => none

/-- the symbol vector the repository read is keyed by -/
def keyOf (a : Accessor) (c : Call) : List String := a.getArgs.filterMap (symOf c)

/-- `OpenADAS.wavelength(species, …)`: outer `none` = not interpretable; inner `none` = RuntimeError (missing) -/
def wavelengthLookup (w : WavelengthPolicy) (c : Call) (src : Src) : Option (Option String) :=
  if !w.recognised || !w.plainUsesRaw then none else
  match src with
  | Src.other _ => none
  | Src.elem p =>
    -- the method receives the element: no fall-back branch
    match findSp c p with
    | none => none
    | some sp => some (if c.wlStored.contains sp.elemSym then some sp.elemSym else none)
  | Src.raw p =>
    match findSp c p with
    | none => none
    | some sp =>
      if w.guardStd && sp.isIsotope && c.wlFallback then
        if c.wlStored.contains sp.sym then some (some sp.sym)
        else if catchesRuntimeError w.caught then
          if w.fallbackToElement then some (if c.wlStored.contains sp.elemSym then some sp.elemSym else none)
          else none
        else some none
      else some (if c.wlStored.contains sp.sym then some sp.sym else none)

/-- interpretation of an accessor descriptor -/
def run (sigs : List NullSig) (w : WavelengthPolicy) (a : Accessor) (c : Call) : Result :=
  if !a.recognised || !a.handlerStd then Result.unknown else
  let key := keyOf a c
  if !c.stored.contains key then
    -- repository.get_* raises RuntimeError (C06)
    if catchesRuntimeError a.caught then
      if c.nullRequested then
        if nullArity sigs a.nullClass a.nullArgs.length then Result.null a.nullInList
        else Result.raises "TypeError"
      else Result.raises "RuntimeError"
    else Result.raises "RuntimeError"
  else
    match a.wl with
    | none => Result.rate key none a.rateInList
    | some wc =>
      match wavelengthLookup w c wc.species with
      | none => Result.unknown
      | some none => Result.raises "RuntimeError"
      | some (some sym) => Result.rate key (some sym) a.rateInList

/-- the uniform policy the property demands of every accessor -/
def Uniform (sigs : List NullSig) (a : Accessor) : Bool :=
  a.recognised && a.handlerStd
  -- missing data: exactly RuntimeError is caught …
  && (a.caught == ["RuntimeError"])
  -- … and the Null constructor is called with an argument list its class accepts
  && nullArity sigs a.nullClass a.nullArgs.length
  -- every species argument of the repository read is the element
  && (a.getArgs.all fun x => match x with
        | Src.raw p => !a.species.contains p
        | _ => true)
  && (a.species.all fun p => a.getArgs.contains (Src.elem p))
  -- the wavelength is that of the requested species
  && (match a.wl with
      | none => true
      | some c => match c.species with
        | Src.raw p => a.species.contains p
        | _ => false)
  && a.extrapolateFlag

/-- the uniform `wavelength` method -/
def WlUniform (w : WavelengthPolicy) : Bool :=
  w.recognised && w.guardStd && (w.caught == ["RuntimeError"]) && w.fallbackToElement && w.plainUsesRaw

end Policy

/-! ### rate-class descriptors as modelled in part 1 -/

inductive Shape
  | grid2 | grid3 | beam | beamCX
  deriving DecidableEq, Repr

/-- what part 1 hard-codes about each rate class; `Props/C07Table.lean` checks the generated `.pyx` table against it -/
structure RateClassModel where
  name : String
  shape : Shape
  photon : Bool
  evalParams : List String
  guarded : List String
  extrap : List (String × String)
  chain : List (String × String × Bool) := []
  deriving DecidableEq, Repr

def e1 (k : String) : List (String × String) := [("extrapolation_type", k)]
def eBeam : List (String × String) := [("extrapolation_type_2d", "linear"), ("extrapolation_type_1d", "quadratic")]
def dt : List String := ["density", "temperature"]
def edt : List String := ["electron_density", "electron_temperature"]
def ent : List String := ["energy", "density", "temperature"]

def modelled : List RateClassModel := [
  ⟨"IonisationRate", Shape.grid2, false, dt, dt, e1 "nearest", []⟩,
  ⟨"RecombinationRate", Shape.grid2, false, dt, dt, e1 "nearest", []⟩,
  ⟨"ThermalCXRate", Shape.grid2, false, dt, dt, e1 "linear", []⟩,
  ⟨"ImpactExcitationPEC", Shape.grid2, true, dt, dt, e1 "nearest", []⟩,
  ⟨"RecombinationPEC", Shape.grid2, true, dt, dt, e1 "nearest", []⟩,
  ⟨"ThermalCXPEC", Shape.grid3, true, edt ++ ["donor_temperature"], edt ++ ["donor_temperature"], e1 "nearest", []⟩,
  ⟨"LineRadiationPower", Shape.grid2, false, edt, edt, e1 "nearest", []⟩,
  ⟨"ContinuumPower", Shape.grid2, false, edt, edt, e1 "nearest", []⟩,
  ⟨"CXRadiationPower", Shape.grid2, false, edt, edt, e1 "linear", []⟩,
  ⟨"BeamStoppingRate", Shape.beam, false, ent, ent, eBeam, []⟩,
  ⟨"BeamPopulationRate", Shape.beam, false, ent, ent, eBeam, []⟩,
  ⟨"BeamEmissionPEC", Shape.beam, true, ent, ent, eBeam, []⟩,
  ⟨"BeamCXPEC", Shape.beamCX, true, ["energy", "temperature", "density", "z_effective", "b_field"],
    ["energy", "temperature", "density"],
    [("extrapolation_type_log", "quadratic"), ("extrapolation_type", "nearest")],
    [("_ti", "temperature", true), ("_ni", "density", true), ("_zeff", "z_effective", true), ("_b", "b_field", true)]⟩]

def extrapOfString (s : String) : Extrap :=
  if s == "nearest" then Extrap.nearest else if s == "linear" then Extrap.linear
  else if s == "quadratic" then Extrap.quadratic else Extrap.none

/-- the `evaluate` parameter names that denote a density, a temperature or an energy -/
def dteNames : List String :=
  ["density", "temperature", "energy", "electron_density", "electron_temperature", "donor_temperature"]

/-- the other `evaluate` parameter names in use -/
def otherNames : List String := ["z_effective", "b_field"]

/-- is this `evaluate` parameter a density, a temperature or an energy? -/
def isDTE (p : String) : Bool := dteNames.contains p

/-! ## Part 3 — a provider that remembers answers (the round-4 memo class)

`OpenADAS` at HEAD keeps no per-instance state: its model is the pure function `Policy.run` / `Policy.wavelengthLookup`.
A provider that memoises under a key is the state machine below; `Props/C07.lean` proves that it answers every history
like the stateless function **iff** the key determines the answer. -/
namespace Memo

variable {ρ κ σ : Type} [DecidableEq κ]

/-- one request against the memo: a hit returns the remembered answer, a miss computes, remembers and returns -/
def step (key : ρ → κ) (f : ρ → σ) (memo : List (κ × σ)) (r : ρ) : List (κ × σ) × σ :=
  match memo.find? (fun e => e.1 = key r) with
  | some e => (memo, e.2)
  | none => ((key r, f r) :: memo, f r)

/-- the answers to a history of requests, starting from `memo` -/
def answers (key : ρ → κ) (f : ρ → σ) : List (κ × σ) → List ρ → List σ
  | _, [] => []
  | memo, r :: rest => (step key f memo r).2 :: answers key f (step key f memo r).1 rest

end Memo

end Cherab.Rates
