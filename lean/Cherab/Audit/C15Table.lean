import Cherab.Props.C15Table
open Cherab.Props.C15Table
#print axioms table_wf
