import Cherab.Drv.Proto
import Cherab.Model.BeamEmission
import Cherab.Model.BeamCache
open Cherab.Drv Cherab.BeamEmission

/-!
C05 driver.  Lines:

* `const e amu recip4pi`                                  → `ok` (sets the constants used by the following lines)
* `cx E dx dy dz nb Bx By Bz recv nsp {Z n T vx vy vz}^nsp nmeta {c0..c5}^nmeta {{null a0 a1 a2 a3}^nsp}^(nmeta-1)`
     → `line r E T n Zeff B k_2 … k_nmeta` | `skip` | `zerodiv` | `valueerror` | `indexerror`
* `bes E dx dy dz nb nsp {Z n T vx vy vz}^nsp {null a0 a1 a2 a3}^nsp`
     → `line r {E_i ne_i T_i}^nsp` | `skip` | `zerodiv`
* `zeff nsp {Z n}^nsp` → `ok zeff iondensity` | `valueerror iondensity`
* `design cxHead|besHead|cxFixed|besFixed` → `guard nW {a:f|i:f}^nW nR {f}^nR nU {f}^nU` (the caching protocol as transcribed)
* `cache guard nW {a:f|i:f}^nW nR {f}^nR nU {f}^nU c0 {c<N> | e | f<k>}*` → one of `fresh raised broken stale` per emission
     (`c<N>` = `_change` into configuration N, `e` = emission, `f<k>` = emission whose populate raises after k writes)

The mock coefficients are the affine functions the Python harness uses, evaluated in the same order.
-/

def cxCoeff (c : List Float) (e t n z b : Float) : Float :=
  match c with
  | [c0, c1, c2, c3, c4, c5] => c0 + c1 * e + c2 * t + c3 * n + c4 * z + c5 * b
  | _ => 0.0 / 0.0

def popCoeff (c : List String) (e n t : Float) : Float :=
  match c with
  | [null, a0, a1, a2, a3] => if null == "1" then 0.0 else pF a0 + pF a1 * e + pF a2 * n + pF a3 * t
  | _ => 0.0 / 0.0

def takeSpecies : Nat → List String → List (Species Float) × List String
  | 0, ts => ([], ts)
  | k + 1, z :: n :: t :: vx :: vy :: vz :: rest =>
      let (l, r) := takeSpecies k rest
      (⟨pN z, pF n, pF t, ⟨pF vx, pF vy, pF vz⟩⟩ :: l, r)
  | _, _ => ([], [])

def takeGroups (size : Nat) : Nat → List String → List (List String) × List String
  | 0, ts => ([], ts)
  | k + 1, ts =>
      let (l, r) := takeGroups size k (ts.drop size)
      (ts.take size :: l, r)

def runCX (c : Consts Float) (ts : List String) : String :=
  match ts with
  | e :: dx :: dy :: dz :: nb :: bx :: by' :: bz :: recv :: nsp :: rest =>
    let nsp := pN nsp
    let (sp, rest) := takeSpecies nsp rest
    match rest with
    | nmeta :: rest =>
      let nmeta := pN nmeta
      let (cxs, rest) := takeGroups 6 nmeta rest
      let (pops, _) := takeGroups (5 * nsp) (nmeta - 1) rest
      let cxf := cxs.map fun g => cxCoeff (g.map pF)
      match cxf with
      | [] => "bad-op"
      | ground :: exf =>
        let popf : List (List (Float → Float → Float → Float)) :=
          pops.map fun g => (takeGroups 5 nsp g).1.map popCoeff
        let excited := exf.zip popf
        let scene : CXScene Float := ⟨pF e, ⟨pF dx, pF dy, pF dz⟩, pF nb, sp, pN recv, ⟨pF bx, pF by', pF bz⟩⟩
        match cxEmission c Float.sqrt scene ground excited with
        | .skip => "skip"
        | .zeroDivision => "zerodiv"
        | .valueError => "valueerror"
        | .indexError => "indexerror"
        | .line r =>
          -- recompute the observable intermediates with the same model functions
          match sp[pN recv]?, beamVelocity c Float.sqrt scene.beamEnergy scene.beamDirection with
          | some rs, some vd =>
            let eInt := interactionEnergy c Float.sqrt vd rs.velocity
            match cxArgs Float.sqrt sp scene.bField eInt rs.temperature with
            | some a =>
              let ks := excited.map fun ex => beamPopulation c Float.sqrt vd (sp.zip ex.2)
              "line " ++ fFs ([r, a.energy, a.temperature, a.density, a.zEffective, a.bField] ++ ks)
            | none => "bad-state"
          | _, _ => "bad-state"
    | _ => "bad-op"
  | _ => "bad-op"

def runBES (c : Consts Float) (ts : List String) : String :=
  match ts with
  | e :: dx :: dy :: dz :: nb :: nsp :: rest =>
    let nsp := pN nsp
    let (sp, rest) := takeSpecies nsp rest
    let rates := (takeGroups 5 nsp rest).1.map popCoeff
    let scene : BESScene Float := ⟨pF e, ⟨pF dx, pF dy, pF dz⟩, pF nb, sp⟩
    match besEmission c Float.sqrt scene rates with
    | .line r =>
      match beamVelocity c Float.sqrt scene.beamEnergy scene.beamDirection with
      | some vb =>
        let dsum := densitySum sp
        let args := sp.flatMap fun s => [interactionEnergy c Float.sqrt vb s.velocity, equivNe dsum s, s.temperature]
        "line " ++ fFs (r :: args)
      | none => "bad-state"
    | .skip => "skip"
    | .zeroDivision => "zerodiv"
    | .valueError => "valueerror"
    | .indexError => "indexerror"
  | _ => "bad-op"

def takeZN : Nat → List String → List (Species Float)
  | k + 1, z :: n :: rest => ⟨pN z, pF n, 0.0, ⟨0.0, 0.0, 0.0⟩⟩ :: takeZN k rest
  | _, _ => []

namespace Cache
open Cherab.BeamCache

def pField : String → Field
  | "guard" => .guard | "wavelength" => .wavelength | "ground" => .ground | "data" => .data | _ => .lineshape

def sField : Field → String
  | .guard => "guard" | .wavelength => "wavelength" | .ground => "ground" | .data => "data" | .lineshape => "lineshape"

def pStmt (t : String) : Stmt :=
  if t.startsWith "i:" then .init (pField (t.drop 2).toString) else .assign (pField (t.drop 2).toString)

def sStmt : Stmt → String
  | .assign f => "a:" ++ sField f
  | .init f => "i:" ++ sField f

def showDesign (d : Design) : String :=
  " ".intercalate ([sField d.guard, toString d.order.length] ++ d.order.map sStmt ++ [toString d.resets.length]
    ++ d.resets.map sField ++ [toString d.reads.length] ++ d.reads.map sField)

def pOp (t : String) : Op :=
  if t == "e" then .emit none
  else if t.startsWith "f" then .emit (some (pN (t.drop 1).toString))
  else .change (pN (t.drop 1).toString)

def showObs (d : Design) : Nat × Obs → String
  | (_, .raised) => "raised"
  | (_, .broken) => "broken"
  | (c, o) => if o == freshObs d c then "fresh" else "stale"

def runCache (ts : List String) : String :=
  match ts with
  | g :: nw :: rest =>
    let nw := pN nw
    let order := (rest.take nw).map pStmt
    match rest.drop nw with
    | nr :: rest =>
      let nr := pN nr
      let resets := (rest.take nr).map pField
      match rest.drop nr with
      | nu :: rest =>
        let nu := pN nu
        let reads := (rest.take nu).map pField
        match rest.drop nu with
        | c0 :: ops =>
          let d : Design := ⟨pField g, order, resets, reads⟩
          " ".intercalate ((run d (fresh (pN c0)) (ops.map pOp)).2.map (showObs d))
        | _ => "bad-op"
      | _ => "bad-op"
    | _ => "bad-op"
  | _ => "bad-op"

def named : String → Option Design
  | "cxHead" => some cxHead | "besHead" => some besHead | "cxFixed" => some cxFixed | "besFixed" => some besFixed
  | _ => none

end Cache

def step (c : Consts Float) (ts : List String) : Consts Float × String :=
  match ts with
  | ["const", e, amu, r] => (⟨pF e, pF amu, pF r⟩, "ok")
  | "cx" :: rest => (c, runCX c rest)
  | "bes" :: rest => (c, runBES c rest)
  | "zeff" :: nsp :: rest =>
      let sp := takeZN (pN nsp) rest
      match zEffective sp with
      | some z => (c, "ok " ++ fFs [z, ionDensity sp])
      | none => (c, "valueerror " ++ fF (ionDensity sp))
  | "comp" :: op :: nb :: rest =>
      let nb := pN nb
      let before := (List.range nb).zip (rest.take nb) |>.map fun (i, k) => (pN k, i)
      let items := (rest.drop (nb + 1)).zipIdx.map fun (t, j) =>
        if t == "-1" then some Item.other else if t == "-2" then none else some (Item.species (pN t) (100 + j))
      let r := if op == "set" then compositionSet before (items.map fun o => o.getD Item.other)
               else compositionAdd before (items.head?.getD none)
      (c, (if r.raised then "raised" else "ok") ++ " " ++ fB r.notified ++ " " ++
          " ".intercalate (r.dict.map fun e => toString e.1 ++ ":" ++ toString e.2))
  | ["design", name] => (c, match Cache.named name with | some d => Cache.showDesign d | none => "bad-op")
  | "cache" :: rest => (c, Cache.runCache rest)
  | _ => (c, "bad-op")

def main : IO UInt32 := do
  loop step (← IO.getStdin) (← IO.getStdout) (⟨1.0, 1.0, 1.0⟩ : Consts Float)
  return 0
