import Cherab.Props.C06Table
open Cherab.Props.C06Table
#print axioms add_matches_update
#print axioms get_matches_update
#print axioms templates_shaped
#print axioms templates_disjoint
#print axioms all_paths_under_root
#print axioms tables_wellformed
