import Cherab.Props.C06TablePec
open Cherab.Props.C06Table
#print axioms pec_reads_passed_data
