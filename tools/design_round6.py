#!/usr/bin/env python3
"""One-off editor: brings DESIGN.md to the sixth revision (round 6).  Idempotent through the R6 markers it writes.
Numbers are computed from the tree (audit lines, model files, translators, known_findings.json, seeded/)."""
import glob, json, os, re, subprocess, sys
D = os.path.dirname(os.path.dirname(os.path.abspath(__file__)))
P = os.path.join(D, 'DESIGN.md')
s = open(P).read()

n_obl = sum(len(re.findall(r'^\s*#print axioms', open(f).read(), re.M)) for f in glob.glob(os.path.join(D, 'lean/Cherab/Audit/*.lean')))
n_model = len(glob.glob(os.path.join(D, 'lean/Cherab/Model/*.lean')))
n_tr = len([f for f in glob.glob(os.path.join(D, 'harness/translators/*.py')) if not f.endswith('__init__.py')])
kf = json.load(open(os.path.join(D, 'known_findings.json')))['findings']
n_sig = len(kf); n_fixed = sum(1 for f in kf if f['status'] == 'fixed'); n_open = n_sig - n_fixed
fix_commits = sorted({f.get('commit') for f in kf if f['status'] == 'fixed' and f.get('commit')})
n_seed = len(glob.glob(os.path.join(D, 'seeded/*/meta.json')))
r6 = [json.load(open(f)) for f in sorted(glob.glob(os.path.join(D, 'seeded/*/meta.json'))) if int(os.path.basename(os.path.dirname(f)).split('-')[1]) >= 16]
n_r6 = len(r6)
rc = [json.load(open(f)) for f in sorted(glob.glob(os.path.join(D, 'seeded/*/recheck.json')))
      if int(os.path.basename(os.path.dirname(f)).split('-')[1]) >= 16]
n_rc_ok = sum(1 for r in rc if r['verdict'] == 'failing input reported')
repo_head = subprocess.run(['git', '-C', '/repo', 'rev-parse', '--short', 'HEAD'], capture_output=True, text=True).stdout.strip()
n_fix_commits = int(subprocess.run('git -C /repo log --oneline | grep -c " fix:"', shell=True, capture_output=True, text=True).stdout.strip() or 0)
claims = json.load(open(os.path.join(D, 'tools/round6_claims.json')))
per_obl = {}
for f in glob.glob(os.path.join(D, 'lean/Cherab/Audit/*.lean')):
    pid = os.path.basename(f)[:3]
    per_obl[pid] = per_obl.get(pid, 0) + len(re.findall(r'^\s*#print axioms', open(f).read(), re.M))

# ---- A. at-a-glance block ------------------------------------------------------------------------------------------------------
a0 = s.index('**At a glance')
a1 = s.index('Status of this file:')
glance = f"""**At a glance (state of /verif at the sixth revision, /repo {repo_head}).**
* All 20 properties C01–C20 are claimed in `MANIFEST.json` at level *proof*; `not_applicable` is empty.  One command per
  property: `./check Cxx --tier quick|thorough` (exit 0 held / exit 1 with `VIOLATION property=… replay=…` / exit 2 no
  verdict: our own build failed or a time-out with nothing established); `./setup.sh` prebuilds; evidence in `evidence/Cxx.json`.
* **T**: {n_obl} audited Lean 4 theorems (`lean/Cherab/Props`, one `#print axioms` line each in `lean/Cherab/Audit`), axioms
  ⊆ {{propext, Classical.choice, Quot.sound}}, no `sorry` / `axiom` / `native_decide` / `bv_decide`; re-built and re-audited on
  every run, `leanchecker` in the thorough tier.  **M**: {n_model} Mathlib-free executable model files, compiled into one native
  driver per property.
* **K** (the tie to /repo's current source, checked every run): {n_tr} translators regenerate `lean/Cherab/Gen/*.lean` from the
  sources (tables, call graphs, setter bodies, registries, stencils, write segments, conversion expressions) so the table theorems
  are re-decided against what the code says now, and line-protocol differential runs compare model and implementation bit for
  bit on generated and corpus inputs.  `tools/tie_audit.py` (`notes/TIE_AUDIT.md`) lists which model definitions are reached by
  a driver and which are mentioned by theorems.  **S**: model-free oracles on the implementation search for the concrete
  failing input when T or K breaks (or on their own).
* Against realistic breakage: {n_seed} changes seeded by independent agents in six rounds (`seeded/<id>/`: patch, demonstration,
  meta, re-check) — each compiles, passes the 579 tests and breaks its property only under specific conditions; every one is
  reported with a concrete failing input by the final machinery (§10; 92 were not at their first evaluation — 7 of the 40 of
  round 6 —, and each of those led to a strengthening for its class of change, `tools/seed_history.json`).
* In the unchanged repository code the machinery found {n_sig} finding signatures: {n_fixed} repaired by {n_fix_commits} small `fix:` commits
  in /repo (suite still 579 passed), {n_open} open and listed in `known_findings.json` with the concrete failing input and the
  reason they are not repaired (external solvers, raysect, float-level conditioning, API decisions) — §6, §7.  Round 6 added
  three repaired root causes, all crashes of the unchanged code after a fault or a re-assignment (§6).
* False alarms of our own machinery met on the way, and their repairs: §11.  Interpretation rulings: §12.  Limits and what
  remains unproved per property: §9 (sixth-revision bullet at its end).  Round-6 facts: `notes/ROUND6.md`.

"""
s = s[:a0] + glance + s[a1:]

# ---- B. status paragraph -------------------------------------------------------------------------------------------------------
if '<!-- R6-STATUS -->' not in s:
    anchor = 'As-built layout and builder API: `harness/README.md`'
    i = s.index(anchor)
    txt = f"""<!-- R6-STATUS -->A sixth revision followed the work recorded in `notes/ROUND6.md`: a **second proof-deepening pass** whose first
priority was *more of the anchored code inside the model* (constructor and validation ladders, second entry points, the
write segments of the repository writers, conversion helpers, dense operator assembly, polygon mask, polarisation, value-level
state machines for every instrument, configuration state machines of emission models), each with a driver op and a K stream,
and whose second priority was the "still unproved" lists of §9; a static cross-reference of the Lean sources
(`tools/tie_audit.py`) served as work list.  The audited obligations grew from 1017 to {n_obl}.  In parallel a **sixth round
of seeded changes** ({n_r6} changes, two per property, asked for faults at a particular point, multi-step sequences, numeric
regimes, two cooperating sites, rare entry points and identity / module-level state): 33 were reported with a failing input at
first, 5 escaped, 2 were K-only; all are reported now (§10).  The new state machines — and a seeder's side remark about a
crash of the clean tree — exposed **three more root causes in the unchanged code**, all repaired (§6): `Bremsstrahlung`
crashed after `gaunt_factor = None` on a used model, and five emission models crashed on the first use after a provider
exception (the "cache is populated" flag was assigned first).  Counts at this revision: **{n_sig} finding signatures ({n_fixed} fixed by
{n_fix_commits} commits, {n_open} open); {n_obl} audited obligations; {n_seed} confirmed seeded changes**.  Sections §1–§8 and the As-built blocks of §5 still
describe the fifth revision; what changed since is in the at-a-glance block, the last bullet of §9, the round-6 rows of §6 and
§10, and `notes/Cxx.md` (sections "Round 6 …").
"""
    s = s[:i] + txt + s[i:]

# ---- C. §9 bullet ---------------------------------------------------------------------------------------------------------------
if '<!-- R6-LIMITS -->' not in s:
    anchor = '* What the seeded-change rounds showed about the *search* side'
    i = s.index(anchor)
    lines = ['* <!-- R6-LIMITS -->**Sixth revision (round 6) — what moved into the model / from "still unproved" to proved**, per property '
             '(obligation counts are those of `lean/Cherab/Audit`; what is still unproved is listed at the end of each `notes/Cxx.md`):']
    for pid in sorted(claims):
        lines.append('  * %s — %s' % (pid, claims[pid].replace('Round 6: ', '')))
    lines.append('  Unchanged limits: float rounding, external solvers, raysect internals, measure-theoretic readings (C17 unbiasedness, '
                 'C13/C12 "winding / crossing number = geometric interior" beyond rectangles), the O(h²) bounds of C14 / C20, everything '
                 'Lorentzian in C02, completeness of C01\'s hand-written `deps`.')
    s = s[:i] + '\n'.join(lines) + '\n' + s[i:]

# ---- D. §10 ---------------------------------------------------------------------------------------------------------------------
if '<!-- R6-SEED -->' not in s:
    anchor = 'Every candidate was then **confirmed by the main author**'
    i = s.index(anchor)
    txt = """<!-- R6-SEED -->**Round 6 used a new prompt** (`notes/ROUND6_SEEDER_PROMPT.txt`): two changes per property, of two different
kinds out of (a) a multi-step sequence of three or more operations in a particular order, (b) a fault at a particular point — a
user-supplied collaborator that raises or returns something unusual at its n-th call, an exception escaping mid-update and
leaving partial state —, (c) a specific numeric regime or boundary that is legal for the property, (d) two cooperating sites
that each look fine alone, (e) a rarely used entry point / subclass / optional argument / alternative representation of the
same input, (f) object identity, aliasing, sharing, copy / pickle, garbage collection, iteration order or module-level state;
20 fresh seeders, worktrees `/tmp/mut6_Cxx`, again the property text only (ids `Cxx-16`, `Cxx-17`).
"""
    s = s[:i] + txt + s[i:]
    anchor = 'Each of the 85 changes that was not reported at first'
    i = s.index(anchor)
    row = (f"| round 6 (after the second proof-deepening pass had started; new prompt) | {n_r6} delivered, {n_r6} confirmed (2 per property) | 33 | "
           "7: 5 escaped — C02-16 (Zeeman table reused across calls and corrupted when a user component function raises mid-refill), C07-17 "
           "(positive table values below 1e-50 floored before log10), C09-16 (np.nditer memory order + C-order reshape: wrong for "
           "non-C-contiguous 2-D inputs), C12-17 (map2d cache keyed by id(profile)), C13-17 (PolygonMask2D bounding box wrong when the "
           "vertex list starts at the unique max-x / max-y vertex) —, 2 only `no-failing-input-found` (C19-16 registry filled by "
           "self-registration in the constructors, C20-17 relative floor on the gradient norm in calculate_admt) |\n"
           f"| state after the round-6 strengthenings (re-check of the {n_r6} with the final machinery on /repo {repo_head}: last column of the table) | {n_seed} | "
           f"{n_seed - n_r6} + {n_rc_ok} of {len(rc)} re-checked of round 6 — exit 1 with a concrete failing input | {len(rc) - n_rc_ok} |\n\n")
    # the table ends right before the anchor paragraph (one blank line)
    j = s.rfind('|\n', 0, i) + 2
    s = s[:j] + row + s[j:].lstrip('\n')

# ---- E. §6 ----------------------------------------------------------------------------------------------------------------------
if '<!-- R6-DEFECTS -->' not in s:
    anchor = '## 7. Hooks, commits to cherab-core, known findings'
    i = s.index(anchor)
    txt = f"""<!-- R6-DEFECTS -->**Round 6 (sixth revision): three more root causes, all crashes of the unchanged code, all repaired**
({n_sig} signatures in `known_findings.json`: {n_fixed} fixed, {n_open} open; R0 column: `new`).
* `C03:Bremsstrahlung.emission:gaunt_factor-unset-after-first-emission:crash` — `m = Bremsstrahlung(plasma=p, atomic_data=ad);
  m.emission(…); m.gaunt_factor = None; m.emission(…)` ended in a segmentation fault: the setter keeps the cached species arrays,
  so `emission()` skipped `_populate_cache()` and called through a NULL Gaunt factor, although `None` is documented as "use the
  provider's".  Found by a *proof attempt*: C03's new configuration state machine (`Model/BremsConfig.lean`) satisfies
  `brems_gaunt_selection` only under the side condition "never assign `None` after use"; `brems_gaunt_unset_after_use_null_deref`
  is the proved witness `[eval, gaunt_factor = None, eval]`, replayed on the implementation.  Fixed by /repo 7210ef7 (one
  condition in `emission`).
* `C05:BeamCXLine.emission:after-failed-populate:…` / `C05:BeamEmissionLine.emission:after-failed-populate:…` — when the atomic-data
  provider (or the line-shape constructor) raises inside `_populate_cache`, the next `emission()` on the same model segfaulted:
  the attribute that `emission()` tests for "cache is populated" (`_target_species` / `_rates_list`) was assigned *first*.  First
  mentioned by a round-6 seeder as a side remark about the clean tree, reproduced (six failure points), modelled as "populate may
  fail part-way", fixed by /repo 333bfe3 (flag assigned last).
* `C03:{{ExcitationLine,RecombinationLine,ThermalCXLine}}.emission:after-failed-populate:crashed-or-differs-from-fresh` — the same
  defect in the three passive line models (exit −11 in a subprocess before the fix; the retry equals a fresh model's emission
  after it).  Fixed by /repo 0506f96.
The repository's suite reports 579 passed after each of the three commits.  The failing-provider histories run in a sub-process
on every check, so that a regression is a failing input and not a dead runner.  Four installed seeded patches that touched the
same lines were re-based (C03-4, C05-7, C05-11, C05-15).

"""
    s = s[:i] + txt + s[i:]

open(P, 'w').write(s)
print('obligations', n_obl, per_obl)
print('models', n_model, 'translators', n_tr, 'signatures', n_sig, n_fixed, n_open, 'fix commits', n_fix_commits, 'seeded', n_seed, 'r6', n_r6, 'recheck ok', n_rc_ok, '/', len(rc))
