/-
C16 — spectroscopic instruments (cherab/tools/spectroscopy/{instrument,spectrometer,polychromator}.py).
Mathlib-free.

Part A  class tables: the little statement language that `harness/translators/instrument_edges.py` abstracts the
        Python methods to, its interpreter over attribute *shapes* (never assigned / None / value), and the
        derivation of the invalidation protocol (`Inval.Proto`: which setter clears which attribute, which attribute is
        computed from which setters' parameters) from a table.
Part B  the arithmetic, polymorphic over notation so that the same definitions run at `Float` in the driver and are
        reasoned about over an ordered field: spectral settings of `Spectrometer` and `Polychromator`, pixel centres,
        the Czerny-Turner edge recurrence and resolution formula, `calibrate`.  External functions (`ceil`, `sqrt`,
        `cos`, `tan`, raysect's `Spectrum.integrate`) are parameters.
-/
import Cherab.Model.Invalidation

namespace Cherab.Instruments

/-! ## Part A — class tables -/

inductive Stmt where
  /-- `self._a = None` -/
  | setNone (a : Nat)
  /-- `self._a = <expr>`; `fromArg`: depends on an argument of the enclosing function; `rs`/`ms`: attributes / methods
      the expression depends on (for `deps` only; the loads themselves are separate `read`/`call` statements) -/
  | assign (a : Nat) (fromArg : Bool) (rs : List Nat) (ms : List Nat)
  /-- load of `self._a` (AttributeError if never assigned) -/
  | read (a : Nat)
  /-- `self.m(...)`, `super().m(...)`, property load (getter) or property assignment (setter) -/
  | call (m : Nat)
  /-- `if self._a is None:` followed by the `skip` statements of its body -/
  | ifNone (a : Nat) (skip : Nat)
  | ret
  /-- statement-level `raise NotImplementedError` -/
  | abort
  /-- not understood by the translator -/
  | unknown (tag : String)
  deriving Repr, Inhabited

structure Method where
  name : String
  body : List Stmt
  deriving Repr, Inhabited

structure ClassTable where
  name : String
  attrs : List String
  methods : List Method
  init : Nat
  setters : List Nat
  getters : List Nat
  /-- attributes whose missing initialisation is an open entry of known_findings.json -/
  knownUninit : List Nat
  /-- attributes that may hold (or contain) a mutable container owned by the caller of a setter / `__init__`
      (reference-flow analysis of the translator) -/
  aliased : List Nat
  /-- … the ones documented as the behaviour of the tree as first read (`_filters`, `_accommodated_spectra`) -/
  knownAliased : List Nat
  deriving Repr, Inhabited

inductive Shape where
  | unset | none | val
  deriving DecidableEq, Repr, Inhabited

/-- attribute shapes + the attributes written since the record was last reset -/
structure St where
  sh : List Shape
  written : List Nat
  deriving Repr, Inhabited

def St.get (s : St) (a : Nat) : Shape := s.sh.getD a .unset
def St.write (s : St) (a : Nat) (v : Shape) : St :=
  { sh := s.sh.set a v, written := if s.written.contains a then s.written else s.written ++ [a] }
def St.resetWritten (s : St) : St := { s with written := [] }

inductive Res where
  | ok (s : St)
  | ret (s : St)
  | attrErr (a : Nat) (s : St)
  | notImpl (s : St)
  | stuck (why : String)
  deriving Repr, Inhabited

def ClassTable.body (t : ClassTable) (m : Nat) : Option (List Stmt) := (t.methods[m]?).map (·.body)

/-- interpreter; `fuel` bounds the number of statements executed along any path -/
def exec (t : ClassTable) : Nat → List Stmt → St → Res
  | _, [], s => .ok s
  | 0, _ :: _, _ => .stuck "fuel"
  | f + 1, st :: rest, s =>
    match st with
    | .setNone a => exec t f rest (s.write a .none)
    | .assign a _ _ _ => exec t f rest (s.write a .val)
    | .read a => match s.get a with
      | .unset => .attrErr a s
      | _ => exec t f rest s
    | .call m => match t.body m with
      | none => .stuck "method index"
      | some b => match exec t f b s with
        | .ok s' => exec t f rest s'
        | .ret s' => exec t f rest s'
        | e => e
    | .ifNone a k => match s.get a with
      | .unset => .attrErr a s
      | .none => exec t f rest s
      | .val => exec t f (rest.drop k) s
    | .ret => .ret s
    | .abort => .notImpl s
    | .unknown w => .stuck w

def FUEL : Nat := 400

def ClassTable.blank (t : ClassTable) : St := ⟨t.attrs.map fun _ => .unset, []⟩
def ClassTable.steady (t : ClassTable) : St := ⟨t.attrs.map fun _ => .val, []⟩

/-- run method `m` as a call from outside -/
def runMethod (t : ClassTable) (s : St) (m : Nat) : Res := exec t FUEL [.call m] s.resetWritten

def Res.state? : Res → Option St
  | .ok s => some s | .ret s => some s | .attrErr _ s => some s | .notImpl s => some s | .stuck _ => none

def Res.fine : Res → Bool
  | .ok _ => true | .ret _ => true | _ => false

/-- the instance right after `__init__` (state even when `__init__` raised) -/
def construct (t : ClassTable) : Res := runMethod t t.blank t.init

def initState (t : ClassTable) : St := (construct t).state?.getD t.blank

/-- a history of external calls (setters, getters, public methods): the result of each, every call continuing from
the state its predecessor left behind (also after an exception) -/
def runCalls (t : ClassTable) (s : St) : List Nat → List Res
  | [] => []
  | m :: ms => let r := runMethod t s m; r :: runCalls t (r.state?.getD s) ms

/-! ### derived tables -/

def dedup (l : List Nat) : List Nat := l.foldl (fun acc x => if acc.contains x then acc else acc ++ [x]) []

/-- attributes loaded by a statement list, through calls (static) -/
def stmtReads (t : ClassTable) : Nat → List Stmt → List Nat
  | 0, _ => []
  | f + 1, l => l.flatMap fun st => match st with
    | .read a => [a]
    | .ifNone a _ => [a]
    | .call m => stmtReads t f ((t.body m).getD [])
    | _ => []

def methodReads (t : ClassTable) (m : Nat) : List Nat := dedup (stmtReads t 8 ((t.body m).getD []))

/-- methods reachable from a statement list through calls (static) -/
def stmtCalls (t : ClassTable) : Nat → List Stmt → List Nat
  | 0, _ => []
  | f + 1, l => l.flatMap fun st => match st with
    | .call m => m :: stmtCalls t f ((t.body m).getD [])
    | _ => []

def callClosure (t : ClassTable) (m : Nat) : List Nat := dedup (m :: stmtCalls t 8 ((t.body m).getD []))

/-- all `(method, fromArg, sources)` that assign a value to attribute `a` -/
def producers (t : ClassTable) (a : Nat) : List (Nat × Bool × List Nat) :=
  (List.range t.methods.length).flatMap fun i =>
    ((t.body i).getD []).filterMap fun st => match st with
      | .assign a' fa rs ms => if a' = a then some (i, fa, rs ++ ms.flatMap (methodReads t)) else none
      | _ => none

/-- attributes the value of `a` is computed from (one step) -/
def attrSources (t : ClassTable) (a : Nat) : List Nat :=
  dedup ((producers t a).flatMap fun p => p.2.2)

/-- reachability in the `attrSources` graph -/
def reach (t : ClassTable) : Nat → List Nat → List Nat → List Nat
  | 0, _, vis => vis
  | _, [], vis => vis
  | f + 1, a :: front, vis =>
    if vis.contains a then reach t f front vis
    else reach t f (front ++ attrSources t a) (vis ++ [a])

/-- setters whose argument flows into attribute `a` directly -/
def attrParams (t : ClassTable) (a : Nat) : List Nat :=
  t.setters.filter fun p => (producers t a).any fun pr => pr.2.1 && (callClosure t p).contains pr.1

/-- `deps a`: the setters (parameters) the value of attribute `a` is a function of -/
def depsOf (t : ClassTable) (a : Nat) : List Nat :=
  if a < t.attrs.length then
    dedup ((reach t (4 * t.attrs.length + 4) [a] []).flatMap (attrParams t))
  else []

/-- `clears p`: the attributes reset to `None` or re-assigned when setter `p` runs on a constructed instance -/
def clearsOf (t : ClassTable) (p : Nat) : List Nat :=
  match runMethod t t.steady p with
  | .ok s => s.written
  | .ret s => s.written
  | _ => []

def protoOf (t : ClassTable) : Inval.Proto Nat Nat := { deps := depsOf t, clears := clearsOf t }

/-- decidable form of `Inval.Covered (protoOf t)` -/
def coveredB (t : ClassTable) : Bool :=
  (List.range t.attrs.length).all fun c => (depsOf t c).all fun p => (clearsOf t p).contains c

def uncoveredPairs (t : ClassTable) : List (Nat × Nat) :=
  (List.range t.attrs.length).flatMap fun c =>
    ((depsOf t c).filter fun p => !(clearsOf t p).contains c).map fun p => (c, p)

/-- a freshly built instance in the invalidation protocol: parameter versions `ver`, every cache empty -/
def freshAt {P C : Type} (ver : P → Nat) : Inval.St P C := { ver := ver, cache := fun _ => none }

def isSet {P C : Type} : Inval.Op P C → Bool
  | .set _ => true
  | .obs _ => false

/-! ### well-formedness and initialisation -/

def stmtOk (t : ClassTable) : Stmt → Bool
  | .setNone a => a < t.attrs.length
  | .assign a _ rs ms => a < t.attrs.length && rs.all (· < t.attrs.length) && ms.all (· < t.methods.length)
  | .read a => a < t.attrs.length
  | .call m => m < t.methods.length
  | .ifNone a _ => a < t.attrs.length
  | .ret => true
  | .abort => false
  | .unknown _ => false

/-- guards `if self._a is None` inside setters may only test attributes that no setter ever resets to `None` and that
are assigned by `__init__` (so that `clearsOf`, computed on the all-values state, is what every constructed state does) -/
def setterGuardsStable (t : ClassTable) : Bool :=
  let setterMethods := dedup (t.setters.flatMap (callClosure t))
  let guards := setterMethods.flatMap fun m => ((t.body m).getD []).filterMap fun st => match st with
    | .ifNone a _ => some a | _ => none
  let nones := setterMethods.flatMap fun m => ((t.body m).getD []).filterMap fun st => match st with
    | .setNone a => some a | _ => none
  guards.all fun a => !nones.contains a && (initState t).get a == .val

def wfB (t : ClassTable) : Bool :=
  t.methods.all (fun m => m.body.all (stmtOk t))
  && t.init < t.methods.length && t.setters.all (· < t.methods.length) && t.getters.all (· < t.methods.length)
  && t.knownUninit.all (· < t.attrs.length)
  && setterGuardsStable t
  && t.setters.all (fun p => (runMethod t t.steady p).fine)
  && (match construct t with | .stuck _ => false | .notImpl _ => false | _ => true)

/-- result of calling public getter / method `g` on a freshly constructed instance -/
def freshGet (t : ClassTable) (g : Nat) : Res := runMethod t (initState t) g

/-- attributes that raise AttributeError when `__init__` or some public getter runs on a fresh instance -/
def initGaps (t : ClassTable) : List Nat :=
  dedup ((match construct t with | .attrErr a _ => [a] | _ => []) ++
    t.getters.flatMap fun g => match freshGet t g with | .attrErr a _ => [a] | _ => [])

/-- `init_total` (decidable form): constructing an instance and calling any public getter on it never meets an
attribute that was not assigned — except attributes listed as open known findings -/
def initTotalB (t : ClassTable) : Bool :=
  (construct t).fine &&
  t.getters.all fun g => match freshGet t g with
    | .ok _ => true
    | .ret _ => true
    | .attrErr a _ => t.knownUninit.contains a
    | _ => false

/-- no parameter is stored by reference to a caller-owned container, except the documented ones: an in-place change of
an object previously handed to a setter cannot reach the instrument (the quantifier "sequence of parameter changes"
then really is "sequence of setter calls") -/
def aliasFreeB (t : ClassTable) : Bool :=
  t.aliased.all fun a => a < t.attrs.length && t.knownAliased.contains a

/-- static strengthening: every attribute mentioned by any reachable statement is assigned by `__init__` -/
def allMentioned (t : ClassTable) : List Nat :=
  dedup (t.methods.flatMap fun m => m.body.flatMap fun st => match st with
    | .setNone a => [a] | .assign a _ _ _ => [a] | .read a => [a] | .ifNone a _ => [a] | _ => [])

def initStaticB (t : ClassTable) : Bool :=
  (allMentioned t).all fun a => (initState t).get a != .unset || t.knownUninit.contains a

/-! ## Part B — arithmetic -/

section
variable {α : Type} [Add α] [Sub α] [Mul α] [Div α] [Neg α] [Zero α] [One α] [OfScientific α] [NatCast α]
  [LT α] [LE α] [DecidableLT α] [DecidableLE α]

/-- Python `min(a, b)`: `b` only if `b < a` -/
def pmin (a b : α) : α := if b < a then b else a
/-- Python `max(a, b)`: `b` only if `b > a` -/
def pmax (a b : α) : α := if a < b then b else a

/-- Python `min(iterable)` / `ndarray.min()`; `none` = ValueError on an empty sequence -/
def minL : List α → Option α
  | [] => none
  | x :: xs => some (xs.foldl pmin x)
def maxL : List α → Option α
  | [] => none
  | x :: xs => some (xs.foldl pmax x)

/-- `numpy.diff` -/
def diffs : List α → List α
  | a :: b :: rest => (b - a) :: diffs (b :: rest)
  | _ => []

/-- `0.5 * (wl2pix[1:] + wl2pix[:-1])` -/
def centres : List α → List α
  | a :: b :: rest => (0.5 * (b + a)) :: centres (b :: rest)
  | _ => []

/-- the validation of the `wavelength_to_pixel` setter: at least two elements, strictly increasing -/
def validEdges : List α → Bool
  | [a, b] => decide (a < b)
  | a :: b :: rest => decide (a < b) && validEdges (b :: rest)
  | _ => false

def optAll : List (Option α) → Option (List α)
  | [] => some []
  | none :: _ => none
  | some x :: xs => (optAll xs).map (x :: ·)

structure Settings (α : Type) where
  minW : α
  maxW : α
  step : α
  bins : Int

/-- `Spectrometer._update_spectral_settings`; `none` = ValueError (`min()` of an empty sequence) -/
def spectralSettings (ceil : α → Int) (w2p : List (List α)) (mbpp : Nat) : Option (Settings α) :=
  match optAll (w2p.map List.head?), optAll (w2p.map List.getLast?), optAll (w2p.map fun a => minL (diffs a)) with
  | some firsts, some lasts, some widths =>
    match minL firsts, maxL lasts, minL widths with
    | some mn, some mx, some w =>
      let step := w / (mbpp : α)
      some ⟨mn, mx, step, ceil ((mx - mn) / step)⟩
    | _, _, _ => none
  | _, _, _ => none

/-- what the polychromator reads from a filter -/
structure PFilter (α : Type) where
  minW : α
  maxW : α
  window : α

/-- `PolychromatorFilter.__init__` on sorted wavelengths: bounds, window -/
def filterOf (first last : α) : PFilter α := ⟨first, last, last - first⟩

/-- `TrapezoidalFilter(central_wavelength, window)`: outer corners of the trapezoid -/
def trapezoid (c w : α) : PFilter α := filterOf (c - 0.5 * w) (c + 0.5 * w)

/-- `Polychromator._update_spectral_settings` (`inf` = `numpy.inf`) -/
def polySettings (ceil : α → Int) (inf : α) (fs : List (PFilter α)) (mbpw : Nat) : Settings α :=
  let acc := fs.foldl (fun (acc : α × α × α) f =>
    (pmin acc.1 (f.window / (mbpw : α)), pmin acc.2.1 f.minW, pmax acc.2.2 f.maxW)) (inf, inf, 0)
  ⟨acc.2.1, acc.2.2, acc.1, ceil ((acc.2.2 - acc.2.1) / acc.1)⟩

/-- `CzernyTurnerSpectrometer.resolution` (`cosA`, `tanA`: cos and tan of the stored angle; `m`: diffraction order) -/
def ctResolution (sqrt : α → α) (cosA tanA grating m dxdp fl wavelength : α) : α :=
  let p := 0.5 * m * grating * wavelength
  dxdp * (sqrt (cosA * cosA - p * p) - p * tanA) / (m * fl * grating)

/-- `_update_wavelength_to_pixel`: `wl2pix[0] = w0; wl2pix[i] = wl2pix[i-1] + resolution(wl2pix[i-1])`, `n` pixels -/
def ctEdges (res : α → α) (w0 : α) : Nat → List α
  | 0 => [w0]
  | n + 1 => w0 :: ctEdges res (w0 + res w0) n

/-- one calibration array of `Spectrometer.calibrate`: `integrate(e_i, e_{i+1}) / (e_{i+1} - e_i)` -/
def calibrateEdges (integrate : α → α → α) : List α → List α
  | a :: b :: rest => (integrate a b / (b - a)) :: calibrateEdges integrate (b :: rest)
  | _ => []

/-- `Spectrometer.calibrate`; `none` = ValueError (spectrum narrower than the instrument) -/
def calibrate (integrate : α → α → α) (specMin specMax instMin instMax : α) (w2p : List (List α)) :
    Option (List (List α)) :=
  if instMin < specMin ∨ specMax < instMax then none
  else some (w2p.map (calibrateEdges integrate))

/-- consecutive edge pairs = pixels -/
def pixels : List α → List (α × α)
  | a :: b :: rest => (a, b) :: pixels (b :: rest)
  | _ => []

/-- Σ value_i · width_i over one array -/
def weightedSum (vals edges : List α) : α :=
  match vals, edges with
  | v :: vs, a :: b :: rest => v * (b - a) + weightedSum vs (b :: rest)
  | _, _ => 0

end

/-- `[{'name': self._name}]` -/
def specPipelineNames' (name : String) : List String := [name]

/-! ## Part C — value-level state machines (what the setters store, recompute eagerly, clear; what the getters fill)

`CzernyTurnerSpectrometer` as a state machine over its *values*: parameters, the eagerly recomputed
`_wavelength_to_pixel` / `_wavelengths` (`_update_wavelength_to_pixel`), the lazily filled spectral settings
(`_min_wavelength/_max_wavelength/_spectral_bins`: cleared together by `_clear_spectral_settings`, filled together by
`_update_spectral_settings` — kept as one optional record; the shape stream of K shows the three attributes are always
written together) and `_pipeline_kwargs`.  Rejected assignments (`ValueError`) leave the state as it is. -/

section
variable {α : Type} [Add α] [Sub α] [Mul α] [Div α] [Neg α] [Zero α] [One α] [OfScientific α] [NatCast α]
  [LT α] [LE α] [DecidableLT α] [DecidableLE α]

structure CTParams (α : Type) where
  order : Nat
  grating : α
  focal : α
  spacing : α
  /-- stored in radians (`np.deg2rad` is applied by the setter; the conversion is the harness's business) -/
  angle : α
  acc : List (α × Nat)
  mbpp : Nat
  name : String

/-- external functions -/
structure CTExt (α : Type) where
  sqrt : α → α
  cos : α → α
  tan : α → α
  ceil : α → Int

structure CTState (α : Type) where
  p : CTParams α
  w2p : List (List α)
  wavelengths : List (List α)
  settings : Option (Settings α)
  kwargs : Option (List String)

inductive CTOp (α : Type) where
  | setOrder (v : Nat) | setGrating (v : α) | setFocal (v : α) | setSpacing (v : α) | setAngle (v : α)
  | setAcc (v : List (α × Nat)) | setMbpp (v : Nat) | setName (v : String)
  | getMin | getMax | getBins | getW2p | getWavelengths | getKwargs
  | calibrate (integrate : α → α → α) (specMin specMax : α)

inductive CTOut (α : Type) where
  | done
  | valueError
  | num (x : α)
  | int (n : Int)
  | arrays (a : List (List α))
  | names (l : List String)

/-- `_update_wavelength_to_pixel` as a function of the parameters -/
def ctW2P (x : CTExt α) (p : CTParams α) : List (List α) :=
  p.acc.map fun a =>
    ctEdges (ctResolution x.sqrt (x.cos p.angle) (x.tan p.angle) p.grating (p.order : α) p.spacing p.focal) a.1 a.2

/-- a setter that changes a diffraction parameter: store, recompute the arrays, clear the spectral settings -/
def ctRefresh (x : CTExt α) (s : CTState α) (p : CTParams α) : CTState α :=
  { s with p := p, w2p := ctW2P x p, wavelengths := (ctW2P x p).map centres, settings := none }

/-- `__init__` (with the fix of DESIGN §6 #11) -/
def ctFresh (x : CTExt α) (p : CTParams α) : CTState α :=
  { p := p, w2p := ctW2P x p, wavelengths := (ctW2P x p).map centres, settings := none, kwargs := none }

/-- the lazy getters `min_wavelength / max_wavelength / spectral_bins`: fill when empty -/
def ctFill (x : CTExt α) (s : CTState α) : CTState α × Option (Settings α) :=
  match s.settings with
  | some st => (s, some st)
  | none =>
    match spectralSettings x.ceil s.w2p s.p.mbpp with
    | some st => ({ s with settings := some st }, some st)
    | none => (s, none)

def accValid (v : List (α × Nat)) : Bool := v.all fun a => decide (0 < a.1) && decide (0 < a.2)

def ctStep (x : CTExt α) (s : CTState α) : CTOp α → CTState α × CTOut α
  | .setOrder v => if v = 0 then (s, .valueError) else (ctRefresh x s { s.p with order := v }, .done)
  | .setGrating v => if v ≤ 0 then (s, .valueError) else (ctRefresh x s { s.p with grating := v }, .done)
  | .setFocal v => if v ≤ 0 then (s, .valueError) else (ctRefresh x s { s.p with focal := v }, .done)
  | .setSpacing v => if v ≤ 0 then (s, .valueError) else (ctRefresh x s { s.p with spacing := v }, .done)
  | .setAngle v => if v ≤ 0 then (s, .valueError) else (ctRefresh x s { s.p with angle := v }, .done)
  | .setAcc v => if accValid v then (ctRefresh x s { s.p with acc := v }, .done) else (s, .valueError)
  | .setMbpp v => if v = 0 then (s, .valueError) else ({ s with p := { s.p with mbpp := v }, settings := none }, .done)
  | .setName v => ({ s with p := { s.p with name := v }, kwargs := none }, .done)
  | .getMin => match ctFill x s with
    | (s', some st) => (s', .num st.minW)
    | (s', none) => (s', .valueError)
  | .getMax => match ctFill x s with
    | (s', some st) => (s', .num st.maxW)
    | (s', none) => (s', .valueError)
  | .getBins => match ctFill x s with
    | (s', some st) => (s', .int st.bins)
    | (s', none) => (s', .valueError)
  | .getW2p => (s, .arrays s.w2p)
  | .getWavelengths => (s, .arrays s.wavelengths)
  | .getKwargs => match s.kwargs with
    | some k => (s, .names k)
    | none => ({ s with kwargs := some (specPipelineNames' s.p.name) }, .names (specPipelineNames' s.p.name))
  | .calibrate integ smin smax => match ctFill x s with
    | (s', some st) => match calibrate integ smin smax st.minW st.maxW s'.w2p with
      | some r => (s', .arrays r)
      | none => (s', .valueError)
    | (s', none) => (s', .valueError)

def ctRun (x : CTExt α) (s : CTState α) (ops : List (CTOp α)) : CTState α :=
  ops.foldl (fun s o => (ctStep x s o).1) s

/-- `PolychromatorFilter.__init__`: the tabulated wavelengths are sorted (`np.argsort`), the range is (first, last) -/
def filterOfTab (ws : List α) : Option (PFilter α) :=
  let srt := ws.mergeSort (fun a b => decide (a ≤ b))
  match srt.head?, srt.getLast? with
  | some f, some l => some (filterOf f l)
  | _, _ => none

end

/-- pipeline settings: `Spectrometer` has one spectral pipeline named after the instrument … -/
def specPipelineNames (name : String) : List String := [name]
/-- … `Polychromator` one mono pipeline per filter, named `instrument: filter`, carrying that filter -/
def polyPipelineNames (name : String) (filters : List String) : List String :=
  filters.map fun f => name ++ ": " ++ f

end Cherab.Instruments
