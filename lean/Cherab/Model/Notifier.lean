/-
C01 — model of cherab/core/utility/notify.py `Notifier`.
Callbacks are identified by (object id, method name id) (bound methods) — plain callables are the special case of a
unique object id.  References are weak: `kill o` models the garbage collection of object `o`; dead references stay
in the list until the next `notify`, which skips and then purges them (as `_purge(dead_callbacks)` does).
-/
namespace Cherab.Notifier

abbrev Entry := Nat × Nat

structure St where
  refs : List Entry          -- registration order
  dead : List Nat            -- objects that have been collected
deriving Repr

inductive Op where
  | add (e : Entry)
  | remove (e : Entry)
  | kill (o : Nat)
  | notify
deriving Repr

def init : St := { refs := [], dead := [] }

def alive (s : St) (e : Entry) : Bool := !s.dead.contains e.1

/-- `is_present`: a live reference with the same object and name -/
def isPresent (s : St) (e : Entry) : Bool := s.refs.any fun r => alive s r && r == e

/-- `_remove_method`: purge the first live matching reference -/
def removeFirst (s : St) (e : Entry) : List Entry :=
  match s.refs.find? (fun r => alive s r && r == e) with
  | some r => s.refs.erase r
  | none => s.refs

/-- returns the new state and the callbacks invoked, in order -/
def step (s : St) : Op → St × List Entry
  | .add e => (if isPresent s e || s.dead.contains e.1 then s else { s with refs := s.refs ++ [e] }, [])
  | .remove e => ({ s with refs := removeFirst s e }, [])
  | .kill o => ({ s with dead := o :: s.dead }, [])
  | .notify =>
      let live := s.refs.filter (alive s)
      ({ s with refs := live }, live)

def run (s : St) (ops : List Op) : St := ops.foldl (fun s o => (step s o).1) s

/-- specification: the ordered set of currently registered live callbacks -/
def specStep (l : List Entry) : Op → List Entry
  | .add e => if l.contains e then l else l ++ [e]
  | .remove e => l.erase e
  | .kill o => l.filter fun r => r.1 != o
  | .notify => l

end Cherab.Notifier
