import Cherab.Props.C20
open Cherab.Props.C20
#print axioms placeholder
